"""C13 — tagged unions: tag added going out, honoured coming in, member hooks untouched.

Implementation observable (real cattrs, in-process): `conv.unstructure(x, unstructure_as=U)` (dict, key order
included), `conv.structure(p, U)` (value / error), the payload object after the call, and the member types
through the same converter.

Model observable (`Tagged/Driver.lean`): `TAGUN` adds the tag to the member's own dict; `TAGST` says which
member hook the payload reaches, with which payload, and what the caller's dict looks like afterwards.  The
member hooks themselves are abstract in the model (theorem hypotheses); the harness evaluates them on a
*fresh* converter with the same options, which is also what the property statement refers to ("the member's
own unstructured dict").

Oracle (from the property statement, independent of the model):
  U  unstructure(x as U) == member dict (fresh converter) + [(tag_name, tag(cls))], in this order
     (collision stream: the member's key is overwritten in place);
  R  structure(unstructure(x as U), U) == x with the same class, whenever the member's own hooks round-trip
     on the fresh converter, the generator is injective and there is no collision;
  D  missing / unknown tag: with a default the outcome is the default member's own outcome on the payload
     without the tag key; without default it raises;
  M  un/structuring a member type on the configured converter == on the fresh converter;
  N  the payload object handed to structure() is unchanged afterwards.

Histories: "after configure_tagged_union for a union U" holds whatever the converter did before and does afterwards.
A scenario therefore may (a) configure the SAME union earlier with other tag names / generators / defaults / member
spellings and USE it in between (structure, unstructure, list[U], get_*_hook: every dispatch cache is warm with the
earlier hooks) — all oracles are then evaluated against the LAST configuration of U; (b) configure DIFFERENT unions
sharing members with U on the same converter before and after — U's oracles must be unaffected.

Routes: "a converter" is not only one built by calling the class.  The converter under test may be PRODUCED BY
`.copy()` / `.copy(<the current options, spelled out>)` / `.copy(<overrides>)` of a converter constructed with other
options / `copy.deepcopy` — once or several times (copies of copies) — BEFORE the strategy is applied (`pre`), between
the earlier configurations and the checked one (`mid`), or AFTER everything was configured (`post`: the copy must have
inherited the strategy).  Steps after the first configuration keep the options (the hooks captured at configuration time
are those of the source's options, which is what the reference converter has).  Every oracle is evaluated on the final
converter; `ROUTE` (a separate small stream, model op `TAGROUTE`) compares WHICH registered union hook every converter
of a random construct / copy / register history returns with the copy model of `Tagged/Copy.lean`.
"""
from __future__ import annotations

import copy
import linecache
import os
import sys
import typing

sys.path.insert(0, os.environ.get("CATTRS_SRC", "/repo/src"))

import cattrs  # noqa: E402
from cattrs import BaseConverter, Converter, UnstructureStrategy  # noqa: E402
from cattrs.strategies import configure_tagged_union  # noqa: E402

from harness import framework, gen, lean, terms  # noqa: E402
from harness.realise import Realised, Unrepresentable  # noqa: E402

assert cattrs.__file__.startswith(os.environ.get("CATTRS_SRC", "/repo/src")), cattrs.__file__

class _Unrelated:
    pass


class _Unrelated2:
    pass


TAG_NAMES = ["_type", "type", "kind", "t", "_"]
UNKNOWN_TAGS = [("s", "Zz"), ("i", 99), ("N",), ("b", True), ("s", ""), ("f", 3), ("t", [("i", 1)])]
UNHASHABLE_TAGS = [("l", []), ("d", []), ("l", [("s", "A")]), ("t", [("l", [])])]


# ---------------------------------------------------------------------------------------------- options

def all_options():
    out = []
    for detailed in (True, False):
        out.append({"gen": False, "forbid": False, "detailed": detailed, "omit": False, "tuple": False})
        for forbid in (False, True):
            for omit in (False, True):
                out.append({"gen": True, "forbid": forbid, "detailed": detailed, "omit": omit, "tuple": False})
    out.append({"gen": True, "forbid": False, "detailed": True, "omit": False, "tuple": True})
    out.append({"gen": False, "forbid": False, "detailed": True, "omit": False, "tuple": True})
    return out


OPTIONS = all_options()


def opt_name(o):
    return ("Converter" if o["gen"] else "BaseConverter") + ("/forbid" if o["forbid"] else "") + (
        "/detailed" if o["detailed"] else "/fast") + ("/omit" if o["omit"] else "") + ("/tuple" if o["tuple"] else "")


def make_converter(o):
    strat = UnstructureStrategy.AS_TUPLE if o["tuple"] else UnstructureStrategy.AS_DICT
    if o["gen"]:
        return Converter(unstruct_strat=strat, detailed_validation=o["detailed"], forbid_extra_keys=o["forbid"],
                         omit_if_default=o["omit"])
    return BaseConverter(unstruct_strat=strat, detailed_validation=o["detailed"])


def prune_linecache():
    if len(linecache.cache) > 400:
        for k in [k for k in linecache.cache if k.startswith("<cattrs generated")]:
            del linecache.cache[k]


# ---------------------------------------------------------------------------------------------- routes

COPY_STEPS = ("copy", "deepcopy", "copy-same", "copy-to")


def normalise_route(route):
    r = {"base": None, "pre": [], "mid": [], "post": []}
    r.update(route or {})
    return r


def route_name(route):
    r = normalise_route(route)
    if not (r["pre"] or r["mid"] or r["post"]):
        return "direct"
    return "/".join(ph + ":" + "+".join(r[ph]) for ph in ("pre", "mid", "post") if r[ph])


def option_kwargs(o):
    kw = {"detailed_validation": o["detailed"],
          "unstruct_strat": UnstructureStrategy.AS_TUPLE if o["tuple"] else UnstructureStrategy.AS_DICT}
    if o["gen"]:
        kw["forbid_extra_keys"] = o["forbid"]
        kw["omit_if_default"] = o["omit"]
    return kw


def copy_step(c, step, opts):
    """one way of producing a converter from a converter; `opts` = the options the result must have"""
    if step == "copy":
        return c.copy()
    if step == "deepcopy":
        return copy.deepcopy(c)
    if step in ("copy-same", "copy-to"):      # the options spelled out (equal to the source's / overriding the base's)
        return c.copy(**option_kwargs(opts))
    raise ValueError(step)


def gen_route(rng, opts):
    """-> route (None = the converter is constructed directly)"""
    r = rng.random()
    if r < 0.45:
        return None
    keep = ["copy", "deepcopy", "copy-same"]

    def steps(n):
        return [rng.choice(keep) for _ in range(n)]

    route = {"base": None, "pre": [], "mid": [], "post": []}
    shape = rng.choice(["pre", "pre", "post", "post", "mid", "pre+post", "pre2", "post2", "all"])
    if shape in ("pre", "pre+post", "all"):
        route["pre"] = steps(1)
    if shape == "pre2":
        route["pre"] = steps(2)
    if shape in ("post", "pre+post", "all"):
        route["post"] = steps(1)
    if shape == "post2":
        route["post"] = steps(2)
    if shape in ("mid", "all"):
        route["mid"] = steps(1)
    if route["pre"] and rng.random() < 0.4:
        # the first converter has OTHER options (same class); the copy overrides them to the ones under test
        base = dict(rng.choice([o for o in OPTIONS if o["gen"] == opts["gen"]]))
        if base != opts:
            route["base"] = base
            route["pre"][-1] = "copy-to"
    return route


# ---------------------------------------------------------------------------------------------- scenario

def norm_tags(tags):
    return {int(k): terms.tuple_ify(list(v)) if isinstance(v, list) else v for k, v in tags.items()}


class Scenario:
    """One world, one converter configuration, one *checked* `configure_tagged_union` call (`ucfg`), optionally
    preceded by earlier configurations (`before`: of the same union — re-configuration — or of other unions sharing
    members; each one is used before the next call) and followed by configurations of OTHER unions (`after`)."""

    def __init__(self, drv, world, opts, ucfg, before=None, after=None, use=None, route=None):
        prune_linecache()
        self.route = normalise_route(route)
        self.drv = drv
        self.world = world
        self.opts = opts
        self.ucfg = ucfg  # {"members":[ci..], "tagmode":..., "tags": {ci: absobj}|None, "tag_name": str, "default": ci|None}
        self.before = list(before or [])
        self.after = list(after or [])
        self.use = [terms.tuple_ify(x) if isinstance(x, list) else x for x in (use or [])]
        self.R = Realised(world)
        self.members = list(ucfg["members"])
        self.classes = self.R.classes
        self.U = typing.Union[tuple(self.classes[i] for i in self.members)]
        self.tag_name = ucfg["tag_name"]
        self.default = ucfg["default"]
        # tag of every class (abstract); "name" mode = default_tag_generator
        self.tags = self.tags_of(ucfg)
        self.route_error = None
        self.fresh = make_converter(opts)
        self.conv = make_converter(self.route["base"] or opts)
        self.conv = self.follow("pre", self.conv)
        self.configure_error = None
        self.history_errors = 0
        # Region of the recorded finding F60 (recursive-class-hetero-tuple-late-binding, a C03 matter): a class that refers
        # to itself through a heterogeneous tuple is unstructured by a Converter with that tuple as a tuple OR as a list,
        # depending on where hook generation entered the cycle and on what was cached when (two plain converters without
        # any strategy already disagree).  There, and only there, UNSTRUCTURED outputs are compared modulo tuple/list.
        self.f60 = bool(opts["gen"] and not opts["tuple"] and gen.tuple_on_cycle(world, range(len(world["classes"]))))
        for h in self.before:
            try:
                self.use_union(self.apply(h))
            except Exception:  # noqa: BLE001  an earlier configuration that cannot be applied is simply not there
                self.history_errors += 1
        self.conv = self.follow("mid", self.conv)
        try:
            self.apply(ucfg)
        except Exception as e:  # noqa: BLE001
            self.configure_error = e
        for h in self.after:
            assert set(h["members"]) != set(self.members)
            try:
                self.use_union(self.apply(h))
            except Exception:  # noqa: BLE001
                self.history_errors += 1
        # unrelated registrations made AFTER the strategy was applied (half of the cases, derived from the
        # configuration so that a replay repeats them) must not disturb it: "member hooks untouched" cuts both ways
        if (len(self.tag_name) + len(self.members) + (self.default or 0)) % 2 == 0:
            for c in (self.conv, self.fresh):
                c.register_unstructure_hook(_Unrelated, lambda v: "unrelated")
                c.register_structure_hook(_Unrelated, lambda v, _: _Unrelated())
                c.register_unstructure_hook_func(lambda t: t is _Unrelated2, lambda v: "unrelated2")
                c.register_structure_hook_factory(lambda t: t is _Unrelated2, lambda t: (lambda v, _: _Unrelated2()))
        self.conv = self.follow("post", self.conv)

    def follow(self, phase, c):
        """the converter under test is replaced by a copy of itself, once per step of this phase of the route"""
        for step in self.route[phase]:
            try:
                c = copy_step(c, step, self.opts)
            except Exception as e:  # noqa: BLE001  reported by the caller: producing a copy must not fail
                self.route_error = (phase, step, e)
        return c

    def un_text(self, o):
        return terms.canon_sx(tuples_as_lists(o) if self.f60 else o)

    def tags_of(self, ucfg):
        if ucfg["tagmode"] == "name":
            return {i: ("s", self.classes[i].__name__) for i in range(len(self.classes))}
        return norm_tags(ucfg["tags"])

    def apply(self, ucfg):
        """one `configure_tagged_union` call on the converter under test; returns the union object"""
        U = typing.Union[tuple(self.classes[i] for i in ucfg["members"])]
        kw = {}
        if ucfg["tagmode"] != "name":
            pytags = {self.classes[i]: self.R.val(t) for i, t in self.tags_of(ucfg).items()}
            kw["tag_generator"] = pytags.__getitem__
        if ucfg["default"] is not None:
            kw["default"] = self.classes[ucfg["default"]]
        # The reference converter is asked for the members' own hooks in the very order the strategy asks the converter
        # under test: which hook of a reference cycle is generated first is visible in cattrs without any strategy
        # (F60: a heterogeneous tuple inside a recursive class comes out as a list or a tuple depending on where hook
        # generation entered the cycle) and is not C13's business.
        for i in list(ucfg["members"]) + ([ucfg["default"]] if ucfg["default"] is not None else []):
            for getter in ((self.fresh.get_structure_hook, self.fresh.get_unstructure_hook) if i in ucfg["members"]
                           else (self.fresh.get_structure_hook,)):
                try:
                    getter(self.classes[i])
                except Exception:  # noqa: BLE001
                    pass
        configure_tagged_union(U, self.conv, tag_name=ucfg["tag_name"], **kw)
        return U

    def use_union(self, U):
        """make the converter resolve (and cache) everything about `U` as configured right now"""
        c = self.conv
        for getter in (c.get_structure_hook, c.get_unstructure_hook):
            try:
                getter(U)
            except Exception:  # noqa: BLE001
                pass
        xs = []
        for x_abs in self.use:
            try:
                xs.append(self.R.val(x_abs))
            except Exception:  # noqa: BLE001
                pass
        for x in xs:
            try:
                c.structure(c.unstructure(x, unstructure_as=U), U)
            except Exception:  # noqa: BLE001
                pass
            try:  # the same use of the member's own hooks on the reference converter (late-bound hooks resolve at run time)
                self.fresh.structure(self.fresh.unstructure(x), x.__class__)
            except Exception:  # noqa: BLE001
                pass
        for p in ({}, None):
            try:
                c.structure(p, U)
            except Exception:  # noqa: BLE001
                pass
        try:
            c.structure(c.unstructure(xs, unstructure_as=list[U]), list[U])
        except Exception:  # noqa: BLE001
            pass

    # ---- model side
    def tu_sx(self):
        tags = " ".join("(%d %s)" % (i, terms.obj_sx(t)) for i, t in sorted(self.tags.items()))
        return "(tu (members %s) (tags %s) %s %s %d)" % (
            " ".join(str(i) for i in self.members), tags, terms.esc(self.tag_name),
            "-" if self.default is None else str(self.default), 1 if self.opts["forbid"] else 0)

    def injective(self):
        ts = [self.tags[i] for i in self.members]
        return all(not gen.py_eq(a, b) for k, a in enumerate(ts) for b in ts[k + 1:])

    # ---- helpers on the implementation
    def run(self, fn, *a, **kw):
        try:
            v = fn(*a, **kw)
        except Exception as e:  # noqa: BLE001
            return ("err", e)
        try:
            return ("ok", self.R.abs(v), v)
        except Unrepresentable:
            return ("unrep", v)


def out_text(r):
    if r[0] == "ok":
        return "ok " + terms.canon_sx(r[1])
    if r[0] == "err":
        return "err"
    return "unrep"


def same_outcome(a, b, norm=None):
    if a[0] == "unrep" or b[0] == "unrep":
        return None
    if norm is not None and a[0] == "ok" and b[0] == "ok":
        return norm(a[1]) == norm(b[1])
    return out_text(a) == out_text(b)


def tuples_as_lists(o):
    t = o[0]
    if t in ("t", "l"):
        return ("l", [tuples_as_lists(x) for x in o[1]])
    if t in ("S", "F", "q"):
        return (t, [tuples_as_lists(x) for x in o[1]])
    if t == "d":
        return ("d", [(tuples_as_lists(k), tuples_as_lists(v)) for k, v in o[1]])
    return o


def dict_items(o):
    return o[1] if o[0] == "d" else None


def del_key(items, key):
    out = []
    done = False
    for k, v in items:
        if not done and gen.py_eq(k, key):
            done = True
            continue
        out.append((k, v))
    return out


def has_key(items, key):
    return any(gen.py_eq(k, key) for k, _ in items)


def get_key(items, key):
    for k, v in items:
        if gen.py_eq(k, key):
            return v
    return None


def hashable_abs(o):
    t = o[0]
    if t == "t":
        return all(hashable_abs(x) for x in o[1])
    if t in ("l", "q", "S", "d", "I"):
        return False
    return True


# ---------------------------------------------------------------------------------------------- the checks

class Runner:
    def __init__(self, chk, drv):
        self.chk = chk
        self.drv = drv
        self.corr_fail = []

    def case(self, S, kind, **kw):
        c = {"world": S.world, "opts": S.opts, "ucfg": S.ucfg, "kind": kind}
        if S.before or S.after:
            c["before"], c["after"], c["use"] = S.before, S.after, S.use
        if route_name(S.route) != "direct":
            c["route"] = S.route
        c.update(kw)
        return c

    def label(self, S):
        u = S.ucfg
        hist = ""
        if S.before or S.after:
            def short(h):
                return "%s%s:%s:%r:%s" % ("same" if set(h["members"]) == set(S.members) else "other", h["members"], h["tagmode"],
                                          h["tag_name"], h["default"])
            hist = " before=[%s] after=[%s]" % (", ".join(short(h) for h in S.before), ", ".join(short(h) for h in S.after))
        rt = route_name(S.route)
        if rt != "direct":
            hist += " route=" + rt + ("(base %s)" % opt_name(S.route["base"]) if S.route["base"] else "")
        return "%s members=%s tag=%s name=%r default=%s%s" % (opt_name(S.opts), u["members"], u["tagmode"], u["tag_name"],
                                                              u["default"], hist)

    # ---- unstructure + round trip for one member instance
    def check_instance(self, S, x_abs, verbose=False):
        chk = self.chk
        R = S.R
        try:
            x = R.val(x_abs)
            x_abs = R.abs(x)
        except Exception:  # noqa: BLE001
            chk.note("value-not-realisable")
            return None
        ci = x_abs[1]
        cl = S.classes[ci]
        case = self.case(S, "instance", x=x_abs)
        lab = self.label(S) + " x=" + terms.canon_sx(x_abs)
        name_key = ("s", S.tag_name)
        # member's own dict, from the fresh converter (the statement's reference point)
        rm = S.run(S.fresh.unstructure, x)
        ru = S.run(S.conv.unstructure, x, unstructure_as=S.U)
        if verbose:
            print("member dict (fresh):", out_text(rm))
            print("impl unstructure as U:", out_text(ru))
        if rm[0] != "ok":
            chk.note("member-unstructure-not-ok")
            return None
        # ---------------- M: the member outside the union
        for how, r2 in (("unstructure(x)", S.run(S.conv.unstructure, x)),
                        ("unstructure(x, unstructure_as=cls)", S.run(S.conv.unstructure, x, unstructure_as=cl))):
            rf = rm if how == "unstructure(x)" else S.run(S.fresh.unstructure, x, unstructure_as=cl)
            if same_outcome(r2, rf, S.un_text) is False:
                chk.violation(f"C13 oracle M: {how} on the configured converter differs from a fresh converter: "
                              f"{out_text(r2)} vs {out_text(rf)} [{lab}]", case)
                return None
        if ci not in S.members:
            # instance of a non-member: KeyError, default or not
            mm = S.drv.ask("TAGUN %s %d %s" % (S.tu_sx(), ci, terms.obj_sx(rm[1])))
            chk.count("nonmember:" + lab, sample={"case": lab, "model": mm, "impl": out_text(ru)})
            chk.note("un:nonmember")
            if ru[0] != "err":
                chk.violation(f"C13 oracle U: instance of a non-member class was unstructured as U: {out_text(ru)} [{lab}]", case)
            elif mm != "(err)":
                self.corr_fail.append((case, "TAGUN", out_text(ru), mm, lab))
            return None
        tag = S.tags[ci]
        mm = S.drv.ask("TAGUN %s %d %s" % (S.tu_sx(), ci, terms.obj_sx(rm[1])))
        if verbose:
            print("model TAGUN:", mm)
        m_items = dict_items(rm[1])
        if m_items is None:
            # tuple strategy: "only works with the dict base strategy" — must raise, model says err
            chk.count("un-nondict:" + lab)
            chk.note("un:member-result-not-a-dict")
            if ru[0] == "ok":
                chk.violation(f"C13 oracle U: member hook result is not a dict but unstructure as U returned {out_text(ru)} [{lab}]", case)
            elif mm != "(err)":
                self.corr_fail.append((case, "TAGUN", out_text(ru), mm, lab))
            return None
        collision = has_key(m_items, name_key)
        chk.count("un:" + lab, sample={"case": lab, "model": mm, "impl": out_text(ru)})
        chk.note("opts:" + opt_name(S.opts), "tagmode:" + S.ucfg["tagmode"], "collision:%s" % collision,
                 "default:" + ("none" if S.default is None else "member" if S.default in S.members else "non-member"),
                 "members:%d" % len(S.members), "kind:" + S.world["classes"][ci]["kind"])
        # ---------------- U
        if ru[0] == "unrep":
            chk.unmodelled += 1
            return None
        if ru[0] != "ok":
            chk.violation(f"C13 oracle U: unstructuring a member instance as U raised {ru[1]!r} [{lab}]", case)
            return None
        if collision:
            exp = ("d", [(k, tag if gen.py_eq(k, name_key) else v) for k, v in m_items])
        else:
            exp = ("d", list(m_items) + [(name_key, tag)])
        if S.f60:
            chk.note("un:region-of-F60(outputs compared modulo tuple/list)")
        if S.un_text(exp) != S.un_text(ru[1]):
            chk.violation(f"C13 oracle U: expected {terms.canon_sx(exp)} got {terms.canon_sx(ru[1])} [{lab}]", case)
            return None
        if mm != "(ok %s)" % terms.canon_sx(ru[1]) and S.un_text(terms.obj_of_px(terms.parse_sx(mm)[1])) != S.un_text(ru[1]):
            self.corr_fail.append((case, "TAGUN", out_text(ru), mm, lab))
        # ---------------- R (+ N, + correspondence of TAGST) on the genuine payload
        u = ru[2]
        self.check_payload(S, ru[1], payload=u, origin=("roundtrip", x_abs, x, collision), verbose=verbose)
        return ru[1]

    # ---- structure one payload as U
    def check_payload(self, S, p_abs, payload=None, origin=None, verbose=False):
        chk = self.chk
        R = S.R
        if payload is None:
            try:
                payload = R.val(p_abs)
                p_abs = R.abs(payload)
            except Exception:  # noqa: BLE001
                chk.note("payload-not-realisable")
                return
        kind = origin[0] if origin else "mutated"
        case = self.case(S, "payload", p=p_abs, origin=kind)
        lab = self.label(S) + " p=" + terms.canon_sx(p_abs)
        before = copy.deepcopy(payload)
        before_items = list(payload.items()) if isinstance(payload, dict) else None
        ri = S.run(S.conv.structure, payload, S.U)
        # ---------------- N
        after_ok = payload == before and (before_items is None or [k for k, _ in payload.items()] == [k for k, _ in before_items])
        if not after_ok:
            chk.violation(f"C13 oracle N: structure() mutated its argument: before {before!r} after {payload!r} [{lab}]", case)
            return
        mm = S.drv.ask("TAGST %s %s" % (S.tu_sx(), terms.obj_sx(p_abs)))
        if verbose:
            print("impl structure as U:", out_text(ri))
            print("model TAGST:", mm)
        if mm == "unmodelled":
            chk.unmodelled += 1
            return
        items = dict_items(p_abs)
        name_key = ("s", S.tag_name)
        tagv = get_key(items, name_key) if items is not None else None
        if items is None:
            cls_ = "non-dict"
        elif tagv is None and not has_key(items, name_key):
            cls_ = "missing"
        elif not hashable_abs(tagv):
            cls_ = "unhashable"
        elif any(gen.py_eq(S.tags[i], tagv) for i in S.members):
            cls_ = "known"
        else:
            cls_ = "unknown"
        chk.count("st:" + lab, sample={"case": lab, "model": mm, "impl": out_text(ri)})
        chk.note("st:" + kind, "tag:" + cls_, "st-impl:" + ri[0])
        # ---------------- R
        if origin and origin[0] == "roundtrip":
            _, x_abs, x, collision = origin
            ci = x_abs[1]
            rt_member = S.run(S.fresh.structure, S.fresh.unstructure(x), S.classes[ci])
            # scope of the round-trip statement = hypotheses of C13_roundtrip: the member's own hooks round-trip,
            # injective generator, and the tag name is no key of the member (neither written nor read by its hooks;
            # with omit_if_default a field's key may be absent from the dict and still be read back)
            fields = {f["name"] for f in S.world["classes"][ci]["fields"]}
            in_scope = (rt_member[0] == "ok" and rt_member[2] == x and rt_member[2].__class__ is x.__class__
                        and S.injective() and not collision and S.tag_name not in fields)
            chk.note("roundtrip-in-scope:%s" % in_scope)
            if in_scope:
                if ri[0] != "ok" or ri[2] != x or ri[2].__class__ is not x.__class__:
                    chk.violation(f"C13 oracle R: structure(unstructure(x as U), U) = {out_text(ri)} but x = {terms.canon_sx(x_abs)} [{lab}]", case)
                    return
        # ---------------- D
        if cls_ in ("missing", "unknown"):
            if S.default is None:
                if ri[0] != "err":
                    chk.violation(f"C13 oracle D: {cls_} tag, no default configured, but structure returned {out_text(ri)} [{lab}]", case)
                    return
            else:
                q = dict(payload)
                q.pop(S.tag_name, None)
                fields = {f["name"] for f in S.world["classes"][S.default]["fields"]}
                if S.tag_name not in fields:
                    rd = S.run(S.fresh.structure, q, S.classes[S.default])
                    if same_outcome(ri, rd) is False:
                        chk.violation(f"C13 oracle D: {cls_} tag with default {S.default}: got {out_text(ri)}, the default member "
                                      f"itself gives {out_text(rd)} [{lab}]", case)
                        return
        # ---------------- correspondence: the model's decision, evaluated with the member's own hook
        pm = terms.parse_sx(mm)
        call, arg = pm[1], pm[2]
        arg_abs = terms.obj_of_px(arg[1])
        if terms.canon_sx(arg_abs) != terms.canon_sx(p_abs):
            self.corr_fail.append((case, "TAGST(arg)", "unchanged", mm, lab))
            return
        if call[0] == "err":
            exp = ("err", None)
        else:
            k = int(call[1])
            q_abs = terms.obj_of_px(call[2])
            # realise q from the very payload object where possible (same nested objects, hence the same set
            # iteration orders: a set-valued item structured into a `str` field prints in iteration order)
            if terms.canon_sx(q_abs) == terms.canon_sx(p_abs):
                q_real = dict(payload) if isinstance(payload, dict) else payload
            elif isinstance(payload, dict) and terms.canon_sx(q_abs) == terms.canon_sx(("d", del_key(list(items), name_key))):
                q_real = dict(payload)
                q_real.pop(S.tag_name, None)
            else:
                q_real = R.val(q_abs)
            exp = S.run(S.fresh.structure, q_real, S.classes[k])
        agree = same_outcome(ri, exp)
        if agree is None:
            chk.unmodelled += 1
        elif not agree:
            self.corr_fail.append((case, "TAGST", out_text(ri), mm + " => " + out_text(exp), lab))

    # ---- members outside: structuring
    def check_member_structure(self, S, ci, p_abs):
        chk = self.chk
        try:
            p1, p2 = S.R.val(p_abs), S.R.val(p_abs)
        except Exception:  # noqa: BLE001
            return
        a = S.run(S.conv.structure, p1, S.classes[ci])
        b = S.run(S.fresh.structure, p2, S.classes[ci])
        chk.count("member-st:" + self.label(S) + terms.canon_sx(p_abs) + str(ci), nontrivial=False)
        chk.note("member-outside:structure:" + a[0])
        if same_outcome(a, b) is False:
            chk.violation(f"C13 oracle M: structure(p, member {ci}) on the configured converter gives {out_text(a)}, fresh converter "
                          f"gives {out_text(b)} [{self.label(S)} p={terms.canon_sx(p_abs)}]",
                          self.case(S, "member-st", p=p_abs, ci=ci))

    # ---- nesting: list[U] on Converter
    def check_nested(self, S, xs_abs):
        chk = self.chk
        if not S.opts["gen"] or S.opts["tuple"]:
            return
        try:
            xs = [S.R.val(x) for x in xs_abs]
        except Exception:  # noqa: BLE001
            return
        name_key = ("s", S.tag_name)
        LU = list[S.U]
        ru = S.run(S.conv.unstructure, xs, unstructure_as=LU)
        exp = []
        for x in xs:
            m = S.run(S.fresh.unstructure, x)
            if m[0] != "ok" or dict_items(m[1]) is None or has_key(dict_items(m[1]), name_key):
                return
            exp.append(("d", list(dict_items(m[1])) + [(name_key, S.tags[S.R.abs(x)[1]])]))
        case = self.case(S, "nested", xs=list(xs_abs))
        chk.count("nested:" + self.label(S) + repr(xs_abs))
        chk.note("nested:list[U]")
        if ru[0] != "ok" or S.un_text(ru[1]) != S.un_text(("l", exp)):
            chk.violation(f"C13 oracle U (nested in list[U]): expected {terms.canon_sx(('l', exp))} got {out_text(ru)} [{self.label(S)}]", case)
            return
        rs = S.run(S.conv.structure, ru[2], LU)
        ok_members = all(S.run(S.fresh.structure, S.fresh.unstructure(x), x.__class__)[0] == "ok"
                         and S.fresh.structure(S.fresh.unstructure(x), x.__class__) == x for x in xs)
        no_field_clash = all(S.tag_name not in {f["name"] for f in S.world["classes"][S.R.abs(x)[1]]["fields"]} for x in xs)
        if ok_members and S.injective() and no_field_clash:
            if rs[0] != "ok" or rs[2] != xs or [y.__class__ for y in rs[2]] != [x.__class__ for x in xs]:
                chk.violation(f"C13 oracle R (nested in list[U]): got {out_text(rs)} [{self.label(S)}]", case)


# ---------------------------------------------------------------------------------------------- ROUTE stream

import attrs as _attrs  # noqa: E402


@_attrs.define
class RA:
    a: int


@_attrs.define
class RB:
    b: str


@_attrs.define
class RC:
    c: float


ROUTE_UNIONS = [typing.Union[RA, RB], typing.Union[RB, RC], typing.Union[RA, RB, RC]]


def gen_route_history(rng):
    """construct / copy / register-for-a-union / use, over up to 6 converters of one class"""
    ops = [["new"]]
    n_conv, n_hook = 1, 0
    for _ in range(rng.randint(3, 10)):
        r = rng.random()
        if r < 0.1 and n_conv < 6:
            ops.append(["new"])
            n_conv += 1
        elif r < 0.45 and n_conv < 6:
            ops.append(["copy", rng.randrange(n_conv), rng.choice(["copy", "deepcopy", "copy-same"])])
            n_conv += 1
        elif r < 0.75:
            ops.append(["st", rng.randrange(n_conv), rng.randrange(len(ROUTE_UNIONS)), n_hook])
            n_hook += 1
        elif r < 0.9:
            ops.append(["un", rng.randrange(n_conv), rng.randrange(len(ROUTE_UNIONS)), n_hook])
            n_hook += 1
        else:
            ops.append(["use", rng.randrange(n_conv)])
    return ops


def ask_hook(getter, U, mine):
    try:
        h = getter(U)
    except KeyError:
        return "keyerror"
    except Exception as e:  # noqa: BLE001
        return "raised:" + e.__class__.__name__
    k = mine.get(id(h))
    return "other" if k is None else "(hook %d)" % k


def check_route(chk, drv, opts, ops, verbose=False):
    """WHICH union hook does every converter of the history return?  Oracle (statement: the strategy holds on a
    converter however it was produced): a converter returns the hook registered last for the union on it or — before it
    was copied — on the converter it was copied from, transitively; nothing else, and never an exception."""
    convs, st_reg, un_reg, how = [], [], [], []
    mine, keep = {}, []

    def hook(kind, k):
        f = (lambda v, t, k=k: ("st", k)) if kind == "st" else (lambda v, k=k: ("un", k))
        mine[id(f)] = k
        keep.append(f)
        return f

    case = {"kind": "route", "opts": opts, "ops": ops}
    lab = "%s ops=%s" % (opt_name(opts), " ".join("(" + " ".join(str(x) for x in op) + ")" for op in ops))
    for op in ops:
        try:
            if op[0] == "new":
                convs.append(make_converter(opts)); st_reg.append({}); un_reg.append({}); how.append("constructed")
            elif op[0] == "copy":
                convs.append(copy_step(convs[op[1]], op[2], opts))
                st_reg.append(dict(st_reg[op[1]])); un_reg.append(dict(un_reg[op[1]])); how.append("%s of #%d" % (op[2], op[1]))
            elif op[0] == "st":
                convs[op[1]].register_structure_hook(ROUTE_UNIONS[op[2]], hook("st", op[3]))
                st_reg[op[1]][op[2]] = op[3]
            elif op[0] == "un":
                convs[op[1]].register_unstructure_hook(ROUTE_UNIONS[op[2]], hook("un", op[3]))
                un_reg[op[1]][op[2]] = op[3]
            else:
                for U in ROUTE_UNIONS:
                    ask_hook(convs[op[1]].get_structure_hook, U, mine)
                    ask_hook(convs[op[1]].get_unstructure_hook, U, mine)
        except Exception as e:  # noqa: BLE001
            chk.violation(f"C13 oracle (routes): step {op} raised {e!r} [{lab}]", case)
            return
    wire = " ".join("(" + " ".join(str(x) for x in (op[:2] if op[0] == "copy" else op)) + ")" for op in ops if op[0] != "use")
    mm = drv.ask("TAGROUTE (ops %s) %d" % (wire, len(ROUTE_UNIONS)))
    rows = terms.parse_sx(mm)
    if rows[0] != "route" or len(rows) - 1 != len(convs):
        raise lean.InfraError("model driver: " + mm)
    chk.count("route:" + lab, sample={"case": lab, "model": mm})
    chk.note("route-stream:histories", "route-stream:converters:%d" % len(convs),
             "route-stream:copies:%d" % sum(1 for op in ops if op[0] == "copy"))
    for i, c in enumerate(convs):
        obs = []
        for ui, U in enumerate(ROUTE_UNIONS):
            for side, getter, reg in (("structure", c.get_structure_hook, st_reg), ("unstructure", c.get_unstructure_hook, un_reg)):
                got = ask_hook(getter, U, mine)
                want = "(hook %d)" % reg[i][ui] if ui in reg[i] else "other"
                obs.append(got)
                if verbose:
                    print("  converter #%d (%s) %s hook of union %d: %s, expected %s" % (i, how[i], side, ui, got, want))
                if got != want:
                    chk.violation(f"C13 oracle (routes): converter #{i} ({how[i]}) returns {got} as {side} hook of union {ui}, "
                                  f"the hook registered for it is {want} [{lab}]", case)
                    return
        model = [terms_text(x) for x in rows[1 + i]]
        if model != obs:
            chk.violation(f"correspondence corr:C13:TAGROUTE broken (theorems C13_copy_* no longer tied to the code): converter #{i} "
                          f"impl={obs} model={model} [{lab}]", case, found_input=False)
            return


def terms_text(px):
    return px if isinstance(px, str) else "(" + " ".join(terms_text(x) for x in px) + ")"


# ---------------------------------------------------------------------------------------------- generation

def gen_ucfg(rng, w, n_members, stream, members=None):
    n = len(w["classes"])
    if members is None:
        members = rng.sample(range(n), n_members)
    members = list(members)
    non_members = [i for i in range(n) if i not in members]
    r = rng.random()
    tagmode = "name" if r < 0.34 else "table" if r < 0.67 else "table+fallback"
    tags = None
    if tagmode != "name":
        pool = [("s", "A"), ("s", "b"), ("s", "Cc"), ("s", ""), ("i", 1), ("i", 2), ("i", 0), ("s", "x y"), ("i", -7),
                ("s", "1"), ("f", 3), ("N",), ("t", [("s", "k"), ("i", 1)])]
        rng.shuffle(pool)
        tags = {}
        fallback = ("s", "other")
        n_fallback = 0
        for i in range(n):
            if tagmode == "table+fallback" and i in members and n_fallback < (2 if stream == "noninjective" else 1) and rng.random() < 0.6:
                tags[i] = fallback
                n_fallback += 1
            else:
                tags[i] = pool.pop()
        if stream == "noninjective":
            a, b = rng.sample(members, 2)
            tags[b] = rng.choice([tags[a], ("b", True) if tags[a] == ("i", 1) else tags[a]])
            if tags[a] == ("i", 1) and rng.random() < 0.5:
                tags[b] = ("b", True)
            if tags[a] == ("i", 0) and rng.random() < 0.5:
                tags[b] = ("b", False)
    if stream == "collision":
        names = [f["name"] for i in members for f in w["classes"][i]["fields"] if f["init"]]
        if not names:
            return None
        tag_name = rng.choice(names)
    else:
        tag_name = rng.choice(TAG_NAMES)
    r = rng.random()
    if r < 0.4:
        default = None
    elif r < 0.85 or not non_members:
        default = rng.choice(members)
    else:
        default = rng.choice(non_members)
    return {"members": members, "tagmode": tagmode, "tags": tags, "tag_name": tag_name, "default": default}


def gen_history(rng, w, ucfg, xs):
    """-> (kind, before, after, use): what else the converter is told about tagged unions besides the checked call"""
    r = rng.random()
    if r < 0.4:
        return "plain", [], [], []
    members = ucfg["members"]
    n = len(w["classes"])

    def same_union():
        ms = list(members)
        if rng.random() < 0.5:
            rng.shuffle(ms)  # Union[B, A] == Union[A, B]: the same registration key in another spelling
        for _ in range(5):
            h = gen_ucfg(rng, w, len(ms), "valid", members=ms)
            if (h["tag_name"], h["tagmode"], h["tags"], h["default"]) != (ucfg["tag_name"], ucfg["tagmode"], ucfg["tags"], ucfg["default"]):
                break
        return h

    def other_union():
        for _ in range(10):
            ms = rng.sample(range(n), rng.randint(2, n))
            if set(ms) != set(members) and set(ms) & set(members):
                return gen_ucfg(rng, w, len(ms), "valid", members=ms)
        return None

    before, after = [], []
    if r < 0.75:
        kind = "reconfigure"
        before = [same_union() for _ in range(rng.choice([1, 1, 2]))]
        if rng.random() < 0.3:
            o = other_union()
            if o is not None:
                before.insert(rng.randint(0, len(before)), o)
    else:
        kind = "two-unions"
        o = other_union()
        if o is not None:
            (before if rng.random() < 0.5 else after).append(o)
        if rng.random() < 0.4:
            o = other_union()
            if o is not None:
                after.append(o)
        if not before and not after:
            kind = "plain"
    use = [x for ci in members for x in xs[ci][:1]][:3]
    return kind, before, after, use


def payload_mutations(rng, G, S, u_abs):
    """malformed / re-tagged payloads derived from a genuine one"""
    items = list(dict_items(u_abs))
    key = ("s", S.tag_name)
    body = del_key(items, key)
    out = [("d", body)]                                                        # tag missing
    out.append(("d", body + [(key, rng.choice(UNKNOWN_TAGS))]))                 # unknown tag
    out.append(("d", [(key, rng.choice(UNKNOWN_TAGS))] + body))                 # unknown tag, first
    out.append(("d", body + [(key, rng.choice(UNHASHABLE_TAGS))]))              # unhashable tag
    other = [i for i in S.members if not gen.py_eq(S.tags[i], get_key(items, key) or ("o", 0))]
    if other:
        out.append(("d", body + [(key, S.tags[rng.choice(other)])]))            # another member's tag
    out.append(("d", [(key, get_key(items, key) or ("N",))] + body))            # tag first
    out.append(("d", items + [(("s", rng.choice(["zz", "extra", "a2"])), G.any_leaf())]))   # extra key
    if body:
        k = rng.randrange(len(body))
        out.append(("d", body[:k] + body[k + 1:] + [(key, get_key(items, key) or ("N",))]))  # a field missing
        out.append(("d", body[:k] + body[k + 1:]))                                             # … and no tag
    # look-alike of an int/bool tag
    tv = get_key(items, key)
    if tv is not None and tv[0] == "i" and tv[1] in (0, 1):
        out.append(("d", body + [(key, ("b", bool(tv[1])))]))
        out.append(("d", body + [(key, ("f", 2 * tv[1]))]))
    # non-dict payloads
    out.append(rng.choice([("N",), ("i", 3), ("s", "x" + S.tag_name + "y"), ("s", "q"), ("l", []),
                           ("l", [key]), ("l", [("s", "q")]), ("t", [key, ("i", 1)]), ("b", True)]))
    return out


def run(chk: framework.Check):
    rng = chk.rng
    G = gen.Gen(rng, max_depth=2)
    drv = lean.Driver()
    Rn = Runner(chk, drv)
    n_worlds = 70 if chk.tier == "quick" else 700
    # which hook every converter of a construct / copy / register history returns (small inputs first)
    for _ in range(150 if chk.tier == "quick" else 1500):
        opts = rng.choice([o for o in OPTIONS if not o["tuple"]])
        check_route(chk, drv, opts, gen_route_history(rng))
        if len(chk.violations) >= 5:
            break
    for wi in range(n_worlds):
        n_members = rng.randint(2, 5)
        w = G.world(n_classes=n_members + rng.randint(0, 1), n_enums=rng.randint(0, 1), kinds=("attrs", "dc"),
                    allow_untyped=True)
        stream = "valid" if rng.random() < 0.7 else rng.choice(["collision", "noninjective"])
        ucfgs = []
        for _ in range(2):
            u = gen_ucfg(rng, w, n_members, stream)
            if u is not None:
                ucfgs.append(u)
        opts_here = [o for o in OPTIONS if not o["tuple"]]
        rng.shuffle(opts_here)
        opts_here = opts_here[: (4 if chk.tier == "quick" else 6)]
        if rng.random() < 0.15:
            opts_here.append(rng.choice([o for o in OPTIONS if o["tuple"]]))
        xs = {}
        for ci in range(len(w["classes"])):
            xs[ci] = [G.value(w, ("cls", ci), 2, any_stable=True) for _ in range(2)]
        for ucfg in ucfgs:
            for opts in opts_here:
                hkind, before, after, use = gen_history(rng, w, ucfg, xs)
                route = gen_route(rng, opts)
                try:
                    S = Scenario(drv, w, opts, ucfg, before=before, after=after, use=use, route=route)
                except Exception:  # noqa: BLE001  a world python itself rejects
                    chk.note("world-rejected-by-python")
                    continue
                if S.route_error is not None:
                    chk.violation(f"C13: producing the converter failed: step {S.route_error[1]} ({S.route_error[0]}) raised "
                                  f"{S.route_error[2]!r} [{Rn.label(S)}]", Rn.case(S, "configure"))
                    continue
                if S.configure_error is not None:
                    # acceptable only if a member hook cannot be produced on a fresh converter either, or the
                    # tags themselves are unusable
                    why = None
                    for i in S.members + ([S.default] if S.default is not None else []):
                        for getter in (S.fresh.get_structure_hook, S.fresh.get_unstructure_hook):
                            try:
                                getter(S.classes[i])
                            except Exception:  # noqa: BLE001
                                why = "member-hook-unavailable"
                    if why is None:
                        chk.violation(f"C13: configure_tagged_union raised {S.configure_error!r} although every member hook exists "
                                      f"[{Rn.label(S)}]", Rn.case(S, "configure"))
                    else:
                        chk.note("configure-skipped:" + why)
                    continue
                chk.note("stream:" + stream, "history:" + hkind, "route:" + route_name(route),
                         "route:" + ("direct" if route is None else "copied" + ("(options overridden)" if route["base"] else "")))
                if S.history_errors:
                    chk.note("history:a-configuration-raised")
                got = []
                for ci in range(len(w["classes"])):
                    for x_abs in xs[ci]:
                        u_abs = Rn.check_instance(S, x_abs)
                        if u_abs is not None:
                            got.append((ci, u_abs))
                if got:
                    ci, u_abs = rng.choice(got)
                    for p in payload_mutations(rng, G, S, u_abs):
                        Rn.check_payload(S, p)
                    # members outside the union: their own payloads, with and without the tag key
                    body = ("d", del_key(list(dict_items(u_abs)), ("s", S.tag_name)))
                    Rn.check_member_structure(S, ci, body)
                    Rn.check_member_structure(S, ci, u_abs)
                member_xs = [x for ci in S.members for x in xs[ci][:1]]
                Rn.check_nested(S, member_xs[:3])
    if Rn.corr_fail and not chk.violations:
        for case, op, ri, rm, lab in Rn.corr_fail[:5]:
            chk.violation(f"correspondence corr:C13:{op} broken (theorems C13_* no longer tied to the code): impl={ri} model={rm[:300]} [{lab}]",
                          case, found_input=False)
    chk.extra["rule"] = ("random worlds of attrs/dataclass classes x unions of 2-5 members x tag generators (class name, table, table with "
                         "fallback) x tag names x default (none/member/non-member) x converter options; member instances, genuine and "
                         "mutated payloads; distinct by configuration + canonical value")
    chk.extra["histories"] = ("plain 40%; re-configuration 35% (the same union configured 1-2 times before with other tag names / "
                             "generators / defaults / member order, used in between; oracles against the last configuration); "
                             "two unions sharing members 25% (configured before and/or after the checked one)")
    chk.extra["routes"] = ("the converter under test is constructed directly 45%; otherwise produced by copy() / copy(<options spelled "
                           "out>) / copy.deepcopy, once or twice, before the strategy is applied, between the earlier configurations "
                           "and the checked one, and/or after everything was configured; in 40% of the routes with a copy before the "
                           "strategy the first converter has other options and the copy overrides them.  ROUTE stream: histories of "
                           "construct / copy / register-for-a-union / use over up to 6 converters, which hook every converter returns "
                           "for 3 unions (model: Tagged/Copy.lean, op TAGROUTE)")
    chk.extra["streams"] = "valid 70%; collision (tag name = a member's field) and non-injective generators are separate streams"
    drv.close()


def replay(case):
    drv = lean.Driver()
    if case.get("kind") == "route":
        chk = framework.Check("C13", "replay", 0)
        check_route(chk, drv, case["opts"], case["ops"], verbose=True)
        for what, _, _ in chk.violations:
            print("oracle:", what)
        print("oracle:", "FAILS" if chk.violations else "holds")
        return 1 if chk.violations else 0
    w = terms.world_from_json(case["world"])
    ucfg = dict(case["ucfg"])
    if ucfg.get("tags"):
        ucfg["tags"] = {int(k): terms.tuple_ify(v) for k, v in ucfg["tags"].items()}
    S = Scenario(drv, w, case["opts"], ucfg, before=case.get("before"), after=case.get("after"), use=case.get("use"),
                 route=case.get("route"))
    chk = framework.Check("C13", "replay", 0)
    Rn = Runner(chk, drv)
    print("scenario:", Rn.label(S))
    for i, cl in enumerate(S.classes):
        print("  class", i, cl, [f["name"] for f in w["classes"][i]["fields"]], "tag", S.tags.get(i))
    for h in S.before:
        print("  configured and used BEFORE:", h)
    for h in S.after:
        print("  configured and used AFTER:", h)
    if S.configure_error is not None:
        print("configure_tagged_union raised", repr(S.configure_error))
        return 1
    kind = case["kind"]
    if kind == "instance":
        Rn.check_instance(S, terms.tuple_ify(case["x"]), verbose=True)
    elif kind == "payload":
        Rn.check_payload(S, terms.tuple_ify(case["p"]), verbose=True)
    elif kind == "member-st":
        Rn.check_member_structure(S, case["ci"], terms.tuple_ify(case["p"]))
    elif kind == "nested":
        Rn.check_nested(S, [terms.tuple_ify(x) for x in case["xs"]])
    for what, _, _ in chk.violations:
        print("oracle:", what)
    for c in Rn.corr_fail:
        print("correspondence:", c[1:], )
    print("oracle:", "FAILS" if chk.violations else "holds")
    return 1 if chk.violations or Rn.corr_fail else 0


if __name__ == "__main__":
    framework.main(run, "C13")
