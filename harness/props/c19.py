"""C19 -- a shared converter is thread-safe, including concurrent FIRST use of a type.   (partial: see below)

What runs (DESIGN 5/C19):
  * 2-3 REAL threads first-use overlapping deep / recursive / mutually recursive class graphs (attrs classes,
    dataclasses, TypedDicts, lists / dicts / Optionals of them, PEP 563 string annotations resolved lazily by
    cattrs) on ONE fresh converter with FRESH classes per schedule, under a deterministic cooperative scheduler
    (harness/sched.py: a scheduling point at every line event in cattrs source and cattrs-generated code).
  * Oracle (the property itself, on the implementation): per-thread results and exceptions equal those of a
    sequential reference run of the same calls.
  * Correspondence corr:C19:WSLOG -- every access to `already_generating.working_set` and to the set in it is
    logged in global order (tracing threading.local / tracing set, installed before cattrs is imported); the
    Lean model replays the log under thread-local semantics (`wsRun false`, theorem C19_projection) and must
    predict every logged answer.  An EMPTY log although classes were generated is a disagreement as well.
  * Correspondence corr:C19:GENRUN -- sequential hook generation (`get_structure_hook` / `get_unstructure_hook`)
    on the real converter enters / detects cycles / exits exactly as the Lean generation machine
    (`tstep`/`gstep`, theorems C19_no_false_cycle / C19_serialisable) does on the abstract graph.
  * Correspondence corr:C19:GENSCHED -- EVERY real concurrent run (and the sequential reference run) is observed as
    the global sequence of accesses to the shared memo tables and the working set (lru read hit/miss, direct-table
    read, test-and-add, remove, direct-table write, cache_clear, lru write; harness/sched.py: proxy around the
    converter's own lru wrapper, tracing dict with its own `_direct_dispatch`, wrapper of `dispatch_without_caching`
    installed on the class after import, tracing set -- /repo untouched).  Exactly that interleaving is replayed on
    the Lean machine (`GENRUN … (upto …)`: one item per observed access, the thread runs up to and including its next
    access; `replayR` on the refined machine with attribute slot and set identities, theorems C19_replay_is_schedule,
    C19_slot_unobservable): every access, its answer, the slot of the thread afterwards and the outcome of every
    top-level dispatch (the machine's `calls` = the thread's top-level dispatches, including the run-time dispatches
    of late-bound references) must agree; the expanded schedule is re-submitted through `(sched …)` to the abstract
    machine for the first schedule of every graph.
  * Correspondence corr:C19:SWAP -- the first pass of the real `include_subclasses(K0, conv, union_strategy=…)` on
    generated class hierarchies (the only place where cattrs swaps the working set) against the refined machine with
    `swap` operations (theorems C19_swap_*).
  * Hangs: every lock cattrs code creates is a cooperative lock of the scheduler (harness/sched.py), so "no live thread
    can run" is detected exactly; the schedule is run once more and a deadlock that comes back is a VIOLATION (the
    sequential run of the same calls completed) with the schedule as failing input.  A token holder that reaches no
    scheduling point for `Scheduler.HANG` seconds is retried the same way (reproducible = VIOLATION, else exit 2).
  * Correspondence corr:C19:OPTIONS -- the option attributes of the converter are what the constructor set whenever the
    scheduling token changes hands (the model treats them as constants).
  * The class graphs contain NamedTuples handled by the opt-in dict factories of `cattrs.cols`, registered with
    `detailed_validation` OPPOSITE to the converter's; a quarter of the structure payloads is damaged; exceptions are
    compared by class (incl. nested groups).
Partial: interleavings are explored at statement (line-event) granularity, atomicity of single dict / set /
lru_cache operations under the GIL is assumed.
Any other scheduler timeout is an infrastructure error (exit 2), never a violation.
"""
from __future__ import annotations

import os
import sys

from harness import sched

TRACE = sched.install_tracing()  # BEFORE anything imports cattrs

import dataclasses  # noqa: E402
import linecache  # noqa: E402
import re  # noqa: E402
import time  # noqa: E402
import types  # noqa: E402

import attrs  # noqa: E402
from cattrs import Converter  # noqa: E402

from harness import framework, lean  # noqa: E402

KINDS = ("attrs", "dc", "td", "nt")     # nt = NamedTuple handled by the opt-in dict factories of cattrs.cols
_mod_counter = [0]


# ------------------------------------------------------------------------------------------------ graphs

def gen_graph(rng):
    """A class graph: forward edges (i -> j>i) may be required direct references (depth); back / self edges go
    through list / dict / Optional (recursion).  Every cycle contains a non-TypedDict class: TypedDict structure
    hooks do not use the working set, a TypedDict-only cycle is broken by the interpreter's own recursion limit."""
    n = rng.randint(2, 5)
    kinds = [rng.choice(KINDS) for _ in range(n)]
    if all(k == "td" for k in kinds):
        kinds[0] = rng.choice(("attrs", "dc"))
    classes = []
    for i in range(n):
        fields = []
        nf = rng.randint(1, 3)
        for f in range(nf):
            r = rng.random()
            fwd = [j for j in range(i + 1, n)]
            back = [j for j in range(0, i + 1) if kinds[j] != "td"]
            if r < 0.2:
                ty = rng.choice(("int", "str"))
            elif r < 0.55 and fwd:
                ty = [rng.choice(("ref", "ref", "list", "dict", "opt")), rng.choice(fwd)]
            elif back:
                ty = [rng.choice(("list", "dict", "opt")), rng.choice(back)]
            elif fwd:
                ty = ["ref", rng.choice(fwd)]
            else:
                ty = "int"
            fields.append([f"f{f}", ty])
        classes.append({"kind": kinds[i], "fields": fields})
    # make sure the graph is connected enough to be deep: class i refers to i+1 with probability 0.7
    for i in range(n - 1):
        if rng.random() < 0.7 and not any(isinstance(t, list) and t[1] == i + 1 for _, t in classes[i]["fields"]):
            classes[i]["fields"].append([f"f{len(classes[i]['fields'])}", [rng.choice(("ref", "list", "opt")), i + 1]])
    return {"classes": classes}


def ty_src(t):
    if isinstance(t, str):
        return t
    k, j = t
    return {"ref": f"K{j}", "list": f"list[K{j}]", "dict": f"dict[str, K{j}]", "opt": f"Optional[K{j}]"}[k]


def graph_source(g):
    out = ["from __future__ import annotations", "import attrs, dataclasses", "from typing import NamedTuple, Optional, TypedDict", ""]
    for i, c in enumerate(g["classes"]):
        base = f"(K{c['base']})" if c.get("base") is not None else ""
        if c["kind"] == "attrs":
            out.append("@attrs.define")
            out.append(f"class K{i}{base}:")
        elif c["kind"] == "dc":
            out.append("@dataclasses.dataclass")
            out.append(f"class K{i}{base}:")
        elif c["kind"] == "nt":
            out.append(f"class K{i}(NamedTuple):")
        else:
            out.append(f"class K{i}(TypedDict):")
        for name, t in c["fields"]:
            out.append(f"    {name}: {ty_src(t)}")
        out.append("")
    return "\n".join(out)


OPTION_ATTRS = ("detailed_validation", "forbid_extra_keys", "omit_if_default", "_prefer_attrib_converters",
                "_unstructure_attrs", "_structure_attrs", "_dict_factory")


def option_view(conv):
    """the construction options of a converter (identity of callables): constants of the model -- nothing may write
    them while hooks are generated"""
    out = []
    for a in OPTION_ATTRS:
        v = getattr(conv, a, None)
        out.append(v if isinstance(v, (bool, int, str, type(None))) else id(getattr(v, "__func__", v)))
    return tuple(out)


class World:
    """Fresh realisation of a graph: a new module with new classes, and a new converter."""

    def __init__(self, g):
        _mod_counter[0] += 1
        self.name = f"c19_m{_mod_counter[0]}"
        self.mod = types.ModuleType(self.name)
        sys.modules[self.name] = self.mod
        exec(compile(graph_source(g), self.name, "exec"), self.mod.__dict__)
        self.g = g
        self.cls = [getattr(self.mod, f"K{i}") for i in range(len(g["classes"]))]
        self.ix = {id(c): i for i, c in enumerate(self.cls)}
        self.conv = Converter()
        nts = [c for c, k in zip(self.cls, g["classes"]) if k["kind"] == "nt"]
        if nts:
            # the opt-in dict hooks for NamedTuples, structuring in the validation mode the converter is NOT in
            from cattrs.cols import namedtuple_dict_structure_factory, namedtuple_dict_unstructure_factory
            is_nt = lambda t: any(t is c for c in nts)  # noqa: E731
            other_mode = not self.conv.detailed_validation
            self.conv.register_structure_hook_factory(
                is_nt, lambda t, c: namedtuple_dict_structure_factory(t, c, other_mode))
            self.conv.register_unstructure_hook_factory(
                is_nt, lambda t, c: namedtuple_dict_unstructure_factory(t, c))
        self.options = option_view(self.conv)
        self.instrumented = sched.instrument_converter(self.conv)   # memo-table tracing (corr:C19:GENSCHED)

    def abstract(self, t):
        """real type object -> abstract type of the graph (None: not a node of the model's type graph)"""
        i = self.ix.get(id(t))
        if i is not None:
            return ["ref", i]
        import typing
        org, args = typing.get_origin(t), typing.get_args(t)
        if org is list and len(args) == 1 and id(args[0]) in self.ix:
            return ["list", self.ix[id(args[0])]]
        if org is dict and len(args) == 2 and args[0] is str and id(args[1]) in self.ix:
            return ["dict", self.ix[id(args[1])]]
        if org is typing.Union and len(args) == 2 and args[1] is type(None) and id(args[0]) in self.ix:
            return ["opt", self.ix[id(args[0])]]
        return None

    def ty(self, t):
        if t == "int":
            return int
        if t == "str":
            return str
        k, j = t
        c = self.cls[j]
        import typing
        return {"ref": c, "list": list[c], "dict": dict[str, c], "opt": typing.Optional[c]}[k]

    def close(self):
        sys.modules.pop(self.name, None)
        for k in [k for k in linecache.cache if k.startswith("<cattrs generated") and self.name + "." in k]:
            linecache.cache.pop(k, None)


# ------------------------------------------------------------------------------------------------ values

def gen_value(rng, g, t, d, maxd=3):
    if t == "int":
        return rng.randint(-5, 50)
    if t == "str":
        return rng.choice(("", "a", "xy", "7"))
    k, j = t
    if k == "ref":
        c = g["classes"][j]
        return ["inst", j, [gen_value(rng, g, ft, d + 1, maxd) for _, ft in c["fields"]]]
    if k == "opt":
        if d >= maxd or rng.random() < 0.3:
            return None
        return gen_value(rng, g, ["ref", j], d, maxd)
    n = 0 if d >= maxd else rng.choice((0, 1, 1, 2))
    if k == "list":
        return ["list", [gen_value(rng, g, ["ref", j], d + 1, maxd) for _ in range(n)]]
    return ["dict", [[f"k{q}", gen_value(rng, g, ["ref", j], d + 1, maxd)] for q in range(n)]]


def realise(w, v):
    if v is None or isinstance(v, (int, str)):
        return v
    if v[0] == "inst":
        c = w.g["classes"][v[1]]
        vals = [realise(w, x) for x in v[2]]
        if c["kind"] == "td":
            return {n: x for (n, _), x in zip(c["fields"], vals)}
        return w.cls[v[1]](*vals)
    if v[0] == "list":
        return [realise(w, x) for x in v[1]]
    return {k: realise(w, x) for k, x in v[1]}


def encode(g, v):
    """The unstructured form (payload for structure calls), built without cattrs."""
    if v is None or isinstance(v, (int, str)):
        return v
    if v[0] == "inst":
        c = g["classes"][v[1]]
        return {n: encode(g, x) for (n, _), x in zip(c["fields"], v[2])}
    if v[0] == "list":
        return [encode(g, x) for x in v[1]]
    return {k: encode(g, x) for k, x in v[1]}


def corrupt(rng, p):
    """Damage a payload somewhere (wrong leaf type / missing key)."""
    if isinstance(p, dict) and p:
        k = rng.choice(sorted(p))
        if rng.random() < 0.4:
            q = dict(p)
            del q[k]
            return q
        return {kk: (corrupt(rng, vv) if kk == k else vv) for kk, vv in p.items()}
    if isinstance(p, list) and p:
        i = rng.randrange(len(p))
        return [corrupt(rng, x) if ii == i else x for ii, x in enumerate(p)]
    return "not-a-number" if not isinstance(p, str) or p != "not-a-number" else 12


def canon(x):
    """Canonical, class-identity-free form of a result (classes are fresh per run)."""
    if isinstance(x, BaseException):
        subs = getattr(x, "exceptions", None)
        if subs is not None:
            return ["exc", type(x).__name__, sorted((canon(e) for e in subs), key=repr)]
        return ["exc", type(x).__name__]
    if attrs.has(type(x)):
        return ["I", type(x).__name__, [[a.name, canon(getattr(x, a.name))] for a in attrs.fields(type(x))]]
    if dataclasses.is_dataclass(x) and not isinstance(x, type):
        return ["I", type(x).__name__, [[f.name, canon(getattr(x, f.name))] for f in dataclasses.fields(x)]]
    if isinstance(x, dict):
        return ["d", [[canon(k), canon(v)] for k, v in x.items()]]
    if isinstance(x, (list, tuple)):
        return ["l" if isinstance(x, list) else "t", [canon(e) for e in x]]
    if x is None or isinstance(x, (bool, int, float, str, bytes)):
        return [type(x).__name__, x if not isinstance(x, bytes) else x.hex()]
    return ["?", type(x).__name__]


# ------------------------------------------------------------------------------------------------ calls

def gen_calls(rng, g, nthreads):
    """Per thread a list of calls {op, root, value, payload}; roots overlap between threads."""
    n = len(g["classes"])
    calls = []
    for t in range(nthreads):
        mine = []
        for _ in range(rng.randint(1, 3)):
            j = rng.choice((0, 0, rng.randrange(n), rng.randrange(n)))
            root = [rng.choice(("ref", "ref", "ref", "list", "dict")), j]
            v = gen_value(rng, g, root, 0)
            op = rng.choice(("s", "u"))
            call = {"op": op, "root": root, "value": v}
            if op == "s":
                p = encode(g, v)
                if rng.random() < 0.25:
                    p = corrupt(rng, p)
                    call["corrupted"] = True
                call["payload"] = p
            mine.append(call)
        calls.append(mine)
    return calls


def must_touch_working_set(g, calls):
    """Does this run NECESSARILY enter a hook generator that consults the working set?  True when some call's root is an
    attrs class / dataclass itself (`ref`): its dict hook is generated on first use, by `make_dict_(un)structure_fn`,
    whatever the payload.  (A `list[K]` / `dict[str, K]` root with an empty payload, or a TypedDict / NamedTuple root
    whose attrs/dataclass members sit behind late-binding Optional / collection hooks, may generate no class hook at
    all: an empty working-set log is then what the code legitimately produces.)"""
    for mine in calls:
        for call in mine:
            kind, j = call["root"]
            if kind == "ref" and g["classes"][j]["kind"] in ("attrs", "dc"):
                return True
    return False


def do_call(w, call):
    if call["op"] == "u":
        return w.conv.unstructure(realise(w, call["value"]), w.ty(call["root"]))
    return w.conv.structure(call["payload"], w.ty(call["root"]))


def thread_fn(w, mine, out):
    def fn():
        for call in mine:
            try:
                out.append(canon(do_call(w, call)))
            except Exception as e:  # noqa: BLE001 - the exception IS the observable
                out.append(canon(e))
        return None
    return fn


# ------------------------------------------------------------------------------------------------ model side

def log_to_events(w, log):
    """Raw log -> WSLOG events and the answers the implementation gave."""
    evs, answers = [], []
    for tid, op, sid, cls, ans, _fn in log:
        c = w.ix.get(id(cls), 999) if cls is not None and not isinstance(cls, tuple) else None
        if op == "get":
            evs.append(f"({tid} get)")
            answers.append("attrErr" if ans == "attrErr" else f"(found {abs(sid) % 10**9})")
        elif op == "set":
            members = " ".join(str(w.ix.get(id(x), 999)) for x in cls)
            evs.append(f"({tid} set {abs(sid) % 10**9} ({members}))")
            answers.append("unit")
        elif op == "del":
            evs.append(f"({tid} del)")
            answers.append(ans)
        elif op == "in":
            evs.append(f"({tid} in {sid} {c})")
            answers.append("1" if ans else "0")
        elif op == "add":
            evs.append(f"({tid} add {sid} {c})")
            answers.append("unit")
        elif op == "rm":
            evs.append(f"({tid} rm {sid} {c})")
            answers.append(ans)
        elif op == "empty":
            evs.append(f"({tid} empty {sid})")
            answers.append("1" if ans else "0")
    return evs, answers


def split_answers(s):
    """'(ok (a (found 3) b))' -> ['a', '(found 3)', 'b']"""
    if not s.startswith("(ok (") or not s.endswith("))"):
        raise lean.InfraError("unexpected WSLOG reply: " + s[:200])
    body = s[5:-2]
    return re.findall(r"\([^()]*\)|[^\s()]+", body)


def wslog_check(drv, w, log):
    """Returns None if the model (thread-local semantics) predicts every logged answer, else a description."""
    evs, answers = log_to_events(w, log)
    if not evs:
        return None
    rep = drv.ask("WSLOG 0 (" + " ".join(evs) + ")")
    pred = split_answers(rep)
    if len(pred) != len(answers):
        raise lean.InfraError("WSLOG reply has wrong length")
    for i, (a, p) in enumerate(zip(answers, pred)):
        if a != p:
            return f"event #{i} {evs[i]} (in {log[i][5]}): implementation answered {a}, thread-local model predicts {p}"
    return None


def model_graph(g, direction):
    """Abstract node table of the type graph for one direction ('s' / 'u'); transcribes which factories use the
    working set, which catch RecursionError, which register direct, and which nested dispatches go through the cache."""
    n = len(g["classes"])
    ids = {}
    nodes = [None] * n

    def tid(t):
        if t[0] == "ref":
            return t[1]
        key = (t[0], t[1])
        if key not in ids:
            ids[key] = len(nodes)
            nodes.append(None)
            j = t[1]
            if direction == "u":
                node = {"list": (0, 0, 1, [(j, 0)]), "dict": (0, 0, 1, [(j, 0)]), "opt": (0, 0, 0, [(j, 1)])}[t[0]]
            else:
                node = {"list": (0, 1, 0, [(j, 1)]), "dict": (0, 0, 1, [(j, 0)]), "opt": (0, 0, 0, [])}[t[0]]
            nodes[ids[key]] = node
        return ids[key]

    def td_identity(t, seen=()):
        """is the unstructure hook of field type `t` the identity function? (int / str, and TypedDicts all of whose
        fields are)"""
        if isinstance(t, str):
            return True
        if t[0] != "ref" or g["classes"][t[1]]["kind"] != "td" or t[1] in seen:
            return False
        return all(td_identity(ft, seen + (t[1],)) for _, ft in g["classes"][t[1]]["fields"])

    def all_fields(c):
        return (all_fields(g["classes"][c["base"]]) if c.get("base") is not None else []) + c["fields"]

    for i, c in enumerate(g["classes"]):
        refs = [t for _, t in all_fields(c) if not isinstance(t, str)]
        if c["kind"] == "td":
            if direction == "u":
                # typeddicts.make_dict_unstructure_fn: a first loop up to (and including) the first attribute whose
                # handler is not `identity`; if there is none the factory returns `identity` at once, else a second
                # loop over all attributes
                first = []
                for t in refs:
                    first.append(t)
                    if not td_identity(t):
                        break
                else:
                    nodes[i] = (1, 1, 0, [(tid(t), 1) for t in first])
                    continue
                nodes[i] = (1, 1, 0, [(tid(t), 1) for t in first] + [(tid(t), 1) for t in refs])
            else:
                nodes[i] = (0, 1, 0, [(tid(t), 0) for t in refs])
        else:
            nodes[i] = (1, 1, 0, [(tid(t), 0) for t in refs])
    return nodes, tid


def graph_sx(nodes):
    return "(" + " ".join(f"({t} {c} {d} (" + " ".join(f"({j} {k})" for j, k in es) + "))" for t, c, d, es in nodes) + ")"


def genrun_check(drv, chk, g, rng):
    """Sequential generation only: the real converter against the Lean machine.  Returns None or a description."""
    for direction in ("s", "u"):
        nodes, tid = model_graph(g, direction)
        n = len(g["classes"])
        roots = [[rng.choice(("ref", "ref", "list", "dict", "opt")), rng.randrange(n)] for _ in range(rng.randint(1, 4))]
        w = World(g)
        try:
            TRACE.start()
            outcomes = []
            for r in roots:
                try:
                    (w.conv.get_structure_hook if direction == "s" else w.conv.get_unstructure_hook)(w.ty(r))
                    outcomes.append("ok")
                except RecursionError:
                    outcomes.append("rec")
            log = TRACE.stop()
            impl = []
            for _tid, op, _sid, cls, ans, _fn in log:
                if op == "in" and ans:
                    impl.append(f"(0 enter {w.ix.get(id(cls), 999)} rec)")
                elif op == "add":
                    impl.append(f"(0 enter {w.ix.get(id(cls), 999)} ok)")
                elif op == "rm":
                    impl.append(f"(0 exit {w.ix.get(id(cls), 999)} {'ok' if ans == 'unit' else 'key'})")
        finally:
            TRACE.stop()
            w.close()
        root_ids = " ".join(str(tid(r)) for r in roots)   # may add composite nodes: before graph_sx
        rep = drv.ask(f"GENRUN 0 {graph_sx(nodes)} (({root_ids})) (seq 20000)")
        m = re.match(r"\(ok \(\((\d)((?: \(\d+ \w+\))*)\)\) \((.*)\)\)$", rep)
        if not m:
            raise lean.InfraError("unexpected GENRUN reply: " + rep[:300])
        if m.group(1) != "1":
            chk.unmodelled += 1   # the machine ran out of fuel
            continue
        model_out = re.findall(r"\(\d+ (\w+)\)", m.group(2))
        model_tr = re.findall(r"\([^()]*\)", m.group(3))
        chk.note("genrun:" + direction, f"genrun-events:{min(len(impl) // 10 * 10, 50)}+")
        if model_tr != impl or model_out != outcomes:
            k = next((i for i, (a, b) in enumerate(zip(model_tr, impl)) if a != b), min(len(model_tr), len(impl)))
            return (f"direction={direction} roots={roots}: enter/exit trace differs at event {k}: impl="
                    f"{impl[k:k + 3]} model={model_tr[k:k + 3]} (outcomes impl={outcomes} model={model_out})")
    return None


# ------------------------------------------------------------------------------------------------ GENSCHED

class Unmodelled(Exception):
    pass


def gensched_extract(w, glog, tidmap, first_pass_only=False):
    """Global access log of ONE run -> per direction ('s' / 'u'): the model graph, the per-thread top-level
    dispatches (the machine's `calls`), their outcomes, and the global sequence of accesses to nodes of the graph
    [(tid, text)].  Raises Unmodelled if the run did something the machine has no step for."""
    nthreads = max(tidmap.values()) + 1
    msd_dir = {id(w.conv._structure_func): "s", id(w.conv._unstructure_func): "u"}
    D = {}
    for d in ("s", "u"):
        nodes, tidf = model_graph(w.g, d)
        D[d] = {"nodes": nodes, "tidf": tidf, "events": [], "calls": [[] for _ in range(nthreads)],
                "outs": [[] for _ in range(nthreads)], "extra": {}, "views": []}
    stacks = [[] for _ in range(nthreads)]          # per thread: open dispatches [direction, node|None, kind]
    # the attribute slot of every thread, rebuilt from the log alone: slot[t] = set identity | None, members by identity
    slot = [None] * nthreads
    members = {}
    pending = [[] for _ in range(nthreads)]         # accesses of thread t whose slot view is not final yet
    got_attr_err = [False] * nthreads

    def view(t):
        if slot[t] is None:
            return "absent"
        return "(" + " ".join(map(str, sorted(w.ix.get(id(c), 999) for c in members.get(slot[t], ())))) + ")"

    def emit(d, t, text):
        D[d]["events"].append((t, text))
        D[d]["views"].append(None)
        pending[t].append((d, len(D[d]["events"]) - 1))

    def finalize(t):
        for d, k in pending[t]:
            D[d]["views"][k] = view(t)
        pending[t].clear()
    # Types outside the class graph whose first use REGISTERS DIRECT (and so clears the lru for everybody): the bare
    # `list` / `dict` a late-bound `converter.unstructure` meets by run-time class.  They are leaves of the model
    # graph with direct = 1 (their nested dispatches are of types outside the graph).
    for _rt, op, key, _ans, msd in glog:
        if op == "dset" and id(msd) in msd_dir and w.abstract(key) is None:
            R = D[msd_dir[id(msd)]]
            if id(key) not in R["extra"]:
                R["extra"][id(key)] = len(R["nodes"])
                R["nodes"].append((0, 0, 1, []))

    def node_of(d, typ):
        a = w.abstract(typ)
        if a is None:
            return D[d]["extra"].get(id(typ))
        return D[d]["tidf"](a)

    for rawtid, op, key, ans, msd in glog:
        if rawtid not in tidmap:
            raise Unmodelled(f"access by an unknown thread {rawtid}")
        t = tidmap[rawtid]
        st = stacks[t]
        depth0 = not any(f[1] is not None for f in st)
        # the slot view after an access is final when the thread STARTS its next access (the machine's test-and-add
        # and remove + delete-when-empty are one step each)
        if op not in ("set", "in", "add", "empty", "del"):
            finalize(t)
        if op == "get":
            got_attr_err[t] = ans == "attrErr"
        elif op == "set":
            sid = msd                      # (for working-set entries the last field is the set identity)
            is_swap = not got_attr_err[t]  # not the creation inside a factory: the swap of strategies/_subclasses.py
            if is_swap:
                if not depth0:
                    raise Unmodelled("working-set swap while a hook factory is running")
                finalize(t)
            members[sid] = list(key)
            slot[t] = sid
            if is_swap:
                P = " ".join(str(w.ix.get(id(c), 999)) for c in key)
                for d in ("s", "u"):
                    emit(d, t, f"(swap {t} ({P}))")
            got_attr_err[t] = False
        elif op == "del":
            if ans == "unit":
                slot[t] = None
        elif op == "add":
            members.setdefault(msd, [])
            if key not in members[msd]:
                members[msd].append(key)
        elif op == "rm":
            if ans == "unit" and key in members.get(msd, []):
                members[msd].remove(key)
        if op in ("in", "add", "rm"):
            top = next((f for f in reversed(st) if f[1] is not None), None)
            if top is None:
                raise Unmodelled("working-set access outside any dispatch of a graph type")
            d = top[0]
            n = w.ix.get(id(key))
            if n is None:
                raise Unmodelled("working-set access for a class outside the graph")
            if op == "in":
                if ans:
                    emit(d, t, f"({t} enter {n} rec)")
            elif op == "add":
                emit(d, t, f"({t} enter {n} ok)")
            else:
                emit(d, t, f"({t} exit {n} {'ok' if ans == 'unit' else 'key'})")
            continue
        if op in ("get", "set", "del", "empty"):
            continue
        d = msd_dir.get(id(msd))
        if d is None:
            raise Unmodelled("access to a dispatcher of another converter")
        R = D[d]
        if op == "cclr":
            emit(d, t, f"({t} clear)")
            continue
        if op == "dclr":
            if first_pass_only:            # a hook is being registered: the part of the run the machine describes is over
                break
            raise Unmodelled("clear_direct during the run")
        n = node_of(d, key)
        if n is not None and st and st[-1][1] is None:
            raise Unmodelled("dispatch of a graph type nested in a type outside the graph")
        if n is not None and st and any(f[0] != d for f in st if f[1] is not None):
            raise Unmodelled("structure and unstructure generation nested in each other")
        if op == "lru":
            if n is not None:
                emit(d, t, f"({t} lru {n} {ans})")
                if depth0:
                    R["calls"][t].append(n)
                    if ans == "hit":
                        R["outs"][t].append("ok")
            if ans == "miss":
                st.append([d, n, "lru"])
        elif op == "dwc":
            if n is not None and depth0:
                # a top-level `get_*_hook(t, cache_result=False)`: modelled as the (cached) dispatch of a FRESH node
                # whose factory does nothing but dispatch t without the cache
                r = len(R["nodes"])
                R["nodes"].append((0, 0, 0, [(n, 0)]))
                R["calls"][t].append(r)
                emit(d, t, f"({t} lru {r} miss)")
                emit(d, t, f"({t} dir {r} miss)")
                st.append([d, n, "top", r])
            else:
                st.append([d, n, "dwc"])
        elif op == "dget":
            if n is not None:
                emit(d, t, f"({t} dir {n} {ans})")
        elif op == "dset":
            if n is not None:
                emit(d, t, f"({t} wdir {n})")
        elif op in ("lruw", "dwce", "dwcx"):
            if not st or st[-1][0] != d or st[-1][1] != n:
                raise Unmodelled("unbalanced dispatch log")
            f = st.pop()
            if f[2] == "top":
                if op == "dwce":
                    emit(d, t, f"({t} lruw {f[3]})")
                    R["outs"][t].append("ok")
                elif ans == "RecursionError":
                    R["outs"][t].append("rec")
                else:
                    raise Unmodelled("a top-level dispatch raised " + str(ans))
                continue
            if op == "lruw" and n is not None:
                emit(d, t, f"({t} lruw {n})")
            if n is not None and f[2] == "lru" and not any(x[1] is not None for x in st):
                if op == "lruw":
                    R["outs"][t].append("ok")
                elif ans == "RecursionError":
                    R["outs"][t].append("rec")
                else:
                    raise Unmodelled("a top-level dispatch raised " + str(ans))
    if any(stacks):
        raise Unmodelled("a dispatch never returned")
    for t in range(nthreads):
        finalize(t)
    return D


def gensched_check(drv, chk, w, glog, tidmap, resubmit=False, first_pass_only=False):
    """corr:C19:GENSCHED -- replay the OBSERVED interleaving of memo-table / working-set accesses of a real run on
    the Lean generation machine (`replay` = `runSched` of the expanded schedule, theorem `replay_is_sched`): every
    thread must perform, access by access, what the real thread did and get the same answers, and every top-level
    dispatch must end the same way.  Returns None or a description."""
    if not w.instrumented:
        chk.note("gensched:not-instrumentable")
        return None
    try:
        D = gensched_extract(w, glog, tidmap, first_pass_only)
    except Unmodelled as e:
        chk.note("gensched:unmodelled:" + str(e))
        chk.unmodelled += 1
        return None
    nthreads = max(tidmap.values()) + 1
    for d in ("s", "u"):
        R = D[d]
        if not R["events"]:
            continue
        calls = " ".join("(" + " ".join(map(str, c)) + ")" for c in R["calls"])
        if not any(not e.startswith("(swap") for _, e in R["events"]):
            continue
        items = " ".join(e if e.startswith("(swap") else str(t) for t, e in R["events"])
        rep = drv.ask(f"GENRUN 0 {graph_sx(R['nodes'])} ({calls}) (upto ({items}) 64)")
        m = re.match(r"\(ok \(((?:\(\d(?: \(\d+ \w+\))*\) ?)*)\) \((.*?)\) \(((?:\([^()]*\) ?)*)\) "
                     r"\(((?:\d+ ?|\(swap \d+ \([\d ]*\)\) ?)*)\) \(((?:\(\d+ (?:absent|\([\d ]*\))\) ?)*)\) ([01])\)$", rep)
        if not m:
            raise lean.InfraError("unexpected GENRUN upto reply: " + rep[:300])
        threads = re.findall(r"\((\d)((?: \(\d+ \w+\))*)\)", m.group(1))
        model_acc = re.findall(r"\([^()]*\)", m.group(3))
        impl_acc = [f"({t} swap)" if e.startswith("(swap") else e for t, e in R["events"]]
        model_views = [v if v == "absent" else "(" + " ".join(map(str, sorted(map(int, v[1:-1].split())))) + ")"
                       for v in re.findall(r"\(\d+ (absent|\([\d ]*\))\)", m.group(5))]
        chk.note(f"gensched:{d}", f"gensched-accesses:{min(len(impl_acc) // 50 * 50, 400)}+")
        if nthreads > 1 and len({t for t, _ in R["events"]}) > 1:
            sw = sum(1 for a, b in zip(R["events"], R["events"][1:]) if a[0] != b[0])
            chk.note(f"gensched-interleaved:{'yes' if sw else 'no'}")
        if model_acc != impl_acc:
            k = next((i for i, (a, b) in enumerate(zip(model_acc, impl_acc)) if a != b), min(len(model_acc), len(impl_acc)))
            return (f"direction={d}: access #{k} of the observed interleaving: implementation {impl_acc[k:k + 3]} "
                    f"machine {model_acc[k:k + 3]} (after {impl_acc[max(0, k - 4):k]})")
        if m.group(6) != "0":
            return f"direction={d}: the machine deleted an absent attribute (fault) -- contradicts C19_slot_unobservable"
        if model_views != R["views"] and [v.replace("absent", "()") for v in model_views] == \
                [v.replace("absent", "()") for v in R["views"]]:
            # same members everywhere, but the implementation keeps an EMPTY set where the model deletes the attribute
            # (or the other way round): unobservable (C19_slot_unobservable), reported, not an alarm
            chk.note("gensched:slot-presence-differs-from-model")
            chk.unmodelled += 1
        elif model_views != R["views"]:
            k = next((i for i, (a, b) in enumerate(zip(model_views, R["views"])) if a != b), -1)
            return (f"direction={d}: attribute slot after access #{k} {impl_acc[k] if k >= 0 else ''}: implementation "
                    f"{R['views'][k] if k >= 0 else len(R['views'])}, machine {model_views[k] if k >= 0 else len(model_views)}")
        else:
            chk.note("gensched-slot-views-compared")
        for t in range(nthreads):
            fin, outs = threads[t]
            mo = re.findall(r"\(\d+ (\w+)\)", outs)
            mr = re.findall(r"\((\d+) \w+\)", outs)
            if fin != "1" or mo != R["outs"][t] or mr != [str(c) for c in R["calls"][t]]:
                return (f"direction={d} thread {t}: top-level dispatches {R['calls'][t]} ended {R['outs'][t]} in the "
                        f"implementation, machine: finished={fin} {list(zip(mr, mo))}")
        if resubmit:   # the expanded schedule through the plain `sched` form must give the same state (replay_is_sched)
            rep2 = drv.ask(f"GENRUN 0 {graph_sx(R['nodes'])} ({calls}) (sched ({m.group(4)}) 0)")   # ABSTRACT machine
            m2 = re.match(r"\(ok \(((?:\(\d(?: \(\d+ \w+\))*\) ?)*)\) \((.*)\)\)$", rep2)
            if not m2 or m2.group(1) != m.group(1) or m2.group(2) != m.group(2):
                raise lean.InfraError("GENRUN sched does not reproduce GENRUN upto: " + rep2[:200])
            chk.note("gensched:resubmitted-as-sched")
    return None


# ------------------------------------------------------------------------------------------------ SWAP

def gen_hier_graph(rng):
    """A small class hierarchy (K0 and descendants: the classes `include_subclasses` puts in the working set) whose
    members refer to each other, plus a few classes outside the hierarchy that refer into it."""
    nu = rng.randint(2, 4)
    kind = rng.choice(("attrs", "dc"))
    classes = []
    n = nu + rng.randint(0, 2)
    for i in range(n):
        inside = i < nu
        fields = []
        for f in range(rng.randint(1, 3)):
            r = rng.random()
            if r < 0.15:
                ty = rng.choice(("int", "str"))
            else:
                j = rng.randrange(nu) if rng.random() < 0.75 else rng.randrange(n)
                ty = [rng.choice(("ref", "ref", "list", "dict", "opt")), j]
            fields.append([f"c{i}f{f}", ty])
        c = {"kind": kind if inside else rng.choice(KINDS), "fields": fields}
        if inside and i > 0:
            c["base"] = rng.randrange(i)
        classes.append(c)
    # no TypedDict-only cycle (TypedDict structure hooks do not use the working set; see gen_graph)
    for c in classes:
        if c["kind"] == "td":
            for f in c["fields"]:
                if isinstance(f[1], list) and classes[f[1][1]]["kind"] == "td":
                    f[1][1] = rng.randrange(nu)
    return {"classes": classes, "union": nu}


def swap_check(drv, chk, rng):
    """corr:C19:SWAP -- the first pass of the real `include_subclasses(K0, converter, union_strategy=…)` (the only
    place where cattrs swaps the working set: every other member of the hierarchy is FORCED to late binding) against
    the refined generation machine with `swap` operations: accesses, answers, forced cycle detections, the attribute
    slot after every access (an EMPTY set stays in the slot afterwards: it is not deleted), and the whole
    working-set log against the thread-local log model."""
    from cattrs.strategies import configure_tagged_union, include_subclasses
    g = gen_hier_graph(rng)
    w = World(g)
    try:
        TRACE.start()
        try:
            include_subclasses(w.cls[0], w.conv, union_strategy=configure_tagged_union)
        except RecursionError:
            chk.note("swap:include_subclasses-raised-RecursionError")     # (after the first pass: findings F47/F48)
        except Exception as e:  # noqa: BLE001 - only the log of the first pass is used
            chk.note("swap:include_subclasses-raised-" + type(e).__name__)
        log = TRACE.stop()
        glog = TRACE.glog
    finally:
        TRACE.stop()
        w.close()
        try:                        # the main thread's slot now holds an empty set: leave no state behind
            del sys.modules["cattrs.gen._consts"].already_generating.working_set
        except AttributeError:
            pass
    case = {"graph": g, "calls": [], "policy": sched.PreemptPolicy([0], {}).to_json(), "source": graph_source(g), "swap": True}
    nswap = sum(1 for e in log if e[1] == "set" and e[3])
    forced = sum(1 for e in log if e[1] == "in" and e[4])
    chk.note(f"swap:swaps-with-members:{min(nswap, 4)}", f"swap:forced-cycle-detections:{min(forced, 6)}+")
    bad = wslog_check(drv, w, log)
    if bad:
        return "corr:C19:WSLOG (include_subclasses) " + bad, case
    bad = gensched_check(drv, chk, w, glog, {1000: 0}, resubmit=True, first_pass_only=True)
    if bad:
        return "corr:C19:SWAP " + bad, case
    return None


# ------------------------------------------------------------------------------------------------ runs

def sequential_reference(g, calls):
    w = World(g)
    try:
        TRACE.start()
        outs = []
        for mine in calls:
            out = []
            thread_fn(w, mine, out)()
            outs.append(out)
        log = TRACE.stop()
        w.glog = TRACE.glog
        return outs, log, w
    finally:
        TRACE.stop()


def concurrent_run(g, calls, policy, record_points=False, want=None):
    w = World(g)
    outs = [[] for _ in calls]
    S = sched.Scheduler(policy, want=want, record_points=record_points)
    w.option_drift = None

    def probe(tid):
        # converter options are constants of the model: whenever the token changes hands they must be what the
        # constructor made them (a factory that writes them "temporarily" exposes the other threads to them)
        if w.option_drift is None and option_view(w.conv) != w.options:
            w.option_drift = (tid, S.steps, [a for a, x, y in zip(OPTION_ATTRS, option_view(w.conv), w.options) if x != y])
    S.on_switch = probe
    try:
        TRACE.start()
        res = S.run([thread_fn(w, mine, outs[i]) for i, mine in enumerate(calls)])
        log = TRACE.stop()
        w.glog = TRACE.glog
    finally:
        TRACE.stop()
    if S.deadlock is None:
        for i, r in enumerate(res):
            if r is None or r[0] == "err":   # thread_fn catches Exception; anything else is the harness's problem
                raise lean.InfraError(f"worker {i} died: {r!r}")
        if option_view(w.conv) != w.options and w.option_drift is None:
            w.option_drift = (-1, S.steps, ["(after the run)"])
    return outs, log, w, S


def hang_check(g, calls, pol, want, first):
    """A run that did not end.  `first` = a deadlock description (exact: cooperative locks) or a SchedTimeout.
    The same schedule is run once more: a deadlock / hang that comes back is a property of the code (the sequential
    run of the same calls completed) -> description; otherwise None = the machine was slow (infrastructure)."""
    try:
        _, _, w2, S2 = concurrent_run(g, calls, pol, want=want)
        w2.close()
        again = S2.deadlock
    except sched.SchedTimeout as e:
        again = "no progress again" if getattr(e, "hung", False) else None
    if again is None:
        return None
    if isinstance(first, str):
        return "DEADLOCK (reproduced by re-running the schedule): " + first
    return "HANG (no scheduling point reached for %.0f s, twice, under the same schedule): %s" % (sched.Scheduler.HANG, first)


def first_diff(a, b):
    for t, (x, y) in enumerate(zip(a, b)):
        for k, (p, q) in enumerate(zip(x, y)):
            if p != q:
                return f"thread {t} call {k}: concurrent={str(p)[:160]} sequential={str(q)[:160]}"
        if len(x) != len(y):
            return f"thread {t}: {len(x)} results vs {len(y)}"
    return "different number of threads"


_CRIT = re.compile(r"working_set|already_generating|_direct_dispatch|cache_clear|dispatch\(|dispatch_without_caching|"
                   r"get_(un)?structure_hook|RecursionError|register_cls_list|resolve_types|setdefault|_single_dispatch")
_crit_cache = {}


def critical(fn, ln):
    lines = _crit_cache.get(fn)
    if lines is None:
        try:
            src = open(fn).read().split("\n")
        except OSError:
            src = []
        lines = {i + 1 for i, s in enumerate(src) if _CRIT.search(s)}
        _crit_cache[fn] = lines
    return ln in lines


def case_of(g, calls, policy):
    return {"graph": g, "calls": calls, "policy": policy.to_json(), "source": graph_source(g)}


def run(chk: framework.Check):
    rng = chk.rng
    drv = lean.Driver()
    quick = chk.tier == "quick"
    n_graphs = 60 if quick else 100
    n_sched = 16 if quick else 60
    budget = 100.0 if quick else 540.0      # safety net on an overloaded machine only; normally never reached
    total_points = total_sched = total_switch = 0
    t_conc = t_gensched = 0.0
    n_gensched = 0
    corr_fail = []          # (what, case) without an oracle failure on that very run
    oracle_failed = False
    empty_logs = 0
    t0 = time.time()
    graphs_done = 0
    for gi in range(n_graphs):
        if time.time() - t0 > budget:
            chk.note("stopped-by-time-budget")
            break
        g = gen_graph(rng)
        nthreads = rng.choice((2, 3, 3))
        calls = gen_calls(rng, g, nthreads)
        graphs_done += 1
        chk.note(f"threads:{nthreads}", f"classes:{len(g['classes'])}")
        for c in g["classes"]:
            chk.note("kind:" + c["kind"])
        # ---- sequential reference (oracle baseline) + its log against the model
        ref, log, w = sequential_reference(g, calls)
        bad = wslog_check(drv, w, log)
        w.close()
        if bad:
            corr_fail.append(("corr:C19:WSLOG (sequential run) " + bad, case_of(g, calls, sched.PreemptPolicy(range(nthreads), {}))))
        if not log and must_touch_working_set(g, calls):
            empty_logs += 1
        bad = gensched_check(drv, chk, w, w.glog, {1000: 0})
        if bad:
            corr_fail.append(("corr:C19:GENSCHED (sequential run) " + bad, case_of(g, calls, sched.PreemptPolicy(range(nthreads), {}))))
        for out in ref:
            for r in out:
                chk.note("seq-result:" + (r[1] if r[0] == "exc" else "ok"))
        # ---- generation machine against sequential generation
        bad = genrun_check(drv, chk, g, rng)
        if bad:
            corr_fail.append(("corr:C19:GENRUN " + bad, case_of(g, calls, sched.PreemptPolicy(range(nthreads), {}))))
        # ---- schedules
        policies = [sched.RandomPolicy(rng.getrandbits(48), rng.choice((0.003, 0.01, 0.02, 0.05, 0.15, 0.4))) for _ in range(n_sched)]
        if not quick and gi % 5 == 0:
            policies += preemption_bounded(g, calls, nthreads, rng, chk)
        # thorough: every 10th graph without the partial-order reduction (EVERY cattrs line is a scheduling point)
        want = sched.full_want if (not quick and gi % 10 == 3) else None
        if want is not None:
            chk.note("graph-with-unreduced-scheduling-points")
        for pi, pol in enumerate(policies):
            tc = time.time()
            case = case_of(g, calls, pol)
            try:
                outs, log, w, S = concurrent_run(g, calls, pol, want=want)
                stuck = S.deadlock
            except sched.SchedTimeout as e:
                if not getattr(e, "hung", False):
                    raise
                stuck = e
            if stuck is not None:
                what = hang_check(g, calls, pol, want, stuck)
                if what is None:
                    raise lean.InfraError(f"a schedule did not end once and ended when repeated: {stuck}")
                oracle_failed = True
                chk.violation("C19 oracle: the concurrent run never returns although the sequential run of the same calls "
                              "completes: " + what, case)
                if len(chk.violations) >= 3:
                    break
                continue
            t_conc += time.time() - tc
            w.close()
            total_points += S.steps
            total_switch += S.switches
            total_sched += 1
            key = repr((g, calls, pol.to_json()))
            chk.count(key, nontrivial=S.switches > 0,
                      sample={"source": graph_source(g), "threads": nthreads, "policy": pol.to_json(),
                              "scheduling_points": S.steps, "switches": S.switches, "ws_log_events": len(log)})
            chk.note("policy:" + pol.to_json()["kind"], f"switches:{min(S.switches // 50 * 50, 500)}+")
            if outs != ref:
                oracle_failed = True
                chk.violation("C19 oracle: concurrent results differ from the sequential run: " + first_diff(outs, ref), case)
                continue
            if w.option_drift is not None:
                corr_fail.append((f"corr:C19:OPTIONS thread {w.option_drift[0]} was descheduled at scheduling point "
                                  f"{w.option_drift[1]} while the converter options {w.option_drift[2]} differed from what the "
                                  "constructor set (the model treats them as constants; hooks other threads generate in "
                                  "that window are built for the wrong options)", case))
                chk.note("option-drift-observed")
            bad = wslog_check(drv, w, log)
            if bad:
                corr_fail.append(("corr:C19:WSLOG " + bad, case))
            if not log and must_touch_working_set(g, calls):
                empty_logs += 1
            tg = time.time()
            bad = gensched_check(drv, chk, w, w.glog, {i: i for i in range(nthreads)}, resubmit=(pi == 0))
            t_gensched += time.time() - tg
            n_gensched += 1
            if bad:
                corr_fail.append(("corr:C19:GENSCHED " + bad, case))
            if any(e[1] == "in" and e[4] for e in log):
                chk.note("schedule-with-cycle-detection")
        if chk.violations and len(chk.violations) >= 5:
            break
    # ---- the working-set swap of strategies/_subclasses.py (sequential; the only place cattrs swaps the set)
    n_swap = 0
    for _ in range(40 if quick else 200):
        if oracle_failed or time.time() - t0 > budget + 20:
            break
        r = swap_check(drv, chk, rng)
        n_swap += 1
        if r:
            corr_fail.append(r)
    chk.extra["swap_scenarios"] = n_swap
    # the state is no longer a threading.local / no access was observed although classes were generated
    if (not TRACE.is_local or empty_logs) and not oracle_failed:
        corr_fail.append((f"corr:C19:WSLOG the working-set log is EMPTY in {empty_logs} runs although hooks for classes were "
                          f"generated (already_generating is a tracing threading.local: {TRACE.is_local}): the "
                          "recursion-breaking state is no longer the thread-local the model describes", None))
    if corr_fail and not oracle_failed:
        # search harder for an input on which the property itself fails before reporting a bare correspondence break
        found = failing_input_search(chk, rng, corr_fail)
        if not found:
            for what, case in corr_fail[:3]:
                chk.violation("correspondence " + what + " (theorems C19_* no longer tied to the code)",
                              case if case is not None else {"graph": None}, found_input=False)
    chk.extra["rule"] = ("a case = (class graph, per-thread calls, schedule policy); non-trivial = the schedule "
                         "really switched threads at least once; distinct by (graph, calls, policy)")
    chk.extra["scheduling"] = {"graphs": graphs_done, "schedules": total_sched, "scheduling_points": total_points,
                               "thread_switches": total_switch,
                               "schedules_per_s": round(total_sched / max(t_conc, 1e-9), 1),
                               "points_per_s": round(total_points / max(t_conc, 1e-9)),
                               "gensched_replays": n_gensched, "gensched_seconds": round(t_gensched, 1),
                               "memo_tracing_installed": bool(TRACE.dwc_patched)}
    chk.assumptions = framework.TRUSTED_BASE + [
        "C19 is PARTIAL: interleavings are explored at statement (line-event) granularity inside cattrs source and "
        "cattrs-generated code; atomicity of single dict/set/lru_cache operations under the GIL is assumed",
        "the deterministic scheduler (harness/sched.py) and the tracing threading.local / set are trusted",
    ]
    print(f"C19: {graphs_done} graphs, {total_sched} schedules, {total_points} scheduling points, {total_switch} switches, "
          f"{total_sched / max(t_conc, 1e-9):.1f} schedules/s, {total_points / max(t_conc, 1e-9):.0f} points/s")
    drv.close()


def failing_input_search(chk, rng, corr_fail):
    """Correspondence is broken but no run violated the property yet: try harder (more graphs, aggressive schedules)."""
    t0 = time.time()
    cases = [c for _, c in corr_fail if c is not None and c.get("graph") and c.get("calls")]
    tries = 0
    while time.time() - t0 < 25 and tries < 400:
        tries += 1
        if cases and tries % 2:
            c = rng.choice(cases)
            g, calls = c["graph"], c["calls"]
        else:
            g = gen_graph(rng)
            calls = gen_calls(rng, g, 3)
        ref, _, w = sequential_reference(g, calls)
        w.close()
        pol = sched.RandomPolicy(rng.getrandbits(48), rng.choice((0.3, 0.6, 0.9)))
        outs, _, w, S = concurrent_run(g, calls, pol)
        w.close()
        if S.deadlock is not None:
            chk.violation("C19 oracle (found while searching after a broken correspondence): the concurrent run never "
                          "returns: DEADLOCK " + S.deadlock, case_of(g, calls, pol))
            return True
        if outs != ref:
            chk.violation("C19 oracle (found while searching after a broken correspondence: " + corr_fail[0][0][:300]
                          + "): concurrent results differ from the sequential run: " + first_diff(outs, ref), case_of(g, calls, pol))
            return True
    return False


def preemption_bounded(g, calls, nthreads, rng, chk, max_cands=14, cap=260):
    """All schedules with at most 2 preemptions at (a sample of) the critical scheduling points of a baseline run."""
    order = list(range(nthreads))
    base = sched.PreemptPolicy(order, {})
    _, _, w, S = concurrent_run(g, calls, base, record_points=True)
    w.close()
    cands = [(t, k) for t, k, fn, ln in S.points if critical(fn, ln)]
    if len(cands) > max_cands:
        step = len(cands) / max_cands
        cands = [cands[int(i * step)] for i in range(max_cands)]
    pols = []
    singles = [((t, k), j) for (t, k) in cands for j in range(nthreads) if j != t]
    for p, j in singles:
        pols.append(sched.PreemptPolicy(order, {p: j}))
    for a in range(len(singles)):
        for b in range(a + 1, len(singles)):
            (p1, j1), (p2, j2) = singles[a], singles[b]
            if p1 != p2:
                pols.append(sched.PreemptPolicy(order, {p1: j1, p2: j2}))
    if len(pols) > cap:
        pols = pols[:len(singles)] + rng.sample(pols[len(singles):], cap - len(singles))
    chk.note("preemption-bounded-graph")
    return pols


def replay(case):
    g, calls = case.get("graph"), case.get("calls")
    if not g:
        print("no concrete case stored (global correspondence failure): re-run ./check C19 quick")
        return 1
    print(graph_source(g))
    if case.get("swap"):
        return replay_swap(g)
    for t, mine in enumerate(calls):
        for c in mine:
            print(f"thread {t}: {'structure' if c['op'] == 's' else 'unstructure'} root={ty_src(c['root'])} "
                  + (f"payload={c['payload']!r}" if c["op"] == "s" else f"value={c['value']!r}"))
    pol = sched.policy_from_json(case["policy"])
    print("policy:", case["policy"])
    ref, _, w = sequential_reference(g, calls)
    w.close()
    outs, log, w, S = concurrent_run(g, calls, pol)
    if S.deadlock is not None:
        print("sequential:", ref)
        print("concurrent: DEADLOCK --", S.deadlock)
        return 1
    drv = lean.Driver()
    bad = wslog_check(drv, w, log)

    class _Chk:
        unmodelled = 0

        def note(self, *a):
            pass
    bad = bad or gensched_check(drv, _Chk(), w, w.glog, {i: i for i in range(len(calls))})
    drv.close()
    w.close()
    print(f"scheduling points={S.steps} switches={S.switches}")
    print("sequential:", ref)
    print("concurrent:", outs)
    print("oracle:", "holds" if outs == ref else "FAILS: " + first_diff(outs, ref))
    print("working-set log / observed interleaving vs model:", bad or ("agrees" if log else "EMPTY LOG (the working set is not the traced threading.local)"))
    return 0 if outs == ref and not bad else 1


def replay_swap(g):
    from cattrs.strategies import configure_tagged_union, include_subclasses

    class _Chk:
        unmodelled = 0

        def note(self, *a):
            pass
    w = World(g)
    TRACE.start()
    try:
        include_subclasses(w.cls[0], w.conv, union_strategy=configure_tagged_union)
    except Exception as e:  # noqa: BLE001
        print("include_subclasses raised", type(e).__name__)
    log = TRACE.stop()
    glog = TRACE.glog
    w.close()
    drv = lean.Driver()
    bad1 = wslog_check(drv, w, log)
    bad2 = gensched_check(drv, _Chk(), w, glog, {1000: 0}, first_pass_only=True)
    drv.close()
    print("working-set log vs model:", bad1 or "agrees")
    print("first pass of include_subclasses vs the generation machine with swaps:", bad2 or "agrees")
    return 0 if not bad1 and not bad2 else 1


if __name__ == "__main__":
    try:
        framework.main(run, "C19")
    except sched.SchedTimeout as e:  # pragma: no cover - framework.main exits itself
        print(f"INFRA-ERROR C19: {e}")
        sys.exit(2)
