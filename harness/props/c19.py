"""C19 -- a shared converter is thread-safe, including concurrent FIRST use of a type.   (partial: see below)

What runs (DESIGN 5/C19):
  * 2-3 REAL threads first-use overlapping deep / recursive / mutually recursive class graphs (attrs classes,
    dataclasses, TypedDicts, lists / dicts / Optionals of them, PEP 563 string annotations resolved lazily by
    cattrs) on ONE fresh converter with FRESH classes per schedule, under a deterministic cooperative scheduler
    (harness/sched.py: a scheduling point at every line event in cattrs source and cattrs-generated code).
  * Oracle (the property itself, on the implementation): per-thread results and exceptions equal those of a
    sequential reference run of the same calls.
  * Correspondence corr:C19:WSLOG -- every access to `already_generating.working_set` and to the set in it is
    logged in global order (tracing threading.local / tracing set, installed before cattrs is imported); the
    Lean model replays the log under thread-local semantics (`wsRun false`, theorem C19_projection) and must
    predict every logged answer.  An EMPTY log although classes were generated is a disagreement as well.
  * Correspondence corr:C19:GENRUN -- sequential hook generation (`get_structure_hook` / `get_unstructure_hook`)
    on the real converter enters / detects cycles / exits exactly as the Lean generation machine
    (`tstep`/`gstep`, theorems C19_no_false_cycle / C19_serialisable) does on the abstract graph.
Partial: interleavings are explored at statement (line-event) granularity, atomicity of single dict / set /
lru_cache operations under the GIL is assumed.
A scheduler timeout is an infrastructure error (exit 2), never a violation.
"""
from __future__ import annotations

import os
import sys

from harness import sched

TRACE = sched.install_tracing()  # BEFORE anything imports cattrs

import dataclasses  # noqa: E402
import linecache  # noqa: E402
import re  # noqa: E402
import time  # noqa: E402
import types  # noqa: E402

import attrs  # noqa: E402
from cattrs import Converter  # noqa: E402

from harness import framework, lean  # noqa: E402

KINDS = ("attrs", "dc", "td")
_mod_counter = [0]


# ------------------------------------------------------------------------------------------------ graphs

def gen_graph(rng):
    """A class graph: forward edges (i -> j>i) may be required direct references (depth); back / self edges go
    through list / dict / Optional (recursion).  Every cycle contains a non-TypedDict class: TypedDict structure
    hooks do not use the working set, a TypedDict-only cycle is broken by the interpreter's own recursion limit."""
    n = rng.randint(2, 5)
    kinds = [rng.choice(KINDS) for _ in range(n)]
    if all(k == "td" for k in kinds):
        kinds[0] = rng.choice(("attrs", "dc"))
    classes = []
    for i in range(n):
        fields = []
        nf = rng.randint(1, 3)
        for f in range(nf):
            r = rng.random()
            fwd = [j for j in range(i + 1, n)]
            back = [j for j in range(0, i + 1) if kinds[j] != "td"]
            if r < 0.2:
                ty = rng.choice(("int", "str"))
            elif r < 0.55 and fwd:
                ty = [rng.choice(("ref", "ref", "list", "dict", "opt")), rng.choice(fwd)]
            elif back:
                ty = [rng.choice(("list", "dict", "opt")), rng.choice(back)]
            elif fwd:
                ty = ["ref", rng.choice(fwd)]
            else:
                ty = "int"
            fields.append([f"f{f}", ty])
        classes.append({"kind": kinds[i], "fields": fields})
    # make sure the graph is connected enough to be deep: class i refers to i+1 with probability 0.7
    for i in range(n - 1):
        if rng.random() < 0.7 and not any(isinstance(t, list) and t[1] == i + 1 for _, t in classes[i]["fields"]):
            classes[i]["fields"].append([f"f{len(classes[i]['fields'])}", [rng.choice(("ref", "list", "opt")), i + 1]])
    return {"classes": classes}


def ty_src(t):
    if isinstance(t, str):
        return t
    k, j = t
    return {"ref": f"K{j}", "list": f"list[K{j}]", "dict": f"dict[str, K{j}]", "opt": f"Optional[K{j}]"}[k]


def graph_source(g):
    out = ["from __future__ import annotations", "import attrs, dataclasses", "from typing import Optional, TypedDict", ""]
    for i, c in enumerate(g["classes"]):
        if c["kind"] == "attrs":
            out.append("@attrs.define")
            out.append(f"class K{i}:")
        elif c["kind"] == "dc":
            out.append("@dataclasses.dataclass")
            out.append(f"class K{i}:")
        else:
            out.append(f"class K{i}(TypedDict):")
        for name, t in c["fields"]:
            out.append(f"    {name}: {ty_src(t)}")
        out.append("")
    return "\n".join(out)


class World:
    """Fresh realisation of a graph: a new module with new classes, and a new converter."""

    def __init__(self, g):
        _mod_counter[0] += 1
        self.name = f"c19_m{_mod_counter[0]}"
        self.mod = types.ModuleType(self.name)
        sys.modules[self.name] = self.mod
        exec(compile(graph_source(g), self.name, "exec"), self.mod.__dict__)
        self.g = g
        self.cls = [getattr(self.mod, f"K{i}") for i in range(len(g["classes"]))]
        self.ix = {id(c): i for i, c in enumerate(self.cls)}
        self.conv = Converter()

    def ty(self, t):
        if t == "int":
            return int
        if t == "str":
            return str
        k, j = t
        c = self.cls[j]
        import typing
        return {"ref": c, "list": list[c], "dict": dict[str, c], "opt": typing.Optional[c]}[k]

    def close(self):
        sys.modules.pop(self.name, None)
        for k in [k for k in linecache.cache if k.startswith("<cattrs generated") and self.name + "." in k]:
            linecache.cache.pop(k, None)


# ------------------------------------------------------------------------------------------------ values

def gen_value(rng, g, t, d, maxd=3):
    if t == "int":
        return rng.randint(-5, 50)
    if t == "str":
        return rng.choice(("", "a", "xy", "7"))
    k, j = t
    if k == "ref":
        c = g["classes"][j]
        return ["inst", j, [gen_value(rng, g, ft, d + 1, maxd) for _, ft in c["fields"]]]
    if k == "opt":
        if d >= maxd or rng.random() < 0.3:
            return None
        return gen_value(rng, g, ["ref", j], d, maxd)
    n = 0 if d >= maxd else rng.choice((0, 1, 1, 2))
    if k == "list":
        return ["list", [gen_value(rng, g, ["ref", j], d + 1, maxd) for _ in range(n)]]
    return ["dict", [[f"k{q}", gen_value(rng, g, ["ref", j], d + 1, maxd)] for q in range(n)]]


def realise(w, v):
    if v is None or isinstance(v, (int, str)):
        return v
    if v[0] == "inst":
        c = w.g["classes"][v[1]]
        vals = [realise(w, x) for x in v[2]]
        if c["kind"] == "td":
            return {n: x for (n, _), x in zip(c["fields"], vals)}
        return w.cls[v[1]](*vals)
    if v[0] == "list":
        return [realise(w, x) for x in v[1]]
    return {k: realise(w, x) for k, x in v[1]}


def encode(g, v):
    """The unstructured form (payload for structure calls), built without cattrs."""
    if v is None or isinstance(v, (int, str)):
        return v
    if v[0] == "inst":
        c = g["classes"][v[1]]
        return {n: encode(g, x) for (n, _), x in zip(c["fields"], v[2])}
    if v[0] == "list":
        return [encode(g, x) for x in v[1]]
    return {k: encode(g, x) for k, x in v[1]}


def corrupt(rng, p):
    """Damage a payload somewhere (wrong leaf type / missing key)."""
    if isinstance(p, dict) and p:
        k = rng.choice(sorted(p))
        if rng.random() < 0.4:
            q = dict(p)
            del q[k]
            return q
        return {kk: (corrupt(rng, vv) if kk == k else vv) for kk, vv in p.items()}
    if isinstance(p, list) and p:
        i = rng.randrange(len(p))
        return [corrupt(rng, x) if ii == i else x for ii, x in enumerate(p)]
    return "not-a-number" if not isinstance(p, str) or p != "not-a-number" else 12


def canon(x):
    """Canonical, class-identity-free form of a result (classes are fresh per run)."""
    if isinstance(x, BaseException):
        subs = getattr(x, "exceptions", None)
        if subs is not None:
            return ["exc", type(x).__name__, sorted((canon(e) for e in subs), key=repr)]
        return ["exc", type(x).__name__]
    if attrs.has(type(x)):
        return ["I", type(x).__name__, [[a.name, canon(getattr(x, a.name))] for a in attrs.fields(type(x))]]
    if dataclasses.is_dataclass(x) and not isinstance(x, type):
        return ["I", type(x).__name__, [[f.name, canon(getattr(x, f.name))] for f in dataclasses.fields(x)]]
    if isinstance(x, dict):
        return ["d", [[canon(k), canon(v)] for k, v in x.items()]]
    if isinstance(x, (list, tuple)):
        return ["l" if isinstance(x, list) else "t", [canon(e) for e in x]]
    if x is None or isinstance(x, (bool, int, float, str, bytes)):
        return [type(x).__name__, x if not isinstance(x, bytes) else x.hex()]
    return ["?", type(x).__name__]


# ------------------------------------------------------------------------------------------------ calls

def gen_calls(rng, g, nthreads):
    """Per thread a list of calls {op, root, value, payload}; roots overlap between threads."""
    n = len(g["classes"])
    calls = []
    for t in range(nthreads):
        mine = []
        for _ in range(rng.randint(1, 3)):
            j = rng.choice((0, 0, rng.randrange(n), rng.randrange(n)))
            root = [rng.choice(("ref", "ref", "ref", "list", "dict")), j]
            v = gen_value(rng, g, root, 0)
            op = rng.choice(("s", "u"))
            call = {"op": op, "root": root, "value": v}
            if op == "s":
                p = encode(g, v)
                if rng.random() < 0.15:
                    p = corrupt(rng, p)
                    call["corrupted"] = True
                call["payload"] = p
            mine.append(call)
        calls.append(mine)
    return calls


def do_call(w, call):
    if call["op"] == "u":
        return w.conv.unstructure(realise(w, call["value"]), w.ty(call["root"]))
    return w.conv.structure(call["payload"], w.ty(call["root"]))


def thread_fn(w, mine, out):
    def fn():
        for call in mine:
            try:
                out.append(canon(do_call(w, call)))
            except Exception as e:  # noqa: BLE001 - the exception IS the observable
                out.append(canon(e))
        return None
    return fn


# ------------------------------------------------------------------------------------------------ model side

def log_to_events(w, log):
    """Raw log -> WSLOG events and the answers the implementation gave."""
    evs, answers = [], []
    for tid, op, sid, cls, ans, _fn in log:
        c = w.ix.get(id(cls), 999) if cls is not None and not isinstance(cls, tuple) else None
        if op == "get":
            evs.append(f"({tid} get)")
            answers.append("attrErr" if ans == "attrErr" else f"(found {abs(sid) % 10**9})")
        elif op == "set":
            members = " ".join(str(w.ix.get(id(x), 999)) for x in cls)
            evs.append(f"({tid} set {abs(sid) % 10**9} ({members}))")
            answers.append("unit")
        elif op == "del":
            evs.append(f"({tid} del)")
            answers.append(ans)
        elif op == "in":
            evs.append(f"({tid} in {sid} {c})")
            answers.append("1" if ans else "0")
        elif op == "add":
            evs.append(f"({tid} add {sid} {c})")
            answers.append("unit")
        elif op == "rm":
            evs.append(f"({tid} rm {sid} {c})")
            answers.append(ans)
        elif op == "empty":
            evs.append(f"({tid} empty {sid})")
            answers.append("1" if ans else "0")
    return evs, answers


def split_answers(s):
    """'(ok (a (found 3) b))' -> ['a', '(found 3)', 'b']"""
    if not s.startswith("(ok (") or not s.endswith("))"):
        raise lean.InfraError("unexpected WSLOG reply: " + s[:200])
    body = s[5:-2]
    return re.findall(r"\([^()]*\)|[^\s()]+", body)


def wslog_check(drv, w, log):
    """Returns None if the model (thread-local semantics) predicts every logged answer, else a description."""
    evs, answers = log_to_events(w, log)
    if not evs:
        return None
    rep = drv.ask("WSLOG 0 (" + " ".join(evs) + ")")
    pred = split_answers(rep)
    if len(pred) != len(answers):
        raise lean.InfraError("WSLOG reply has wrong length")
    for i, (a, p) in enumerate(zip(answers, pred)):
        if a != p:
            return f"event #{i} {evs[i]} (in {log[i][5]}): implementation answered {a}, thread-local model predicts {p}"
    return None


def model_graph(g, direction):
    """Abstract node table of the type graph for one direction ('s' / 'u'); transcribes which factories use the
    working set, which catch RecursionError, which register direct, and which nested dispatches go through the cache."""
    n = len(g["classes"])
    ids = {}
    nodes = [None] * n

    def tid(t):
        if t[0] == "ref":
            return t[1]
        key = (t[0], t[1])
        if key not in ids:
            ids[key] = len(nodes)
            nodes.append(None)
            j = t[1]
            if direction == "u":
                node = {"list": (0, 0, 1, [(j, 0)]), "dict": (0, 0, 1, [(j, 0)]), "opt": (0, 0, 0, [(j, 1)])}[t[0]]
            else:
                node = {"list": (0, 1, 0, [(j, 1)]), "dict": (0, 0, 1, [(j, 0)]), "opt": (0, 0, 0, [])}[t[0]]
            nodes[ids[key]] = node
        return ids[key]

    for i, c in enumerate(g["classes"]):
        refs = [t for _, t in c["fields"] if not isinstance(t, str)]
        if c["kind"] == "td":
            if direction == "u":
                # typeddicts.make_dict_unstructure_fn: a first loop up to the first non-identity handler, then all
                edges = [(tid(t), 1) for t in refs[:1]] + [(tid(t), 1) for t in refs]
                nodes[i] = (1, 1, 0, edges)
            else:
                nodes[i] = (0, 1, 0, [(tid(t), 0) for t in refs])
        else:
            nodes[i] = (1, 1, 0, [(tid(t), 0) for t in refs])
    return nodes, tid


def graph_sx(nodes):
    return "(" + " ".join(f"({t} {c} {d} (" + " ".join(f"({j} {k})" for j, k in es) + "))" for t, c, d, es in nodes) + ")"


def genrun_check(drv, chk, g, rng):
    """Sequential generation only: the real converter against the Lean machine.  Returns None or a description."""
    for direction in ("s", "u"):
        nodes, tid = model_graph(g, direction)
        n = len(g["classes"])
        roots = [[rng.choice(("ref", "ref", "list", "dict", "opt")), rng.randrange(n)] for _ in range(rng.randint(1, 4))]
        w = World(g)
        try:
            TRACE.start()
            outcomes = []
            for r in roots:
                try:
                    (w.conv.get_structure_hook if direction == "s" else w.conv.get_unstructure_hook)(w.ty(r))
                    outcomes.append("ok")
                except RecursionError:
                    outcomes.append("rec")
            log = TRACE.stop()
            impl = []
            for _tid, op, _sid, cls, ans, _fn in log:
                if op == "in" and ans:
                    impl.append(f"(0 enter {w.ix.get(id(cls), 999)} rec)")
                elif op == "add":
                    impl.append(f"(0 enter {w.ix.get(id(cls), 999)} ok)")
                elif op == "rm":
                    impl.append(f"(0 exit {w.ix.get(id(cls), 999)} {'ok' if ans == 'unit' else 'key'})")
        finally:
            TRACE.stop()
            w.close()
        root_ids = " ".join(str(tid(r)) for r in roots)   # may add composite nodes: before graph_sx
        rep = drv.ask(f"GENRUN 0 {graph_sx(nodes)} (({root_ids})) (seq 20000)")
        m = re.match(r"\(ok \(\((\d)((?: \(\d+ \w+\))*)\)\) \((.*)\)\)$", rep)
        if not m:
            raise lean.InfraError("unexpected GENRUN reply: " + rep[:300])
        if m.group(1) != "1":
            chk.unmodelled += 1   # the machine ran out of fuel
            continue
        model_out = re.findall(r"\(\d+ (\w+)\)", m.group(2))
        model_tr = re.findall(r"\([^()]*\)", m.group(3))
        chk.note("genrun:" + direction, f"genrun-events:{min(len(impl) // 10 * 10, 50)}+")
        if model_tr != impl or model_out != outcomes:
            k = next((i for i, (a, b) in enumerate(zip(model_tr, impl)) if a != b), min(len(model_tr), len(impl)))
            return (f"direction={direction} roots={roots}: enter/exit trace differs at event {k}: impl="
                    f"{impl[k:k + 3]} model={model_tr[k:k + 3]} (outcomes impl={outcomes} model={model_out})")
    return None


# ------------------------------------------------------------------------------------------------ runs

def sequential_reference(g, calls):
    w = World(g)
    try:
        TRACE.start()
        outs = []
        for mine in calls:
            out = []
            thread_fn(w, mine, out)()
            outs.append(out)
        log = TRACE.stop()
        return outs, log, w
    finally:
        TRACE.stop()


def concurrent_run(g, calls, policy, record_points=False, want=None):
    w = World(g)
    outs = [[] for _ in calls]
    S = sched.Scheduler(policy, want=want, record_points=record_points)
    try:
        TRACE.start()
        res = S.run([thread_fn(w, mine, outs[i]) for i, mine in enumerate(calls)])
        log = TRACE.stop()
    finally:
        TRACE.stop()
    for i, r in enumerate(res):
        if r is None or r[0] == "err":   # thread_fn catches Exception; anything else is the harness's problem
            raise lean.InfraError(f"worker {i} died: {r!r}")
    return outs, log, w, S


def first_diff(a, b):
    for t, (x, y) in enumerate(zip(a, b)):
        for k, (p, q) in enumerate(zip(x, y)):
            if p != q:
                return f"thread {t} call {k}: concurrent={str(p)[:160]} sequential={str(q)[:160]}"
        if len(x) != len(y):
            return f"thread {t}: {len(x)} results vs {len(y)}"
    return "different number of threads"


_CRIT = re.compile(r"working_set|already_generating|_direct_dispatch|cache_clear|dispatch\(|dispatch_without_caching|"
                   r"get_(un)?structure_hook|RecursionError|register_cls_list|resolve_types|setdefault|_single_dispatch")
_crit_cache = {}


def critical(fn, ln):
    lines = _crit_cache.get(fn)
    if lines is None:
        try:
            src = open(fn).read().split("\n")
        except OSError:
            src = []
        lines = {i + 1 for i, s in enumerate(src) if _CRIT.search(s)}
        _crit_cache[fn] = lines
    return ln in lines


def case_of(g, calls, policy):
    return {"graph": g, "calls": calls, "policy": policy.to_json(), "source": graph_source(g)}


def run(chk: framework.Check):
    rng = chk.rng
    drv = lean.Driver()
    quick = chk.tier == "quick"
    n_graphs = 60 if quick else 100
    n_sched = 16 if quick else 60
    budget = 100.0 if quick else 540.0      # safety net on an overloaded machine only; normally never reached
    total_points = total_sched = total_switch = 0
    t_conc = 0.0
    corr_fail = []          # (what, case) without an oracle failure on that very run
    oracle_failed = False
    empty_logs = 0
    t0 = time.time()
    graphs_done = 0
    for gi in range(n_graphs):
        if time.time() - t0 > budget:
            chk.note("stopped-by-time-budget")
            break
        g = gen_graph(rng)
        nthreads = rng.choice((2, 3, 3))
        calls = gen_calls(rng, g, nthreads)
        graphs_done += 1
        chk.note(f"threads:{nthreads}", f"classes:{len(g['classes'])}")
        for c in g["classes"]:
            chk.note("kind:" + c["kind"])
        # ---- sequential reference (oracle baseline) + its log against the model
        ref, log, w = sequential_reference(g, calls)
        bad = wslog_check(drv, w, log)
        w.close()
        if bad:
            corr_fail.append(("corr:C19:WSLOG (sequential run) " + bad, case_of(g, calls, sched.PreemptPolicy(range(nthreads), {}))))
        if not log:
            empty_logs += 1
        for out in ref:
            for r in out:
                chk.note("seq-result:" + (r[1] if r[0] == "exc" else "ok"))
        # ---- generation machine against sequential generation
        bad = genrun_check(drv, chk, g, rng)
        if bad:
            corr_fail.append(("corr:C19:GENRUN " + bad, case_of(g, calls, sched.PreemptPolicy(range(nthreads), {}))))
        # ---- schedules
        policies = [sched.RandomPolicy(rng.getrandbits(48), rng.choice((0.003, 0.01, 0.02, 0.05, 0.15, 0.4))) for _ in range(n_sched)]
        if not quick and gi % 5 == 0:
            policies += preemption_bounded(g, calls, nthreads, rng, chk)
        # thorough: every 10th graph without the partial-order reduction (EVERY cattrs line is a scheduling point)
        want = sched.full_want if (not quick and gi % 10 == 3) else None
        if want is not None:
            chk.note("graph-with-unreduced-scheduling-points")
        for pol in policies:
            tc = time.time()
            outs, log, w, S = concurrent_run(g, calls, pol, want=want)
            t_conc += time.time() - tc
            w.close()
            total_points += S.steps
            total_switch += S.switches
            total_sched += 1
            key = repr((g, calls, pol.to_json()))
            chk.count(key, nontrivial=S.switches > 0,
                      sample={"source": graph_source(g), "threads": nthreads, "policy": pol.to_json(),
                              "scheduling_points": S.steps, "switches": S.switches, "ws_log_events": len(log)})
            chk.note("policy:" + pol.to_json()["kind"], f"switches:{min(S.switches // 50 * 50, 500)}+")
            case = case_of(g, calls, pol)
            if outs != ref:
                oracle_failed = True
                chk.violation("C19 oracle: concurrent results differ from the sequential run: " + first_diff(outs, ref), case)
                continue
            bad = wslog_check(drv, w, log)
            if bad:
                corr_fail.append(("corr:C19:WSLOG " + bad, case))
            if not log:
                empty_logs += 1
            if any(e[1] == "in" and e[4] for e in log):
                chk.note("schedule-with-cycle-detection")
        if chk.violations and len(chk.violations) >= 5:
            break
    # the state is no longer a threading.local / no access was observed although classes were generated
    if (not TRACE.is_local or empty_logs) and not oracle_failed:
        corr_fail.append((f"corr:C19:WSLOG the working-set log is EMPTY in {empty_logs} runs although hooks for classes were "
                          f"generated (already_generating is a tracing threading.local: {TRACE.is_local}): the "
                          "recursion-breaking state is no longer the thread-local the model describes", None))
    if corr_fail and not oracle_failed:
        # search harder for an input on which the property itself fails before reporting a bare correspondence break
        found = failing_input_search(chk, rng, corr_fail)
        if not found:
            for what, case in corr_fail[:3]:
                chk.violation("correspondence " + what + " (theorems C19_* no longer tied to the code)",
                              case if case is not None else {"graph": None}, found_input=False)
    chk.extra["rule"] = ("a case = (class graph, per-thread calls, schedule policy); non-trivial = the schedule "
                         "really switched threads at least once; distinct by (graph, calls, policy)")
    chk.extra["scheduling"] = {"graphs": graphs_done, "schedules": total_sched, "scheduling_points": total_points,
                               "thread_switches": total_switch,
                               "schedules_per_s": round(total_sched / max(t_conc, 1e-9), 1),
                               "points_per_s": round(total_points / max(t_conc, 1e-9))}
    chk.assumptions = framework.TRUSTED_BASE + [
        "C19 is PARTIAL: interleavings are explored at statement (line-event) granularity inside cattrs source and "
        "cattrs-generated code; atomicity of single dict/set/lru_cache operations under the GIL is assumed",
        "the deterministic scheduler (harness/sched.py) and the tracing threading.local / set are trusted",
    ]
    print(f"C19: {graphs_done} graphs, {total_sched} schedules, {total_points} scheduling points, {total_switch} switches, "
          f"{total_sched / max(t_conc, 1e-9):.1f} schedules/s, {total_points / max(t_conc, 1e-9):.0f} points/s")
    drv.close()


def failing_input_search(chk, rng, corr_fail):
    """Correspondence is broken but no run violated the property yet: try harder (more graphs, aggressive schedules)."""
    t0 = time.time()
    cases = [c for _, c in corr_fail if c is not None and c.get("graph")]
    tries = 0
    while time.time() - t0 < 25 and tries < 400:
        tries += 1
        if cases and tries % 2:
            c = rng.choice(cases)
            g, calls = c["graph"], c["calls"]
        else:
            g = gen_graph(rng)
            calls = gen_calls(rng, g, 3)
        ref, _, w = sequential_reference(g, calls)
        w.close()
        pol = sched.RandomPolicy(rng.getrandbits(48), rng.choice((0.3, 0.6, 0.9)))
        outs, _, w, _ = concurrent_run(g, calls, pol)
        w.close()
        if outs != ref:
            chk.violation("C19 oracle (found while searching after a broken correspondence: " + corr_fail[0][0][:300]
                          + "): concurrent results differ from the sequential run: " + first_diff(outs, ref), case_of(g, calls, pol))
            return True
    return False


def preemption_bounded(g, calls, nthreads, rng, chk, max_cands=14, cap=260):
    """All schedules with at most 2 preemptions at (a sample of) the critical scheduling points of a baseline run."""
    order = list(range(nthreads))
    base = sched.PreemptPolicy(order, {})
    _, _, w, S = concurrent_run(g, calls, base, record_points=True)
    w.close()
    cands = [(t, k) for t, k, fn, ln in S.points if critical(fn, ln)]
    if len(cands) > max_cands:
        step = len(cands) / max_cands
        cands = [cands[int(i * step)] for i in range(max_cands)]
    pols = []
    singles = [((t, k), j) for (t, k) in cands for j in range(nthreads) if j != t]
    for p, j in singles:
        pols.append(sched.PreemptPolicy(order, {p: j}))
    for a in range(len(singles)):
        for b in range(a + 1, len(singles)):
            (p1, j1), (p2, j2) = singles[a], singles[b]
            if p1 != p2:
                pols.append(sched.PreemptPolicy(order, {p1: j1, p2: j2}))
    if len(pols) > cap:
        pols = pols[:len(singles)] + rng.sample(pols[len(singles):], cap - len(singles))
    chk.note("preemption-bounded-graph")
    return pols


def replay(case):
    g, calls = case.get("graph"), case.get("calls")
    if not g:
        print("no concrete case stored (global correspondence failure): re-run ./check C19 quick")
        return 1
    print(graph_source(g))
    for t, mine in enumerate(calls):
        for c in mine:
            print(f"thread {t}: {'structure' if c['op'] == 's' else 'unstructure'} root={ty_src(c['root'])} "
                  + (f"payload={c['payload']!r}" if c["op"] == "s" else f"value={c['value']!r}"))
    pol = sched.policy_from_json(case["policy"])
    print("policy:", case["policy"])
    ref, _, w = sequential_reference(g, calls)
    w.close()
    outs, log, w, S = concurrent_run(g, calls, pol)
    drv = lean.Driver()
    bad = wslog_check(drv, w, log)
    drv.close()
    w.close()
    print(f"scheduling points={S.steps} switches={S.switches}")
    print("sequential:", ref)
    print("concurrent:", outs)
    print("oracle:", "holds" if outs == ref else "FAILS: " + first_diff(outs, ref))
    print("working-set log vs model:", bad or ("agrees" if log else "EMPTY LOG (the working set is not the traced threading.local)"))
    return 0 if outs == ref and not bad else 1


if __name__ == "__main__":
    try:
        framework.main(run, "C19")
    except sched.SchedTimeout as e:  # pragma: no cover - framework.main exits itself
        print(f"INFRA-ERROR C19: {e}")
        sys.exit(2)
