"""CLASS-SHAPE stream of C20 (implementation-only oracle; the FieldConv model has neither class hierarchies, nor annotation
spellings, nor a notion of what kind of callable a field converter is).

The property quantifies over "every attrs field that declares a field-level converter K and a type T".  How the field got
its type and what K is made of are part of that quantifier:

* HIERARCHIES: the field may be INHERITED (attrs gives a subclass copies of its bases' Attribute objects), through 1-3 levels;
* ANNOTATION SPELLING per class of the hierarchy: real types, or strings (PEP 563 module / explicit forward reference) --
  a string annotation stays a string on the subclass's copies until that very class is resolved, so every configuration
  gets classes of its OWN (resolution happens in place, once per class; a class another converter already handled would
  hide an unresolved annotation);
* T may be wrapped in `Final[...]` or be BARE `Final` (then the field's type is `Final` itself, whose structure hook is the
  pass-through; with any kind of default -- a plain value whose class has a real hook, a Factory, none);
* K may be ANY callable: a function, a class, a functools.partial, a callable OBJECT -- including objects that are falsy
  (a callable look-up table that is empty, a zero-step pipeline, `__bool__` False): "declares a converter" is
  `converter is not None`, not truthiness.

Oracle = the three-way rule of the statement, the same formula for every field: K present: K(raw) when the flag is on or the
lookup for T finds no hook, else K(hook_T(raw)); no K: hook_T(raw); absent key: the default through K.  hook_T(raw) is
`ref.structure(raw, T)` on a FRESH converter of the same configuration (which never saw the class), T = the annotation
evaluated.  'A hook can be found for T' is a by-construction table checked against the implementation's lookup.
Falsy converters: judged on the generating Converter only; BaseConverter's `_structure_attribute` tests the converter by
truthiness on the unchanged tree (finding candidate `c20-falsy-converter-interpretive`; generated there only when recorded).
Not generated: the recorded F35 / F36 regions (unsupported type without converter; hooks that exist and fail inside), bare
`Final` without converter (dispatch on the default's class: outside the statement).
"""
import functools
import itertools
import os
import sys
from typing import Final, List, Optional  # noqa: F401  (names used by the realised annotations)

sys.path.insert(0, os.environ.get("CATTRS_SRC", "/repo/src"))

import attrs  # noqa: E402
from attrs import Factory, define, field  # noqa: E402,F401

from harness import framework  # noqa: E402
from cattrs import BaseConverter, Converter  # noqa: E402
from cattrs.errors import StructureHandlerNotFoundError  # noqa: E402
from cattrs.fns import raise_error  # noqa: E402

ERR = ("err",)
F_FALSY = "c20-falsy-converter-interpretive"
_uid = itertools.count()


class ShNoHook:
    def __repr__(self):
        return "<ShNoHook>"


@attrs.define
class ShArg:
    x: int


# annotation text -> (a hook can be found, raw values)
TYPES = {
    "int": (True, ["16", 3, "zz", None]), "float": (True, ["2.5", 1, "zz"]), "str": (True, [5, "s"]),
    "ShArg": (True, [{"x": "4"}, {"x": 1}, 7]), "List[int]": (True, [["1", 2], [], "zz"]), "Optional[int]": (True, ["2", None, "zz"]),
    "Final[int]": (True, ["16", 3, "zz"]), "Final[List[int]]": (True, [["1", 2], "zz"]),
    "Final": (True, ["16", 3, "zz", 2.5, {"x": "4"}]),
    "ShNoHook": (False, ["2", 7, None]), "Final[ShNoHook]": (False, ["2", 7]),
}
# defaults (source text) that make sense for a type
DEFAULTS = {
    "int": ["3"], "float": ["2.5"], "str": ["'s'"], "ShArg": ["ShArg(1)"], "List[int]": ["Factory(list)"], "Optional[int]": ["None", "4"],
    "Final[int]": ["3"], "Final[List[int]]": ["Factory(list)"], "Final": ["3", "2.5", "'s'", "ShArg(1)", "Factory(int)", "True"],
    "ShNoHook": ["None"], "Final[ShNoHook]": ["None"],
}


# ---- field converters: every kind tags its output
class Table(dict):
    """a look-up-table converter: callable, and falsy while it is empty"""

    def __init__(self, tag, entries=()):
        super().__init__(entries)
        self.tag = tag

    def __call__(self, v):
        try:
            return (self.tag, self.get(v, v))
        except TypeError:
            return (self.tag, v)


class Pipeline:
    """a pipeline of steps: callable; `len()` = number of steps"""

    def __init__(self, tag, steps):
        self.tag, self.steps = tag, list(steps)

    def __len__(self):
        return len(self.steps)

    def __call__(self, v):
        for s in self.steps:
            v = s(v)
        return (self.tag, v)


class Switch:
    def __init__(self, tag, truth):
        self.tag, self.truth = tag, truth

    def __bool__(self):
        return self.truth

    def __call__(self, v):
        return (self.tag, v)


def _fn(tag, v):
    return (tag, v)


KKINDS = {"function": False, "partial": False, "table-full": False, "pipeline-1": False, "switch-on": False,
          "table-empty": True, "pipeline-0": True, "switch-off": True}    # kind -> falsy?


def mk_conv(kind, tag):
    if kind == "function":
        return lambda v: (tag, v)
    if kind == "partial":
        return functools.partial(_fn, tag)
    if kind == "table-full":
        return Table(tag, {"never": 0})
    if kind == "table-empty":
        return Table(tag)
    if kind == "pipeline-1":
        return Pipeline(tag, [lambda v: v])
    if kind == "pipeline-0":
        return Pipeline(tag, [])
    return Switch(tag, kind == "switch-on")


CFGS = [{"gen": g, "detailed": d, "prefer": p} for g in (True, False) for p in (False, True) for d in (True, False)]


def cfg_name(c):
    return ("Converter" if c["gen"] else "BaseConverter") + ("/detailed" if c["detailed"] else "/fast") + ("/prefer" if c["prefer"] else "/noprefer")


def make_converter(c):
    return (Converter if c["gen"] else BaseConverter)(detailed_validation=c["detailed"], prefer_attrib_converters=c["prefer"])


def lookup_says(conv, t):
    try:
        h = conv.get_structure_hook(t, cache_result=False)
    except StructureHandlerNotFoundError:
        return "nohook"
    except Exception:  # noqa: BLE001
        return "raises"
    return "nohook" if h == raise_error else "hook"


def canon(v):
    if isinstance(v, ShArg):
        return "ShArg(%s)" % canon(v.x)
    if isinstance(v, (list, tuple)):
        return type(v).__name__ + "[" + ", ".join(canon(x) for x in v) + "]"
    if isinstance(v, dict):
        return "{" + ", ".join("%s: %s" % (canon(k), canon(x)) for k, x in v.items()) + "}"
    return "%s:%r" % (type(v).__name__, v)


# ---- abstract classes -> python
def gen_spec(rng, ci):
    """{"levels": [[field, ...] per class of the hierarchy, base first], "strann": [bool per level]};
    field = {"name", "ann", "conv": kind | None, "dflt": source text | None}"""
    n_levels = rng.choice([1, 2, 2, 2, 3])
    names = iter("abcdefgh")
    tnames = sorted(TYPES)
    # falsy converter objects in a third of the classes (such a class is judged on the generating Converter only)
    kinds = sorted(KKINDS) if rng.random() < 0.33 else sorted(k for k, falsy in KKINDS.items() if not falsy)
    levels = []
    for lv in range(n_levels):
        n = rng.choice([0, 1, 2]) if lv > 0 else rng.choice([1, 2, 3])
        fs = []
        for i in range(n):
            ann = tnames[(ci // 2) % len(tnames)] if (lv == 0 and i == 0) else rng.choice(tnames)   # every type leads some class
            kind = rng.choice(kinds) if (ci % 2 == 0 if (lv == 0 and i == 0) else rng.random() < 0.6) else None
            if kind is None and (not TYPES[ann][0] or ann == "Final"):
                kind = "function"     # F35 region / bare Final without converter: not generated
            dflt = rng.choice(DEFAULTS[ann]) if rng.random() < 0.55 else None
            fs.append({"name": next(names), "ann": ann, "conv": kind, "dflt": dflt})
        levels.append(fs)
    return {"levels": levels, "strann": [rng.random() < 0.5 for _ in levels]}


PLACEMENTS = {"own": ([False], 0), "own-string": ([True], 0), "inherited": ([False, False], 0), "inherited-string-base": ([True, False], 0),
              "inherited-twice-string-base": ([True, False, False], 0), "inherited-string-mid": ([False, True, False], 1)}


def sweep_specs():
    """every type x every placement of the field in a hierarchy (own / inherited through 1-2 levels; the declaring class
    with real or string annotations, the structured class always with real ones or no fields of its own); converter kinds
    and defaults rotate; a second, converter-less int field sits in the most derived class in every other case"""
    n = 0
    kinds = sorted(KKINDS)
    for ann in sorted(TYPES):
        for pl, (strann, at) in PLACEMENTS.items():
            n += 1
            dfl = DEFAULTS[ann]
            f = {"name": "a", "ann": ann, "conv": kinds[n % len(kinds)], "dflt": dfl[(n // 2) % len(dfl)] if n % 2 else None}
            levels = [[] for _ in strann]
            levels[at].append(f)
            if n % 4 < 2 and len(levels) > 1:
                levels[-1].append({"name": "z", "ann": "int", "conv": None, "dflt": "0" if f["dflt"] else None})
            yield {"levels": levels, "strann": list(strann)}, pl


def flat(spec):
    return [f for lv in spec["levels"] for f in lv]


def realise(spec):
    """fresh classes from source text (annotations spelled as the spec says); returns the most derived class"""
    seen_default = False
    ns = {"__name__": __name__}
    ns.update({k: globals()[k] for k in ("define", "field", "Factory", "Final", "List", "Optional", "ShArg", "ShNoHook")})
    uid = next(_uid)
    src = []
    for li, (fs, strann) in enumerate(zip(spec["levels"], spec["strann"])):
        base = f"(SH{uid}_{li - 1})" if li else ""
        src.append(f"@define\nclass SH{uid}_{li}{base}:")
        for f in fs:
            args = []
            if f["conv"] is not None:
                ns["K_" + f["name"]] = mk_conv(f["conv"], "K" + f["name"])
                args.append("converter=K_" + f["name"])
            if f["dflt"] is not None:
                args.append("default=" + f["dflt"])
                seen_default = True
            elif seen_default:
                args.append("kw_only=True")
            ann = repr(f["ann"]) if strann else f["ann"]
            src.append(f"    {f['name']}: {ann} = field({', '.join(args)})")
        if not fs:
            src.append("    pass")
    exec(compile("\n".join(src), f"<c20 shapes {uid}>", "exec", dont_inherit=True), ns)
    return ns[f"SH{uid}_{len(spec['levels']) - 1}"]


def py_type(ann):
    return eval(ann, globals())  # noqa: S307


def expected_field(ref, c, f, present, raw):
    """the property statement for one field"""
    K = mk_conv(f["conv"], "K" + f["name"]) if f["conv"] is not None else None
    has_hook = TYPES[f["ann"]][0]
    try:
        if not present:
            if f["dflt"] is None:
                return ERR
            d = eval(f["dflt"], globals())  # noqa: S307
            d = d.factory() if isinstance(d, Factory) else d
            return K(d) if K is not None else d
        if K is not None:
            return K(raw) if (c["prefer"] or not has_hook) else K(ref.structure(raw, py_type(f["ann"])))
        return ref.structure(raw, py_type(f["ann"])) if has_hook else ERR
    except Exception:  # noqa: BLE001
        return ERR


@framework.finding(F_FALSY)
def _f_falsy(case):
    """interpretive path (BaseConverter) and a field converter that is a FALSY callable object: `_structure_attribute` tests
    `attrib_converter` by truthiness, so the field is treated as having no converter (flag on: K(hook(raw)); no hook for T:
    raises).  Recognised only when every field on which implementation and rule differ has a falsy converter."""
    if case.get("op") != "shape-oracle" or case["cfg"]["gen"]:
        return False
    diff = case.get("differing") or []
    fl = {f["name"]: f for f in flat(case["spec"])}
    return bool(diff) and all(fl[n]["conv"] is not None and KKINDS[fl[n]["conv"]] for n in diff)


def check_table(chk, stats):
    for gen_conv in (True, False):
        conv = make_converter({"gen": gen_conv, "detailed": True, "prefer": False})
        for ann, (want, _) in TYPES.items():
            got = lookup_says(conv, py_type(ann))
            chk.note("shapes:lookup:" + got)
            if got != ("hook" if want else "nohook"):
                stats["oracle_fail"] += 1
                chk.violation(f"C20 oracle precondition (class-shape stream): hook lookup for {ann} on a "
                              f"{'Converter' if gen_conv else 'BaseConverter'} answers {got}, expected {'hook' if want else 'nohook'}",
                              {"op": "shape-kind", "type": ann, "gen": gen_conv})


def describe(spec):
    out = []
    for li, (fs, s) in enumerate(zip(spec["levels"], spec["strann"])):
        out.append(f"L{li}{'(string annotations)' if s else ''}[" + "; ".join(
            f"{f['name']}: {f['ann']}" + (f" conv={f['conv']}" if f["conv"] else "") + (f" default={f['dflt']}" if f["dflt"] else "")
            for f in fs) + "]")
    return " <- ".join(out)


def one(spec, c, payload):
    """-> (impl outcome text, rule outcome text, names of the fields on which they differ)"""
    fields = flat(spec)
    cl = realise(spec)          # classes of this configuration's own: nothing resolved their annotations yet
    conv = make_converter(c)
    try:
        inst = conv.structure(dict(payload), cl)
        got = {f["name"]: canon(getattr(inst, f["name"])) for f in fields}
    except Exception:  # noqa: BLE001
        got = None
    ref = make_converter(c)
    per = {f["name"]: expected_field(ref, c, f, f["name"] in payload, payload.get(f["name"])) for f in fields}
    want = None if any(v is ERR for v in per.values()) else {k: canon(v) for k, v in per.items()}

    def txt(o):
        return "err" if o is None else "ok " + " ".join(f"{k}={v}" for k, v in o.items())
    if got is None or want is None:
        # a whole-call error does not say which field raised: rule fails -> the fields the rule fails on; implementation
        # fails -> the fields of the recorded falsy-converter region that may raise there though the rule does not (no hook for T; flag on), else all
        differing = [] if got == want else ([k for k, v in per.items() if v is ERR] or [
            f["name"] for f in fields if f["conv"] and KKINDS[f["conv"]] and (c["prefer"] or not TYPES[f["ann"]][0])] or [f["name"] for f in fields])
    else:
        differing = [k for k in got if got[k] != want[k]]
    return txt(got), txt(want), differing


def run_shapes(chk, n_classes, stats):
    r = chk.rng
    check_table(chk, stats)
    known = {f["signature"] for f in chk.known}
    stats.setdefault("shapes", 0)
    specs = [(sp, "sweep:" + pl) for sp, pl in sweep_specs()] + [(gen_spec(r, ci), "random") for ci in range(n_classes)]
    for si, (spec, origin) in enumerate(specs):
        fields = flat(spec)
        desc = describe(spec)
        inherited_str = any(s and lv for s, lv in zip(spec["strann"][:-1], spec["levels"][:-1])) and not (spec["strann"][-1] and spec["levels"][-1])
        chk.note("shapes:" + origin)
        for k in range(2):
            if origin == "random":
                payload = {f["name"]: r.choice(TYPES[f["ann"]][1]) for f in fields if not (f["dflt"] is not None and r.random() < 0.3)}
            else:   # sweep: the raw values of the type in rotation (the first one is the value its hook changes)
                raws = TYPES[fields[0]["ann"]][1]
                payload = {fields[0]["name"]: raws[(si * k) % len(raws)]}
                payload.update({f["name"]: "7" for f in fields[1:]})
            for c in CFGS:
                falsy = any(f["conv"] and KKINDS[f["conv"]] for f in fields)
                if falsy and not c["gen"] and F_FALSY not in known:
                    chk.note("shapes:not-generated(falsy converter on the interpretive path: finding candidate)")
                    continue
                oi, oe, differing = one(spec, c, payload)
                chk.count("shapes|" + cfg_name(c) + "|" + desc + "|" + repr(payload), nontrivial=any(f["conv"] for f in fields),
                          sample={"cfg": cfg_name(c), "class": desc, "payload": repr(payload), "impl": oi[:200]})
                chk.note("shapes:levels:%d" % len(spec["levels"]), "shapes:outcome:" + oi[:2])
                if inherited_str:
                    chk.note("shapes:inherited-string-annotations,own-real")
                for f in fields:
                    chk.note("shapes:cell:%s/%s%s" % (f["ann"], f["conv"] or "noK", "/default" if f["dflt"] else ""))
                stats["shapes"] += 1
                if oi != oe:
                    stats["oracle_fail"] += 1
                    chk.violation(f"C20 oracle (class-shape stream): structuring {payload!r} as class {desc} gives {oi[:300]}, the documented "
                                  f"rule gives {oe[:300]} [{cfg_name(c)}; fresh classes, fresh converter]",
                                  {"op": "shape-oracle", "cfg": c, "spec": spec, "payload": repr(payload), "impl": oi, "expected": oe,
                                   "differing": differing})


def replay_shape(case):
    import ast
    if case.get("op") != "shape-oracle":
        print("class-shape stream precondition case:", case)
        return 1
    oi, oe, differing = one(case["spec"], case["cfg"], ast.literal_eval(case["payload"]))
    print("class  :", describe(case["spec"]))
    print("config :", cfg_name(case["cfg"]))
    print("payload:", case["payload"])
    print("impl   :", oi)
    print("rule   :", oe, " differing fields:", differing)
    return 1 if oi != oe else 0


if __name__ == "__main__":
    import random

    class _Chk:
        def __init__(self, seed, known=()):
            self.rng = random.Random(seed)
            self.known = [{"signature": s, "id": "F?"} for s in known]
            self.n = 0
            self.v = []

        def note(self, *a):
            pass

        def count(self, *a, **k):
            self.n += 1

        def violation(self, what, case, found_input=True):
            if not any(framework.FINDING_PREDICATES[f["signature"]](case) for f in self.known):
                self.v.append(what)

    import time
    t0 = time.time()
    ch = _Chk(int(sys.argv[1]) if len(sys.argv) > 1 else 0, sys.argv[3:])
    run_shapes(ch, int(sys.argv[2]) if len(sys.argv) > 2 else 60, {"oracle_fail": 0})
    for w in ch.v[:12]:
        print(w[:900])
    print("cases:", ch.n, "violations:", len(ch.v), "time: %.1fs" % (time.time() - t0))
