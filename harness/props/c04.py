"""C04 — detailed_validation changes only error reporting, never acceptance or results.

Correspondence: outcome (ok value / raised) of `structure(payload, T)` on real converters in both
validation modes == `stD` / `stF` of the model.  Oracle (implementation only): the two converters that
differ only in `detailed_validation` accept the same payloads with equal results, and creating the
hook for T succeeds in one mode exactly when it succeeds in the other.
"""
from __future__ import annotations

from harness import framework, gen, lean, streams, terms
from harness.datapath import Session, cfg_name, reply_canon, reply_kind, leaf_iterated

BASES = [
    {"gen": True, "tuple": False, "forbid": False},
    {"gen": True, "tuple": False, "forbid": True},
    {"gen": True, "tuple": True, "forbid": False},
    {"gen": False, "tuple": False, "forbid": False},
    {"gen": False, "tuple": True, "forbid": False},
]


def outcome(r):
    """('ok', canonical text) | ('err',) | ('unrep',)"""
    if r[0] == "ok":
        return ("ok", terms.canon_sx(r[1]))
    return (r[0],)


def hook_ok(S, cfg, ty):
    try:
        S.conv(cfg).get_structure_hook(S.R.ty(ty))
        return True
    except Exception:
        return False


def initfalse_payloads(chk, G, S, w, ty, base):
    """valid payload + the key of an `init=False` attribute (the generated dict hooks do not emit it, so an
    unstructure/structure round never carries it): with a value of the attribute's type and with junk"""
    if isinstance(ty, str) or ty[0] != "cls" or base[0] != "d":
        return []
    out = []
    for f in w["classes"][ty[1]]["fields"]:
        if f["init"] or any(k == ("s", f["name"]) for k, _ in base[1]):
            continue
        vals = [G.junk(w, 1)]
        if f["ty"] is not None:
            vals.append(G.value(w, f["ty"], 1, any_stable=True))
        for v in vals:
            p = ("d", list(base[1]) + [(("s", f["name"]), v)])
            try:
                pv, p2 = S.realise(p)
            except Exception:
                continue
            if not gen.lookalike_hazard(p2):
                out.append(("initfalse-key", p2, pv))
    return out


def run(chk: framework.Check):
    drv = lean.Driver()
    n_worlds = 400 if chk.tier == "quick" else 4000
    corr_fail = []
    for G, S, w in streams.worlds(chk, drv, n_worlds, unions=True, nt=True, coercible=True, enum_lits=True,
                                   map_targets=True, class_features=True):
        # "creating the hook for T succeeds in one mode exactly when in the other": every class of the world, not only
        # the ones the type stream happens to draw (hook creation is where template-specific generation code runs)
        for ci, c in enumerate(w["classes"]):
            cty = ({"td": "td", "nt": "nt"}.get(c["kind"], "cls"), ci)
            for base in BASES:
                cd, cf = dict(base, detailed=True), dict(base, detailed=False)
                if not gen.supported(cd, w, cty):
                    continue
                hd, hf = hook_ok(S, cd, cty), hook_ok(S, cf, cty)
                chk.note("class-hook-creation:" + ("both" if hd and hf else "neither" if not hd and not hf else "DIFFER"))
                if hd != hf:
                    chk.violation(f"C04 oracle: hook creation differs (detailed={hd}, fast={hf}) [{cfg_name(cd)} {terms.ty_sx(cty)}]",
                                  {"world": w, "cfg": cd, "ty": cty, "op": "genok"})
        if len(chk.violations) >= 8:
            break       # enough failing inputs recorded: stop exploring (a broken cattrs can also be arbitrarily slow)
        for ty, x, xv in streams.typed_values(chk, G, S, w, n_types=4, n_values=1):
            if S.stats.get("call-timeout"):
                chk.note("world-left-after-call-timeout")
                break
            has_union = bool(gen.reach_unions(w, ty))
            for base in BASES:
                cd = dict(base, detailed=True)
                cf = dict(base, detailed=False)
                if not gen.supported(cd, w, ty):
                    chk.note("unsupported-by-converter-class")
                    continue
                # oracle part 2: hook creation succeeds in both modes or in neither
                hd, hf = hook_ok(S, cd, ty), hook_ok(S, cf, ty)
                if hd != hf:
                    chk.violation(f"C04 oracle: hook creation differs (detailed={hd}, fast={hf}) [{cfg_name(cd)} {terms.ty_sx(ty)}]",
                                  {"world": w, "cfg": cd, "ty": ty, "op": "genok"})
                    continue
                u = S.impl_un(cd, ty, x, x=xv)
                if u[0] != "ok":
                    chk.note("unstructure-failed(skipped)")
                    continue
                plist = list(streams.payloads(chk, G, S, w, u[1]))
                plist += initfalse_payloads(chk, G, S, w, ty, u[1])
                plist += list(streams.validator_payloads(chk, G, S, w, ty, u[1]))
                # missing parts at every depth (a nested class / TypedDict payload short of a key: the inner hook fails
                # with the exception class the templates themselves use for absent keys)
                plist += streams.deep_missing_key_payloads(chk, G, S, w, cd, ty, u[1])
                for kind, p, pv in plist:
                    rd = S.impl_st(cd, ty, p, payload=pv)
                    rf = S.impl_st(cf, ty, p, payload=pv)
                    case = {"world": w, "cfg": cd, "ty": ty, "payload": p}
                    key = cfg_name(base | {"detailed": False}) + terms.ty_sx(ty) + terms.canon_sx(p)
                    chk.count(key, nontrivial=not isinstance(ty, str),
                              sample={"cfg": cfg_name(cd), "type": terms.ty_sx(ty), "payload": terms.canon_sx(p),
                                      "detailed": outcome(rd)[0], "fast": outcome(rf)[0]})
                    chk.note("payload:" + kind, "outcome:" + outcome(rd)[0], "cfg:" + cfg_name(cf),
                             "ty:" + (ty if isinstance(ty, str) else ty[0]))
                    if has_union:
                        chk.note("union-reachable:" + kind + ":" + outcome(rd)[0])
                    if gen.has_enum_lit(w, ty):
                        chk.note("literal-with-enum-members-reachable:" + kind + ":" + outcome(rd)[0])
                    od, of = outcome(rd), outcome(rf)
                    if "unrep" in (od[0], of[0]):
                        if od[0] != of[0]:
                            chk.violation(f"C04 oracle: one mode returns an object outside the universe [{cfg_name(cd)} {terms.ty_sx(ty)} {terms.canon_sx(p)}]", case)
                        continue
                    if od != of:
                        chk.violation(
                            f"C04 oracle: modes disagree: detailed={od} fast={of} [{cfg_name(cd)} {terms.ty_sx(ty)} {terms.canon_sx(p)}]",
                            case)
                        continue
                    # correspondence (both modes)
                    for cfg, ri in ((cd, rd), (cf, rf)):
                        rm = S.model_st(cfg, ty, p)
                        km = reply_kind(rm)
                        if leaf_iterated(w, cfg, ty, p):
                            # a str / bytes payload at an iterating position (iterated into characters / ints)
                            chk.note("str-bytes-iterated:" + ("unmodelled" if km == "unmodelled" else "compared:" + outcome(ri)[0]))
                        if km == "unmodelled":
                            chk.unmodelled += 1
                            continue
                        oi = outcome(ri)
                        om = ("ok", reply_canon(rm)) if km == "ok" else ("err",)
                        if oi != om:
                            corr_fail.append((dict(case, cfg=cfg), oi, rm))
    for case, oi, rm in corr_fail[:5]:
        chk.violation(
            f"correspondence corr:C04:ST broken (theorem C04_modes_agree no longer tied to the code): impl={oi} model={rm[:300]} "
            f"[{cfg_name(case['cfg'])} {terms.ty_sx(case['ty'])} {terms.canon_sx(case['payload'])}]",
            case, found_input=False)
    chk.extra["rule"] = ("random worlds x types x {valid, mutated, junk} payloads x {Converter dict/dict+forbid/tuple, BaseConverter dict/tuple}, "
                         "each structured in both validation modes; non-trivial = non-leaf type; distinct by canonical text")
    # implementation-only extended stream (unions, NamedTuples, registry hooks, one-shot iterables)
    from harness import ext
    ext.run_c04(chk, 150 if chk.tier == "quick" else 1500)
    # implementation-only: hooks built with generator options (use_alias, include_init_false, override(omit=False / rename))
    ext.run_genopts(chk, 300 if chk.tier == "quick" else 3000, "C04")
    # implementation-only: use -> register (func / factory / strategy APIs) -> use histories on twin converters
    ext.run_c04_histories(chk, 60 if chk.tier == "quick" else 600)
    # implementation-only: @define(init=False) classes with a hand-written __init__ (finding region noted, see the stream)
    ext.run_custom_init(chk, 40 if chk.tier == "quick" else 400)
    # implementation-only: Literal[...] over members of mix-in enums, position-wise equal literals in one process
    ext.run_enum_literals(chk, 25 if chk.tier == "quick" else 250, "C04")
    drv.close()


def replay(case):
    drv = lean.Driver()
    case = terms.case_from_json(case)
    S = Session(drv, case["world"])
    base = dict(case["cfg"])
    cd, cf = dict(base, detailed=True), dict(base, detailed=False)
    if case.get("op") == "genok":
        print("hook creation detailed:", hook_ok(S, cd, case["ty"]), " fast:", hook_ok(S, cf, case["ty"]))
        return 1 if hook_ok(S, cd, case["ty"]) != hook_ok(S, cf, case["ty"]) else 0
    rd = S.impl_st(cd, case["ty"], case["payload"])
    rf = S.impl_st(cf, case["ty"], case["payload"])
    print("type   :", terms.ty_sx(case["ty"]), "\npayload:", terms.canon_sx(case["payload"]))
    print("detailed:", outcome(rd), repr(rd[1])[:300] if rd[0] == "err" else "")
    print("fast    :", outcome(rf), repr(rf[1])[:300] if rf[0] == "err" else "")
    print("model detailed:", S.model_st(cd, case["ty"], case["payload"]))
    print("model fast    :", S.model_st(cf, case["ty"], case["payload"]))
    return 1 if outcome(rd) != outcome(rf) else 0


if __name__ == "__main__":
    framework.main(run, "C04")
