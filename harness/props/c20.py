"""C20 — attrs field converters compose with structure hooks as documented (`prefer_attrib_converters`).

Cases: attrs classes (<= 5 fields, every order) whose fields are drawn from the grid
  {typed (a type both converter classes support), untyped, unsup (a class without any structure hook),
   partial (Optional[<class without hook>]: the hook exists and raises StructureHandlerNotFoundError inside),
   broken (a class whose registered hook factory raises ValueError; required fields only)}
  x {no converter, converter K} x {required, default};
every cell of the grid is additionally enumerated as a one-field class in every run.  K *tags* its output
(`K(x) == (tag, x)`), so the structured instance shows whether K ran and on what (raw value vs hook result);
K kinds: `tag` (total), `boom` (raises on "boom"), `needint` (raises unless given an int).
Configurations: {Converter, BaseConverter} x prefer_attrib_converters x detailed_validation x {dict, tuple
strategy} (+ the legacy `structure_fallback_factory=lambda _: raise_error`).

Implementation observable I: outcome of `conv.structure(payload, Cls)`: the field values of the instance, or "raised".
Oracle P (written from the property statement, evaluated on the implementation only): field by field,
  converter K, flag off: K(hook_T(raw)) when T has a hook (hook_T(raw) := conv.structure(raw, T) on the same
  converter), K(raw) when untyped or T has no hook; flag on: K(raw); no converter: hook_T(raw) / raw / raise when T
  has no hook; key absent: the default through K, or raise; any failing field fails the call.
Model observable M: the Lean driver op FIELDCONV (FieldConv/Model.lean) on the same abstract class and payload.
Known findings recognised narrowly (everything else alarms): F35 `c20-eager-unsupported-default`,
F36 `c20-inner-shnf-swallowed`; their witnesses are grid cells and are therefore replayed on every run.

GENERIC STREAM (implementation-only oracle; the FieldConv model has no type parameters): generic attrs classes
`GB[T, U]` whose fields are typed T / list[T] / Optional[T] / dict[str, T] / tuple[T, int] / list[Optional[T]] x
{no converter, K} x {required, default}, structured through a parametrisation `GB[a, b]`.  The T of the property is
the SUBSTITUTED field type: the oracle is the same three-way rule with `hook_T := conv.structure(raw, shape(a))`.
(`find_structure_handler` receives both the attribute and the substituted type.)

WRAPPER / ROUTE STREAM (implementation-only oracle): one-to-three-field classes whose field types are WRAPPERS --
NewType, NewType of NewType, Annotated, Annotated[NewType], a PEP 695 alias, Optional, list -- around a supported type
(int, str, an attrs class) or around a class without any hook, with / without K; the class hook is obtained by every
public ROUTE: converter dispatch, `make_dict_structure_fn(cl, conv)`, `make_dict_structure_fn_from_attrs(fields, cl,
conv)` (called directly, or registered on the converter and used through `conv.structure`), each with
`_cattrs_prefer_attrib_converters` left at its default ("from_converter"), True and False; on converters constructed
directly and on COPIES whose flags were overridden in both directions (`Converter(prefer=not p).copy(prefer_attrib_
converters=p)`).  The effective flag is the explicit argument, else the converter's.  "A hook can be found for T" is
read as in the main stream (the lookup for T itself succeeds) from a by-construction table that is checked against
the implementation's lookup; combinations inside the recorded F36 region (a hook that exists and fails inside:
Optional / list of an unsupported class; NewType of one on BaseConverter) are not generated.

REFERENCE-CYCLE STREAM (`run_cycles`; oracle computed by the harness itself + model op FIELDCYCLE): cycles of 1-3 attrs classes
whose `link` field wraps the next class (bare, Final, Annotated, NewType, PEP 695 alias, Dict / Mapping / List / Sequence /
Tuple / Optional / `C | None` / Dict[str, List[C]] / ...), with or without K; every class of the cycle as the entry point, on
fresh converters and on one shared by all entries.  While a class hook is generated the lookup for such a type ends in a
RecursionError: that is NOT "no hook can be found" -- the value is K(hook_T(raw)) (Lean: `Disp.cycle`, `C20_rule_cycle`).

REGISTRATION-HISTORY STREAM (`run_history`; oracle computed from the history + model op FIELDHIST): ONE converter is used,
configured further (register_structure_hook / _func / _factory for plain classes HT0-2, second versions, copy()) and used again,
always starting with a use before any registration; the rule holds under the registrations made SO FAR
(Lean: FieldConv/History.lean, `C20_history_current`: the handler choice is a function of the current registrations).

CLASS-SHAPE STREAM (`harness/props/c20_shapes.py`, implementation-only oracle): HOW the field got its type and WHAT the converter
is made of: fields inherited through 1-3 levels; every class of the hierarchy with real or string annotations (fresh classes
per configuration: string annotations are resolved in place, once per class); `Final[T]` and bare `Final` (any kind of
default); K a function / partial / callable object, also a FALSY callable object.  Same three-way rule, hook_T(raw) on a
fresh converter of the same configuration.
"""
from __future__ import annotations

import itertools
import json
import os
import random as _random
import sys
from typing import Optional

sys.path.insert(0, os.environ.get("CATTRS_SRC", "/repo/src"))

import attrs  # noqa: E402

from harness import framework, gen, lean, terms  # noqa: E402
from harness.datapath import Session, prune_linecache  # noqa: E402  (imports cattrs from CATTRS_SRC)
from harness.realise import Unrepresentable  # noqa: E402

from cattrs import BaseConverter, Converter, UnstructureStrategy  # noqa: E402
from cattrs.errors import StructureHandlerNotFoundError  # noqa: E402
from cattrs.fns import raise_error  # noqa: E402

from harness.props.c20_shapes import _f_falsy as _f74_shapes, replay_shape, run_shapes  # noqa: E402

_uid = itertools.count()
ERR = ("err",)


class NoHook:
    """A class for which neither converter class has a structure hook."""

    def __repr__(self):
        return "<NoHook>"


class Broken:
    """A class whose structure hook *factory* (registered on every converter below) raises ValueError: the lookup
    of a hook raises something other than StructureHandlerNotFoundError.  Outside the property text; generated only
    without default (with one it would be the eager-creation disagreement F35 again) so that every code path must
    raise - unless the flag makes the converter win before any lookup."""


def _broken_factory(t):
    raise ValueError("hook factory raises")


TKS = ["typed", "untyped", "unsup", "partial", "broken"]
KKINDS = ["tag", "boom", "needint"]
NAMES = ["a", "b", "c", "d", "e"]


# ------------------------------------------------------------------ field converters (K tags its output)
class FalsyK:
    """a field converter that is a callable OBJECT whose truth value is False (an empty callable container)"""

    def __init__(self, fn):
        self.fn = fn

    def __call__(self, x):
        return self.fn(x)

    def __len__(self):
        return 0


FALSY = "~falsy"     # suffix of a converter kind: the same converter as a falsy callable object (wire: `(kf kind tag)`)


def is_falsy(f):
    return f["conv"] is not None and f["conv"][0].endswith(FALSY)


def mk_conv(kind, tag):
    if kind.endswith(FALSY):
        return FalsyK(mk_conv(kind[:-len(FALSY)], tag))
    if kind == "tag":
        def k_tag(x):
            return (tag, x)
        return k_tag
    if kind == "boom":
        def k_boom(x):
            if type(x) is str and x == "boom":
                raise ValueError("boom")
            return (tag, x)
        return k_boom
    if kind == "needint":
        def k_needint(x):
            if type(x) is not int:
                raise TypeError("need an int")
            return (tag, x)
        return k_needint
    raise ValueError(kind)


# ------------------------------------------------------------------ configurations
def all_cfgs(legacy=(False, True)):
    return [{"gen": g, "tuple": t, "detailed": d, "prefer": p, "legacy": l}
            for l in legacy for g in (True, False) for t in (False, True) for p in (False, True) for d in (True, False)]


def cfg_name(c):
    return ("Converter" if c["gen"] else "BaseConverter") + ("/tuple" if c["tuple"] else "/dict") + (
        "/detailed" if c["detailed"] else "/fast") + ("/prefer" if c["prefer"] else "/noprefer") + (
        "/legacy-fallback" if c["legacy"] else "")


def cfg_key(c):
    return (c["gen"], c["tuple"], c["detailed"], c["prefer"], c["legacy"])


def make_converter(c):
    kw = {"unstruct_strat": UnstructureStrategy.AS_TUPLE if c["tuple"] else UnstructureStrategy.AS_DICT,
          "detailed_validation": c["detailed"], "prefer_attrib_converters": c["prefer"]}
    if c["legacy"]:
        kw["structure_fallback_factory"] = lambda _: raise_error
    conv = (Converter if c["gen"] else BaseConverter)(**kw)
    conv.register_structure_hook_factory(lambda t: t is Broken, _broken_factory)
    return conv


def fcfg_sx(c):
    return "(fcfg %d %d %d %d %d)" % (c["gen"], c["tuple"], c["detailed"], c["prefer"], c["legacy"])


# ------------------------------------------------------------------ abstract classes -> wire / python
def ff_sx(f):
    tk = f["tk"]
    ty = {"untyped": "-", "unsup": "unsup", "partial": "optunsup", "broken": "broken"}.get(tk) or "(ty %s)" % terms.ty_sx(f["ty"])
    conv = "-" if f["conv"] is None else ("(kf %s %s)" % (f["conv"][0][:-len(FALSY)], terms.esc(f["conv"][1])) if is_falsy(f)
                                          else "(k %s %s)" % (f["conv"][0], terms.esc(f["conv"][1])))
    dflt = "-" if f["dflt"] is None else "(c %s)" % terms.obj_sx(f["dflt"])
    return "(ff %s %s %s %s)" % (terms.esc(f["name"]), ty, conv, dflt)


def fields_sig(fields):
    return " ".join(ff_sx(f) for f in fields)


class World:
    """One realised world with its converters; classes are built on demand."""

    def __init__(self, drv, w):
        self.S = Session(drv, w)
        self.w = w
        self.wsx = terms.world_sx(w)
        self.convs = {}

    def conv(self, c):
        k = cfg_key(c)
        if k not in self.convs:
            self.convs[k] = make_converter(c)
        return self.convs[k]

    def py_type(self, f):
        tk = f["tk"]
        if tk == "typed":
            return self.S.R.ty(f["ty"])
        if tk == "unsup":
            return NoHook
        if tk == "partial":
            return Optional[NoHook]
        if tk == "broken":
            return Broken
        return None

    def make_class(self, fields):
        flds = {}
        for f in fields:
            kw = {}
            t = self.py_type(f)
            if t is not None:
                kw["type"] = t
            if f["conv"] is not None:
                kw["converter"] = mk_conv(*f["conv"])
            if f["dflt"] is not None:
                kw["default"] = self.S.R.val(f["dflt"])
            if f.get("kw_only"):
                kw["kw_only"] = True
            flds[f["name"]] = attrs.field(**kw)
        return attrs.make_class("FC%d" % next(_uid), flds)


def fix_kw_only(fields):
    """attrs forbids a mandatory positional attribute after a defaulted one: make it keyword-only
    (any order of the grid cells is then a legal class)."""
    seen_default = False
    for f in fields:
        f["kw_only"] = False
        if f["dflt"] is not None:
            seen_default = True
        elif seen_default:
            f["kw_only"] = True
    return fields


# ------------------------------------------------------------------ implementation, oracle, model
def impl_outcome(W, conv, cl, fields, payload_py):
    try:
        inst = conv.structure(payload_py, cl)
    except Exception as e:  # noqa: BLE001
        return ERR, e
    try:
        return ("ok", [(f["name"], W.S.R.abs(getattr(inst, f["name"]))) for f in fields]), None
    except Unrepresentable:
        return ("unrep",), None


def has_hook_by_kind(f):
    return f["tk"] in ("typed", "partial")


def lookup_says(conv, t):
    """what the implementation's hook lookup answers for t: 'hook' | 'nohook' | 'raises'"""
    try:
        h = conv.get_structure_hook(t, cache_result=False)
    except StructureHandlerNotFoundError:
        return "nohook"
    except Exception:  # noqa: BLE001
        return "raises"
    return "nohook" if h == raise_error else "hook"


def check_kinds(chk, W, c, fields, seen):
    """the oracle's reading of 'T has a hook' (by construction of the field kind) must be the implementation's"""
    conv = W.conv(c)
    for f in fields:
        if f["tk"] == "untyped":
            continue
        k = (id(conv), f["tk"], repr(f["ty"]))
        if k in seen:
            continue
        seen.add(k)
        want = {"typed": "hook", "partial": "hook", "unsup": "nohook", "broken": "raises"}[f["tk"]]
        got = lookup_says(conv, W.py_type(f))
        if got != want:
            chk.violation(f"C20 oracle precondition: hook lookup for a `{f['tk']}` field type answers {got}, expected {want} "
                          f"[{cfg_name(c)} | {ff_sx(f)}]", {"op": "kind", "world": W.w, "cfg": c, "fields": [f]})


def expected_field(W, conv, c, f, present, raw_py):
    """The property statement, for one field.  -> python value | ERR"""
    K = mk_conv(*f["conv"]) if f["conv"] is not None else None

    def hook(v):
        return conv.structure(v, W.py_type(f))

    try:
        if not present:
            if f["dflt"] is None:
                return ERR
            d = W.S.R.val(f["dflt"])
            return K(d) if K is not None else d      # "declares a converter" = `is not None` (a converter object may be falsy)
        if f["tk"] == "broken":
            # not covered by the property text: the lookup neither finds a hook nor reports "no hook"
            return K(raw_py) if (K is not None and c["prefer"]) else ERR
        if K is not None:
            if c["prefer"] or f["tk"] == "untyped" or not has_hook_by_kind(f):
                return K(raw_py)
            return K(hook(raw_py))
        if f["tk"] == "untyped":
            return raw_py
        if not has_hook_by_kind(f):
            return ERR
        return hook(raw_py)
    except Exception:  # noqa: BLE001
        return ERR


def expected_outcome(W, conv, c, fields, presents, raws_py):
    per = []
    for f, p, r in zip(fields, presents, raws_py):
        v = expected_field(W, conv, c, f, p, r)
        if v is ERR:
            per.append(ERR)
            continue
        try:
            per.append(("ok", W.S.R.abs(v)))
        except Unrepresentable:
            per.append(("unrep",))
    return per


def whole(per, fields):
    if any(p == ("unrep",) for p in per):
        return ("unrep",)
    if any(p is ERR or p == ERR for p in per):
        return ERR
    return ("ok", [(f["name"], p[1]) for f, p in zip(fields, per)])


def canon(o):
    if o[0] == "ok":
        return "ok " + " ".join("%s=%s" % (n, terms.canon_sx(v)) for n, v in o[1])
    return o[0]


def model_outcome(W, c, fields, payload_abs):
    r = W.S.drv.ask("FIELDCONV %s %s (fields %s) %s" % (W.wsx, fcfg_sx(c), fields_sig(fields), terms.obj_sx(payload_abs)))
    if not r.startswith("(r "):
        raise lean.InfraError("driver rejected FIELDCONV: " + r)
    p = terms.parse_sx(r)
    scope = (p[1] == "1", p[2] == "1")
    out = p[3]
    if out == "unmodelled":
        return ("unmodelled",), scope
    if out[0] == "err":
        return ERR, scope
    inst = terms.obj_of_px(out[1])
    return ("ok", inst[2]), scope


def payload_of(c, fields, presents, raws, cut):
    """abstract payload for the configuration's strategy + the presence flags it induces"""
    if c["tuple"]:
        xs = [raws[i] for i in range(cut)]
        return ("l", xs), [i < cut for i in range(len(fields))]
    return ("d", [(("s", f["name"]), raws[i]) for i, f in enumerate(fields) if presents[i]]), list(presents)


# ------------------------------------------------------------------ known findings (narrow)
@framework.finding("c20-eager-unsupported-default")
def _f35(case):
    """F35: Converter/dict (either template, default fallback factory) cannot create the hook of a class that has a
    field of an unsupported type without converter; the rule (and BaseConverter) succeed when that field has a default
    and its key is absent."""
    if case.get("op") != "oracle":
        return False
    c = case["cfg"]
    if not (c["gen"] and not c["tuple"] and not c["legacy"]):
        return False
    if case["impl"] != "err" or not case["expected"].startswith("ok"):
        return False
    return any(f["tk"] == "unsup" and f["conv"] is None and f["dflt"] is not None and not p
               for f, p in zip(case["fields"], case["presents"]))


@framework.finding("c20-inner-shnf-swallowed")
def _f36(case):
    """F36: `_structure_attribute` (BaseConverter, and both classes under the tuple strategy) catches a
    StructureHandlerNotFoundError raised *inside* the hook of the field's type and falls back to K(raw); the rule
    (and the generated templates) raise.  Recognised only when every field on which implementation and rule differ is
    a `partial` field with converter, flag off, present with a non-None raw value, and holds exactly K(raw)."""
    if case.get("op") != "oracle":
        return False
    c = case["cfg"]
    if c["prefer"] or (c["gen"] and not c["tuple"]):
        return False
    if not case["impl"].startswith("ok") or case["expected"] != "err":
        return False
    bad = [i for i, e in enumerate(case["expected_fields"]) if e == "err"]
    if not bad:
        return False
    for i in bad:
        f = case["fields"][i]
        if not (f["tk"] == "partial" and f["conv"] is not None and case["presents"][i] and case["raws"][i][0] != "N"):
            return False
        want = terms.canon_sx(("t", [("s", f["conv"][1]), terms.tuple_ify(case["raws"][i])]))
        if case["impl_fields"][i] != want:
            return False
    # every other field follows the rule
    return all(case["impl_fields"][i] == e for i, e in enumerate(case["expected_fields"]) if i not in bad)


F_FALSY = "c20-falsy-converter-interpretive"


@framework.finding(F_FALSY)
def _f74(case):
    """F74 (candidate): the interpretive path (`_structure_attribute`: BaseConverter, both classes under the tuple strategy)
    tests the field converter by TRUTHINESS: a falsy callable object counts as no converter (flag on: K(hook(raw)) instead of
    K(raw); no hook for T: raises instead of K(raw)).  Recognised only on that path and only when every field on which
    implementation and rule differ has a falsy converter (whole-call errors: some present field with a falsy converter
    whose value the rule hands to K unhooked -- flag on, or no hook can be found)."""
    if case.get("op") == "shape-oracle":
        return _f74_shapes(case)     # the class-shape stream's cases (one signature, one registered predicate: this one)
    if case.get("op") != "oracle":
        return False
    c = case["cfg"]
    if c["gen"] and not c["tuple"]:
        return False
    fields = case["fields"]
    if case["impl_fields"] is not None and not case["expected"].startswith("err"):
        bad = [i for i, e in enumerate(case["expected_fields"]) if case["impl_fields"][i] != e]
        return bool(bad) and all(is_falsy(fields[i]) for i in bad)
    return any(is_falsy(f) and p and (c["prefer"] or not has_hook_by_kind(f) or f["tk"] == "partial")
               for f, p in zip(fields, case["presents"]))


_fals_count = itertools.count(1)


def falsify(fields):
    """every third class: its converters become falsy callable objects (decided by a counter, not by the PRNG: the streams
    consume the PRNG exactly as before)"""
    if next(_fals_count) % 3 == 0:
        for f in fields:
            if f["conv"] is not None and not is_falsy(f):
                f["conv"] = (f["conv"][0] + FALSY, f["conv"][1])
    return fields


# ------------------------------------------------------------------ one case
def run_case(chk, W, cl, fields, c, presents, raws, cut, stats, raws_py=None):
    payload_abs, pres = payload_of(c, fields, presents, raws, cut)
    if gen.lookalike_hazard(payload_abs):
        chk.unmodelled += 1
        chk.note("unmodelled:lookalike-hazard")
        return
    conv = W.conv(c)
    check_kinds(chk, W, c, fields, stats["kinds_seen"])
    if raws_py is None:
        raws_py = [W.S.R.val(r) for r in raws]
    # the payload is built from the very objects the abstract raws were read back from (iteration order of sets)
    if c["tuple"]:
        payload_py = [raws_py[i] for i in range(cut)]
    else:
        payload_py = {f["name"]: raws_py[i] for i, f in enumerate(fields) if presents[i]}
    oi, exc = impl_outcome(W, conv, cl, fields, payload_py)
    per = expected_outcome(W, conv, c, fields, pres, raws_py)
    oe = whole(per, fields)
    sig = fields_sig(fields)
    key = cfg_name(c) + "|" + sig + "|" + terms.canon_sx(payload_abs)
    nontrivial = any(f["conv"] is not None for f in fields)
    chk.count(key, nontrivial=nontrivial,
              sample={"cfg": cfg_name(c), "fields": sig, "payload": terms.canon_sx(payload_abs), "impl": canon(oi)})
    chk.note("cfg:" + cfg_name(c), "outcome:" + oi[0])
    for f, p in zip(fields, pres):
        chk.note("cell:%s/%s/%s/%s" % (f["tk"], "K-" + f["conv"][0] if f["conv"] else "noK",
                                       "default" if f["dflt"] is not None else "required", "present" if p else "absent"))
    case = {"op": "oracle", "world": W.w, "cfg": c, "fields": fields, "presents": pres, "raws": raws, "cut": cut,
            "impl": canon(oi), "expected": canon(oe),
            "impl_fields": [terms.canon_sx(v) for _, v in oi[1]] if oi[0] == "ok" else None,
            "expected_fields": [("err" if p == ERR else (terms.canon_sx(p[1]) if p[0] == "ok" else "unrep")) for p in per]}
    if "unrep" in (oi[0], oe[0]):
        chk.note("unrepresentable-value(skipped)")
        return
    # ---- oracle (implementation only)
    oracle_ok = canon(oi) == canon(oe)
    # the F74 region while the finding is only a candidate (not in known_findings.json): the oracle verdict is withheld
    # -- counted and noted, no violation --; the model, which transcribes the truthiness tests, is still compared
    in_f74 = not oracle_ok and _f74(case)
    if in_f74 and F_FALSY not in {f["signature"] for f in chk.known}:
        stats["oracle_fail"] += 1
        chk.note("candidate-finding:F74-region(falsy converter on the interpretive path; oracle verdict withheld)")
    elif not oracle_ok:
        stats["oracle_fail"] += 1
        chk.violation(
            f"C20 oracle: structured instance differs from the documented rule: got {canon(oi)[:300]} expected {canon(oe)[:300]} "
            f"[{cfg_name(c)} | {sig} | {terms.canon_sx(payload_abs)[:300]}]" + (f" raised {exc!r}"[:200] if exc is not None else ""),
            case)
    # ---- correspondence
    om, scope = model_outcome(W, c, fields, payload_abs)
    if om[0] == "unmodelled":
        chk.unmodelled += 1
        chk.note("unmodelled:leaf-coercion-outside-model")
        return
    stats["in_scope" if all(scope) else "out_of_scope"] += 1
    if canon(oi) != canon(om):
        if oracle_ok or in_f74:
            stats["corr_fail"].append((dict(case, op="corr", model=canon(om)), canon(oi), canon(om), canon(oe)))
        else:
            stats["corr_fail_with_oracle_fail"] += 1  # already reported (or recognised) through the oracle


# ------------------------------------------------------------------ generators
def gen_typed(chk, G, W):
    """a type both converter classes support under every strategy"""
    for _ in range(20):
        ty = G.type(W.w, chk.rng.randint(0, 2))
        if all(gen.supported({"gen": g, "tuple": False, "detailed": True}, W.w, ty) for g in (True, False)):
            return ty
    return "int"


def gen_default(chk, G, W, f):
    r = chk.rng
    if f["tk"] == "typed" and r.random() < 0.6:
        v = G.value(W.w, f["ty"], 2, any_stable=True)
    else:
        v = r.choice([("i", r.randint(-3, 9)), ("s", r.choice(["d", "boom", "7", ""])), ("N",), G.any_leaf()])
    try:
        _, v2 = W.S.realise(v)
    except Exception:  # noqa: BLE001
        return ("i", 0)
    if gen.lookalike_hazard(v2):
        return ("i", 0)
    return v2


def gen_field(chk, G, W, name, tk=None, conv=None, dflt=None):
    r = chk.rng
    f = {"name": name, "tk": tk or r.choices(TKS, weights=[45, 25, 18, 8, 4])[0], "ty": None, "conv": None, "dflt": None}
    if f["tk"] == "typed":
        f["ty"] = gen_typed(chk, G, W)
    # fields of an unsupported type without converter make every payload fail: keep them rarer
    has_conv = (r.random() < (0.6 if f["tk"] in ("typed", "untyped") else 0.8)) if conv is None else conv
    if has_conv:
        f["conv"] = (r.choice(KKINDS) if r.random() < 0.5 else "tag", "K" + name)
    has_d = (r.random() < 0.45) if dflt is None else dflt
    if f["tk"] == "broken":
        has_d = False
    if has_d:
        f["dflt"] = gen_default(chk, G, W, f)
    return f


def is_container_type(t):
    t = gen.strip_wraps(t)
    while not isinstance(t, str) and t[0] == "opt":
        t = gen.strip_wraps(t[1])
    return not isinstance(t, str) and t[0] in gen.SEQ_KINDS + gen.SET_KINDS + gen.MAP_KINDS + ["tup"]


def gen_raw(chk, G, W, f, valid_only=False):
    """-> (kind, abstract raw value) for one field: valid for its type, mutated, junk, or one of the special values"""
    kind, x = gen_raw1(chk, G, W, f, valid_only)
    # iterating a str/bytes where a collection is expected is outside the data-path model: keep it rare
    for _ in range(3):
        if f["tk"] == "typed" and x[0] in ("s", "y") and is_container_type(f["ty"]):
            kind, x = gen_raw1(chk, G, W, f, valid_only)
    return kind, x


def gen_raw1(chk, G, W, f, valid_only):
    r = chk.rng
    c = r.random() * 0.7 if valid_only else r.random()
    if valid_only and f["tk"] != "typed":
        return "leaf", G.any_leaf()
    if c < 0.12 and not valid_only:
        return "special", r.choice([("s", "boom"), ("N",), ("i", r.randint(-3, 30)), ("s", "5")])
    if f["tk"] == "typed" and c < 0.85:
        x = G.value(W.w, f["ty"], 2, any_stable=False)
        try:
            xv, x2 = W.S.realise(x)
            u = W.S.impl_un({"gen": True, "tuple": False, "detailed": True, "forbid": False}, f["ty"], x2, x=xv)
        except Exception:  # noqa: BLE001
            u = ("err",)
        if u[0] == "ok":
            if c < 0.7:
                return "valid", u[1]
            return "mutated", G.mutate(W.w, u[1], 1)
    if c < 0.5:
        return "leaf", G.any_leaf()
    return "junk", G.junk(W.w, 2)


def realise_raws(chk, W, kinds_raws):
    """-> (abstract raws as re-read from the realised objects, the realised objects)"""
    out, out_py = [], []
    for kind, r in kinds_raws:
        try:
            v, r2 = W.S.realise(r)
        except Exception:  # noqa: BLE001
            kind, r2, v = "leaf", ("i", 1), 1
        chk.note("raw:" + kind)
        out.append(r2)
        out_py.append(v)
    return out, out_py


GRID_RAWS = [("s", "5"), ("s", "zz"), ("s", "boom"), ("N",), ("i", 7), ("l", [("s", "1")])]


def run_grid(chk, G, W, stats):
    """every cell of the grid as a one-field class x all 32 configurations x fixed raws (+ absent)"""
    cfgs = all_cfgs()
    for tk in TKS:
        for has_k in (False, True):
            for has_d in (False, True):
                if tk == "broken" and has_d:
                    continue
                kinds = KKINDS + ["tag" + FALSY, "needint" + FALSY] if has_k else [None]
                for kk in kinds:
                    f = {"name": "x", "tk": tk, "ty": "int" if tk == "typed" else None,
                         "conv": (kk, "Kx") if kk else None, "dflt": ("s", "7") if has_d else None, "kw_only": False}
                    fields = [f]
                    cl = W.make_class(fields)
                    for c in cfgs:
                        for raw in GRID_RAWS:
                            run_case(chk, W, cl, fields, c, [True], [raw], 1, stats)
                        run_case(chk, W, cl, fields, c, [False], [("N",)], 0, stats)


def run_random(chk, G, W, n_classes, stats, n_payloads=3):
    r = chk.rng
    base = all_cfgs(legacy=(False,))
    legacy = all_cfgs(legacy=(True,))
    for _ in range(n_classes):
        n = r.choice([1, 2, 2, 3, 3, 4, 5])
        names = NAMES[:n]
        r.shuffle(names)
        fields = falsify(fix_kw_only([gen_field(chk, G, W, nm) for nm in names]))
        chk.note("fields:%d" % n)
        try:
            cl = W.make_class(fields)
        except Exception as e:  # noqa: BLE001  (a class python/attrs itself rejects)
            chk.note("class-rejected-by-attrs")
            continue
        cfgs = base + r.sample(legacy, 2)
        for _ in range(n_payloads):
            valid_only = r.random() < 0.5
            raws, raws_py = realise_raws(chk, W, [gen_raw(chk, G, W, f, valid_only) for f in fields])
            presents = [r.random() < (0.9 if valid_only else 0.75) for _ in fields]
            cut = n if r.random() < 0.7 else r.randint(0, n)
            for c in cfgs:
                run_case(chk, W, cl, fields, c, presents, raws, cut, stats, raws_py=raws_py)


# ------------------------------------------------------------------ generic classes (implementation-only oracle)
import typing  # noqa: E402

_GT, _GU = typing.TypeVar("T"), typing.TypeVar("U")


@attrs.define
class GArg:
    x: int


G_SHAPES = {
    "bare": lambda t: t,
    "list": lambda t: list[t],
    "optional": lambda t: Optional[t],
    "dict": lambda t: dict[str, t],
    "tuple": lambda t: tuple[t, int],
    "list-optional": lambda t: list[Optional[t]],
}
G_ARGS = {"int": int, "float": float, "str": str, "bool": bool, "GArg": GArg, "list[int]": list[int]}
G_LEAF_RAWS = {"int": ["2", 3, "zz", None], "float": ["2.5", 1, "zz"], "str": [5, "s", None], "bool": [1, "", True],
               "GArg": [{"x": "4"}, {"x": 1}, {}, 7], "list[int]": [["1", 2], [], "zz"]}


def g_raw(rng, shape, arg):
    leaf = lambda: rng.choice(G_LEAF_RAWS[arg])  # noqa: E731
    r = rng.random()
    if r < 0.1:
        return rng.choice([None, "boom", 7, []])
    if shape == "bare":
        return leaf()
    if shape == "list":
        return [leaf() for _ in range(rng.randint(0, 2))]
    if shape == "optional":
        return None if r < 0.3 else leaf()
    if shape == "dict":
        return {rng.choice(["k", "l"]): leaf() for _ in range(rng.randint(0, 2))}
    if shape == "tuple":
        return [leaf(), rng.choice([1, "2"])]
    return [None if rng.random() < 0.3 else leaf() for _ in range(rng.randint(0, 2))]


def g_canon(v):
    if isinstance(v, GArg):
        return "GArg(%s)" % g_canon(v.x)
    if isinstance(v, (list, tuple)):
        return type(v).__name__ + "[" + ", ".join(g_canon(x) for x in v) + "]"
    if isinstance(v, dict):
        return "{" + ", ".join("%s: %s" % (g_canon(k), g_canon(x)) for k, x in v.items()) + "}"
    return "%s:%r" % (type(v).__name__, v)


def g_make_class(fields):
    flds = {}
    for f in fields:
        kw = {"type": G_SHAPES[f["shape"]]((_GT, _GU)[f["param"]])}
        if f["conv"] is not None:
            kw["converter"] = mk_conv(*f["conv"])
        if f["dflt"] is not None:
            kw["default"] = f["dflt"][0]
        if f.get("kw_only"):
            kw["kw_only"] = True
        flds[f["name"]] = attrs.field(**kw)
    return attrs.make_class("GB%d" % next(_uid), flds, bases=(typing.Generic[_GT, _GU],))


def g_expected(conv, c, f, targs, present, raw):
    """the property statement for one field of `GB[targs]`; T := the field's type with the parameters substituted"""
    K = mk_conv(*f["conv"]) if f["conv"] is not None else None
    t_sub = G_SHAPES[f["shape"]](G_ARGS[targs[f["param"]]])
    try:
        if not present:
            if f["dflt"] is None:
                return ERR
            return K(f["dflt"][0]) if K else f["dflt"][0]
        if K is not None:
            return K(raw) if c["prefer"] else K(conv.structure(raw, t_sub))
        return conv.structure(raw, t_sub)
    except Exception:  # noqa: BLE001
        return ERR


def run_generic(chk, n_classes, stats):
    r = chk.rng
    # BaseConverter configurations first: see F52 (once a Converter has looked at `GB[a, b]`, BaseConverters treat that
    # alias object differently); every class is fresh, so each configuration group meets an untouched alias
    cfgs = [c for c in all_cfgs(legacy=(False,)) if not c["tuple"]]
    cfgs.sort(key=lambda c: c["gen"])
    for _ in range(n_classes):
        n = r.choice([1, 2, 2, 3])
        fields = []
        for nm in NAMES[:n]:
            f = {"name": nm, "shape": r.choice(sorted(G_SHAPES)), "param": r.randint(0, 1), "conv": None, "dflt": None}
            if r.random() < 0.7:
                f["conv"] = (r.choice(KKINDS) if r.random() < 0.4 else "tag", "K" + nm)
            if r.random() < 0.3:
                f["dflt"] = (r.choice([None, 0, "d", "boom"]),)
            fields.append(f)
        fix_kw_only(fields)
        targs = [r.choice(sorted(G_ARGS)), r.choice(sorted(G_ARGS))]
        for _ in range(3):
            raws = [g_raw(r, f["shape"], targs[f["param"]]) for f in fields]
            presents = [r.random() < 0.85 for _ in fields]
            payload = {f["name"]: raw for f, raw, p in zip(fields, raws, presents) if p}
            for grp in (False, True):
                cl = g_make_class(fields)   # a fresh class (and alias object) per converter class
                tgt = cl[G_ARGS[targs[0]], G_ARGS[targs[1]]]
                for c in [c for c in cfgs if c["gen"] == grp]:
                    conv = make_converter(c)
                    try:
                        inst = conv.structure(payload, tgt)
                        oi = "ok " + " ".join("%s=%s" % (f["name"], g_canon(getattr(inst, f["name"]))) for f in fields)
                    except Exception as e:  # noqa: BLE001
                        oi, exc = "err", e
                    per = [g_expected(conv, c, f, targs, p, raw) for f, raw, p in zip(fields, raws, presents)]
                    oe = "err" if any(x is ERR for x in per) else \
                        "ok " + " ".join("%s=%s" % (f["name"], g_canon(x)) for f, x in zip(fields, per))
                    desc = " ; ".join("%s: %s[%s]%s%s" % (f["name"], f["shape"], "TU"[f["param"]],
                                                          " conv=" + f["conv"][0] if f["conv"] else "",
                                                          " default=%r" % (f["dflt"][0],) if f["dflt"] else "") for f in fields)
                    chk.count("generic|" + cfg_name(c) + "|" + desc + "|" + repr(targs) + "|" + repr(payload),
                              nontrivial=any(f["conv"] is not None for f in fields),
                              sample={"cfg": cfg_name(c), "class": "GB[T, U]: " + desc, "args": targs, "payload": repr(payload), "impl": oi[:200]})
                    chk.note("generic:cfg:" + cfg_name(c), "generic:outcome:" + oi[:2])
                    for f in fields:
                        chk.note("generic:cell:%s/%s" % (f["shape"], "K-" + f["conv"][0] if f["conv"] else "noK"))
                    stats["generic"] += 1
                    if oi != oe:
                        stats["oracle_fail"] += 1
                        chk.violation(
                            f"C20 oracle (generic classes): structuring {payload!r} as GB[{targs[0]}, {targs[1]}] (class GB(Generic[T, U]): {desc}) "
                            f"gives {oi[:300]}, the documented rule with T := the substituted field type gives {oe[:300]} [{cfg_name(c)}]",
                            {"op": "generic-oracle", "cfg": c, "fields": [dict(f, dflt=repr(f["dflt"])) for f in fields], "args": targs,
                             "payload": repr(payload), "impl": oi, "expected": oe})
        prune_linecache()


# ------------------------------------------------------------------ wrappers x routes x copies (implementation-only oracle)
W_NT_UNSUP = typing.NewType("WNtUnsup", NoHook)
W_NT_INT = typing.NewType("WNtInt", int)
W_NT_GARG = typing.NewType("WNtGArg", GArg)
W_NT_NT_INT = typing.NewType("WNtNtInt", W_NT_INT)
W_NT_NT_UNSUP = typing.NewType("WNtNtUnsup", W_NT_UNSUP)
exec("type WAlUnsup = NoHook\ntype WAlInt = int\ntype WAlGArg = GArg\ntype WAlNt = W_NT_UNSUP", globals())

# name -> (type, base kind, wrapper kinds used)
W_TYPES = {
    "int": (int, "int", ()), "GArg": (GArg, "GArg", ()), "unsup": (NoHook, "unsup", ()),
    "NewType(int)": (W_NT_INT, "int", ("newtype",)), "NewType(GArg)": (W_NT_GARG, "GArg", ("newtype",)),
    "NewType(unsup)": (W_NT_UNSUP, "unsup", ("newtype",)),
    "NewType(NewType(int))": (W_NT_NT_INT, "int", ("newtype",)), "NewType(NewType(unsup))": (W_NT_NT_UNSUP, "unsup", ("newtype",)),
    "Annotated[int]": (typing.Annotated[int, "m"], "int", ("annotated",)),
    "Annotated[GArg]": (typing.Annotated[GArg, "m"], "GArg", ("annotated",)),
    "Annotated[unsup]": (typing.Annotated[NoHook, "m"], "unsup", ("annotated",)),
    "Annotated[NewType(int)]": (typing.Annotated[W_NT_INT, "m"], "int", ("annotated", "newtype")),
    "Annotated[NewType(unsup)]": (typing.Annotated[W_NT_UNSUP, "m"], "unsup", ("annotated", "newtype")),
    "alias=int": (WAlInt, "int", ("alias",)), "alias=GArg": (WAlGArg, "GArg", ("alias",)),  # noqa: F821
    "alias=unsup": (WAlUnsup, "unsup", ("alias",)), "alias=NewType(unsup)": (WAlNt, "unsup", ("alias", "newtype")),  # noqa: F821
    "Optional[int]": (Optional[int], "int", ("optional",)), "Optional[NewType(int)]": (Optional[W_NT_INT], "int", ("optional", "newtype")),
    "list[int]": (list[int], "int", ("list",)), "list[NewType(GArg)]": (list[W_NT_GARG], "GArg", ("list", "newtype")),
}
W_RAWS = {"int": ["2", 3, "zz", None, "boom"], "GArg": [{"x": "4"}, {"x": 1}, {}, 7], "unsup": ["2", 7, None, "boom", {"x": 1}]}
W_ROUTES = [("dispatch", None)] + [(r, a) for r in ("fn", "fn_from_attrs", "registered") for a in ("default", True, False)]


def w_has_hook(gen_conv, tname):
    """'the lookup for T itself finds a hook' -- by construction (checked against the implementation by `w_check_table`)
    -> True | False | None (= not generated: F36 region / no Annotated support in BaseConverter)"""
    _, base, wraps = W_TYPES[tname]
    if not gen_conv and "annotated" in wraps:
        return None
    if base != "unsup":
        return True
    if not wraps:
        return False
    if not gen_conv and "newtype" in wraps:
        return None       # BaseConverter's NewType hook is late-binding: it exists and fails inside (F36 region)
    return False          # Converter's NewType / Annotated / alias factories (and BaseConverter's alias factory) look T's base up eagerly


def w_raw(rng, tname):
    _, base, wraps = W_TYPES[tname]
    x = rng.choice(W_RAWS[base])
    if "list" in wraps:
        return [rng.choice(W_RAWS[base]) for _ in range(rng.randint(0, 2))]
    if "optional" in wraps and rng.random() < 0.3:
        return None
    return x


def w_converter(c, via):
    """a converter of configuration c: constructed directly, or a COPY whose flags were overridden (both ways)"""
    if via == "direct":
        return make_converter(c)
    src = make_converter(dict(c, prefer=not c["prefer"], detailed=not c["detailed"]))
    return src.copy(prefer_attrib_converters=c["prefer"], detailed_validation=c["detailed"])


def w_structure(conv, cl, route, flagarg, payload):
    from cattrs.gen import make_dict_structure_fn, make_dict_structure_fn_from_attrs
    if route == "dispatch":
        return conv.structure(payload, cl)
    kw = {} if flagarg == "default" else {"_cattrs_prefer_attrib_converters": flagarg}
    if route == "fn":
        return make_dict_structure_fn(cl, conv, **kw)(payload, cl)
    hook = make_dict_structure_fn_from_attrs(attrs.fields(cl), cl, conv, **kw)
    if route == "fn_from_attrs":
        return hook(payload, cl)
    conv.register_structure_hook(cl, hook)
    return conv.structure(payload, cl)


def w_check_table(chk, stats):
    for gen_conv in (True, False):
        conv = make_converter({"gen": gen_conv, "tuple": False, "detailed": True, "prefer": False, "legacy": False})
        for tname, (t, _, _) in W_TYPES.items():
            want = w_has_hook(gen_conv, tname)
            if want is None:
                continue
            got = lookup_says(conv, t)
            chk.note("wrapped:lookup:" + got)
            if got != ("hook" if want else "nohook"):
                stats["oracle_fail"] += 1
                chk.violation(f"C20 oracle precondition (wrapper stream): hook lookup for {tname} on a "
                              f"{'Converter' if gen_conv else 'BaseConverter'} answers {got}, expected {'hook' if want else 'nohook'}",
                              {"op": "wrapped-kind", "type": tname, "gen": gen_conv})


def run_wrapped(chk, n_classes, stats):
    r = chk.rng
    w_check_table(chk, stats)
    cfgs = [c for c in all_cfgs(legacy=(False,)) if not c["tuple"]]
    names = sorted(W_TYPES)
    for ci in range(n_classes):
        n = r.choice([1, 1, 2, 3])
        # every wrapper type is the first field of some class, with and without K
        fields = [{"name": nm, "ty": names[(ci // 2) % len(names)] if i == 0 else r.choice(names),
                   "conv": ((r.choice(KKINDS) if r.random() < 0.3 else "tag", "K" + nm)
                            if (ci % 2 == 0 if i == 0 else r.random() < 0.6) else None)}
                  for i, nm in enumerate(NAMES[:n])]
        cl = attrs.make_class("WR%d" % next(_uid), {
            f["name"]: attrs.field(type=W_TYPES[f["ty"]][0], **({"converter": mk_conv(*f["conv"])} if f["conv"] else {}))
            for f in fields})
        desc = " ; ".join("%s: %s%s" % (f["name"], f["ty"], " conv=" + f["conv"][0] if f["conv"] else "") for f in fields)
        for _ in range(2):
            raws = [w_raw(r, f["ty"]) for f in fields]
            payload = {f["name"]: raw for f, raw in zip(fields, raws)}
            for c in cfgs:
                hh = [w_has_hook(c["gen"], f["ty"]) for f in fields]
                if any(h is None for h in hh):
                    chk.note("wrapped:not-generated(F36-region/BaseConverter-Annotated)")
                    continue
                for via in ("direct", "copy"):
                    for route, flagarg in ([("dispatch", None)] + r.sample(W_ROUTES[1:], 3)):
                        eff = c["prefer"] if flagarg in (None, "default") else flagarg
                        conv = w_converter(c, via)
                        try:
                            inst = w_structure(conv, cl, route, flagarg, payload)
                            oi = "ok " + " ".join("%s=%s" % (f["name"], g_canon(getattr(inst, f["name"]))) for f in fields)
                        except Exception:  # noqa: BLE001
                            oi = "err"
                        per = []
                        ref = w_converter(c, "direct")   # hook_T(raw) on a converter of the same configuration
                        for f, raw, h in zip(fields, raws, hh):
                            K = mk_conv(*f["conv"]) if f["conv"] else None
                            try:
                                if K is not None:
                                    per.append(K(raw) if (eff or not h) else K(ref.structure(raw, W_TYPES[f["ty"]][0])))
                                elif h:
                                    per.append(ref.structure(raw, W_TYPES[f["ty"]][0]))
                                else:
                                    per.append(ERR)
                            except Exception:  # noqa: BLE001
                                per.append(ERR)
                        oe = "err" if any(x is ERR for x in per) else \
                            "ok " + " ".join("%s=%s" % (f["name"], g_canon(x)) for f, x in zip(fields, per))
                        how = f"{cfg_name(c)} via={via} route={route}" + ("" if flagarg is None else f"(_cattrs_prefer_attrib_converters={flagarg})")
                        chk.count("wrapped|" + how + "|" + desc + "|" + repr(payload), nontrivial=any(f["conv"] for f in fields),
                                  sample={"cfg": how, "class": desc, "payload": repr(payload), "impl": oi[:200]})
                        chk.note("wrapped:route:" + route + ("" if flagarg is None else ":" + str(flagarg)), "wrapped:via:" + via,
                                 "wrapped:outcome:" + oi[:2])
                        for f in fields:
                            chk.note("wrapped:cell:%s/%s" % (f["ty"], "K" if f["conv"] else "noK"))
                        stats["wrapped"] += 1
                        if oi != oe:
                            stats["oracle_fail"] += 1
                            chk.violation(
                                f"C20 oracle (wrapper/route stream): structuring {payload!r} as class({desc}) gives {oi[:300]}, the documented "
                                f"rule (effective prefer_attrib_converters={eff}) gives {oe[:300]} [{how}]",
                                {"op": "wrapped-oracle", "cfg": c, "via": via, "route": route, "flagarg": flagarg, "fields": fields,
                                 "payload": repr(payload), "impl": oi, "expected": oe})
        prune_linecache()


# ------------------------------------------------------------------ reference cycles (implementation-only oracle)
# Classes that refer to themselves or to each other in a cycle of length 1-3.  Every class has a data field `v: int` and a
# `link` to the next class of the cycle whose type wraps that class (bare, Final, Annotated, NewType, a PEP 695 alias,
# Dict / Mapping / List / Sequence / Tuple[..., ...] / Tuple[C, int] / Optional / `C | None` / Dict[str, List[C]] / Optional[Dict]),
# with or without a field converter K, always defaulted to None (so that payloads are finite).  While the hook of a class
# is being generated the lookup for such a type ends in a RecursionError (the class is already being generated): the
# documented rule is unchanged -- "T's structure hook exists", the value is K(hook_T(raw)) -- and cattrs binds the hook late.
# The oracle computes hook_T(raw) ITSELF from the structure of T (it does not ask cattrs), for every class of the cycle
# as the entry point, on fresh converters and on one converter shared by all entries.
C_WRAPS = {
    "bare": "{c}", "final": "Final[{c}]", "annotated": "Annotated[{c}, 'm']", "newtype": "Nt{c}", "alias": "Al{c}",
    "dict": "Dict[str, {c}]", "mapping": "Mapping[str, {c}]", "list": "List[{c}]", "sequence": "Sequence[{c}]",
    "tuple-var": "Tuple[{c}, ...]", "tuple2": "Tuple[{c}, int]", "optional": "Optional[{c}]", "pep604": "{c} | None",
    "dict-list": "Dict[str, List[{c}]]", "optional-dict": "Optional[Dict[str, {c}]]", "annotated-newtype": "Annotated[Nt{c}, 'q']",
    "dict-newtype": "Dict[str, Nt{c}]",
}
C_NO_BASECONVERTER = ("annotated", "annotated-newtype")    # BaseConverter has no Annotated support


def _ktag_cycle(v):
    return ("K", v)


def c_make_world(spec):
    """spec: [{'wrap': name, 'link_k': bool, 'v_k': bool}] -- class i links to class (i + 1) % n"""
    n = len(spec)
    uid = next(_uid)
    names = ["Cy%d_%d" % (uid, i) for i in range(n)]
    lines = ["from typing import *", "import attrs"]
    for i, s in enumerate(spec):
        nxt = names[(i + 1) % n]
        lines.append("@attrs.define\nclass %s:\n    v: int = attrs.field(%s)\n    link: %r = attrs.field(%sdefault=None)\n" % (
            names[i], "converter=K" if s["v_k"] else "", C_WRAPS[s["wrap"]].format(c=nxt), "converter=K, " if s["link_k"] else ""))
    for nm in names:
        lines.append("Nt%s = NewType('Nt%s', %s)\ntype Al%s = %s" % (nm, nm, nm, nm, nm))
    ns = {"K": _ktag_cycle}
    exec(compile("\n".join(lines), "<c20 cycle %d>" % uid, "exec", flags=0, dont_inherit=True), ns)
    classes = [ns[nm] for nm in names]
    for cl in classes:
        attrs.resolve_types(cl, ns)
    return classes, "\n".join(lines)


C_NONE_OK = ("optional", "pep604", "optional-dict")
C_COLLECTION = ("dict", "mapping", "optional-dict", "dict-newtype", "list", "sequence", "tuple-var", "dict-list")


def c_payload(rng, spec, i, depth):
    """a valid raw payload for class i; the links are followed `depth` more times, then the chain ends: link absent,
    None (where the type allows it) or an empty collection"""
    out = {"v": rng.choice([3, "4", 0])}
    w = spec[i]["wrap"]
    if depth > 0 and rng.random() < 0.9:
        out["link"] = c_wrap_payload(rng, spec, i, depth)
        return out
    ends = ["absent"] + (["none"] if w in C_NONE_OK else []) + (["empty"] if w in C_COLLECTION else [])
    end = rng.choice(ends)
    if end == "none":
        out["link"] = None
    elif end == "empty":
        out["link"] = [] if w in ("list", "sequence", "tuple-var") else {}
    return out


def c_wrap_payload(rng, spec, i, depth):
    w = spec[i]["wrap"]
    j = (i + 1) % len(spec)
    inner = lambda: c_payload(rng, spec, j, depth - 1)  # noqa: E731
    if w in ("bare", "final", "annotated", "newtype", "alias", "annotated-newtype", "optional", "pep604"):
        return inner()
    if w in ("dict", "mapping", "optional-dict", "dict-newtype"):
        return {k: inner() for k in rng.sample(["a", "b", "c"], rng.randint(1, 2))}
    if w in ("list", "sequence", "tuple-var"):
        return [inner() for _ in range(rng.randint(1, 2))]
    if w == "tuple2":
        return [inner(), rng.choice([1, "2"])]
    if w == "dict-list":
        return {k: [inner() for _ in range(rng.randint(0, 2))] for k in rng.sample(["a", "b"], rng.randint(1, 2))}
    raise ValueError(w)


def c_expect_class(spec, classes, prefer, i, raw):
    """the documented rule, computed by the oracle itself: -> canonical value; raises on an invalid payload"""
    s = spec[i]
    v = raw["v"]
    v = v if (s["v_k"] and prefer) else int(v)
    fields = [("v", ("K", v) if s["v_k"] else v)]
    if "link" in raw:
        lr = raw["link"]
        if s["link_k"] and prefer:
            link = ("K", lr)
        else:
            link = c_expect_wrap(spec, classes, prefer, i, lr)
            link = ("K", link) if s["link_k"] else link
    else:
        link = ("K", None) if s["link_k"] else None
    fields.append(("link", link))
    return ("I", classes[i].__name__, fields)


def c_expect_wrap(spec, classes, prefer, i, raw):
    w = spec[i]["wrap"]
    j = (i + 1) % len(spec)
    rec = lambda r: c_expect_class(spec, classes, prefer, j, r)  # noqa: E731
    if w in ("optional", "pep604", "optional-dict") and raw is None:
        return None
    if w in ("bare", "final", "annotated", "newtype", "alias", "annotated-newtype", "optional", "pep604"):
        return rec(raw)
    if w in ("dict", "mapping", "optional-dict", "dict-newtype"):
        return {k: rec(r) for k, r in raw.items()}
    if w in ("list", "sequence"):
        return [rec(r) for r in raw]
    if w == "tuple-var":
        return tuple(rec(r) for r in raw)
    if w == "tuple2":
        return (rec(raw[0]), int(raw[1]))
    if w == "dict-list":
        return {k: [rec(r) for r in rs] for k, rs in raw.items()}
    raise ValueError(w)


def s_abs(v, classes=()):
    """python value of the cycle / history streams -> abstract object term (terms.obj_sx); instances by class index"""
    if isinstance(v, HVal):
        return ("t", [("s", "HVal"), ("i", v.key[0]), ("i", v.key[1]), s_abs(v.key[2], classes)])
    if attrs.has(type(v)):
        return ("I", classes.index(type(v)) if type(v) in classes else 0,
                [(a.name, s_abs(getattr(v, a.name), classes)) for a in attrs.fields(type(v))])
    if v is None:
        return ("N",)
    if isinstance(v, bool):
        return ("b", v)
    if isinstance(v, int):
        return ("i", v)
    if isinstance(v, str):
        return ("s", v)
    if isinstance(v, tuple):
        return ("t", [s_abs(x, classes) for x in v])
    if isinstance(v, list):
        return ("l", [s_abs(x, classes) for x in v])
    if isinstance(v, dict):
        return ("d", [(s_abs(k, classes), s_abs(x, classes)) for k, x in v.items()])
    raise Unrepresentable(repr(v))


def s_model_outcome(p):
    """one `<outcome>` of a FIELDHIST / FIELDCYCLE reply -> canonical text"""
    if p == "unmodelled":
        return None
    if p[0] == "err":
        return "err"
    return terms.canon_sx(terms.obj_of_px(p[1]))


def c_canon(v):
    """canonical form of a structured value (instances of attrs classes -> ('I', class name, fields))"""
    if attrs.has(type(v)):
        return ("I", type(v).__name__, [(a.name, c_canon(getattr(v, a.name))) for a in attrs.fields(type(v))])
    if isinstance(v, tuple):
        return tuple(c_canon(x) for x in v)
    if isinstance(v, list):
        return [c_canon(x) for x in v]
    if isinstance(v, dict):
        return {k: c_canon(x) for k, x in v.items()}
    return v


def run_cycles(chk, drv, n_worlds, stats):
    r = chk.rng
    cfgs = [c for c in all_cfgs(legacy=(False,)) if not c["tuple"]]
    wraps = sorted(C_WRAPS)
    for wi in range(n_worlds):
        n = r.choice([1, 1, 2, 2, 3])
        # every wrapper closes a cycle with a converter field in some world of the run
        spec = [{"wrap": wraps[wi % len(wraps)] if i == 0 else r.choice(wraps), "link_k": (i == 0) or r.random() < 0.5,
                 "v_k": r.random() < 0.3} for i in range(n)]
        if wi % 5 == 4:
            spec[0]["link_k"] = False
        r.shuffle(spec)
        classes, source = c_make_world(spec)
        desc = " -> ".join("C%d(link: %s%s%s)" % (i, s["wrap"], " conv=K" if s["link_k"] else "", " v:conv=K" if s["v_k"] else "")
                           for i, s in enumerate(spec)) + " -> C0"
        no_base = any(s["wrap"] in C_NO_BASECONVERTER for s in spec)
        payloads = [[c_payload(r, spec, i, r.randint(1, 3)) for _ in range(2)] for i in range(n)]
        for c in cfgs:
            if no_base and not c["gen"]:
                chk.note("cycle:not-generated(BaseConverter-Annotated)")
                continue
            shared = make_converter(c)
            order = list(range(n))
            r.shuffle(order)
            for entry in order:
                for pl in payloads[entry]:
                    want = c_expect_class(spec, classes, c["prefer"], entry, pl)
                    # model observable: FIELDCYCLE (`Disp.cycle` / `Handler.late` of FieldConv/Model.lean, theorem `C20_rule_cycle`)
                    rm = drv.ask("FIELDCYCLE %s (cycle %s) %d %s" % (
                        fcfg_sx(c), " ".join("(c %s %d %d)" % (terms.esc(s["wrap"]), s["link_k"], s["v_k"]) for s in spec),
                        entry, terms.obj_sx(s_abs(pl))))
                    if not (rm.startswith("(ok") or rm.startswith("(err") or rm == "unmodelled"):
                        raise lean.InfraError("driver rejected FIELDCYCLE: " + rm)
                    om = s_model_outcome(terms.parse_sx(rm))
                    for how, conv in (("fresh", make_converter(c)), ("shared", shared)):
                        try:
                            inst = conv.structure(pl, classes[entry])
                            got = c_canon(inst)
                        except Exception as e:  # noqa: BLE001
                            inst, got = None, ("err", type(e).__name__)
                        if om is None:
                            chk.unmodelled += 1
                        elif how == "fresh":
                            oi = "err" if inst is None else terms.canon_sx(s_abs(inst, classes))
                            chk.note("corr:FIELDCYCLE")
                            if oi != om and got == want:
                                stats["corr_cycle"].append((dict(cfg=c, spec=spec, entry=entry, payload=repr(pl), op="corr-cycle"), oi, om))
                            elif oi != om:
                                stats["corr_fail_with_oracle_fail"] += 1
                        chk.count("cycle|" + cfg_name(c) + "|" + desc + "|%d|" % entry + repr(pl),
                                  nontrivial=any(s["link_k"] for s in spec),
                                  sample={"cfg": cfg_name(c), "cycle": desc, "entry": entry, "payload": repr(pl), "impl": repr(got)[:200]})
                        chk.note("cycle:cfg:" + cfg_name(c), "cycle:len:%d" % n, "cycle:converter:" + how,
                                 "cycle:outcome:" + ("err" if got[0] == "err" else "ok"))
                        for s in spec:
                            chk.note("cycle:link:%s/%s" % (s["wrap"], "K" if s["link_k"] else "noK"))
                        stats["cycles"] += 1
                        if got != want:
                            stats["oracle_fail"] += 1
                            chk.violation(
                                f"C20 oracle (reference cycles): structuring {pl!r} as C{entry} of the cycle {desc} on a {how} converter gives "
                                f"{got!r:.400}, the documented rule (K(hook_T(raw)) / K(raw) with the flag) gives {want!r:.400} [{cfg_name(c)}]",
                                {"op": "cycle-oracle", "cfg": c, "spec": spec, "entry": entry, "payload": repr(pl), "source": source,
                                 "impl": repr(got), "expected": repr(want), "converter": how})
        prune_linecache()


# ------------------------------------------------------------------ registration histories (implementation-only oracle)
# ONE converter is used, configured further, and used again: structure classes whose converter fields have a type T that
# has no hook yet, THEN register a hook for T (register_structure_hook / _func / _factory; later possibly a second
# version, or a copy() of the converter is taken and used from then on), THEN structure again -- the same class, another
# class with a field of type T, a class that nests one.  The rule speaks about the hooks that exist WHEN a value is
# structured: the handler choice is a function of the CURRENT registrations (Lean: `C20_history_current`), exactly what a
# converter that had the hooks from the start does.  The oracle computes the rule itself from the history so far.
class HVal:
    """what the hook registered for a history type returns: remembers the type, the hook version and the raw value"""

    def __init__(self, ty, ver, raw):
        self.key = (ty, ver, raw)

    def __eq__(self, o):
        return isinstance(o, HVal) and self.key == o.key

    def __hash__(self):
        return hash(repr(self.key))

    def __repr__(self):
        return "HVal%r" % (self.key,)


H_TYPES = [type("HT%d" % i, (), {}) for i in range(3)]
H_APIS = ["register_structure_hook", "register_structure_hook_func", "register_structure_hook_factory"]


def h_register(conv, j, api, ver):
    t = H_TYPES[j]

    def hook(v, _, j=j, ver=ver):
        if v == "boom":
            raise ValueError("hook refuses")
        return HVal(j, ver, v)
    if api == "register_structure_hook":
        conv.register_structure_hook(t, hook)
    elif api == "register_structure_hook_func":
        conv.register_structure_hook_func(lambda x, t=t: x is t, hook)
    else:
        conv.register_structure_hook_factory(lambda x, t=t: x is t, lambda _t, hook=hook: hook)


def h_make_classes(rng):
    """-> [(class, [field descr])]; field descr {'name', 'kind': 'ht'|'int'|'untyped'|'nested', 'j', 'k'}"""
    out = []
    n_cls = rng.choice([2, 2, 3])
    for ci in range(n_cls):
        fields = []
        for nm in NAMES[:rng.choice([1, 2, 2, 3])]:
            # a nested class must be structurable under every registration state: a class with a converter-less field of a
            # history type has no hook itself until that type is registered ("no hook can be found" for the CLASS: the
            # eager-creation / inner-error regions F35 / F36, studied by the main stream, not here)
            nestable = [i for i, (_, fs) in enumerate(out) if all(g["k"] or g["kind"] in ("int", "untyped") for g in fs)]
            kind = rng.choice(["ht", "ht", "ht", "int", "untyped"] + (["nested"] if nestable else []))
            f = {"name": nm, "kind": kind, "j": rng.randint(0, len(H_TYPES) - 1), "k": rng.random() < 0.75}
            if kind == "nested":
                f["j"] = rng.choice(nestable)
            if kind == "untyped":
                f["k"] = True
            fields.append(f)
        if ci == 0 and not any(f["kind"] == "ht" and f["k"] for f in fields):
            fields[0] = {"name": fields[0]["name"], "kind": "ht", "j": 0, "k": True}
        flds = {}
        for f in fields:
            kw = {}
            if f["kind"] != "untyped":
                kw["type"] = H_TYPES[f["j"]] if f["kind"] == "ht" else int if f["kind"] == "int" else out[f["j"]][0]
            if f["k"]:
                kw["converter"] = mk_conv("tag", "K" + f["name"])
            flds[f["name"]] = attrs.field(**kw)
        out.append((attrs.make_class("HC%d" % next(_uid), flds), fields))
    return out


def h_payload(rng, classes, ci, tuple_strat):
    vals = []
    for f in classes[ci][1]:
        if f["kind"] == "nested":
            vals.append(h_payload(rng, classes, f["j"], tuple_strat))
        else:
            vals.append(rng.choice(["12.50 EUR", "x", 7, "3", "boom" if rng.random() < 0.3 else "y"]))
    return vals if tuple_strat else {f["name"]: v for f, v in zip(classes[ci][1], vals)}


def h_expect(classes, ci, raw, prefer, regs, tuple_strat):
    """the rule under the registrations made so far (`regs`: type index -> current hook version); raises = the call fails"""
    out = []
    for ix, f in enumerate(classes[ci][1]):
        r = raw[ix] if tuple_strat else raw[f["name"]]
        K = mk_conv("tag", "K" + f["name"]) if f["k"] else None
        if K is not None and prefer:
            v = r
        elif f["kind"] == "untyped":
            v = r
        elif f["kind"] == "int":
            v = int(r)
        elif f["kind"] == "nested":
            v = h_expect(classes, f["j"], r, prefer, regs, tuple_strat)
        elif f["j"] in regs:
            if r == "boom":
                raise ValueError("hook refuses")
            v = HVal(f["j"], regs[f["j"]], r)
        elif K is None:
            raise StructureHandlerNotFoundError("no hook", H_TYPES[f["j"]])
        else:
            v = r
        out.append((f["name"], K(v) if K else v))
    return ("I", classes[ci][0].__name__, out)


def h_ff_sx(f):
    ty = {"ht": "(ht %d)" % f["j"], "int": "(ty int)", "untyped": "-"}[f["kind"]]
    return "(ff %s %s %s -)" % (terms.esc(f["name"]), ty, "(k tag %s)" % terms.esc("K" + f["name"]) if f["k"] else "-")


def run_history(chk, drv, n_histories, stats):
    r = chk.rng
    cfgs = all_cfgs(legacy=(False,))
    for _ in range(n_histories):
        classes = h_make_classes(r)
        apis = [r.choice(H_APIS) for _ in H_TYPES]   # one API per type in a history: the latest version wins under each
        # steps: use / reg / copy; starts with a use of class 0 (a converter field of a type without hook), and a
        # registration is always followed by uses
        steps = [("use", 0)]
        for _k in range(r.randint(3, 7)):
            x = r.random()
            if x < 0.4:
                steps.append(("reg", r.randint(0, len(H_TYPES) - 1)))
                steps.append(("use", r.randint(0, len(classes) - 1)))
            elif x < 0.48:
                steps.append(("copy", 0))
            else:
                steps.append(("use", r.randint(0, len(classes) - 1)))
        if not any(s[0] == "reg" for s in steps):
            steps += [("reg", 0), ("use", 0), ("use", len(classes) - 1)]
        desc = " | ".join("HC%d(%s)" % (i, ", ".join("%s: %s%s" % (
            f["name"], {"ht": "HT%d" % f["j"], "int": "int", "untyped": "-", "nested": "HC%d" % f["j"]}[f["kind"]],
            " conv=K" if f["k"] else "") for f in fs)) for i, (_, fs) in enumerate(classes))
        payload_seeds = [r.random() for _ in steps]
        for c in cfgs:
            conv = make_converter(c)
            regs = {}
            trace = []
            # model observable: FIELDHIST (the machine of FieldConv/History.lean, theorem `C20_history_current`); dict strategy,
            # classes without nested classes
            modelled = not c["tuple"] and not any(f["kind"] == "nested" for _, fs in classes for f in fs)
            msteps, impl_outs, oracle_held = [], [], True
            for (op, arg), ps in zip(steps, payload_seeds):
                if op == "reg":
                    regs[arg] = regs.get(arg, 0) + 1
                    h_register(conv, arg, apis[arg], regs[arg])
                    trace.append("%s(HT%d, v%d)" % (apis[arg], arg, regs[arg]))
                    msteps.append("(reg %d)" % arg)
                    continue
                if op == "copy":
                    conv = conv.copy()
                    trace.append("copy()")
                    msteps.append("(copy)")
                    continue
                pl = h_payload(_random.Random(ps), classes, arg, c["tuple"])
                trace.append("structure(%r, HC%d)" % (pl, arg))
                try:
                    want = h_expect(classes, arg, pl, c["prefer"], regs, c["tuple"])
                except Exception:  # noqa: BLE001
                    want = ("err",)
                try:
                    inst = conv.structure(pl, classes[arg][0])
                    got = c_canon(inst)
                except Exception:  # noqa: BLE001
                    inst, got = None, ("err",)
                if modelled:
                    msteps.append("(use %d %s)" % (arg, terms.obj_sx(s_abs(pl))))
                    impl_outs.append("err" if inst is None else terms.canon_sx(s_abs(inst)))
                    oracle_held = oracle_held and got == want
                chk.count("history|" + cfg_name(c) + "|" + desc + "|" + " ; ".join(trace), nontrivial=bool(regs),
                          sample={"cfg": cfg_name(c), "classes": desc, "history": list(trace), "impl": repr(got)[:200]})
                chk.note("history:cfg:" + cfg_name(c), "history:outcome:" + ("err" if got == ("err",) else "ok"),
                         "history:use-after-%d-registrations" % min(len(regs), 3))
                stats["history"] += 1
                if got != want:
                    stats["oracle_fail"] += 1
                    chk.violation(
                        f"C20 oracle (registration histories): after {' ; '.join(trace[:-1]) or 'nothing'} on one converter, {trace[-1]} gives "
                        f"{got!r:.300}; the documented rule under the registrations made so far gives {want!r:.300} "
                        f"[{cfg_name(c)} | classes {desc}]",
                        {"op": "history-oracle", "cfg": c, "classes": desc, "history": list(trace), "impl": repr(got), "expected": repr(want)})
                    break
            if modelled and impl_outs:
                rm = drv.ask("FIELDHIST %s (classes %s) (steps %s)" % (
                    fcfg_sx(c), " ".join("(cls %s)" % " ".join(h_ff_sx(f) for f in fs) for _, fs in classes), " ".join(msteps)))
                if not rm.startswith("(r"):
                    raise lean.InfraError("driver rejected FIELDHIST: " + rm)
                mouts = [s_model_outcome(p) for p in terms.parse_sx(rm)[1:]]
                chk.note("corr:FIELDHIST")
                for k, (oi, om) in enumerate(zip(impl_outs, mouts)):
                    if om is None:
                        chk.unmodelled += 1
                    elif oi != om:
                        if oracle_held:
                            stats["corr_hist"].append((dict(cfg=c, classes=desc, history=list(trace), op="corr-history"), oi, om))
                        else:
                            stats["corr_fail_with_oracle_fail"] += 1
                        break
        prune_linecache()


def run(chk: framework.Check):
    drv = lean.Driver()
    # nested world classes: no self-referential classes, and no identity field converters (`idconv`): inside a hook
    # for T the data-path model (Conv/) does not know prefer_attrib_converters; converters are studied on the
    # top-level class, whose field types are the T of the property
    G = gen.Gen(chk.rng, recursive=False)
    stats = {"oracle_fail": 0, "corr_fail": [], "corr_fail_with_oracle_fail": 0, "in_scope": 0, "out_of_scope": 0,
             "kinds_seen": set(), "generic": 0, "wrapped": 0, "cycles": 0, "history": 0, "corr_cycle": [], "corr_hist": []}
    run_generic(chk, 60 if chk.tier == "quick" else 600, stats)
    run_wrapped(chk, 44 if chk.tier == "quick" else 440, stats)
    n_worlds, per_world = (60, 10) if chk.tier == "quick" else (600, 12)
    made = 0
    attempts = 0
    while made < n_worlds and attempts < n_worlds * 3:
        attempts += 1
        w = G.world()
        for c in w["classes"]:
            for f in c["fields"]:
                f.pop("idconv", None)
        try:
            W = World(drv, w)
        except Exception:  # noqa: BLE001
            chk.note("world-rejected-by-python")
            continue
        if made == 0:
            run_grid(chk, G, W, stats)
        run_random(chk, G, W, per_world, stats)
        made += 1
        prune_linecache()
    # (the two round-3 streams run last: the streams above consume the PRNG exactly as they did before)
    run_cycles(chk, drv, 34 if chk.tier == "quick" else 340, stats)
    run_history(chk, drv, 40 if chk.tier == "quick" else 400, stats)
    run_shapes(chk, 60 if chk.tier == "quick" else 900, stats)
    # correspondence failures that no oracle failure accounts for: the model no longer describes the code
    for case, oi, om, oe in stats["corr_fail"][:5]:
        chk.violation(
            "correspondence corr:C20:FIELDCONV broken (theorems C20_* no longer tied to the code): "
            f"impl={oi[:200]} model={om[:200]} rule={oe[:200]} [{cfg_name(case['cfg'])} | {fields_sig(case['fields'])} | "
            f"presents={case['presents']} raws={[terms.canon_sx(x) for x in case['raws']]}]",
            case, found_input=False)
    for opname, key in (("FIELDCYCLE", "corr_cycle"), ("FIELDHIST", "corr_hist")):
        for case, oi, om in stats[key][:3]:
            chk.violation(f"correspondence corr:C20:{opname} broken (theorems C20_* no longer tied to the code): impl={oi[:300]} model={om[:300]} "
                          f"[{cfg_name(case['cfg'])} | {json.dumps(case, default=str)[:500]}]", case, found_input=False)
    # the witnesses of the recorded findings must still reproduce
    for f in chk.known:
        if not chk.known_hits.get(f["id"]):
            print(f"STALE-FINDING: property=C20 {f['id']} did not reproduce in this run (grid cells are its witness)")
            chk.note("stale-finding:" + f["id"])
    chk.extra["rule"] = ("classes over the 4x2x2 field-kind grid (<=5 fields, shuffled orders; every cell also as a one-field class) x "
                         "{Converter,BaseConverter} x prefer x detailed x {dict,tuple} (+legacy fallback) x payloads {valid,mutated,junk,special,"
                         "absent keys}; non-trivial = the class has a field converter; distinct by canonical text")
    chk.extra["model_scope"] = {"cases_in_theorem_scope(NoLazyEscape&NoDeepSHNF)": stats["in_scope"],
                                "cases_outside(F35/F36 regions, model still compared)": stats["out_of_scope"]}
    chk.extra["generic_stream(implementation-only oracle)"] = stats["generic"]
    chk.extra["wrapper_route_stream(implementation-only oracle)"] = stats["wrapped"]
    chk.extra["reference_cycle_stream(implementation-only oracle)"] = stats["cycles"]
    chk.extra["registration_history_stream(implementation-only oracle)"] = stats["history"]
    chk.extra["class_shape_stream(implementation-only oracle)"] = stats.get("shapes", 0)
    chk.extra["correspondence_mismatches"] = (len(stats["corr_fail"]) + stats["corr_fail_with_oracle_fail"]
                                              + len(stats["corr_cycle"]) + len(stats["corr_hist"]))
    chk.extra["oracle_failures(incl. recognised findings)"] = stats["oracle_fail"]
    drv.close()


def replay(case):
    if case.get("op") in ("shape-oracle", "shape-kind"):
        return replay_shape(case)
    if case.get("op") in ("generic-oracle", "wrapped-oracle", "wrapped-kind", "cycle-oracle", "history-oracle"):
        print("implementation-only stream case:", case)
        return 1
    drv = lean.Driver()
    w = terms.world_from_json(case["world"])
    W = World(drv, w)
    if case.get("op") == "kind":
        f = dict(case["fields"][0])
        f["ty"] = terms.tuple_ify(f["ty"]) if f["ty"] is not None else None
        got = lookup_says(W.conv(case["cfg"]), W.py_type(f))
        print("field kind:", f["tk"], " lookup answers:", got)
        return 1
    fields = []
    for f in case["fields"]:
        f2 = dict(f)
        f2["ty"] = terms.tuple_ify(f["ty"]) if f["ty"] is not None else None
        f2["conv"] = tuple(f["conv"]) if f["conv"] is not None else None
        f2["dflt"] = terms.tuple_ify(f["dflt"]) if f["dflt"] is not None else None
        fields.append(f2)
    pairs = [W.S.realise(terms.tuple_ify(r)) for r in case["raws"]]
    raws, raws_py = [a for _, a in pairs], [v for v, _ in pairs]
    c = case["cfg"]
    cl = W.make_class(fields)
    payload_abs, pres = payload_of(c, fields, case["presents"], raws, case["cut"])
    conv = W.conv(c)
    print("class  :", fields_sig(fields))
    print("config :", cfg_name(c))
    print("payload:", terms.canon_sx(payload_abs))
    if c["tuple"]:
        payload_py = [raws_py[i] for i in range(case["cut"])]
    else:
        payload_py = {f["name"]: raws_py[i] for i, f in enumerate(fields) if case["presents"][i]}
    oi, exc = impl_outcome(W, conv, cl, fields, payload_py)
    per = expected_outcome(W, conv, c, fields, pres, raws_py)
    oe = whole(per, fields)
    om, scope = model_outcome(W, c, fields, payload_abs)
    print("impl   :", canon(oi), repr(exc)[:300] if exc is not None else "")
    print("rule   :", canon(oe))
    print("model  :", canon(om), "(theorem scope: NoLazyEscape=%s NoDeepSHNF=%s)" % scope)
    return 1 if canon(oi) != canon(oe) or (om[0] != "unmodelled" and canon(oi) != canon(om)) else 0


if __name__ == "__main__":
    framework.main(run, "C20")
