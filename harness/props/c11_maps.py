"""Helpers of the C11 check for inputs OUTSIDE the Lean fragment (implementation-only oracle, no model):

* mapping TARGET classes other than dict, in particular classes whose constructor WRAPS the mapping it is
  given instead of copying it (`collections.ChainMap`, `types.MappingProxyType`, user-written views);
* user-defined mapping classes that are generic in ONE parameter (`class Index(Dict[K, Any])`,
  `class Groups(dict, Generic[K])`), in both parameters, or not at all;
* PAYLOAD dicts that are instances of dict subclasses with a side-effecting `__missing__`
  (`collections.defaultdict`, a memoising dict): any subscript of an absent key by the hook inserts it;
* identity-level reachability through arbitrary objects (`gc.get_referents`), so that a result which merely
  wraps an argument container counts as sharing it.

The oracle applied to them is C11's own, unchanged: the argument is never modified; the result shares no mutable
container with the argument outside the documented pass-through positions."""
from __future__ import annotations

import collections
import collections.abc
import enum
import gc
import types
import typing
from typing import Any, Dict, Generic, TypeVar

K = TypeVar("K")
V = TypeVar("V")


# ------------------------------------------------------------------ payload dict classes

class Memo(dict):
    """a dict that computes (and remembers) the entries it does not have"""

    def __missing__(self, key):
        value = self[key] = len(self)
        return value


class MyD(dict):
    """a plain dict subclass (no `__missing__`)"""


DRESSES = {
    "memo": lambda d: Memo(d),
    "ddlist": lambda d: collections.defaultdict(list, d),
    "ddint": lambda d: collections.defaultdict(int, d),
    "odict": lambda d: collections.OrderedDict(d),
    "myd": lambda d: MyD(d),
}
MISSING_DRESSES = ("memo", "ddlist", "ddint")


def has_dict(o) -> bool:
    """does the abstract object hold a dict node outside instances?"""
    t = o[0]
    if t == "d":
        return True
    if t in ("l", "t", "q"):
        return any(has_dict(x) for x in o[1])
    return False


def dress(v, kind):
    """the same value with every exact `dict` node (outside class instances) rebuilt as an instance of the
    payload class `kind`; lists / tuples / deques are rebuilt around them"""
    cl = v.__class__
    if cl is dict:
        return DRESSES[kind]({k: dress(x, kind) for k, x in v.items()})
    if cl is list:
        return [dress(x, kind) for x in v]
    if cl is tuple:
        return tuple(dress(x, kind) for x in v)
    if cl is collections.deque:
        return collections.deque(dress(x, kind) for x in v)
    return v


# ------------------------------------------------------------------ mapping target classes

class View(collections.abc.Mapping):
    """a read-only view: keeps the mapping it is given (as `types.MappingProxyType` does)"""

    def __init__(self, m=()):
        self._m = m if hasattr(m, "keys") else dict(m)

    def __getitem__(self, k):
        return self._m[k]

    def __iter__(self):
        return iter(self._m)

    def __len__(self):
        return len(self._m)


class GView(collections.abc.MutableMapping, Generic[K, V]):
    """a generic, mutable wrapper: writes go to the mapping it was given (as `collections.ChainMap` does)"""

    __slots__ = ("_m",)

    def __init__(self, m=()):
        self._m = m if hasattr(m, "keys") else dict(m)

    def __getitem__(self, k):
        return self._m[k]

    def __setitem__(self, k, v):
        self._m[k] = v

    def __delitem__(self, k):
        del self._m[k]

    def __iter__(self):
        return iter(self._m)

    def __len__(self):
        return len(self._m)


class Index(Dict[K, Any]):
    """postings keyed by K: a mapping class generic in its key type only"""


class Groups(dict, Generic[K]):
    """another spelling of a mapping generic in its key type only"""


class Both(Dict[K, V]):
    """a user mapping class generic in both parameters"""


# name -> (class, bare typing alias or None, number of type parameters, wraps its argument?, dict subclass?)
MAP_CLASSES = {
    "ChainMap": (collections.ChainMap, typing.ChainMap, 2, True, False),
    "MappingProxyType": (types.MappingProxyType, None, 2, True, False),
    "View": (View, None, 0, True, False),
    "GView": (GView, None, 2, True, False),
    "OrderedDict": (collections.OrderedDict, typing.OrderedDict, 2, False, True),
    "UserDict": (collections.UserDict, None, 0, False, False),
    "MyD": (MyD, None, 0, False, True),
    "Index": (Index, None, 1, False, True),
    "Groups": (Groups, None, 1, False, True),
    "Both": (Both, None, 2, False, True),
    "dict": (dict, typing.Dict, 2, False, True),
    "Mapping": (collections.abc.Mapping, typing.Mapping, 2, False, False),
}


def spellings(name):
    """the ways the class can be written as a type: bare class, bare typing alias, `[Any, Any]`, `[K, V]` / `[K]`"""
    cl, alias, n, _w, _d = MAP_CLASSES[name]
    out = ["bare"]
    if alias is not None:
        out.append("typing")
    if n == 2:
        out += ["anyany", "param"]
    elif n == 1:
        out += ["param"]
    return out


def map_type(name, spell, k_py, v_py):
    cl, alias, n, _w, _d = MAP_CLASSES[name]
    if spell == "bare":
        return cl
    if spell == "typing":
        return alias
    base = alias if (alias is not None and name in ("ChainMap", "OrderedDict")) else cl
    if n == 1:
        return cl[k_py]
    if spell == "anyany":
        return base[Any, Any]
    return base[k_py, v_py]


def make_instance(name, d):
    """an instance of the mapping class holding the entries of the (fresh) dict d"""
    cl = MAP_CLASSES[name][0]
    if cl is collections.abc.Mapping:
        return d
    return cl(d)


# ------------------------------------------------------------------ identity-level reachability

_ATOMIC = (str, bytes, int, float, complex, bool, type(None), type, types.ModuleType, types.FunctionType,
           types.BuiltinFunctionType, types.MethodType, types.CodeType, types.MethodDescriptorType,
           types.WrapperDescriptorType, types.GetSetDescriptorType, types.MemberDescriptorType, enum.Enum,
           types.GenericAlias, property, staticmethod, classmethod)


def deep_ids(o, budget=4000):
    """id()s of every object reachable from o through references of any kind (container items, attributes,
    slots, the mapping behind a mappingproxy, ...); classes, modules, functions and leaves are not entered"""
    seen = {}
    todo = [o]
    while todo and len(seen) < budget:
        x = todo.pop()
        if id(x) in seen or isinstance(x, _ATOMIC):
            continue
        seen[id(x)] = x          # (keeps x alive: ids stay unique during the walk)
        todo.extend(gc.get_referents(x))
    return set(seen)
