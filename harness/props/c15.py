"""C15 — union passthrough validates by exact class or literal value, order-independent.

Implementation observable (real cattrs, in-process): for a converter configured with
`configure_union_passthrough(Union[S…])`, a union `U` (every order of its members on a FRESH converter: the
dispatch cache is keyed by `==` on unions) and each value `v` of a fixed probe battery: does
`structure(v, U)` return `v` itself (identity), hand it on (`converter.structure(v, <spill type>)`, seen
through a recording subclass of Converter — public API only), or raise; plus the applicability predicate.

Model observable (`Passthrough/Driver.lean`, op `PASS`): `applicable S U` and `passthrough S sub U v`.

Oracle (from the property statement, independent of the model; `spec()` below works on the real Python
type objects): `v` comes back itself exactly when its class is an accepted member of `U` (a configured
subclass of a member counts; NewTypes by base) or it equals a literal of `U` of the same class; otherwise
the outcome is the one a plain converter gives for the remaining members, or an error if there are none;
the same for every member order.  `Optional[X]` must behave exactly as on a plain converter.
"""
from __future__ import annotations

import datetime as _dt
import enum
import itertools
import os
import sys
import typing
from typing import Literal, NewType, Union

import attrs

sys.path.insert(0, os.environ.get("CATTRS_SRC", "/repo/src"))

import cattrs  # noqa: E402
from cattrs import Converter  # noqa: E402
from cattrs.strategies import configure_union_passthrough  # noqa: E402

from harness import framework, lean, terms  # noqa: E402

assert cattrs.__file__.startswith(os.environ.get("CATTRS_SRC", "/repo/src")), cattrs.__file__


# ---------------------------------------------------------------------------------------------- universe

class MyStr(str):
    pass


class MyInt(int):
    pass


class IE(enum.IntEnum):
    Z = 0
    X = 1


class MyInt2(MyInt):          # int <- MyInt <- MyInt2
    pass


class MyStr2(MyStr):          # str <- MyStr <- MyStr2 <- MyStr3
    pass


class MyStr3(MyStr2):
    pass


class Stamp(_dt.datetime):    # date <- datetime <- Stamp
    pass


class _Mixin:
    pass


class Mixed(_Mixin, MyInt):   # int <- MyInt <- Mixed, and the first direct base is unrelated
    pass


@attrs.define
class A:
    a: int


@attrs.define
class B:
    b: str


NoneType = type(None)
CLASSES = [NoneType, bool, int, float, str, bytes, MyStr, MyInt, A, B, dict, list, IE,
           MyInt2, MyStr2, MyStr3, _dt.date, _dt.datetime, Stamp, Mixed]
CID = {c: i for i, c in enumerate(CLASSES)}
CNAME = ["None", "bool", "int", "float", "str", "bytes", "MyStr", "MyInt", "A", "B", "dict", "list", "IE",
         "MyInt2", "MyStr2", "MyStr3", "date", "datetime", "Stamp", "Mixed"]
S_POOL = [0, 1, 2, 3, 4, 5, 6, 7]          # what a flat S is drawn from (hierarchies at most one level deep)
DEEP_POOL = S_POOL + [12, 13, 14, 15, 16, 17, 18, 19]
JSON_S = [4, 1, 2, 3, 0]                   # cattrs.preconf.json
YAML_S = [4, 1, 2, 3, 0, 5, 17, 16]        # cattrs.preconf.pyyaml: …, bytes, datetime, date
# inheritance chains of the universe, most general class first; `IE` is TWO levels below int (IE -> IntEnum -> int) and
# the intermediate class is not in the universe at all
CHAINS = [[2, 7, 13], [2, 7, 19], [4, 6, 14, 15], [16, 17, 18], [2, 12], [2, 1]]

NT = {b: NewType(f"NT_{CNAME[b]}", CLASSES[b]) for b in (1, 2, 3, 4, 7, 8, 16)}
NT2 = NewType("NT2", NT[2])                # NewType of a NewType: its supertype is not a class
OTHERS = {0: NT2, 1: list[int]}


def abs_leaf(v):
    """(class id, abstract object deciding ==) of a probe / literal value"""
    cl = v.__class__
    if v is None:
        return (0, ("N",))
    if cl is bool:
        return (1, ("b", v))
    if cl in (int, MyInt, IE, MyInt2, Mixed):
        return (CID[cl], ("i", int(v)))
    if cl is float:
        return (3, ("f", int(v * 2)))
    if cl in (str, MyStr, MyStr2, MyStr3):
        return (CID[cl], ("s", str(v)))
    if cl in (_dt.date, _dt.datetime, Stamp):
        # no two of the date-like probes are `==` (a date never equals a datetime; the datetimes differ in value), and
        # none can be a Literal value: an opaque object per probe decides `==`
        return (CID[cl], ("o", 100 + [d.__class__ for d in DATELIKE].index(cl)))
    if cl is bytes:
        return (5, ("y", v.hex()))
    if cl is A:
        return (8, ("I", 8, [("a", abs_leaf(v.a)[1])]))
    if cl is B:
        return (9, ("I", 9, [("b", abs_leaf(v.b)[1])]))
    if cl is dict:
        return (10, ("d", [(abs_leaf(k)[1], abs_leaf(x)[1]) for k, x in v.items()]))
    if cl is list:
        return (11, ("l", [abs_leaf(x)[1] for x in v]))
    raise ValueError(v)


def val_sx(v):
    c, o = abs_leaf(v)
    return "(%d %s)" % (c, terms.obj_sx(o))


DATELIKE = [_dt.date(2020, 1, 2), _dt.datetime(2020, 1, 2, 3, 4), Stamp(2021, 5, 6, 7, 8)]
PROBES = [None, True, False, 0, 1, 2, -1, 0.0, 1.0, 2.5, "a", "", "1", "0", b"a", b"", MyStr("a"), MyStr(""),
          MyInt(0), MyInt(1), MyInt(5), IE.X, IE.Z, A(1), B("x"), {"a": 1}, {"b": "x"}, {}, [1],
          MyInt2(0), MyInt2(7), Mixed(1), MyStr2("a"), MyStr3(""), MyStr3("a")] + DATELIKE
PROBES_SX = "(vals " + " ".join(val_sx(v) for v in PROBES) + ")"
LIT_POOL = [0, 1, 2, True, False, "a", "", "1", b"a", None, IE.X]


# abstract members: ("c", id) ("nt", base) ("o", id) ("lit", (values…))
def mem_real(m):
    k = m[0]
    if k == "c":
        return CLASSES[m[1]]
    if k == "nt":
        return NT[m[1]]
    if k == "o":
        return OTHERS[m[1]]
    return Literal[tuple(m[1])]


def mem_sx(m):
    k = m[0]
    if k == "c":
        return "(c %d)" % m[1]
    if k == "nt":
        return "(nt %d %d)" % (m[1], m[1])
    if k == "o":
        return "(o %d)" % m[1]
    return "(lit " + " ".join(val_sx(v) for v in m[1]) + ")"


def mem_name(m):
    k = m[0]
    if k == "c":
        return CNAME[m[1]]
    if k == "nt":
        return "NT(" + CNAME[m[1]] + ")"
    if k == "o":
        return ["NT(NT(int))", "list[int]"][m[1]]
    return "Literal[" + ", ".join(repr(v) for v in m[1]) + "]"


def union_name(ms):
    return " | ".join(mem_name(m) for m in ms)


def lit_key(v):
    return (v.__class__, v)


# ---------------------------------------------------------------------------------------------- statement

def spec(S_classes, members, real_members, v):
    """The property statement on real Python objects -> 'same' | 'reject' | ('spill', [member indexes])."""
    cl = v.__class__
    accepted = False
    lit = False
    remaining = []
    for i, (m, t) in enumerate(zip(members, real_members)):
        if m[0] == "lit":
            if any(w.__class__ is cl and w == v for w in t.__args__):
                lit = True
            continue
        base = getattr(t, "__supertype__", t)
        if base in S_classes:
            if cl is base or (cl in S_classes and issubclass(cl, base)):
                accepted = True
        else:
            remaining.append(i)
    if accepted or lit:
        return "same"
    if remaining:
        return ("spill", remaining)
    return "reject"


# ---------------------------------------------------------------------------------------------- implementation

class Spy(Converter):
    """records every call of .structure (the hook hands values on through converter.structure)"""

    def structure(self, obj, cl):
        self.calls.append((obj, cl))
        return super().structure(obj, cl)


def fresh(S_ids, passthrough=True):
    c = Spy()
    c.calls = []
    if passthrough:
        configure_union_passthrough(Union[tuple(CLASSES[i] for i in S_ids)] if len(S_ids) > 1 else CLASSES[S_ids[0]], c)
    return c


def outcome(fn):
    try:
        r = fn()
    except Exception as e:  # noqa: BLE001
        return ("err", e.__class__.__name__)
    return ("ok", r)


def same_out(a, b):
    if a[0] != b[0]:
        return False
    if a[0] == "err":
        return True
    return a[1].__class__ is b[1].__class__ and a[1] == b[1]


def observe(conv, U, v):
    """-> ('same',) | ('reject',) | ('spill', spill type, outcome) | ('other', outcome)"""
    conv.calls.clear()
    out = outcome(lambda: conv.structure(v, U))
    nested = conv.calls[1:]
    if nested:
        obj, ty = nested[0]
        if obj is v:
            return ("spill", ty, out)
        return ("other", out)
    if out[0] == "err":
        return ("reject",)
    if out[1] is v:
        return ("same",)
    return ("other", out)


def predicate_of(conv):
    try:
        pred = conv._structure_func._function_dispatch._handler_pairs[0][0]
        if getattr(pred, "__name__", "") == "contains_native_union":
            return pred
    except Exception:  # noqa: BLE001
        pass
    return None


# ---------------------------------------------------------------------------------------------- one union

class UnionCase:
    def __init__(self, S_ids, members):
        self.S = list(S_ids)
        self.members = list(members)

    def json(self):
        def enc(m):
            if m[0] == "lit":
                return ["lit", [[CID[v.__class__], repr(v)] for v in m[1]]]
            return list(m)
        return {"S": self.S, "members": [enc(m) for m in self.members]}

    @staticmethod
    def from_json(j):
        ms = []
        for m in j["members"]:
            if m[0] == "lit":
                vals = []
                for cid, rp in m[1]:
                    vals.append(next(v for v in LIT_POOL if CID[v.__class__] == cid and repr(v) == rp))
                ms.append(("lit", tuple(vals)))
            else:
                ms.append(tuple(m))
        return UnionCase(j["S"], ms)


def sub_sx(S_ids):
    return "(sub " + " ".join("(%d %d)" % (a, c) for a in S_ids for c in S_ids if issubclass(CLASSES[a], CLASSES[c])) + ")"


def check_union(chk, drv, uc, orders, corr_fail, verbose=False):
    """all given orders of one union; returns nothing, records violations"""
    S_ids = uc.S
    S_classes = {CLASSES[i] for i in S_ids}
    S_sx = "(S " + " ".join(str(i) for i in S_ids) + ")"
    subs = sub_sx(S_ids)
    plain = fresh(S_ids, passthrough=False)
    per_probe_first = None
    lab0 = "S={%s}" % ",".join(CNAME[i] for i in S_ids)
    for perm in orders:
        members = [uc.members[i] for i in perm]
        real = [mem_real(m) for m in members]
        U = Union[tuple(real)]
        if getattr(U, "__args__", None) is None or len(U.__args__) != len(real):
            chk.note("union-collapsed-by-typing")
            return
        lab = lab0 + " U=" + union_name(members)
        case = {"S": uc.json()["S"], "members": uc.json()["members"], "order": list(perm)}
        conv = fresh(S_ids)
        pred = predicate_of(conv)
        mm = drv.ask("PASS %s %s (U %s) %s" % (S_sx, subs, " ".join(mem_sx(m) for m in members), PROBES_SX))
        pm = terms.parse_sx(mm)
        if pm[0] != "res":
            raise lean.InfraError("model driver: " + mm)
        m_app = pm[1][1] == "1"
        m_res = pm[2:]
        is_optional = len(members) == 2 and ("c", 0) in members
        touches = any((m[0] == "lit" and any(v.__class__ in S_classes for v in m[1]))
                      or (m[0] in ("c", "nt") and CLASSES[m[1]] in S_classes) for m in members)
        if verbose:
            print("order:", union_name(members), " applicable(model)=", m_app, " predicate(impl)=",
                  None if pred is None else bool(pred(U)))
        # ---- the applicability predicate
        if pred is None:
            chk.note("predicate-not-reachable")
        else:
            i_app = bool(pred(U))
            exp_app = (not is_optional) and touches
            if i_app != exp_app:
                chk.violation(f"C15 oracle (applicability): contains_native_union = {i_app}, statement says {exp_app} [{lab}]", case)
                return
            if i_app != m_app:
                corr_fail.append((case, "PASS(app)", str(i_app), str(m_app), lab))
                return
        chk.note("applicable:%s" % m_app, "optional:%s" % is_optional, "members:%d" % len(members))
        if perm == orders[0]:
            chk.note("S:deepest-configured-descendant-of-a-configured-class:%d-levels" % s_depth(S_ids))
        obs_row = []
        for vi, v in enumerate(PROBES):
            ob = observe(conv, U, v)
            pcase = dict(case, probe=vi)
            plab = lab + " v=" + repr(v) + ":" + v.__class__.__name__
            if is_optional or not m_app:
                # left to the default hooks: must be what a plain converter does
                if is_optional:
                    po = outcome(lambda: plain.structure(v, U))
                    io = ("err", None) if ob[0] == "reject" else ("ok", v) if ob[0] == "same" else ob[-1]
                    chk.count(("opt", lab, vi), nontrivial=False)
                    if not same_out(io, po):
                        chk.violation(f"C15 oracle (Optional left to the default hook): got {io!r}, plain converter gives {po!r} [{plab}]", pcase)
                        return
                continue
            sp = spec(S_classes, members, real, v)
            chk.count((tuple(S_ids), union_name(members), vi),
                      sample={"case": plab, "impl": ob[0], "model": terms_of(m_res[vi])})
            kind = sp if isinstance(sp, str) else "spill"
            chk.note("spec:" + kind, "probe:" + v.__class__.__name__)
            if kind == "same" and v.__class__ in S_classes:
                d = accept_depth(S_classes, members, real, v.__class__)
                if d is not None and d >= 1:
                    chk.note("accepted-as-configured-subclass:%d-level%s-below-the-member" % (d, "" if d == 1 else "s"))
            if verbose:
                print("  v=%r:%s impl=%s spec=%s model=%s" % (v, v.__class__.__name__, ob[0], sp, terms_of(m_res[vi])))
            # ---- oracle
            bad = None
            if sp == "same":
                if ob[0] != "same":
                    bad = f"expected the value itself, got {ob!r}"
            elif sp == "reject":
                if ob[0] != "reject":
                    bad = f"expected rejection, got {ob!r}"
            else:
                want = {real[i] for i in sp[1]}
                if ob[0] != "spill":
                    bad = f"expected hand-over to {[mem_name(members[i]) for i in sp[1]]}, got {ob!r}"
                else:
                    ty = ob[1]
                    got = set(ty.__args__) if typing.get_origin(ty) is Union else {ty}
                    if got != want:
                        bad = f"handed to {ty!r}, remaining members are {[mem_name(members[i]) for i in sp[1]]}"
                    else:
                        po = outcome(lambda: plain.structure(v, ty))
                        if not same_out(ob[2], po):
                            bad = f"hand-over outcome {ob[2]!r} differs from a plain converter's {po!r}"
            if bad:
                chk.violation(f"C15 oracle: {bad} [{plab}]", pcase)
                return
            # ---- correspondence
            mr = m_res[vi]
            if isinstance(mr, str):
                agree = mr == ob[0]
            else:
                agree = ob[0] == "spill" and isinstance(sp, tuple) and sorted(int(x) for x in mr[1:]) == sorted(sp[1])
            if not agree:
                corr_fail.append((pcase, "PASS", ob[0], terms_of(mr), plab))
            obs_row.append((ob[0], None if ob[0] != "spill" else (frozenset(id(real[i]) for i in sp[1]), ob[2][0],
                                                                     repr(ob[2][1]) if ob[2][0] == "ok" else None)))
        # ---- order independence (implementation side)
        if per_probe_first is None:
            per_probe_first = (obs_row, lab)
        elif obs_row != per_probe_first[0]:
            k = next(i for i, (a, b) in enumerate(zip(obs_row, per_probe_first[0])) if a != b) if len(obs_row) == len(per_probe_first[0]) else -1
            chk.violation(f"C15 oracle (order): results differ between member orders [{per_probe_first[1]}] and [{lab}] at probe {k}", case)
            return


def mro_distance(cl, base):
    """number of inheritance steps on the shortest path from `cl` up to `base` (None: not a subclass)"""
    if cl is base:
        return 0
    best = None
    for b in cl.__bases__:
        if issubclass(b, base):
            d = mro_distance(b, base)
            if d is not None and (best is None or d + 1 < best):
                best = d + 1
    return best


def s_depth(S_ids):
    ds = [mro_distance(CLASSES[a], CLASSES[c]) for a in S_ids for c in S_ids if a != c and issubclass(CLASSES[a], CLASSES[c])]
    return max(ds) if ds else 0


def accept_depth(S_classes, members, real, cl):
    """how far below the nearest accepting member of U the (configured) class of the value is"""
    ds = []
    for m, t in zip(members, real):
        if m[0] == "lit":
            continue
        base = getattr(t, "__supertype__", t)
        if base in S_classes and isinstance(base, type) and issubclass(cl, base):
            ds.append(mro_distance(cl, base))
    return min(ds) if ds else None


def terms_of(px):
    if isinstance(px, str):
        return px
    return "(" + " ".join(terms_of(x) for x in px) + ")"


# ---------------------------------------------------------------------------------------------- generation

def gen_lit(rng):
    n = rng.choice([1, 1, 2, 2, 3])
    vals = []
    if rng.random() < 0.45:
        # a look-alike cluster
        cluster = rng.choice([[0, False], [1, True], [1, True, IE.X], [0, True], [1, False], [0, 1, True]])
        vals = rng.sample(cluster, min(n, len(cluster)))
    while len(vals) < n:
        v = rng.choice(LIT_POOL)
        if lit_key(v) not in [lit_key(u) for u in vals]:
            vals.append(v)
    return ("lit", tuple(vals))


def gen_member(rng, S):
    r = rng.random()
    if r < 0.42:
        # mostly configured classes (otherwise nearly every union has a spill-over and nothing is ever rejected)
        return ("c", rng.choice(S) if rng.random() < 0.8 else rng.choice(S_POOL if rng.random() < 0.7 else DEEP_POOL))
    if r < 0.52:
        return ("c", rng.choice([8, 9]))
    if r < 0.80:
        return gen_lit(rng)
    if r < 0.95:
        in_s = [b for b in sorted(NT) if b in S]
        return ("nt", rng.choice(in_s) if in_s and rng.random() < 0.75 else rng.choice(sorted(NT)))
    return ("o", rng.choice([0, 1]))


def mem_key(m):
    if m[0] == "lit":
        return ("lit", frozenset(lit_key(v) for v in m[1]))
    return m


def gen_S(rng):
    """-> (configured set, chain or None).  A third of the sets hold a class TWO OR MORE levels below another of their
    members (the intermediate classes configured or not): "a configured subclass of a member counts" is a statement about
    `issubclass`, not about direct bases."""
    r = rng.random()
    if r < 0.25:
        return list(JSON_S), None
    if r < 0.31:
        return list(YAML_S) + ([18] if rng.random() < 0.5 else []), ([16, 17, 18] if rng.random() < 0.5 else None)
    if r < 0.64:
        chain = rng.choice(CHAINS)
        S = [chain[0], chain[-1]] + [c for c in chain[1:-1] if rng.random() < 0.4]
        if rng.random() < 0.3:      # a second hierarchy next to it
            other = rng.choice(CHAINS)
            S += [c for c in (other[0], other[-1]) if c not in S]
        S += [c for c in rng.sample(DEEP_POOL, rng.randint(0, 3)) if c not in S]
        rng.shuffle(S)
        return S, chain
    if r < 0.72:
        return rng.sample(DEEP_POOL, rng.randint(2, 7)), None
    return rng.sample(S_POOL, rng.randint(2, 6)), None


def gen_union(rng):
    n = rng.choice([2, 3, 3, 4, 4, 5])
    S, chain = gen_S(rng)
    ms = []
    keys = set()
    n_spill = 0
    tries = 0
    if chain is not None and rng.random() < 0.7:
        # the union names the ANCESTOR (as a class or through a NewType); whether it also names descendants is left
        # to the random members below
        top = chain[0]
        ms.append(("nt", top) if top in NT and rng.random() < 0.3 else ("c", top))
        keys.add(mem_key(ms[0]))
    while len(ms) < n and tries < 50:
        tries += 1
        m = gen_member(rng, S)
        if mem_key(m) in keys:
            continue
        if m in (("c", 8), ("c", 9), ("nt", 8)) or m[0] == "o":
            if n_spill >= 2:
                continue
            n_spill += 1
        keys.add(mem_key(m))
        ms.append(m)
    return UnionCase(S, ms)


THOROUGH_ALPHABET = [("c", 2), ("c", 1), ("c", 4), ("c", 0), ("c", 7), ("nt", 2), ("c", 8),
                     ("lit", (0, True)), ("lit", (1, "a")), ("lit", (False,))]
THOROUGH_S = [JSON_S, [2, 5], [2, 1], [4, 7, 2], [1, 0], [2, 7, 1, 4, 0, 3, 5, 6],
              [2, 12, 1], [2, 7, 13, 19], [2, 13], [4, 15, 2], [4, 6, 14, 15]]


def run(chk: framework.Check):
    rng = chk.rng
    drv = lean.Driver()
    corr_fail = []
    cases = []
    if chk.tier == "quick":
        # a fixed core of look-alike unions, then random ones
        core = [
            UnionCase(JSON_S, [("lit", (0, True)), ("c", 4)]),
            UnionCase(JSON_S, [("lit", (0,)), ("lit", (True,)), ("c", 4)]),
            UnionCase(JSON_S, [("lit", (1, False)), ("c", 4)]),
            UnionCase(JSON_S, [("lit", (0, False)), ("c", 4)]),
            UnionCase(JSON_S, [("lit", (1,)), ("c", 4), ("c", 8)]),
            UnionCase(JSON_S, [("lit", (1, IE.X)), ("c", 3)]),
            UnionCase([2, 4], [("c", 2), ("c", 4)]),
            UnionCase([2, 4, 1], [("c", 2), ("c", 4)]),
            UnionCase([2, 4, 7], [("nt", 2), ("c", 4), ("c", 9)]),
            UnionCase(JSON_S, [("c", 2), ("c", 0)]),
            UnionCase(JSON_S, [("lit", (1,)), ("c", 0)]),
            UnionCase(JSON_S, [("c", 8), ("c", 9)]),
            UnionCase([2, 5], [("c", 1), ("c", 4), ("c", 8)]),
            UnionCase(JSON_S, [("o", 0), ("c", 2), ("nt", 8)]),
            # configured classes two or more levels below a member of U (intermediate classes configured or not)
            UnionCase([2, 12], [("c", 2), ("c", 4)]),
            UnionCase([2, 7, 13], [("c", 2), ("c", 8)]),
            UnionCase([2, 13, 4], [("nt", 2), ("c", 4)]),
            UnionCase([4, 15], [("c", 4), ("c", 2)]),
            UnionCase([4, 6, 14, 15], [("c", 4), ("lit", (1,))]),
            UnionCase(YAML_S + [18], [("c", 16), ("c", 4)]),
            UnionCase([16, 18, 4], [("nt", 16), ("c", 4)]),
            UnionCase([2, 19], [("c", 2), ("c", 0), ("c", 9)]),
            UnionCase([7, 13, 19, 2], [("c", 7), ("c", 4)]),
            # unions whose only configured ingredients are literal values
            UnionCase(JSON_S, [("lit", ("a",)), ("c", 8)]),
            UnionCase(JSON_S, [("lit", ("a", "1")), ("lit", (1, 2))]),
            UnionCase(JSON_S, [("lit", ("a",)), ("o", 1)]),
            UnionCase([2, 5], [("lit", (1,)), ("c", 4), ("c", 0)]),
        ]
        cases = core + [gen_union(rng) for _ in range(250)]
    else:
        for S in THOROUGH_S:
            for n in (2, 3, 4):
                for comb in itertools.combinations(THOROUGH_ALPHABET, n):
                    cases.append(UnionCase(S, list(comb)))
        cases += [gen_union(rng) for _ in range(1500)]
    for uc in cases:
        n = len(uc.members)
        if n < 2:
            continue
        orders = list(itertools.permutations(range(n)))
        before = len(chk.violations)
        check_union(chk, drv, uc, orders, corr_fail)
        if len(chk.violations) > before and len(chk.violations) >= 20:
            break
    if corr_fail and not chk.violations:
        for case, op, ri, rm, lab in corr_fail[:5]:
            chk.violation(f"correspondence corr:C15:{op} broken (theorems C15_* no longer tied to the code): impl={ri} model={rm} [{lab}]",
                          case, found_input=False)
    chk.extra["hierarchies"] = ("configured sets: json's 25%, pyyaml's (date/datetime, +Stamp) 6%, built around an inheritance "
                                "chain of the universe (top and bottom configured, intermediates 40% each; chains int<-MyInt<-MyInt2, "
                                "int<-MyInt<-Mixed(_Mixin, MyInt), str<-MyStr<-MyStr2<-MyStr3, date<-datetime<-Stamp, int<-IntEnum<-IE, "
                                "int<-bool) 33%, random over all 16 configurable classes 8%, flat 28%; see the histogram keys "
                                "'accepted-as-configured-subclass:*' and 'S:deepest-*'")
    chk.extra["rule"] = ("distinct (S, ordered union, probe) triples on applicable unions; S from {str,bool,int,float,NoneType,bytes,"
                         "MyStr,MyInt,IE,MyInt2,MyStr2,MyStr3,date,datetime,Stamp,Mixed}; unions of 2-5 members over classes, literals (look-alike clusters 45%%), NewTypes, 0-2 spill-over "
                         "members; every member order on a fresh converter; fixed battery of %d probes" % len(PROBES))
    chk.extra["probe_battery"] = [repr(v) + ":" + v.__class__.__name__ for v in PROBES]
    if chk.tier != "quick":
        chk.extra["exhaustive"] = "all unions of 2-4 members over a 10-member alphabet x %d choices of S" % len(THOROUGH_S)
    drv.close()


def replay(case):
    drv = lean.Driver()
    uc = UnionCase.from_json(case)
    chk = framework.Check("C15", "replay", 0)
    corr = []
    print("S =", [CNAME[i] for i in uc.S], " members =", union_name(uc.members))
    order = case.get("order") or list(range(len(uc.members)))
    check_union(chk, drv, uc, [tuple(order)], corr, verbose=True)
    if not chk.violations:
        check_union(chk, drv, uc, list(itertools.permutations(range(len(uc.members)))), corr)
    for what, _, _ in chk.violations:
        print("oracle:", what)
    for c in corr:
        print("correspondence:", c[1:])
    print("oracle:", "FAILS" if chk.violations else "holds")
    return 1 if chk.violations or corr else 0


if __name__ == "__main__":
    framework.main(run, "C15")
