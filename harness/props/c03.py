"""C03 — unstructured output is primitive-only and equals the documented encoding.

Correspondence: `unstructure(x, unstructure_as=T)` on the real converters == `un w cfg T x` of the model.
Oracle (implementation side, written from the property statement, independent of the model):
  (a) only dict/list/tuple/set/frozenset/None/bool/int/float/str/bytes occur in the output
      (values of unknown classes excepted, they are returned unchanged);
  (b) the output equals `doc_encode`, a direct transcription of the documented encoding table.
"""
from __future__ import annotations

import collections
import sys

from harness import framework, gen, lean, terms
from harness.datapath import ALL_CFGS, Session, cfg_name, reply_canon, reply_kind
from harness.props import c03_overrides

PRIM_TAGS = {"N", "b", "i", "f", "s", "y"}


def primitive_only(o, allow_opaque=True):
    t = o[0]
    if t in PRIM_TAGS:
        return True
    if t == "o":
        return allow_opaque
    if t in ("l", "t", "S", "F"):
        return all(primitive_only(x, allow_opaque) for x in o[1])
    if t == "d":
        return all(primitive_only(k, allow_opaque) and primitive_only(v, allow_opaque) for k, v in o[1])
    return False  # enum member, deque, instance


def dedup(xs):
    out = []
    for x in xs:
        if not any(gen.py_eq(x, u) for u in out):
            out.append(x)
    return out


def mkdict(kvs):
    out = []
    for k, v in kvs:
        for i, (k2, _) in enumerate(out):
            if gen.py_eq(k2, k):
                out[i] = (k2, v)
                break
        else:
            out.append((k, v))
    return out


def doc_encode(w, cfg, t, x):
    """The documented encoding (property statement), by declared type; Converter turns tuples and
    deques into lists, BaseConverter keeps the container class and encodes elements by run-time class."""
    conv = cfg["gen"]
    if t is None or t == "any":
        return doc_encode_rt(w, cfg, x)
    if isinstance(t, str):
        return x
    k = t[0]
    if k == "enum":
        return w["enums"][x[1]][x[2]]
    if k == "lit":
        # leaf values are themselves; an enum member among the literal's values becomes its value ("enums their values")
        return w["enums"][x[1]][x[2]] if x[0] == "e" else x
    if k in ("list", "seq", "mseq", "tup*", "deque"):
        if conv:
            return ("l", [doc_encode(w, cfg, t[1], e) for e in x[1]])
        return (x[0], [doc_encode_rt(w, cfg, e) for e in x[1]])
    if k in ("set", "mset", "fset"):
        if conv:
            return ("F" if k == "fset" else "S", dedup([doc_encode(w, cfg, t[1], e) for e in x[1]]))
        return (x[0], dedup([doc_encode_rt(w, cfg, e) for e in x[1]]))
    if k == "tup":
        if conv:
            return ("t", [doc_encode(w, cfg, tt, e) for tt, e in zip(t[1], x[1])])
        return x
    if k in ("dict", "map", "mmap"):
        if conv:
            return ("d", mkdict([(doc_encode(w, cfg, t[1], a), doc_encode(w, cfg, t[2], b)) for a, b in x[1]]))
        return ("d", mkdict([(doc_encode_rt(w, cfg, a), doc_encode_rt(w, cfg, b)) for a, b in x[1]]))
    if k == "opt":
        if x[0] == "N":
            return x
        return doc_encode(w, cfg, t[1], x) if conv else doc_encode_rt(w, cfg, x)
    if k in ("new", "ann", "final", "alias"):
        if conv or k in ("final", "alias"):
            return doc_encode(w, cfg, t[1], x)
        return x
    if k == "cls":
        return encode_inst(w, cfg, t[1], x)
    if k == "nt":
        return encode_nt(w, cfg, t[1], x)
    if k == "union":
        return doc_encode_rt(w, cfg, x)  # "union-typed positions are encoded by runtime class"
    if k == "td":
        c = w["classes"][t[1]]
        ft = {f["name"]: f["ty"] for f in c["fields"]}
        return ("d", [(kk, doc_encode(w, cfg, ft[kk[1]], v) if kk[0] == "s" and kk[1] in ft else v) for kk, v in x[1]])
    raise ValueError(t)


def encode_inst(w, cfg, ci, x):
    c = w["classes"][ci]
    items = []
    for f, (n, v) in zip(c["fields"], x[2]):
        # generated dict hooks leave out init=False fields; interpretive and tuple hooks emit every field
        if not f["init"] and cfg["gen"] and not cfg["tuple"]:
            continue
        items.append((("s", f["name"]), doc_encode(w, cfg, f["ty"], v)))
    if cfg["tuple"]:
        return ("t", [v for _, v in items])
    return ("d", items)


def encode_nt(w, cfg, ci, x):
    """named tuples become tuples (whatever the strategy): item-wise by the declared field types (Converter); a
    BaseConverter leaves a named tuple as the tuple it is"""
    if cfg["gen"]:
        return ("t", [doc_encode(w, cfg, f["ty"], v) for f, (_, v) in zip(w["classes"][ci]["fields"], x[2])])
    return ("t", [nt_as_tuples(v) for _, v in x[2]])


def nt_as_tuples(o):
    """a value left as it is, read the way the canonicaliser reads unstructured data (named tuples as tuples)"""
    t = o[0]
    if t in ("l", "t", "q", "S", "F"):
        return (t, [nt_as_tuples(e) for e in o[1]])
    if t == "d":
        return ("d", [(nt_as_tuples(k), nt_as_tuples(v)) for k, v in o[1]])
    if t == "I":
        return ("I", o[1], [(n, nt_as_tuples(v)) for n, v in o[2]])
    return o


def doc_encode_rt(w, cfg, x):
    """encoding by run-time class (Any / untyped / union positions)"""
    t = x[0]
    if t in PRIM_TAGS or t == "o":
        return x
    if t == "e":
        return w["enums"][x[1]][x[2]]
    if t in ("l", "t", "q"):
        return ("l" if cfg["gen"] else t, [doc_encode_rt(w, cfg, e) for e in x[1]])
    if t in ("S", "F"):
        return (t, dedup([doc_encode_rt(w, cfg, e) for e in x[1]]))
    if t == "d":
        return ("d", mkdict([(doc_encode_rt(w, cfg, a), doc_encode_rt(w, cfg, b)) for a, b in x[1]]))
    if t == "I":
        if w["classes"][x[1]]["kind"] == "nt":
            return encode_nt(w, cfg, x[1], x)
        return encode_inst(w, cfg, x[1], x)
    raise ValueError(x)


def has_deque(o):
    t = o[0]
    if t == "q":
        return True
    if t in ("l", "t", "S", "F"):
        return any(has_deque(x) for x in o[1])
    if t == "d":
        return any(has_deque(k) or has_deque(v) for k, v in o[1])
    return False


def inst_classes(o, acc=None):
    """indices of the classes of all instances inside a value (they are met by run-time class at Any positions)"""
    acc = set() if acc is None else acc
    t = o[0]
    if t == "I":
        acc.add(o[1])
        for _, v in o[2]:
            inst_classes(v, acc)
    elif t in ("l", "t", "q", "S", "F"):
        for e in o[1]:
            inst_classes(e, acc)
    elif t == "d":
        for k, v in o[1]:
            inst_classes(k, acc)
            inst_classes(v, acc)
    return acc


def class_succ(w, ci):
    out = set()
    for f in w["classes"][ci]["fields"]:
        if f["ty"] is not None:
            out.update(gen.type_classes(f["ty"]))
    return out


def td_on_cycle(w, roots):
    """Is a TypedDict that can reach itself reachable from the given classes?"""
    seen, todo = set(), list(roots)
    while todo:
        c = todo.pop()
        if c in seen:
            continue
        seen.add(c)
        todo += class_succ(w, c)
    for c in seen:
        if w["classes"][c]["kind"] != "td":
            continue
        s2, todo = set(), list(class_succ(w, c))
        while todo:
            d = todo.pop()
            if d in s2:
                continue
            s2.add(d)
            todo += class_succ(w, d)
        if c in s2:
            return True
    return False


tuple_on_cycle = gen.tuple_on_cycle


def tuples_as_lists(o):
    t = o[0]
    if t in ("l", "t"):
        return ("l", [tuples_as_lists(x) for x in o[1]])
    if t in ("S", "F", "q"):
        return (t, [tuples_as_lists(x) for x in o[1]])
    if t == "d":
        return ("d", [(tuples_as_lists(k), tuples_as_lists(v)) for k, v in o[1]])
    return o


@framework.finding("recursive-typeddict-late-binding")
def f39(case) -> bool:
    """F39: a TypedDict on a reference cycle is reachable from the type, the converter is a Converter, the output is
    primitive-only and differs from the documented encoding only in tuples having become lists."""
    return isinstance(case, dict) and case.get("deviation") == "recursive-td-tuples-as-lists"


@framework.finding("str-mixin-enum-member-survives")
def f59(case) -> bool:
    """F59: members of an Enum class that also subclasses `str` or `bytes` ((str, Enum), StrEnum, (bytes, Enum)) are returned
    unchanged by unstructure: `(str, identity)` / `(bytes, identity)` are registered by class and singledispatch resolves
    them through the MRO before the `issubclass(t, Enum)` predicate is consulted.  Recognised only when every enum member
    left in the output is an instance of str or bytes (ext.run_c03 sets the probe)."""
    return isinstance(case, dict) and case.get("probe") == "str-mixin-enum-member-survives"


F60_SIG = "recursive-class-hetero-tuple-late-binding"


@framework.finding(F60_SIG)
def f60(case) -> bool:
    """A class that refers to itself through a heterogeneous tuple (`e: Optional[tuple[Self, int]]`), Converter with the
    dict strategy (generated class hooks): hook generation meets the reference cycle inside the tuple hook and falls back
    to late binding on the RUN-TIME class, for which a tuple is a sequence -- the heterogeneous tuple comes out as a list.
    Recognised only when the output is primitive-only and differs from the documented encoding in nothing but tuples
    having become lists."""
    return isinstance(case, dict) and case.get("deviation") == "recursive-class-tuples-as-lists"


CFGS = [c for c in ALL_CFGS if c["detailed"]]  # detailed_validation is irrelevant to unstructuring


def run(chk: framework.Check):
    import os
    if os.environ.get("VERIF_F60") and not any(f.get("signature") == F60_SIG for f in chk.known):
        chk.known.append({"id": "F60", "property": "C03", "kind": "finding", "signature": F60_SIG,
                          "what": "a class referring to itself through a heterogeneous tuple (e: Optional[tuple[Self, int]]): "
                                  "Converter/dict strategy unstructures the tuple as a list (entry assumed via VERIF_F60)"})
    rng = chk.rng
    G = gen.Gen(rng, unions=True, nt=True, enum_lits=True, class_features=True)
    drv = lean.Driver()
    n_worlds = 400 if chk.tier == "quick" else 4000
    corr_fail = []
    for wi in range(n_worlds):
        w = G.world()
        try:
            S = Session(drv, w)
        except Exception as e:  # a world python itself rejects (not a cattrs matter)
            chk.note("world-rejected-by-python")
            continue
        for ti in range(6):
            ty = G.type(w, rng.randint(0, 3))
            for vi in range(2):
                x0 = G.value(w, ty, 3, any_stable=False)
                try:
                    xv, x = S.realise(x0)
                except Exception:
                    chk.note("value-not-realisable")
                    continue
                if gen.lookalike_hazard(x):
                    chk.unmodelled += 1
                    continue
                for cfg in CFGS:
                    if not gen.supported(cfg, w, ty, roundtrip=False) or not all(
                            gen.supported(cfg, w, ("nt" if w["classes"][ci]["kind"] == "nt" else "cls", ci), roundtrip=False)
                            for ci in inst_classes(x)):
                        # the declared type, or the class of an instance met at an Any-typed position, is outside
                        # the documented support of this converter class
                        chk.note("unsupported-by-converter-class")
                        continue
                    case = {"world": w, "cfg": cfg, "ty": ty, "x": x}
                    ri = S.impl_un(cfg, ty, x, x=xv)
                    rm = S.model_un(cfg, ty, x)
                    km = reply_kind(rm)
                    if km == "unmodelled":
                        chk.unmodelled += 1
                        continue
                    key = cfg_name(cfg) + terms.ty_sx(ty) + terms.canon_sx(x)
                    chk.count(key, nontrivial=not isinstance(ty, str),
                              sample={"cfg": cfg_name(cfg), "type": terms.ty_sx(ty), "value": terms.canon_sx(x), "model": rm})
                    chk.note("cfg:" + cfg_name(cfg), "ty:" + (ty if isinstance(ty, str) else ty[0]))
                    if gen.has_enum_lit(w, ty):
                        chk.note("literal-with-enum-members-reachable")
                    # ---- do the theorems' hypotheses hold for this case, and what does the model say about primitivity
                    sc = drv.ask("C03SCOPE %s %s %s" % (terms.cfg_sx(cfg), terms.ty_sx(ty), terms.obj_sx(x)))
                    in_scope = sc.startswith("(1 1 ")
                    chk.note("theorem-hypotheses-hold" if in_scope else "outside-theorem-hypotheses:" + sc)
                    if in_scope and not sc.endswith(" 1)"):
                        chk.violation("model contradicts theorem C03_primitive (driver/model out of sync): " + sc, case, found_input=False)
                    # ---- oracle on the implementation
                    bad = oracle(w, cfg, ty, x, ri)
                    roots = set(gen.type_classes(ty)) | inst_classes(x)
                    if gen.reach_unions(w, ty):
                        chk.note("union-reachable:" + ("value-through-union" if any(
                            not isinstance(t, str) and t[0] == "union" for t in gen.walk_types(ty)) else "in-class-fields"))
                    in_f39 = cfg["gen"] and td_on_cycle(w, roots)
                    in_f60 = cfg["gen"] and not cfg["tuple"] and tuple_on_cycle(w, roots)
                    if bad and in_f60 and not in_f39:
                        if (ri[0] == "ok" and primitive_only(ri[1]) and terms.canon_sx(tuples_as_lists(ri[1]))
                                == terms.canon_sx(tuples_as_lists(doc_encode(w, cfg, ty, x)))):
                            case = dict(case, deviation="recursive-class-tuples-as-lists")
                        chk.violation(f"C03 oracle: {bad} [{cfg_name(cfg)} {terms.ty_sx(ty)} {terms.canon_sx(x)}]", case)
                        continue
                    if bad:
                        if (in_f39 and ri[0] == "ok" and primitive_only(ri[1]) and terms.canon_sx(tuples_as_lists(ri[1]))
                                == terms.canon_sx(tuples_as_lists(doc_encode(w, cfg, ty, x)))):
                            case = dict(case, deviation="recursive-td-tuples-as-lists")
                        chk.violation(f"C03 oracle: {bad} [{cfg_name(cfg)} {terms.ty_sx(ty)} {terms.canon_sx(x)}]", case)
                        continue
                    if in_f39:
                        chk.note("recursive-typeddict(region of F39: model not compared)")
                        continue
                    if in_f60:
                        chk.note("recursive-class-through-hetero-tuple(region of F60: model not compared)")
                        continue
                    # ---- correspondence
                    if ri[0] != "ok" or km != "ok" or terms.canon_sx(ri[1]) != reply_canon(rm):
                        corr_fail.append((case, ri, rm))
    if corr_fail:
        # the oracle held on each of these inputs (checked above): the model no longer describes the
        # code although no input violating the property was found
        for case, ri, rm in corr_fail[:5]:
            chk.violation(
                "correspondence corr:C03:UN broken (theorems C03_* no longer tied to the code): impl="
                + (terms.canon_sx(ri[1]) if ri[0] == "ok" else repr(ri[1])[:200]) + " model=" + rm[:300]
                + f" [{cfg_name(case['cfg'])} {terms.ty_sx(case['ty'])} {terms.canon_sx(case['x'])}]",
                case, found_input=False)
    chk.extra["rule"] = ("random worlds (attrs/dataclass/TypedDict classes, enums) x types to depth 3 x conforming values x "
                         "{Converter,BaseConverter} x {dict,tuple}; non-trivial = non-leaf type; distinct by canonical text")
    c03_overrides.run_overrides(chk, drv)
    # implementation-only extended stream: enums with a data-type mix-in (IntEnum, IntFlag, (float|str|bytes, Enum), StrEnum)
    from harness import ext
    ext.run_c03(chk)
    drv.close()


def oracle(w, cfg, ty, x, ri):
    if ri[0] == "err":
        return "unstructure raised " + repr(ri[1])[:200]
    if ri[0] == "unrep":
        return "output contains an object outside the primitive universe: " + repr(ri[1])[:200]
    out = ri[1]
    if cfg["gen"] and not primitive_only(out):
        return "non-primitive object in output " + terms.canon_sx(out)
    if not cfg["gen"] and not primitive_only(out) and not has_deque(out):
        return "non-primitive object in output " + terms.canon_sx(out)
    exp = doc_encode(w, cfg, ty, x)
    if terms.canon_sx(exp) != terms.canon_sx(out):
        return "output differs from documented encoding: got " + terms.canon_sx(out) + " expected " + terms.canon_sx(exp)
    return None


def replay(case):
    if case.get("part") == "overrides":
        return c03_overrides.replay_overrides(case)
    drv = lean.Driver()
    case = terms.case_from_json(case)
    S = Session(drv, case["world"])
    x = case["x"]
    ty = case["ty"]
    ri = S.impl_un(case["cfg"], ty, x)
    rm = S.model_un(case["cfg"], ty, x)
    print("impl :", terms.canon_sx(ri[1]) if ri[0] == "ok" else repr(ri[1]))
    print("model:", rm)
    bad = oracle(case["world"], case["cfg"], ty, x, ri)
    print("oracle:", bad or "holds")
    return 1 if bad else 0


if __name__ == "__main__":
    framework.main(run, "C03")
