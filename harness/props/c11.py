"""C11 — structure / unstructure never mutate their argument, and the result shares no mutable
container with it except at the documented pass-through positions.

Implementation observable (real cattrs, in-process): the argument is deep-snapshotted (values and
id()s of every mutable container) before the call and compared afterwards (also when the call
raises); the id()s of the mutable containers reachable from the result are intersected with those
of the argument -> (changed?, alias set, is the result itself an argument container?).

Oracle (from the property statement, independent of the model): (a) never changed; (b) every
aliased container sits at a documented pass-through position: an Any-typed / untyped position when
structuring; an instance of an unknown class, a TypedDict with nothing to convert, or a value whose
type's hook is the identity when unstructuring.

Correspondence: the Lean heap model's ALIAS / ALIAS-TAGGED prediction (ok/err, changed bit, alias
set, root alias, result value) == the implementation's.

Implementation-only additions (same oracle, inputs outside the Lean fragment; helpers in c11_maps.py):
  * "missing twins": a share of the structure cases of every stream is re-run with the payload's dicts rebuilt as
    instances of dict subclasses with a side-effecting `__missing__` (defaultdict, memoising dict), whenever every
    key the type REQUIRES is present (or the plain run succeeded): a hook must look optional keys up without
    subscripting them.  Recorded finding F68 (BaseConverter.structure_attrs_fromdict subscripts every attribute);
  * `stream_mapclasses`: mapping target classes that WRAP their argument (ChainMap, MappingProxyType, user views),
    user mapping classes generic in one / two / no parameters, payloads of dict subclasses; the result is walked
    through references of every kind (gc.get_referents), so that a wrapper around the payload counts as sharing it.
"""
from __future__ import annotations

import collections
import dataclasses
import os
import sys

from harness import framework, gen, lean, streams, terms
from harness.props import c11_maps
from harness.datapath import ALL_CFGS, Session, cfg_name, make_converter
from harness.realise import Opaque, Unrepresentable

sys.path.insert(0, os.environ.get("CATTRS_SRC", "/repo/src"))
import attrs  # noqa: E402
from cattrs.gen import override  # noqa: E402
from cattrs.gen.typeddicts import make_dict_structure_fn, make_dict_unstructure_fn  # noqa: E402
from cattrs.strategies import configure_tagged_union  # noqa: E402

CFGS = ALL_CFGS + [{"gen": True, "tuple": False, "detailed": d, "forbid": True} for d in (True, False)]

MUTABLE = (list, dict, set, collections.deque, bytearray)


def is_inst(o):
    return attrs.has(o.__class__) or dataclasses.is_dataclass(o)


def is_mutable(o):
    return isinstance(o, MUTABLE) or isinstance(o, Opaque) or (is_inst(o) and not isinstance(o, type))


def children(S, o):
    """slot values of a container, in the order the model loads them"""
    if isinstance(o, (list, tuple, collections.deque, set, frozenset)):
        return list(o)
    if isinstance(o, dict):
        out = []
        for k, v in o.items():
            out += [k, v]
        return out
    if is_inst(o) and not isinstance(o, type):
        ci = S.R._cls_index.get(o.__class__)
        if ci is not None:
            return [getattr(o, f["name"]) for f in S.world["classes"][ci]["fields"] if hasattr(o, f["name"])]
        if attrs.has(o.__class__):
            return [getattr(o, a.name) for a in attrs.fields(o.__class__) if hasattr(o, a.name)]
        return [getattr(o, f.name) for f in dataclasses.fields(o) if hasattr(o, f.name)]
    return []


def is_container(o):
    return isinstance(o, (list, tuple, collections.deque, set, frozenset, dict, Opaque, bytearray)) or (
        is_inst(o) and not isinstance(o, type))


def number(S, arg):
    """post-order numbering of the argument's containers (as Lean's `inject`): id -> loc for the
    mutable ones; also the total number of cells"""
    ids = {}
    n = [0]

    def go(o):
        if not is_container(o):
            return
        for c in children(S, o):
            go(c)
        if is_mutable(o):
            ids[id(o)] = n[0]
        n[0] += 1

    go(arg)
    return ids, n[0]


def snapshot(S, o):
    """deep snapshot: exact classes, leaf values, and the identity of every mutable container"""
    if is_container(o):
        tag = id(o) if is_mutable(o) else None
        if isinstance(o, Opaque):
            return ("o", tag, o.n)
        if isinstance(o, (set, frozenset)):
            kids = sorted((snapshot(S, c) for c in o), key=repr)
        else:
            kids = [snapshot(S, c) for c in children(S, o)]
        return (o.__class__.__name__, tag, kids)
    return (o.__class__.__name__, repr(o))


def reach_ids(S, o, acc=None):
    """id()s of the mutable containers reachable from a result"""
    acc = set() if acc is None else acc
    seen = set()

    def go(x):
        if not is_container(x) or id(x) in seen:
            return
        seen.add(id(x))
        if is_mutable(x):
            acc.add(id(x))
        for c in children(S, x):
            go(c)

    go(o)
    return acc


def subtree_ids(S, o):
    return reach_ids(S, o)


def dict_keys(S, o):
    """id -> (dict, set of its keys) for every dict reachable from the argument"""
    out = {}

    def go(x):
        if not is_container(x) or id(x) in out:
            return
        if isinstance(x, dict):
            out[id(x)] = (x, set(dict.keys(x)))
        for c in children(S, x):
            go(c)

    go(o)
    return out


# ------------------------------------------------------------------ the documented pass-throughs

def td_keys(w, ci, ovr):
    """[(field, input key when structuring / output key when unstructuring, omitted?)]"""
    out = []
    for f in w["classes"][ci]["fields"]:
        r = (ovr or {}).get((ci, f["name"]), {})
        out.append((f, r.get("rename") or f["name"], bool(r.get("omit"))))
    return out


def items_of(o):
    if isinstance(o, (list, tuple, collections.deque, set, frozenset)):
        return list(o)
    if isinstance(o, dict):
        return list(o.keys())
    return None


def allowed_st(S, cfg, ty, o, ovr, extras):
    """ids of argument containers that may be shared with the result of structure(o, ty);
    `extras` collects the containers under undeclared / omitted TypedDict keys (finding F34)"""
    w = S.world
    if ty is None or ty == "any":
        return subtree_ids(S, o)
    if isinstance(ty, str):
        return set()
    k = ty[0]
    out = set()
    if k in ("enum", "lit"):
        return out
    if k in ("list", "seq", "mseq", "tup*", "deque", "set", "mset", "fset"):
        for e in items_of(o) or []:
            out |= allowed_st(S, cfg, ty[1], e, ovr, extras)
        return out
    if k == "tup":
        for t, e in zip(ty[1], items_of(o) or []):
            out |= allowed_st(S, cfg, t, e, ovr, extras)
        return out
    if k == "nt":
        for f, e in zip(w["classes"][ty[1]]["fields"], items_of(o) or []):
            out |= allowed_st(S, cfg, f["ty"], e, ovr, extras)
        return out
    if k in ("dict", "map", "mmap"):
        if isinstance(o, dict):
            for a, b in o.items():
                out |= allowed_st(S, cfg, ty[1], a, ovr, extras) | allowed_st(S, cfg, ty[2], b, ovr, extras)
        return out
    if k in ("opt", "new", "ann", "final", "alias"):
        return allowed_st(S, cfg, ty[1], o, ovr, extras)
    if k == "cls":
        fields = w["classes"][ty[1]]["fields"]
        if cfg["tuple"]:
            for f, e in zip(fields, items_of(o) or []):
                out |= allowed_st(S, cfg, f["ty"], e, ovr, extras)
        elif isinstance(o, dict):
            for f in fields:
                if f["name"] in o:
                    out |= allowed_st(S, cfg, f["ty"], o[f["name"]], ovr, extras)
        return out
    if k == "union":
        # the payload is handed, as it is, to the hook of the member the decision function names: whatever may be
        # shared when structuring it as one of the members
        if o is not None:
            for m in ty[1]:
                out |= allowed_st(S, cfg, ("cls", m), o, ovr, extras)
        return out
    if k == "td":
        if isinstance(o, dict):
            declared = set()
            for f, key, omit in td_keys(w, ty[1], ovr):
                if omit:
                    continue
                declared.add(key)
                if key in o:
                    out |= allowed_st(S, cfg, f["ty"], o[key], ovr, extras)
            for a, b in o.items():
                if a not in declared:
                    extras |= subtree_ids(S, a) | subtree_ids(S, b)
        return out
    raise ValueError(ty)


def identity_un(S, cfg, ty, ovr, depth=0):
    """is the unstructure hook of the type the identity function (documented: leaf types, literals,
    TypedDicts with nothing to convert; a BaseConverter has no hook for TypedDict/NewType/Annotated)"""
    w = S.world
    if ty is None or ty == "any":
        return False
    if isinstance(ty, str):
        return True
    k = ty[0]
    if k == "lit":
        return not any(v[0] == "e" for v in ty[1])  # (a literal containing enum members: `self.unstructure`)
    if k in ("final", "alias"):
        return identity_un(S, cfg, ty[1], ovr, depth)
    if k in ("new", "ann"):
        return identity_un(S, cfg, ty[1], ovr, depth) if cfg["gen"] else True
    if k == "tup":
        return not cfg["gen"]          # BaseConverter registers no hook for heterogeneous tuples
    if k == "nt":
        # "a named tuple that needs no conversion may pass through as the tuple it is": every field hook is the identity
        # (a BaseConverter has no NamedTuple hook at all)
        return (not cfg["gen"]) or (depth < 30 and all(identity_un(S, cfg, f["ty"] or "any", ovr, depth + 1)
                                                       for f in w["classes"][ty[1]]["fields"]))
    if k == "td":
        if not cfg["gen"]:
            return False               # a BaseConverter treats the class as a mapping: fresh dict
        if any(c == ty[1] for (c, _n) in (ovr or {})):
            return False
        return depth < 30 and all(identity_un(S, cfg, f["ty"] or "any", ovr, depth + 1)
                                  for f in w["classes"][ty[1]]["fields"])
    return False


def allowed_un_any(S, cfg, o, ovr, extras):
    if isinstance(o, Opaque):
        return {id(o)}
    out = set()
    ci = S.R._cls_index.get(o.__class__)
    if ci is not None and S.world["classes"][ci]["kind"] == "nt":
        return allowed_un(S, cfg, ("nt", ci), o, ovr, extras)
    if isinstance(o, (list, tuple, collections.deque, set, frozenset)):
        for e in o:
            out |= allowed_un_any(S, cfg, e, ovr, extras)
    elif isinstance(o, dict):
        for a, b in o.items():
            out |= allowed_un_any(S, cfg, a, ovr, extras) | allowed_un_any(S, cfg, b, ovr, extras)
    elif is_inst(o) and o.__class__ in S.R._cls_index:
        out |= allowed_un(S, cfg, ("cls", S.R._cls_index[o.__class__]), o, ovr, extras)
    return out


def allowed_un(S, cfg, ty, o, ovr, extras):
    """ids of argument containers that may be shared with the result of unstructure(o, ty)"""
    w = S.world
    if ty is None or ty == "any":
        return allowed_un_any(S, cfg, o, ovr, extras)
    if identity_un(S, cfg, ty, ovr):
        return subtree_ids(S, o)
    if isinstance(o, Opaque):
        return {id(o)}
    k = ty[0]
    out = set()
    if k == "enum":
        return out
    if k == "lit":
        return allowed_un_any(S, cfg, o, ovr, extras)   # (containing enum members: encoded by run-time class)
    sub = (lambda t, e: allowed_un(S, cfg, t, e, ovr, extras)) if cfg["gen"] else (
        lambda t, e: allowed_un_any(S, cfg, e, ovr, extras))
    if k in ("list", "seq", "mseq", "tup*", "deque", "set", "mset", "fset"):
        for e in items_of(o) or []:
            out |= sub(ty[1], e)
        return out
    if k == "tup":
        for t, e in zip(ty[1], items_of(o) or []):
            out |= sub(t, e)
        return out
    if k == "nt":
        # (Converter, some field needs conversion: a fresh tuple of the items unstructured by their declared types)
        for f, e in zip(w["classes"][ty[1]]["fields"], items_of(o) or []):
            out |= allowed_un(S, cfg, f["ty"], e, ovr, extras)
        return out
    if k in ("dict", "map", "mmap"):
        if isinstance(o, dict):
            for a, b in o.items():
                out |= sub(ty[1], a) | sub(ty[2], b)
        return out
    if k == "opt":
        return out if o is None else sub(ty[1], o)
    if k in ("new", "ann", "final", "alias"):
        return allowed_un(S, cfg, ty[1], o, ovr, extras)
    if k == "cls":
        if is_inst(o) and S.R._cls_index.get(o.__class__) == ty[1]:
            for f in w["classes"][ty[1]]["fields"]:
                if hasattr(o, f["name"]):
                    out |= allowed_un(S, cfg, f["ty"], getattr(o, f["name"]), ovr, extras)
        return out
    if k == "union":
        return allowed_un_any(S, cfg, o, ovr, extras)   # encoded by run-time class
    if k == "td":
        if not cfg["gen"]:
            return allowed_un_any(S, cfg, o, ovr, extras)
        if isinstance(o, dict):
            declared = set()
            for f, _key, omit in td_keys(w, ty[1], ovr):
                declared.add(f["name"])
                if not omit and f["name"] in o:
                    out |= allowed_un(S, cfg, f["ty"] or "any", o[f["name"]], ovr, extras)
            for a, b in o.items():
                if a not in declared:
                    extras |= subtree_ids(S, a) | subtree_ids(S, b)
        return out
    raise ValueError(ty)


# ------------------------------------------------------------------ one observed call

class Obs:
    __slots__ = ("outcome", "changed", "alias", "root", "value", "bad", "bad_extras_only", "n_arg", "res", "inserted")


def observe(S, call, arg, allowed_fn, deep=False):
    """run call(arg) with snapshot + identity tracking; allowed_fn(extras) -> allowed ids.
    deep: the result is walked through references of every kind (wrappers, views, user classes), not only through
    the containers the model knows"""
    ids, n_cells = number(S, arg)
    before = snapshot(S, arg)
    keys_before = dict_keys(S, arg)
    try:
        res = call(arg)
        ok = True
    except Exception as e:  # noqa: BLE001
        res = e
        ok = False
    o = Obs()
    o.n_arg = n_cells
    o.res = res
    o.outcome = "ok" if ok else "err"
    o.changed = snapshot(S, arg) != before
    o.inserted = []
    if o.changed:
        # keys that appeared in dicts of the argument (payload dicts with a side-effecting `__missing__`)
        for i, (dct, ks) in keys_before.items():
            o.inserted += sorted(repr(k) for k in dict.keys(dct) if k not in ks)
    o.alias, o.root, o.value, o.bad, o.bad_extras_only = [], None, None, [], False
    if ok:
        rids = c11_maps.deep_ids(res) if deep else reach_ids(S, res)
        shared = rids & set(ids)
        o.alias = sorted(ids[i] for i in shared)
        o.root = ids.get(id(res)) if is_mutable(res) else None
        try:
            o.value = None if deep else canon_unordered(S.R.abs(res))
        except Unrepresentable:
            o.value = None
        extras = set()
        allowed = allowed_fn(extras)
        bad = shared - allowed
        o.bad = sorted(ids[i] for i in bad)
        o.bad_extras_only = bool(bad) and bad <= extras
    return o


def canon_unordered(o):
    """canonical text with dict entries sorted: key order is not C11's business"""
    t = o[0]
    if t in ("S", "F"):
        return "(" + " ".join([t] + sorted(canon_unordered(x) for x in o[1])) + ")"
    if t in ("l", "t", "q"):
        return "(" + " ".join([t] + [canon_unordered(x) for x in o[1]]) + ")"
    if t == "d":
        return "(" + " ".join(["d"] + sorted("(%s %s)" % (canon_unordered(k), canon_unordered(v)) for k, v in o[1])) + ")"
    if t == "I":
        return "(" + " ".join(["I", str(o[1])] + ["(%s %s)" % (terms.esc(n), canon_unordered(v)) for n, v in o[2]]) + ")"
    return terms.obj_sx(o)


def model_reply(r):
    """parse the driver's reply -> dict or 'unmodelled'"""
    if r == "unmodelled":
        return None
    p = terms.parse_sx(r)
    if p[0] == "err":
        return {"outcome": "err", "changed": p[1] == "1", "alias": [], "root": None, "value": None, "agree": p[2]}
    if p[0] == "ok":
        return {"outcome": "ok", "changed": p[1] == "1", "alias": [int(x) for x in p[2][1:]],
                "root": None if p[3] == "-" else int(p[3]),
                "value": canon_unordered(terms.obj_of_px(p[4])), "agree": p[5]}
    raise lean.InfraError("bad ALIAS reply: " + r[:200])


def ovr_sx(ovr):
    parts = []
    for (ci, name), r in sorted((ovr or {}).items()):
        parts.append("(%d %s %s %d)" % (ci, terms.esc(name), terms.esc(r["rename"]) if r.get("rename") else "-",
                                        1 if r.get("omit") else 0))
    return "(ovr" + "".join(" " + p for p in parts) + ")"


def judge(chk, drv, obs, line, case, what, stats, corr_fail):
    """oracle on the implementation, then correspondence with the model"""
    chk.note("outcome:" + obs.outcome, "aliases:%d" % min(len(obs.alias), 3))
    if obs.changed:
        chk.violation(f"C11 oracle: the argument was modified ({obs.outcome}) [{what}]",
                      dict(case, kind="mutated"))
        return
    if obs.bad and case.get("frame_only"):
        # unstructure of an object that is not a value of the type: only "never mutated" is claimed
        chk.note("non-value-unstructure:aliases-ignored")
        return
    if obs.bad:
        chk.violation(
            f"C11 oracle: the result shares argument container(s) {obs.bad} outside the documented "
            f"pass-through positions [{what}]",
            dict(case, kind="alias", offending=obs.bad, all_offending_under_td_extra_key=obs.bad_extras_only))
        if not obs.bad_extras_only:
            return
    m = model_reply(drv.ask(line))
    if m is None:
        chk.unmodelled += 1
        stats["unmodelled"] += 1
        return
    stats["compared"] += 1
    if m["agree"] == "0":
        # (the pure `un` is total: F10-style TypeErrors of unstructure show up here as "err")
        # structure: excluded by theorem C11_refines_pure_structure (expected 0); unstructure: NamedTuple pass-through
        # (ok) and F10 unhashable encodings (err) only -- the two gaps named next to C11_refines_pure_unstructure_partial
        stats["heap-vs-pure-model-disagree:%s:%s" % (case.get("dir", "?"), m["outcome"])] += 1
        if os.environ.get("C11_DUMP_DISAGREE"):
            with open(os.environ["C11_DUMP_DISAGREE"], "a") as fh:
                fh.write(m["outcome"] + "\t" + line + "\n")
    # the result *value* is C01/C02's observable, not C11's: logged, never decides the run
    if obs.value is not None and m["value"] is not None and m["value"] != obs.value:
        stats["result-value-differs(logged only)"] += 1
    same = (m["outcome"] == obs.outcome and m["changed"] == obs.changed and m["alias"] == obs.alias
            and m["root"] == obs.root)
    if (not same and case.get("dir") == "un" and m["outcome"] == obs.outcome and m["changed"] == obs.changed
            and set(obs.alias) <= set(m["alias"])
            and any(c.get("kind") == "td" and c.get("recursive") for c in case.get("world", {}).get("classes", []))):
        # a self-referential TypedDict: cattrs unstructures the nested levels by late binding on the RUN-TIME class (the
        # recorded finding F39 of C03), so it copies containers the declared-type model would pass through: the
        # implementation shares LESS than the model predicts.  Not modelled; never a violation of C11.
        chk.unmodelled += 1
        stats["unmodelled"] += 1
        chk.note("unmodelled:recursive-typeddict-late-binding(F39)")
        return
    if not same:
        corr_fail.append((what, {"impl": {"outcome": obs.outcome, "changed": obs.changed, "alias": obs.alias,
                                          "root": obs.root, "value": obs.value}, "model": m}, case))


@framework.finding("interpretive-optional-attribute-subscripted")
def _f68(case):
    """BaseConverter.structure_attrs_fromdict reads EVERY attribute with `obj[a.name]` / `except KeyError`: a payload
    dict with a side-effecting `__missing__` gets the names of absent, defaulted attributes inserted.  Exactly: the
    argument was modified, BaseConverter + dict strategy, the payload dicts have `__missing__`, and every inserted key
    is the name of an init attribute that has a default, of an attrs class / dataclass of the world."""
    cfg = case.get("cfg") or {}
    if not (case.get("kind") == "mutated" and case.get("dress") in c11_maps.MISSING_DRESSES
            and cfg.get("gen") is False and cfg.get("tuple") is False and case.get("inserted_keys")):
        return False
    optional = {repr(f["name"]) for c in case["world"]["classes"] if c["kind"] in ("attrs", "dc")
                for f in c["fields"] if f["init"] and f["dflt"] is not None}
    return all(k in optional for k in case["inserted_keys"])


@framework.finding("typeddict-extra-key-aliased")
def _f34(case):
    return case.get("kind") == "alias" and case.get("all_offending_under_td_extra_key") is True


# ------------------------------------------------------------------ a case = one call, described by JSON-able data

def ovr_dict(spec):
    return {(ci, name): r for ci, name, r in (spec.get("ovr") or [])}


def build_converter(S, spec, cache):
    """converter for the case: shared per configuration for plain cases, fresh when hooks are registered"""
    cfg = spec["cfg"]
    mode = spec["mode"]
    if mode == "plain":
        return S.conv(cfg)
    key = repr((mode, sorted(cfg.items()), spec.get("ovr"), spec.get("tagged")))
    if key in cache:
        return cache[key]
    conv = make_converter(cfg)
    if mode == "td":
        by_cls = collections.defaultdict(dict)
        for ci, name, r in spec["ovr"]:
            by_cls[ci][name] = override(rename=r.get("rename"), omit=bool(r.get("omit")))
        for ci, kw in by_cls.items():
            cl = S.R.classes[ci]
            sfn = make_dict_structure_fn(cl, conv, **kw)
            ufn = make_dict_unstructure_fn(cl, conv, **kw)
            conv.register_structure_hook_func(lambda t, cl=cl: t is cl, sfn)
            conv.register_unstructure_hook_func(lambda t, cl=cl: t is cl, ufn)
    elif mode == "tagged":
        tg = spec["tagged"]
        union = S.union_of(tg["members"])
        kw = {}
        if tg["default"] is not None:
            kw["default"] = S.R.classes[tg["default"]]
        configure_tagged_union(union, conv, **kw)
    cache[key] = conv
    return conv


def union_of(S, members):
    import typing
    return typing.Union[tuple(S.R.classes[c] for c in members)]


Session.union_of = union_of


TWIN_P = 0.3      # share of the structure cases re-run with `__missing__` payload dicts (oracle only)


def required_present(S, cfg, ty, o, ovr, depth=0):
    """Does the payload hold, at every mapping position the type gives a class / TypedDict, all the keys that class
    REQUIRES?  (A hook may legitimately subscript a required key; a dict subclass with `__missing__` then answers for
    itself.  Every other key must be looked up without side effects.)  Conservative: False where it cannot tell."""
    w = S.world
    if ty is None or isinstance(ty, str) or depth > 30:
        return True
    k = ty[0]
    if k in ("enum", "lit"):
        return True
    if k in ("list", "seq", "mseq", "tup*", "deque", "set", "mset", "fset"):
        return all(required_present(S, cfg, ty[1], e, ovr, depth + 1) for e in items_of(o) or [])
    if k == "tup":
        return all(required_present(S, cfg, t, e, ovr, depth + 1) for t, e in zip(ty[1], items_of(o) or []))
    if k == "nt":
        return all(required_present(S, cfg, f["ty"], e, ovr, depth + 1)
                   for f, e in zip(w["classes"][ty[1]]["fields"], items_of(o) or []))
    if k in ("dict", "map", "mmap"):
        if not isinstance(o, dict):
            return True
        return all(required_present(S, cfg, ty[1], a, ovr, depth + 1) and required_present(S, cfg, ty[2], b, ovr, depth + 1)
                   for a, b in o.items())
    if k in ("opt", "new", "ann", "final", "alias"):
        return o is None or required_present(S, cfg, ty[1], o, ovr, depth + 1)
    if k == "cls":
        fields = w["classes"][ty[1]]["fields"]
        if cfg["tuple"]:
            return all(required_present(S, cfg, f["ty"], e, ovr, depth + 1) for f, e in zip(fields, items_of(o) or []))
        if not isinstance(o, dict):
            return True
        for f in fields:
            if not f["init"]:
                continue
            if f["name"] in o:
                if not required_present(S, cfg, f["ty"], o[f["name"]], ovr, depth + 1):
                    return False
            elif f["dflt"] is None:
                return False
        return True
    if k == "td":
        if not isinstance(o, dict):
            return True
        for f, key, omit in td_keys(w, ty[1], ovr):
            if omit:
                continue
            if key in o:
                if not required_present(S, cfg, f["ty"], o[key], ovr, depth + 1):
                    return False
            elif f.get("required", True):
                return False
        return True
    return False      # class unions: the decision function's own reads are not second-guessed here


def do_case(chk, drv, S, spec, stats, corr_fail, cache, arg=None):
    """run one case on the implementation and on the model; returns the Obs.
    spec["dress"] (a payload dict class of c11_maps.DRESSES): the payload's dicts are instances of that class; such a
    case is outside the Lean fragment -- the oracle alone judges it."""
    w = S.world
    cfg, d, ty = spec["cfg"], spec["dir"], spec.get("ty")
    ovr = ovr_dict(spec)
    conv = build_converter(S, spec, cache)
    dressed = spec.get("dress")
    if arg is None:
        arg = S.R.val(spec["arg"])
    if dressed:
        arg = c11_maps.dress(arg, dressed)
        arg_abs = terms.tuple_ify(spec["arg"]) if not isinstance(spec["arg"], tuple) else spec["arg"]
    else:
        arg_abs = S.R.abs(arg)
    if spec["mode"] == "tagged":
        tg = spec["tagged"]
        union = S.union_of(tg["members"])
        classes = list(tg["members"]) + ([tg["default"]] if tg["default"] is not None else [])
        if d == "st":
            call = lambda a: conv.structure(a, union)  # noqa: E731

            def allowed_fn(extras):
                out = set()
                for c in classes:
                    out |= allowed_st(S, cfg, ("cls", c), arg, None, extras)
                return out
        else:
            call = lambda a: conv.unstructure(a, unstructure_as=union)  # noqa: E731

            def allowed_fn(extras):
                ci = S.R._cls_index.get(arg.__class__)
                return allowed_un(S, cfg, ("cls", ci), arg, None, extras) if ci is not None else set()
        tsx = "(tagged %s (%s) %s)" % (
            terms.esc("_type"),
            " ".join("(%d %s)" % (c, terms.esc(S.R.classes[c].__name__)) for c in tg["members"]),
            "-" if tg["default"] is None else str(tg["default"]))
        line = "ALIAS-TAGGED %s %s %s %s %s" % (terms.world_sx(w), terms.cfg_sx(cfg), d, tsx, terms.obj_sx(arg_abs))
        tyname = "tagged-union"
    else:
        rty = spelled_ty(S, ty, spec.get("spell") or "param")
        if d == "st":
            call = lambda a: conv.structure(a, rty)  # noqa: E731
            allowed_fn = lambda extras: allowed_st(S, cfg, ty, arg, ovr, extras)  # noqa: E731
        else:
            call = lambda a: conv.unstructure(a, unstructure_as=rty)  # noqa: E731
            allowed_fn = lambda extras: allowed_un(S, cfg, ty, arg, ovr, extras)  # noqa: E731
        line = "ALIAS %s %s %s %s %s %s" % (terms.world_sx(w), terms.cfg_sx(cfg), d, terms.ty_sx(ty),
                                            terms.obj_sx(arg_abs), ovr_sx(ovr))
        tyname = terms.ty_sx(ty) + ("" if (spec.get("spell") or "param") == "param" else "/bare-" + spec["spell"])
    obs = observe(S, call, arg, allowed_fn)
    what = f"{spec['mode']} {d} {cfg_name(cfg)} {tyname} arg={terms.canon_sx(arg_abs)[:300]}"
    if dressed:
        what += " payload-dicts=" + dressed
    case = dict(spec, world=w, arg=arg_abs)
    key = what
    chk.count(key, nontrivial=obs.n_arg > 0,
              sample={"mode": spec["mode"], "dir": d, "cfg": cfg_name(cfg), "type": tyname,
                      "arg": terms.canon_sx(arg_abs)[:200], "outcome": obs.outcome, "alias": obs.alias})
    chk.note("mode:" + spec["mode"], "dir:" + d, "cfg:" + cfg_name(cfg))
    if dressed:
        judge_oracle(chk, obs, case, what, stats, "missing-twin")
        return obs, call
    judge(chk, drv, obs, line, case, what, stats, corr_fail)
    # the same payload with dicts that have a side-effecting `__missing__` (implementation-only twin)
    trng = twin_rng(chk)
    if (d == "st" and not spec.get("frame_only") and c11_maps.has_dict(arg_abs) and trng.random() < TWIN_P
            and (obs.outcome == "ok" or (spec["mode"] != "tagged" and required_present(S, cfg, ty, arg, ovr)))):
        kind = trng.choice(c11_maps.MISSING_DRESSES)
        chk.note("payload-dicts:" + kind, "missing-twin:plain-outcome-" + obs.outcome)
        do_case(chk, drv, S, dict(spec, dress=kind, arg=arg_abs), stats, corr_fail, cache)
    return obs, call


def twin_rng(chk):
    """a generator of its own for the twins (seeded from the run's seed): the cases of the modelled streams are the
    same with and without them"""
    if not hasattr(chk, "_twin_rng"):
        import random
        chk._twin_rng = random.Random("c11-twin-%s-%s" % (chk.seed, chk.tier))
    return chk._twin_rng


def judge_oracle(chk, obs, case, what, stats, label):
    """the oracle alone (inputs outside the Lean fragment): never modified; no sharing outside the pass-throughs"""
    chk.note(label + ":outcome:" + obs.outcome)
    stats[label + ":oracle-only"] += 1
    if obs.changed:
        chk.violation(f"C11 oracle: the argument was modified ({obs.outcome}; keys inserted: {obs.inserted}) [{what}]",
                      dict(case, kind="mutated", inserted_keys=obs.inserted))
    elif obs.bad:
        chk.violation(
            f"C11 oracle: the result shares argument container(s) {obs.bad} outside the documented "
            f"pass-through positions [{what}]",
            dict(case, kind="alias", offending=obs.bad, all_offending_under_td_extra_key=obs.bad_extras_only))


# ------------------------------------------------------------------ case streams

def payload_variants(chk, G, S, w, base_abs, n_mut, n_junk, extra_keys=False):
    out = list(streams.payloads(chk, G, S, w, base_abs, n_mut=n_mut, n_junk=n_junk))
    if extra_keys and base_abs[0] == "d":
        # an undeclared key holding a mutable container (finding F34 must keep reproducing)
        kvs = list(base_abs[1]) + [(("s", "zzz"), ("l", [("i", 1)]))]
        out.append(("extra-container", ("d", kvs), None))
    return out


def cfg_ok(cfg, w):
    """typing.Self is resolved by the generated dict hooks only: worlds with a Self-recursive class are
    exercised on Converter / dict strategy (values of that class can sit at Any positions of any type)"""
    return not (any(c.get("recursive") == "self" for c in w["classes"]) and (not cfg["gen"] or cfg["tuple"]))


def sanitize(w):
    """generator features that exist for other properties' mechanisms and are not part of the heap model:
    identity attrs field converters (user code on the instantiation path) and bare `Final` annotations
    (kept as `Final[T]`)"""
    for c in w["classes"]:
        for f in c["fields"]:
            f.pop("idconv", None)
            f.pop("bare_final", None)
    return w


def my_worlds(chk, drv, n_worlds):
    G = gen.Gen(chk.rng, unions=True, nt=True, enum_lits=True, class_features=True, validators=False)
    made = attempts = 0
    while made < n_worlds and attempts < n_worlds * 3:
        attempts += 1
        w = sanitize(G.world())
        try:
            S = Session(drv, w)
        except Exception:  # noqa: BLE001
            chk.note("world-rejected-by-python")
            continue
        made += 1
        yield G, S, w


def stream_plain(chk, drv, stats, corr_fail, n_worlds):
    for G, S, w in my_worlds(chk, drv, n_worlds):
        cache = {}
        for ty, x, _xv in streams.typed_values(chk, G, S, w, n_types=3, n_values=1, any_stable=False):
            chk.note("ty:" + (ty if isinstance(ty, str) else ty[0]))
            if gen.has_enum_lit(w, ty):
                chk.note("literal-with-enum-members-reachable")
            for cfg in CFGS:
                if not gen.supported(cfg, w, ty) or not cfg_ok(cfg, w):
                    chk.note("unsupported-by-converter-class")
                    continue
                spec = {"mode": "plain", "cfg": cfg, "dir": "un", "ty": ty, "arg": x}
                obs, _ = do_case(chk, drv, S, spec, stats, corr_fail, cache)
                if obs.outcome != "ok":
                    continue
                try:
                    u_abs = S.R.abs_un(obs.res)
                except Unrepresentable:
                    continue
                for kind, p, _pv in payload_variants(chk, G, S, w, u_abs, 2, 1, extra_keys=chk.rng.random() < 0.3):
                    chk.note("payload:" + kind)
                    spec = {"mode": "plain", "cfg": cfg, "dir": "st", "ty": ty, "arg": p}
                    do_case(chk, drv, S, spec, stats, corr_fail, cache)
            # unstructure of something that is not a value of the type (error paths of unstructure):
            # oracle only (the model covers conforming values)
            cfg = chk.rng.choice(CFGS)
            if gen.supported(cfg, w, ty) and cfg_ok(cfg, w):
                j = G.junk(w, 2)
                try:
                    jv = S.R.val(j)
                except Exception:  # noqa: BLE001
                    continue
                spec = {"mode": "plain", "cfg": cfg, "dir": "un", "ty": ty, "arg": j, "frame_only": True}
                chk.note("payload:junk-unstructure")
                do_case(chk, drv, S, spec, stats, corr_fail, cache, arg=jv)


def td_world(G, rng):
    """a world whose last class is a TypedDict with container-typed keys, plus override choices"""
    w = sanitize(G.world(n_classes=rng.randint(0, 2), kinds=("attrs", "dc")))
    ci = len(w["classes"])
    names = rng.sample(gen.FIELD_NAMES, rng.randint(1, 4))
    fields = []
    for n in names:
        t = G.type(w, rng.randint(0, 2), max_cls=ci)
        fields.append({"name": n, "alias": n, "ty": t, "dflt": None, "init": True,
                       "required": rng.random() < 0.7, "kw_only": False})
    w["classes"].append({"kind": "td", "frozen": False, "fields": fields, "slots": False})
    ovr = []
    for f in fields:
        c = rng.random()
        if c < 0.35:
            ovr.append([ci, f["name"], {"rename": "r_" + f["name"].strip("_"), "omit": False}])
        elif c < 0.5:
            ovr.append([ci, f["name"], {"rename": None, "omit": True}])
    return w, ci, ovr


def stream_td(chk, drv, stats, corr_fail, n_worlds):
    G = gen.Gen(chk.rng)
    rng = chk.rng
    made = 0
    while made < n_worlds:
        w, ci, ovr = td_world(G, rng)
        try:
            S = Session(drv, w)
        except Exception:  # noqa: BLE001
            chk.note("world-rejected-by-python")
            continue
        made += 1
        cache = {}
        ty = ("td", ci) if rng.random() < 0.7 else (rng.choice(["list", "opt"]), ("td", ci))
        for cfg in [{"gen": True, "tuple": t, "detailed": d, "forbid": f}
                    for t in (False,) for d in (True, False) for f in (False, True)]:
            for use_ovr in (ovr, []):
                mode = "td" if use_ovr else "plain"
                chk.note("td-overrides:" + ("yes" if use_ovr else "no"))
                x = G.value(w, ty, 3, any_stable=False)
                if gen.lookalike_hazard(x):
                    continue
                if rng.random() < 0.3 and x[0] == "d":
                    x = ("d", list(x[1]) + [(("s", "zzz"), ("l", [("s", "b")]))])
                spec = {"mode": mode, "cfg": cfg, "dir": "un", "ty": ty, "arg": x, "ovr": use_ovr}
                try:
                    obs, _ = do_case(chk, drv, S, spec, stats, corr_fail, cache)
                except Unrepresentable:
                    continue
                if obs.outcome != "ok":
                    continue
                try:
                    u_abs = S.R.abs_un(obs.res)
                except Unrepresentable:
                    continue
                for kind, p, _pv in payload_variants(chk, G, S, w, u_abs, 2, 0, extra_keys=True):
                    chk.note("payload:" + kind)
                    spec = {"mode": mode, "cfg": cfg, "dir": "st", "ty": ty, "arg": p, "ovr": use_ovr}
                    do_case(chk, drv, S, spec, stats, corr_fail, cache)


def stream_tagged(chk, drv, stats, corr_fail, n_worlds):
    G = gen.Gen(chk.rng)
    rng = chk.rng
    made = 0
    while made < n_worlds:
        w = sanitize(G.world(n_classes=rng.randint(2, 4), kinds=("attrs", "dc")))
        try:
            S = Session(drv, w)
        except Exception:  # noqa: BLE001
            chk.note("world-rejected-by-python")
            continue
        made += 1
        n = len(w["classes"])
        members = sorted(rng.sample(range(n), rng.randint(2, n)))
        default = rng.choice([None, None, rng.randrange(n)])
        tg = {"members": members, "default": default}
        cfgs = [{"gen": True, "tuple": False, "detailed": d, "forbid": f} for d in (True, False) for f in (True, False)]
        cfgs += [{"gen": False, "tuple": False, "detailed": rng.random() < 0.5, "forbid": False},
                 {"gen": rng.random() < 0.5, "tuple": True, "detailed": True, "forbid": False}]
        for cfg in cfgs:
            if not cfg_ok(cfg, w) or not all(
                    gen.supported(cfg, w, ("cls", c)) for c in members + ([default] if default is not None else [])):
                chk.note("unsupported-by-converter-class")
                continue
            cache = {}
            chk.note("tagged:default=" + ("yes" if default is not None else "no") + ",forbid=" + str(int(cfg["forbid"])))
            for c in members:
                x = G.value(w, ("cls", c), 3, any_stable=False)
                if gen.lookalike_hazard(x):
                    continue
                spec = {"mode": "tagged", "cfg": cfg, "dir": "un", "arg": x, "tagged": tg}
                try:
                    obs, _ = do_case(chk, drv, S, spec, stats, corr_fail, cache)
                except Exception as e:  # noqa: BLE001
                    if isinstance(e, lean.InfraError):
                        raise
                    chk.note("tagged-setup-failed:" + e.__class__.__name__)
                    break
                if obs.outcome != "ok":
                    continue
                try:
                    u_abs = S.R.abs(obs.res)
                except Unrepresentable:
                    continue
                variants = payload_variants(chk, G, S, w, u_abs, 2, 0)
                if u_abs[0] == "d":
                    kvs = [kv for kv in u_abs[1] if kv[0] != ("s", "_type")]
                    variants.append(("no-tag", ("d", kvs), None))
                    variants.append(("unknown-tag", ("d", kvs + [(("s", "_type"), ("s", "Nope"))]), None))
                    variants.append(("list-tag", ("d", kvs + [(("s", "_type"), ("l", []))]), None))
                for kind, p, _pv in variants:
                    if gen.lookalike_hazard(p):
                        continue
                    chk.note("payload:" + kind)
                    spec = {"mode": "tagged", "cfg": cfg, "dir": "st", "arg": p, "tagged": tg}
                    do_case(chk, drv, S, spec, stats, corr_fail, cache)


# ------------------------------------------------------------------ same-class containers at bare / Any-element positions
# The documented pass-through at an Any position is the ELEMENT, never the container that holds it:
# `structure({1, 2}, set)` / `unstructure([..], unstructure_as=list)` must build a new container even
# though nothing needs converting and the payload already has the target class.

import typing  # noqa: E402

BARE_SPELLINGS = {
    "list": (list, typing.List), "seq": (typing.Sequence, typing.Sequence),
    "mseq": (typing.MutableSequence, typing.MutableSequence), "tup*": (tuple, typing.Tuple),
    "deque": (collections.deque, typing.Deque), "set": (set, typing.Set),
    "mset": (typing.MutableSet, typing.MutableSet), "fset": (frozenset, typing.FrozenSet),
    "dict": (dict, typing.Dict), "map": (typing.Mapping, typing.Mapping),
    "mmap": (typing.MutableMapping, typing.MutableMapping),
}
ONE = {"list": lambda a: list[a], "seq": lambda a: typing.Sequence[a], "mseq": lambda a: typing.MutableSequence[a],
       "tup*": lambda a: tuple[a, ...], "deque": lambda a: collections.deque[a], "set": lambda a: set[a],
       "mset": lambda a: typing.MutableSet[a], "fset": lambda a: frozenset[a], "opt": lambda a: typing.Optional[a]}
TWO = {"dict": lambda a, b: dict[a, b], "map": lambda a, b: typing.Mapping[a, b],
       "mmap": lambda a, b: typing.MutableMapping[a, b]}
SEQ_TAG = {"list": "l", "seq": "l", "mseq": "l", "tup*": "t", "deque": "q", "set": "S", "mset": "S", "fset": "F"}
ANY_COLLS = [("list", "any"), ("seq", "any"), ("mseq", "any"), ("tup*", "any"), ("deque", "any"), ("set", "any"),
             ("mset", "any"), ("fset", "any"), ("dict", "any", "any"), ("map", "any", "any"), ("mmap", "any", "any")]


def spelled_ty(S, t, spell):
    """the Python type for t; `spell` in param|builtin|typing: collection nodes whose arguments are all Any
    are written `X[Any]`, as the bare builtin (`set`) or as the bare typing alias (`typing.Set`)"""
    if isinstance(t, str):
        return S.R.ty(t)
    k = t[0]
    if k in BARE_SPELLINGS and spell != "param" and all(x == "any" for x in t[1:]):
        return BARE_SPELLINGS[k][0 if spell == "builtin" else 1]
    if k in ONE:
        return ONE[k](spelled_ty(S, t[1], spell))
    if k in TWO:
        return TWO[k](spelled_ty(S, t[1], spell), spelled_ty(S, t[2], spell))
    if k == "tup":
        return tuple[tuple(spelled_ty(S, x, spell) for x in t[1])] if t[1] else tuple[()]
    return S.R.ty(t)


def sc_any_value(rng, depth, hashable=False):
    """a value for an Any position: leaves and (unless it must be hashable) mutable containers"""
    c = rng.random()
    if hashable:
        if c < 0.75 or depth <= 0:
            return rng.choice([("i", rng.randint(0, 30)), ("s", rng.choice(["b", "x7", "zz", ""]))])
        return ("t", [("i", rng.randint(40, 60)), ("s", "c")])
    if c < 0.35 or depth <= 0:
        return rng.choice([("i", rng.randint(-5, 30)), ("s", rng.choice(["b", "x7", ""])), ("N",), ("b", True)])
    if c < 0.6:
        return ("l", [sc_any_value(rng, depth - 1) for _ in range(rng.randint(0, 2))])
    if c < 0.75:
        return ("d", uniq_kvs([(("s", rng.choice(["a", "b", "k"])), sc_any_value(rng, depth - 1)) for _ in range(rng.randint(0, 2))]))
    if c < 0.85:
        return ("S", uniq([("i", rng.randint(0, 9)) for _ in range(rng.randint(0, 3))]))
    if c < 0.93:
        return ("q", [("i", 1)])
    return ("o", rng.randint(0, 3))


def uniq(xs):
    out = []
    for x in xs:
        if not any(gen.py_eq(x, y) for y in out):
            out.append(x)
    return out


def uniq_kvs(kvs):
    out = []
    for k, v in kvs:
        if not any(gen.py_eq(k, u) for u, _ in out):
            out.append((k, v))
    return out


def sc_value(rng, w, t, depth, same=0.85):
    """a value / payload for t whose containers have the target class with probability `same`"""
    if t == "any":
        return sc_any_value(rng, depth)
    if isinstance(t, str):
        return {"int": ("i", rng.randint(-3, 9)), "str": ("s", rng.choice(["b", "zz"])), "bool": ("b", True),
                "float": ("f", 3), "bytes": ("y", "62")}[t]
    k = t[0]
    if k in SEQ_TAG:
        tag = SEQ_TAG[k] if rng.random() < same else rng.choice(["l", "t", "q", "S", "F"])
        keyed = tag in ("S", "F")
        n = rng.randint(0, 3)
        if t[1] == "any":
            xs = [sc_any_value(rng, depth - 1, hashable=keyed) for _ in range(n)]
        else:
            xs = [sc_value(rng, w, t[1], depth - 1, same) for _ in range(n)]
            if keyed and not all(gen.hashable_abs(x) for x in xs):
                tag = "l"
        return (tag, uniq(xs) if tag in ("S", "F") else xs)
    if k in TWO:
        kvs = []
        for _ in range(rng.randint(0, 3)):
            kk = sc_any_value(rng, 0, hashable=True) if t[1] == "any" else sc_value(rng, w, t[1], 0, same)
            kvs.append((kk, sc_value(rng, w, t[2], depth - 1, same)))
        return ("d", uniq_kvs(kvs))
    if k == "opt":
        return ("N",) if rng.random() < 0.2 else sc_value(rng, w, t[1], depth, same)
    if k == "tup":
        return ("t", [sc_value(rng, w, x, depth - 1, same) for x in t[1]])
    if k == "cls":
        return ("I", t[1], [(f["name"], sc_value(rng, w, f["ty"], depth - 1, same)) for f in w["classes"][t[1]]["fields"]])
    raise ValueError(t)


def sc_world(rng):
    """two classes (attrs, dataclass) whose attributes are Any-element collections of every kind"""
    w = {"classes": [], "enums": []}
    for kind in ("attrs", "dc"):
        names = rng.sample(gen.FIELD_NAMES, 3)
        fields = [{"name": n, "alias": n.lstrip("_") if kind == "attrs" else n, "ty": rng.choice(ANY_COLLS), "dflt": None,
                   "init": True, "required": True, "kw_only": False} for n in names]
        w["classes"].append({"kind": kind, "frozen": False, "fields": fields, "slots": rng.random() < 0.5, "recursive": None})
    return w


def sc_types(rng, w):
    """top-level and nested positions"""
    out = list(ANY_COLLS)
    for _ in range(8):
        x = rng.choice(ANY_COLLS)
        out.append(rng.choice([("list", x), ("opt", x), ("dict", "str", x), ("seq", x), ("tup*", x), ("deque", x),
                               ("map", "int", ("list", x)), ("tup", [x, "int"]), ("cls", rng.randrange(2)),
                               ("list", ("cls", rng.randrange(2))), ("dict", "str", "any"), ("dict", "any", "int")]))
    return out


def stream_sameclass(chk, drv, stats, corr_fail, n_worlds):
    rng = chk.rng
    made = 0
    while made < n_worlds:
        w = sc_world(rng)
        try:
            S = Session(drv, w)
        except Exception:  # noqa: BLE001
            chk.note("world-rejected-by-python")
            continue
        made += 1
        cache = {}
        for ty in sc_types(rng, w):
            chk.note("sameclass-ty:" + (ty[0] if ty in ANY_COLLS else "nested"))
            for cfg in rng.sample(ALL_CFGS, 4):
                if not cfg["gen"] and any(not isinstance(x, str) and x[0] == "tup" for x in gen.walk_types(ty)):
                    continue          # BaseConverter: heterogeneous tuples of leaves only
                spell = rng.choice(["param", "builtin", "typing"])
                chk.note("spelling:" + spell)
                for d in ("st", "un"):
                    x = sc_value(rng, w, ty, 3)
                    if gen.lookalike_hazard(x):
                        continue
                    if d == "st" and rng.random() < 0.5:
                        # the payload a round trip would feed back: the converter's own encoding
                        try:
                            u = S.conv(cfg).unstructure(S.R.val(x), unstructure_as=spelled_ty(S, ty, spell))
                            x = S.R.abs(u)
                        except Exception:  # noqa: BLE001
                            pass
                    spec = {"mode": "plain", "cfg": cfg, "dir": d, "ty": ty, "arg": x, "spell": spell}
                    try:
                        do_case(chk, drv, S, spec, stats, corr_fail, cache)
                    except Unrepresentable:
                        chk.note("value-not-realisable")


# ------------------------------------------------------------------ mapping classes other than dict (implementation only)
# Same oracle, inputs outside the Lean fragment: mapping TARGET classes that wrap the mapping they are given
# (ChainMap, MappingProxyType, user views), user mapping classes generic in one / both / no parameters, payload dicts
# of dict subclasses.  A type here is an abstract type with mapping nodes ("xmap", class name, spelling, K, V): the
# oracle judges it as the ("dict", K, V) it denotes -- `structure(p, ChainMap)` must build a new container just as
# `structure(p, dict)` must, and `unstructure(Index(..), Index[str])` must rebuild the values as `Dict[str, Any]` does.

XK = ["any", "str", "int"]
XV = ["any", "any", "int", ("list", "any"), ("dict", "str", "any"), ("list", "int"), ("set", "any")]


def x_from_json(t):
    """JSON turns tuples into lists; restore the shape of an extended type"""
    if isinstance(t, str):
        return t
    if t[0] == "tup":
        return ("tup", [x_from_json(x) for x in t[1]])
    if t[0] == "xmap":
        return ("xmap", t[1], t[2], x_from_json(t[3]), x_from_json(t[4]))
    return (t[0],) + tuple(x_from_json(x) for x in t[1:])


def x_core(t):
    """the abstract type an extended type denotes"""
    if isinstance(t, str):
        return t
    if t[0] == "xmap":
        return ("dict", x_core(t[3]), x_core(t[4]))
    if t[0] == "tup":
        return ("tup", [x_core(x) for x in t[1]])
    return (t[0],) + tuple(x_core(x) for x in t[1:])


def x_py(S, t):
    """the Python type"""
    if isinstance(t, str):
        return S.R.ty(t)
    k = t[0]
    if k == "xmap":
        return c11_maps.map_type(t[1], t[2], x_py(S, t[3]), x_py(S, t[4]))
    if k in ONE:
        return ONE[k](x_py(S, t[1]))
    if k in TWO:
        return TWO[k](x_py(S, t[1]), x_py(S, t[2]))
    if k == "tup":
        return tuple[tuple(x_py(S, x) for x in t[1])]
    return S.R.ty(t)


def x_val(S, t, v):
    """a VALUE of the extended type from a realised value of the core type: the dict at an xmap node becomes an
    instance of the node's class"""
    if isinstance(t, str) or v is None:
        return v
    k = t[0]
    if k == "xmap":
        if not isinstance(v, dict):
            return v
        return c11_maps.make_instance(t[1], {a: x_val(S, t[4], b) for a, b in v.items()})
    if k in ("list", "seq", "mseq", "tup*", "deque") and isinstance(v, (list, tuple, collections.deque)):
        return v.__class__(x_val(S, t[1], e) for e in v)
    if k == "opt":
        return x_val(S, t[1], v)
    if k in TWO and isinstance(v, dict):
        return {a: x_val(S, t[2], b) for a, b in v.items()}
    if k == "tup" and isinstance(v, tuple):
        return tuple(x_val(S, a, e) for a, e in zip(t[1], v))
    return v


def x_name(t):
    if isinstance(t, str):
        return t
    if t[0] == "xmap":
        return "(%s/%s %s %s)" % (t[1], t[2], x_name(t[3]), x_name(t[4]))
    if t[0] == "tup":
        return "(tup " + " ".join(x_name(x) for x in t[1]) + ")"
    return "(" + " ".join([t[0]] + [x_name(x) for x in t[1:]]) + ")"


def x_types(rng):
    """mapping-class nodes at top level and nested"""
    out = []
    for name in c11_maps.MAP_CLASSES:
        for _ in range(2):
            spell = rng.choice(c11_maps.spellings(name))
            n_par = c11_maps.MAP_CLASSES[name][2]
            if spell == "param":
                kt = rng.choice(XK)
                vt = "any" if n_par == 1 else rng.choice(XV)
            else:
                kt = vt = "any"
            node = ("xmap", name, spell, kt, vt)
            c = rng.random()
            if c < 0.6:
                out.append(node)
            else:
                out.append(rng.choice([("list", node), ("opt", node), ("dict", "str", node), ("tup", [node, "int"]),
                                       ("tup*", node), ("map", "int", ("list", node))]))
    return out


def do_xcase(chk, S, spec, stats, cache):
    """one call on the implementation, judged by the oracle alone"""
    cfg, d, xt = spec["cfg"], spec["dir"], x_from_json(spec["xty"])
    core = x_core(xt)
    conv = S.conv(cfg)
    rty = x_py(S, xt)
    arg = S.R.val(spec["arg"])
    if d == "un":
        arg = x_val(S, xt, arg)
        call = lambda a: conv.unstructure(a, unstructure_as=rty)  # noqa: E731
        allowed_fn = lambda extras: allowed_un(S, cfg, core, arg, None, extras)  # noqa: E731
    else:
        if spec.get("dress"):
            arg = c11_maps.dress(arg, spec["dress"])
        call = lambda a: conv.structure(a, rty)  # noqa: E731
        allowed_fn = lambda extras: allowed_st(S, cfg, core, arg, None, extras)  # noqa: E731
    obs = observe(S, call, arg, allowed_fn, deep=True)
    what = "mapclass %s %s %s arg=%s%s" % (d, cfg_name(cfg), x_name(xt), terms.canon_sx(spec["arg"])[:300],
                                          " payload-dicts=" + spec["dress"] if spec.get("dress") else "")
    chk.count(what, nontrivial=obs.n_arg > 0,
              sample={"mode": "mapclass", "dir": d, "cfg": cfg_name(cfg), "type": x_name(xt),
                      "arg": terms.canon_sx(spec["arg"])[:200], "outcome": obs.outcome, "alias": obs.alias})
    chk.note("mode:mapclass", "dir:" + d, "cfg:" + cfg_name(cfg))
    judge_oracle(chk, obs, dict(spec, world=S.world), what, stats, "mapclass")
    return obs


def stream_mapclasses(chk, drv, stats, n_worlds):
    rng = chk.rng
    made = 0
    while made < n_worlds:
        w = sc_world(rng)
        try:
            S = Session(drv, w)
        except Exception:  # noqa: BLE001
            chk.note("world-rejected-by-python")
            continue
        made += 1
        for xt in x_types(rng):
            node = [x for x in _x_walk(xt) if not isinstance(x, str) and x[0] == "xmap"][0]
            name = node[1]
            wraps, is_dict = c11_maps.MAP_CLASSES[name][3], c11_maps.MAP_CLASSES[name][4]
            chk.note("mapclass:" + name, "mapclass-spelling:" + node[2], "mapclass-position:" + ("top" if xt is node else "nested"))
            core = x_core(xt)
            for cfg in rng.sample(ALL_CFGS, 3):
                for d in ("st", "un"):
                    if d == "un" and not is_dict:
                        continue      # (values of the wrapping classes are not containers the numbering knows)
                    x = sc_value(rng, w, core, 3, same=1.0)
                    if gen.lookalike_hazard(x):
                        continue
                    spec = {"mode": "mapclass", "cfg": cfg, "dir": d, "xty": xt, "arg": x}
                    if d == "st" and rng.random() < 0.4:
                        spec["dress"] = rng.choice(sorted(c11_maps.DRESSES))
                        chk.note("payload-dicts:" + spec["dress"])
                    try:
                        do_xcase(chk, S, spec, stats, None)
                    except Unrepresentable:
                        chk.note("value-not-realisable")


def _x_walk(t):
    """the extended type and its sub-types"""
    yield t
    if isinstance(t, str):
        return
    subs = t[1] if t[0] == "tup" else (t[3:] if t[0] == "xmap" else t[1:])
    for x in subs:
        yield from _x_walk(x)


# ------------------------------------------------------------------ entry points

def run(chk: framework.Check):
    drv = lean.Driver()
    stats = collections.Counter()
    corr_fail = []
    quick = chk.tier == "quick"
    stream_plain(chk, drv, stats, corr_fail, 110 if quick else 1200)
    stream_td(chk, drv, stats, corr_fail, 150 if quick else 1500)
    stream_tagged(chk, drv, stats, corr_fail, 90 if quick else 900)
    stream_sameclass(chk, drv, stats, corr_fail, 40 if quick else 400)
    stream_mapclasses(chk, drv, stats, 25 if quick else 250)
    # the witness of finding F34 must keep reproducing (else the entry is stale)
    n_f34 = chk.known_hits.get("F34", 0)
    chk.extra["finding_F34_reproduced"] = n_f34
    if any(f["id"] == "F34" for f in chk.known) and n_f34 == 0:
        print("NOTE: finding F34 (TypedDict extra keys aliased) did not reproduce in this run - entry may be stale")
    if corr_fail and not chk.violations:
        for what, diff, case in corr_fail[:5]:
            chk.violation(
                f"correspondence corr:C11:ALIAS broken (theorems C11_frame / C11_fresh no longer tied to the code): "
                f"impl={diff['impl']} model={diff['model']} [{what}]", dict(case, kind="correspondence"),
                found_input=False)
    chk.extra["correspondence"] = dict(stats)
    chk.extra["correspondence_mismatches"] = len(corr_fail)
    chk.extra["rule"] = ("random worlds x types x converter configurations x {valid value -> unstructure; valid / mutated / "
                         "junk payload -> structure}, TypedDict hooks with rename/omit overrides x forbid_extra_keys, "
                         "tagged unions x default x forbid_extra_keys; + implementation-only: payload dicts with __missing__ "
                         "(twins of the structure cases), mapping classes other than dict; non-trivial = the argument holds at least one "
                         "container; distinct by (mode, direction, configuration, type, canonical argument)")
    drv.close()


def replay(case):
    drv = lean.Driver()
    case = terms.case_from_json(case)
    spec = {k: case[k] for k in ("mode", "cfg", "dir", "ty", "ovr", "tagged", "spell", "frame_only", "dress", "xty") if k in case}
    spec["arg"] = terms.tuple_ify(case["arg"])
    if spec.get("ty") is not None:
        spec["ty"] = terms.tuple_ify(spec["ty"])
    S = Session(drv, case["world"])
    chk = framework.Check("C11", "replay", 0)
    chk.known = []
    corr = []
    if spec["mode"] == "mapclass":
        obs = do_xcase(chk, S, spec, collections.Counter(), None)
    else:
        chk._twin_rng = type("NoTwin", (), {"random": staticmethod(lambda: 1.0)})()
        obs, _ = do_case(chk, drv, S, spec, collections.Counter(), corr, {})
    print("mode/dir :", spec["mode"], spec["dir"], cfg_name(spec["cfg"]))
    print("type     :", x_name(x_from_json(spec["xty"])) if spec.get("xty") is not None else
          terms.ty_sx(spec["ty"]) if spec.get("ty") is not None else spec.get("tagged"))
    print("argument :", terms.canon_sx(spec["arg"]), ("(payload dicts: %s)" % spec["dress"]) if spec.get("dress") else "")
    print("impl     : outcome=%s changed=%s inserted-keys=%s alias=%s root=%s value=%s" % (
        obs.outcome, obs.changed, obs.inserted, obs.alias, obs.root, obs.value))
    print("not allowed by the documented pass-throughs:", obs.bad, "(only under undeclared TypedDict keys)" if obs.bad_extras_only else "")
    for what, diff, _ in corr:
        print("model    :", diff["model"])
    for v in chk.violations:
        print("VIOLATION:", v[0])
    drv.close()
    return 1 if chk.violations or corr else 0


if __name__ == "__main__":
    framework.main(run, "C11")
