"""C18 — copy() behaves identically at copy time; converters are isolated afterwards.

Case = history on converter 0 (registrations + warm-ups), then `copy()` / `deepcopy` / `copy(<overrides>)`
(possibly a copy of the copy), a probe battery on every converter, then divergent operations on ONE converter,
then the battery again on every converter.

Oracles (implementation only):
  P1  at copy time the copy gives the same result as its source on every probe (when the overrides do not change the
      unstructure strategy), has the same class, carries every option (overridden ones replaced);
  P1' the copy gives the same results as a FRESH converter constructed with the overridden options that replays the
      source's registrations (also with a strategy override);
  P2  after the divergent operations every converter that did NOT receive them — the other copies, the original,
      `cattrs.global_converter` — answers every probe exactly as before;
  P3  the converter that received them behaves like a fresh converter with all its registrations.
Model: the same store history through RUNHIST (`copy i cfg'`), compared on every probe (Converter, BaseConverter).
Identity layer (corr:C18:LOCS): the same store history through LOCS (`Dispatch/Locs.lean`: containers are heap
locations, `copy` transcribed from `BaseConverter.copy` / `copy_to`); the model's locations of (class registry,
predicate list, union registry, direct table, lru) of every converter must show the same identity pattern as the
`id()`s of the real containers of every real converter of the store -- theorem C18_no_shared_locations says no two
converters share one; a registry handed over by reference shows up here even before any probe differs.
The preconfigured subclass `cattrs.preconf.json.JsonConverter` is checked with the oracles only.

The universe (dispatch_common) contains `Annotated[T, ...]` spellings of universe types, top level and as field types
(`An[A]`, `An[int]`, `An[NA]`, `An[list[B]]`, class `H`): the hooks behind them belong to the converter whose Annotated
factory answered, so they show whose registrations and options a copy really uses.
Option-sensitive probes (`EXT`, oracles P1/P1'/P2/P3 only -- the Dispatch model treats these options as
dispatch-neutral): payloads with an extra key (forbid_extra_keys), an instance whose field equals its default
(omit_if_default), a class with an attrs field converter (prefer_attrib_converters), an invalid payload whose exception
class is observed (detailed_validation), sets / frozensets (unstruct_collection_overrides), a class with a `float` field
(type_overrides), the class of the mapping an instance is unstructured to (dict_factory) -- each plain, under
`Annotated[...]`, and as an Annotated field of a holder; the unstructure probes also run under the tuple strategy
(unstruct_strat).  EVERY option `copy()` can override is overridden, in BOTH directions (True->False as well as
False->True, {}->{...} as well as {...}->{}, also to the value the source already has), systematically (one option at a
time, then a second-generation copy) and at random; P1 compares ALL option attributes of the copy with those of a fresh
converter constructed with the overridden options; no use of any converter of the store may write an option attribute.
MUTATION of a public option container after the copy (`mutopt`: `conv.type_overrides[float] = override(rename=...)` on ONE
converter, among the divergent operations): afterwards a class with a float field that NO converter has seen before is
used for the first time on every bystander -- the other converters of the store, a default-constructed `Converter()`
made before and one made after the mutation, `cattrs.global_converter` -- and each must answer like a reference converter
constructed with its own options given as FRESH containers (oracle P2m; implementation only).
F52 probe (implementation only): operating one converter on `G[int]` (generic attrs class) must not change what another
instance does with `G[int]`.
"""
import collections
import copy as _copy
import gc
import typing
import itertools
import json
import os
from typing import Annotated, Generic, TypeVar

import attrs

from harness import framework, lean
from harness import dispatch_common as dc
from harness.dispatch_common import DIRS, ST, UN, ConvCfg, Impl, U

REG = ("hook", "func", "factory")
GLOBAL_BATTERY = ["A", "B", "W", "E", "NA", "OA", "list[A]", "dict[str,B]", "tuple[A,P]", "int", "P", "An[A]", "An[int]", "H"]


# ---- option-sensitive probes (oracle only) ------------------------------------------------------------------
def _ktag(v):
    return ("K", v)


@attrs.define
class ExtDf:
    x: int = 3


@attrs.define
class ExtK:
    k: int = attrs.field(converter=_ktag)


@attrs.define
class ExtH:
    a: Annotated[dc.DspA, "m"]
    d: Annotated[ExtDf, "m"]
    k: Annotated[ExtK, "m"]


@attrs.define
class ExtS:
    s: Annotated[set[int], "m"]
    p: set[int]
    f: Annotated[frozenset[int], "m"]


@attrs.define
class ExtQ:
    q: collections.deque[int]
    l: list[int]  # noqa: E741
    t: tuple[int, ...]
    m: dict[str, int]


@attrs.define
class ExtT:
    f: float


@attrs.define
class ExtHT:
    t: Annotated[ExtT, "m"]
    u: ExtT


def _ext_canon(v):
    if attrs.has(type(v)) and type(v).__name__.startswith("Ext"):
        return ("inst", type(v).__name__, [(a.name, _ext_canon(getattr(v, a.name))) for a in attrs.fields(type(v))])
    if isinstance(v, tuple):
        return ("tuple", [_ext_canon(x) for x in v])
    if isinstance(v, list):
        return ("list", [_ext_canon(x) for x in v])
    if isinstance(v, (set, frozenset)):
        return (type(v).__name__, sorted(repr(x) for x in v))
    if isinstance(v, collections.deque):
        return ("deque", [_ext_canon(x) for x in v])
    if isinstance(v, float):
        return ("val", repr(v))
    if isinstance(v, dict):  # the class of the mapping is an observable (dict_factory)
        return ("dict" if type(v) is dict else "dict:" + type(v).__name__, sorted([(repr(k), _ext_canon(x)) for k, x in v.items()]))
    return dc.canon(v)


# (name, direction, type, sample / payload under the dict strategy)
EXT = [
    ("A+extra-key", ST, dc.DspA, {"x": 5, "zz": 1}),
    ("An[A]+extra-key", ST, Annotated[dc.DspA, "m"], {"x": 5, "zz": 1}),
    ("ExtH+extra-key-in-annotated-field", ST, ExtH, {"a": {"x": 5, "zz": 1}, "d": {"x": 3}, "k": {"k": "7"}}),
    ("ExtDf=default", UN, ExtDf, ExtDf()),
    ("An[ExtDf]=default", UN, Annotated[ExtDf, "m"], ExtDf()),
    ("ExtH(default-in-annotated-field)", UN, ExtH, ExtH(dc.DspA(5), ExtDf(), ExtK(1))),
    ("ExtK(field-converter)", ST, ExtK, {"k": "7"}),
    ("An[ExtK](field-converter)", ST, Annotated[ExtK, "m"], {"k": "7"}),
    ("A(invalid)", ST, dc.DspA, {"x": "zz"}),
    ("An[A](invalid)", ST, Annotated[dc.DspA, "m"], {"x": "zz"}),
    ("ExtH(invalid-annotated-field)", ST, ExtH, {"a": {"x": "zz"}, "d": {}, "k": {"k": 1}}),
    # unstruct_collection_overrides
    ("set[int]", UN, set[int], {3, 4}),
    ("An[set[int]]", UN, Annotated[set[int], "m"], {3, 4}),
    ("frozenset[int]", UN, frozenset[int], frozenset({3})),
    ("An[frozenset[int]]", UN, Annotated[frozenset[int], "m"], frozenset({3})),
    ("ExtS(annotated-set-fields)", UN, ExtS, ExtS({1}, {2}, frozenset({3}))),
    # type_overrides
    ("ExtT(float-field)", UN, ExtT, ExtT(1.5)),
    ("An[ExtT](float-field)", UN, Annotated[ExtT, "m"], ExtT(1.5)),
    ("ExtHT(annotated-field-with-float-field)", UN, ExtHT, ExtHT(ExtT(1.5), ExtT(2.5))),
    ("ExtT<-{f}", ST, ExtT, {"f": 1.5}),
    ("ExtT<-{F}", ST, ExtT, {"F": 1.5}),
    ("An[ExtT]<-{F}", ST, Annotated[ExtT, "m"], {"F": 1.5}),
    ("ExtHT<-{F}", ST, ExtHT, {"t": {"F": 1.5}, "u": {"F": 2.5}}),
    # ... the whole lattice of collection types an override can reach (Sequence > MutableSequence > list, deque; Sequence >
    # tuple; Mapping > MutableMapping > dict > Counter), bare, parametrised, typing aliases, as fields
    ("deque[int]", UN, collections.deque[int], collections.deque([1, 2])),
    ("Deque[int]", UN, typing.Deque[int], collections.deque([1, 2])),
    ("deque(bare)", UN, collections.deque, collections.deque([1, 2])),
    ("An[deque[int]]", UN, Annotated[collections.deque[int], "m"], collections.deque([1, 2])),
    ("list[int]", UN, list[int], [1, 2]),
    ("tuple[int,...]", UN, tuple[int, ...], (1, 2)),
    ("tuple[int,str]", UN, tuple[int, str], (1, "s")),
    ("Sequence[int]", UN, typing.Sequence[int], [1, 2]),
    ("MutableSequence[int]", UN, typing.MutableSequence[int], [1, 2]),
    ("dict[str,int]", UN, dict[str, int], {"k": 1}),
    ("Mapping[str,int]", UN, typing.Mapping[str, int], {"k": 1}),
    ("MutableMapping[str,int]", UN, typing.MutableMapping[str, int], {"k": 1}),
    ("Counter[str]", UN, typing.Counter[str], collections.Counter("ab")),
    ("ExtQ(deque/list/tuple/dict-fields)", UN, ExtQ, ExtQ(collections.deque([1]), [2], (3,), {"k": 4})),
    # option-sensitive classes INSIDE collections: Converter generates the collection hook once, with the element handler
    # (and through it the options) baked in, and parks it in the direct table
    ("list[ExtDf]=default", UN, list[ExtDf], [ExtDf()]),
    ("tuple[ExtDf,int]=default", UN, tuple[ExtDf, int], (ExtDf(), 1)),
    ("dict[str,A]+extra-key", ST, dict[str, dc.DspA], {"k": {"x": 5, "zz": 1}}),
    ("list[A](invalid)", ST, list[dc.DspA], [{"x": "zz"}]),
    ("dict[str,ExtT](float-field)", UN, dict[str, ExtT], {"k": ExtT(1.5)}),
    ("dict[str,ExtT]<-{F}", ST, dict[str, ExtT], {"k": {"F": 1.5}}),
    # dict_factory (and the strategy): the class of what an instance is unstructured to
    ("A(class-of-result)", UN, dc.DspA, dc.DspA(5)),
    ("W(class-of-nested-results)", UN, dc.DspW, dc.DspW(dc.DspA(5), 5, [dc.DspB(5, 6)])),
]
_EXT_ANNOTATED = (ExtH, ExtS, ExtHT)


def ext_battery(impl, idx, only=None):
    """-> {("ext", name): canonical result}; exceptions are observed by class (detailed validation changes it)"""
    conv, cc = impl.convs[idx], impl.cfgs[idx]
    out = {}
    for name, d, t, x in EXT:
        if only is not None and name not in only:
            continue
        if cc.tuple_strat and d == ST:
            continue  # the structure payloads above are mappings
        if not cc.gen() and ("An[" in name or t in _EXT_ANNOTATED):
            continue  # BaseConverter has no Annotated support
        # (as in Impl.do: user hook factories created while this probe runs record whether they were handed THE
        # converter being operated on -- a hook cached here is reused by the ordinary probes)
        impl.current = idx
        try:
            r = conv.unstructure(x, unstructure_as=t) if d == UN else conv.structure(x, t)
            out[("ext", name)] = _ext_canon(r)
        except Exception as e:  # noqa: BLE001
            out[("ext", name)] = ("err", type(e).__name__)
        finally:
            impl.current = None
    return out


# ---- identity layer (corr:C18:LOCS) -------------------------------------------------------------------------
LOC_NAMES = ("class registry (_single_dispatch.registry)", "predicate list (_function_dispatch._handler_pairs)",
             "union registry (_union_struct_registry)", "direct table (_direct_dispatch)", "lru cache (dispatch)")


def real_containers(conv, d):
    """the five mutable containers of one hook table of a real converter, in the order of `Conv.locs`
    (None if the converter no longer has this shape -- reported, not an alarm)"""
    try:
        msd = conv._structure_func if d == ST else conv._unstructure_func
        reg = msd._single_dispatch.registry          # a fresh mappingproxy per access: the dict is its referent
        under = [o for o in gc.get_referents(reg) if isinstance(o, dict)]
        if len(under) != 1:
            return None
        return [under[0], msd._function_dispatch._handler_pairs, conv._union_struct_registry, msd._direct_dispatch, msd.dispatch]
    except AttributeError:
        return None


def model_locs(drv, history, d, cfgs0, preds):
    """[[five locations] per converter of the final store] from the identity layer of the model"""
    dc.shape_info(drv)
    ctx0 = dc.ModelCtx(cfgs0[0], d, preds)
    sops, _ = dc.model_ops(history, d, cfgs0)
    parts = [f"(copy {s[1]} {ctx0.cfg_sx(s[2])})" if isinstance(s, tuple) else s for s in sops]
    store = " ".join(ctx0.cfg_sx(cc) for cc in cfgs0)
    others = [dc.ModelCtx(cc, d, preds) for cc in list(cfgs0[1:]) + [s[2] for s in sops if isinstance(s, tuple)]]
    r = drv.ask(f"LOCS {ctx0.facts_sx(others)} ({store}) ({' '.join(parts)})")
    if not r.startswith("(ok"):
        raise lean.InfraError("model driver (LOCS): " + r[:200])
    return [[int(x) for x in row] for row in dc.parse_sx(r)[0][1:]]


def identity_pattern(rows, key):
    """{((i, k), (j, l)) : same object?} over all pairs of containers of all converters"""
    cells = [((i, k), key(x)) for i, row in enumerate(rows) for k, x in enumerate(row)]
    return {(a, b): (xa == xb) for n, (a, xa) in enumerate(cells) for (b, xb) in cells[n + 1:]}



def dc_describe(op):
    if op["op"] == "mutopt":
        return (f"c{op['conv']}.{op['opt']}[{op['key']}] = override(rename={op['val']!r})" if op["val"] is not None
                else f"del c{op['conv']}.{op['opt']}[{op['key']}]")
    return dc.describe(op)


def kname(k):
    return f"{k[0]} {U.types[k[1]].name}" if k[0] != "ext" else f"option-sensitive probe {k[1]}"


COLL_CHOICES = [{}, {"set": "list"}, {"set": "sorted"}, {"frozenset": "list"}, {"AbstractSet": "list"},
                # the abstract keys: the constructor derives entries for the more specific types from them
                {"Sequence": "tuple"}, {"MutableSequence": "tuple"}, {"Sequence": "tuple", "list": "list"}, {"MutableSet": "sorted"},
                {"Mapping": "OrderedDict"}, {"MutableMapping": "OrderedDict"}, {"dict": "OrderedDict"}, {"deque": "tuple"},
                {"Sequence": "list", "MutableSequence": "tuple"}, {"AbstractSet": "sorted", "Sequence": "tuple", "Mapping": "OrderedDict"}]
TYO_CHOICES = [{}, {"float": "F"}, {"float": "G"}]
DF_CHOICES = ["dict", "OrderedDict"]
BOOL_OPTS = {"Converter": ("detailed_validation", "prefer_attrib_converters", "forbid_extra_keys", "omit_if_default"),
             "JsonConverter": ("detailed_validation", "prefer_attrib_converters", "forbid_extra_keys", "omit_if_default"),
             "BaseConverter": ("detailed_validation", "prefer_attrib_converters")}


def gen_cfg(rng, allow_json=True):
    r = rng.random()
    klass = "Converter" if r < 0.5 else ("BaseConverter" if r < 0.8 or not allow_json else "JsonConverter")
    extra = {}
    if klass != "BaseConverter":
        if rng.random() < 0.3:
            extra["forbid_extra_keys"] = True
        if rng.random() < 0.3:
            extra["omit_if_default"] = True
        if rng.random() < 0.2:
            extra["type_overrides"] = rng.choice(TYO_CHOICES[1:])
    if klass == "Converter" and rng.random() < 0.25:
        extra["unstruct_collection_overrides"] = rng.choice(COLL_CHOICES[1:])
    if rng.random() < 0.3:
        extra["prefer_attrib_converters"] = True
    if rng.random() < 0.15:
        extra["dict_factory"] = "OrderedDict"
    return ConvCfg(klass=klass, tuple_strat=rng.random() < 0.15,
                   fb_un=7001 if rng.random() < 0.4 else 0, fb_st=7002 if rng.random() < 0.4 else 0,
                   detailed=rng.random() < 0.6, extra=extra)


apply_override, copy_op = dc.apply_override, dc.copy_op


def gen_copy(rng, src, cc):
    """A copy op (the configuration of the resulting converter is in it).  With overrides: each overridable option is
    given with some probability, its value drawn independently of the source's (so: True->False, False->True, and the value
    the source already has -- explicitly)."""
    how = rng.choice(["copy", "copy", "deepcopy", "kwargs", "kwargs", "kwargs"])
    kwargs = {}
    if how == "kwargs":
        for k in BOOL_OPTS[cc.klass]:
            if rng.random() < 0.4:
                kwargs[k] = rng.random() < 0.5
        if rng.random() < 0.35:
            kwargs["unstruct_strat"] = rng.choice(["astuple", "asdict"])
        if cc.klass == "Converter" and rng.random() < 0.3:
            kwargs["unstruct_collection_overrides"] = rng.choice(COLL_CHOICES)
        if cc.klass != "BaseConverter" and rng.random() < 0.3:
            kwargs["type_overrides"] = rng.choice(TYO_CHOICES)
        if rng.random() < 0.25:
            kwargs["dict_factory"] = rng.choice(DF_CHOICES)
    return copy_op(src, cc, kwargs, "copy" if how == "kwargs" else how)


def systematic_option_cases():
    """every option `copy()` can override x every (source value, given value) pair, one option at a time; then a copy of
    that copy -- plain, or overriding the same option back"""
    # (registrations that leave the classes of the option-sensitive probes to the built-in hooks)
    p1 = {1: ({U.k("NA"), U.k("UAP"), U.k("list[A]"), U.k("P")}, set())}
    out = []
    n = 0
    for klass in ("Converter", "BaseConverter"):
        grid = [(k, [False, True], [False, True]) for k in BOOL_OPTS[klass]]
        grid.append(("unstruct_strat", ["asdict", "astuple"], ["asdict", "astuple"]))
        grid.append(("dict_factory", DF_CHOICES, DF_CHOICES))
        if klass == "Converter":
            grid.append(("unstruct_collection_overrides", COLL_CHOICES[:2], COLL_CHOICES[:3]))
            grid.append(("unstruct_collection_overrides", [{"Sequence": "tuple"}, {"Mapping": "OrderedDict"}],
                         [{}, {"MutableSequence": "list"}, {"Sequence": "tuple"}]))
            grid.append(("type_overrides", TYO_CHOICES[:2], TYO_CHOICES))
        for opt, src_vals, new_vals in grid:
            for sv in src_vals:
                for nv in new_vals:
                    n += 1
                    d = DIRS[n % 2]
                    cc = apply_override(ConvCfg(klass=klass), {opt: sv})
                    first = copy_op(0, cc, {opt: nv})
                    c1 = ConvCfg.from_json(first["cfg"])
                    second = copy_op(1, c1, {} if n % 3 else {opt: sv}, "deepcopy" if n % 3 == 1 else "copy")
                    pre = [{"op": "hook", "conv": 0, "dir": d, "ty": U.k("Q"), "form": "call", "tag": 1},
                           {"op": "factory", "conv": 0, "dir": d, "pred": 1, "extended": True, "form": "call", "tag": 2}]
                    target = (1, 2, 0)[n % 3]
                    post = [{"op": "hook", "conv": target, "dir": d, "ty": U.k("D"), "form": "call", "tag": 3}]
                    out.append({"cfg": cc.to_json(), "preds": dc.preds_to_json(p1), "pre": pre, "copies": [first, second],
                                "target": target, "post": post, "systematic": f"{klass}.copy({opt}: {sv!r} -> {nv!r})"})
    return out


# ---- mutation of public option containers (oracle only) ------------------------------------------------------
def apply_mutopt(conv, op):
    """`conv.type_overrides[float] = override(rename=<val>)` (or `del`): what a user does to reconfigure one converter"""
    from cattrs.gen import override
    table = getattr(conv, op["opt"])
    key = dc._TYS[op["key"]]
    if op["val"] is None:
        table.pop(key, None)
    else:
        table[key] = override(rename=op["val"])


def first_use_probe(conv, tuple_strat=False):
    """un/structure a class with a float field that no converter has seen before -> canonical results"""
    # (only float fields: `float` is outside the universe, so no registration of the history applies to it)
    cl = attrs.make_class("ExtFresh", {"f": attrs.field(type=float), "n": attrs.field(type=float, default=1.0)})
    out = []
    for f in (lambda: conv.unstructure(cl(1.5, 2.0)), lambda: conv.structure({"f": 1.5}, cl), lambda: conv.structure({"M": 2.5, "F": 3.5, "G": 4.5}, cl)):
        try:
            r = f()
            out.append(_ext_canon(attrs.asdict(r)) if attrs.has(type(r)) else _ext_canon(r))
        except Exception as e:  # noqa: BLE001
            out.append(("err", type(e).__name__))
    return out


def reference_converter(preds, cc, regs):
    """a converter of configuration `cc` with the registrations `regs` that cannot share an option container with anything:
    `type_overrides` is always passed explicitly (`decode_options` builds a new dict on every call)"""
    if cc.gen():
        cc = ConvCfg.from_json(dict(cc.to_json(), extra=dict(cc.extra, type_overrides=dict(cc.extra.get("type_overrides", {})))))
    return fresh_replay(preds, cc, regs).convs[0]


# the option-sensitive probes run in cases that override no option (the systematic registration-kind x way-of-copying sweep):
# one probe per option
EXT_LIGHT = ("A+extra-key", "ExtDf=default", "ExtK(field-converter)", "A(invalid)", "An[set[int]]", "ExtT(float-field)",
             "A(class-of-result)", "ExtQ(deque/list/tuple/dict-fields)", "list[ExtDf]=default")


def battery(impl, idx, names=None, ext_only=None):
    cc = impl.cfgs[idx]
    out = {}
    for d in DIRS:
        for p in dc.probe_ops(idx, d, cc, names):
            out[(d, p["ty"])] = impl.do(p)
    if names is None:
        out.update(ext_battery(impl, idx, ext_only))
    return out


def option_view(conv):
    """class + every option attribute of a converter"""
    v = dc.options_snapshot(conv)
    v["class"] = type(conv).__name__
    return v


def fresh_replay(preds, cc, regs):
    f = Impl(preds)
    f.make(cc)
    for op in regs:
        f.do(dict(op, conv=0))
    return f


def run_case(chk, drv, case, global_ref, stats, corr_fail, loc_fail=None):
    loc_fail = [] if loc_fail is None else loc_fail
    preds = dc.preds_from_json(case["preds"])
    cc0 = ConvCfg.from_json(case["cfg"])
    pre, copies, target, post = case["pre"], case["copies"], case["target"], case["post"]
    ext_only = EXT_LIGHT if case.get("ext") == "light" else None
    impl = Impl(preds)
    impl.make(cc0)
    full = []          # the store history as executed (for the model)
    regs_of = {0: []}  # registrations each converter has received (inherited ones included)
    viol = []

    def do(op):
        if op["op"] == "mutopt":   # not an operation of the dispatch model: options are dispatch-neutral there
            apply_mutopt(impl.convs[op["conv"]], op)
            impl.opts0[op["conv"]] = dc.options_snapshot(impl.convs[op["conv"]])  # (the harness's own write)
            return None
        full.append(op)
        return impl.do(op)

    for op in pre:
        do(op)
        if op["op"] in REG:
            regs_of[0].append(op)
    where0 = f"[{cc0.name()} pre: {' ; '.join(dc.describe(o) for o in pre)}]"
    # ---- copies, checked at copy time
    for cop in copies:
        src = cop["src"]
        src_bat = battery(impl, src, ext_only=ext_only)
        full.extend(dc.probe_ops(src, d, impl.cfgs[src]) for d in ())  # (battery ops are appended below)
        for d in DIRS:
            full.extend(dc.probe_ops(src, d, impl.cfgs[src]))
        do(cop)
        new = len(impl.convs) - 1
        ncc = impl.cfgs[new]
        regs_of[new] = list(regs_of[src])
        new_bat = battery(impl, new, ext_only=ext_only)
        for d in DIRS:
            full.extend(dc.probe_ops(new, d, ncc))
        where = f"{dc.describe(cop)} {where0}"
        # P1: class and options = those of a converter constructed with the source's options, the given ones replaced
        fr = fresh_replay(preds, ncc, regs_of[src])
        got, exp = option_view(impl.convs[new]), option_view(fr.convs[0])
        for k in sorted(set(exp) | set(got)):
            if got.get(k) != exp.get(k):
                viol.append((f"C18 oracle P1: option {k} of the copy is {got.get(k)!r}, expected {exp.get(k)!r} (source "
                             f"{impl.cfgs[src].opts()}, copy(**{cop.get('kwargs', {})})) {where}", True))
        # P1: same results as the source (same strategy)
        # (the universe probes see two options: the strategy, and the container `list` / `tuple` types are unstructured to)
        seqs = lambda c: [dc.seq_tag(c, o, None) for o in ("list", "tuple")] if c.gen() else None  # noqa: E731
        if ncc.tuple_strat == impl.cfgs[src].tuple_strat and seqs(ncc) == seqs(impl.cfgs[src]):
            for k in src_bat:
                if k[0] == "ext" and cop.get("kwargs"):
                    continue  # an overridden option legitimately changes these (P1' below says how)
                if k in new_bat and src_bat[k] != new_bat[k]:
                    viol.append((f"C18 oracle P1: at copy time {kname(k)}: source gives {src_bat[k]!r}, copy gives "
                                 f"{new_bat[k]!r} {where}", True))
                    break
        # P1': same results as a fresh converter with the overridden options + the registrations
        fr_bat = battery(fr, 0, ext_only=ext_only)
        for k in fr_bat:
            if k in new_bat and fr_bat[k] != new_bat[k]:
                viol.append((f"C18 oracle P1': {kname(k)}: copy gives {new_bat[k]!r}, a fresh {ncc.opts()} with the same "
                             f"registrations gives {fr_bat[k]!r} {where}", True))
                break
        stats["copies"] += 1
    # ---- snapshot, divergent ops on `target`, re-probe everyone
    n = len(impl.convs)
    snap = {i: battery(impl, i, ext_only=ext_only) for i in range(n)}
    for i in range(n):
        for d in DIRS:
            full.extend(dc.probe_ops(i, d, impl.cfgs[i]))
    muts = [op for op in post if op["op"] == "mutopt"]
    early_default = dc.Converter() if muts else None   # a default-constructed bystander that exists before the mutation
    for op in post:
        do(op)
        if op["op"] in REG:
            regs_of[target].append(op)
    after = {i: battery(impl, i, ext_only=ext_only) for i in range(n)}
    probe_at = {}
    for i in range(n):
        for d in DIRS:
            for p in dc.probe_ops(i, d, impl.cfgs[i]):
                probe_at[(i, d, p["ty"])] = len(full)
                full.append(p)
    wherep = f"[{cc0.name()} pre: {' ; '.join(dc.describe(o) for o in pre)} | {' ; '.join(dc.describe(c) for c in copies)} | post on c{target}: {' ; '.join(dc_describe(o) for o in post)}]"
    for i in range(n):
        if i == target:
            continue
        for k in snap[i]:
            if snap[i][k] != after[i][k]:
                viol.append((f"C18 oracle P2 (isolation): converter c{i} changed its answer for {kname(k)} from "
                             f"{snap[i][k]!r} to {after[i][k]!r} although only c{target} was operated on {wherep}", True))
                break
    # P2m: after a mutation of a public option container of c<target>, first use of an unseen class on every bystander
    if muts:
        bystanders = [(f"c{i}", impl.convs[i], impl.cfgs[i], regs_of[i]) for i in range(n) if i != target and impl.cfgs[i].gen()]
        bystanders += [("a default-constructed Converter() created before the mutation", early_default, ConvCfg("Converter"), []),
                       ("a default-constructed Converter() created after the mutation", dc.Converter(), ConvCfg("Converter"), []),
                       ("cattrs.global_converter", cattrs_global(), ConvCfg("Converter"), [])]
        for who, conv, cc, regs in bystanders:
            got, want = first_use_probe(conv), first_use_probe(reference_converter(preds, cc, [o for o in regs if o["op"] in REG]))
            stats["mutopt_probes"] = stats.get("mutopt_probes", 0) + 1
            if got != want:
                viol.append((f"C18 oracle P2m (isolation): after `{' ; '.join(dc_describe(m) for m in muts)}`, {who} answers {got!r} on a class "
                             f"it sees for the first time (f: float, n: float = 1.0; unstructure / structure {{'f': 1.5}} / structure "
                             f"{{'M': 2.5, 'F': 3.5, 'G': 4.5}}); a converter constructed with the same options ({cc.opts()}) and registrations answers "
                             f"{want!r} {wherep}", True))
    fr = fresh_replay(preds, impl.cfgs[target], [o for o in regs_of[target]])
    fr_bat = battery(fr, 0, ext_only=ext_only)
    for k in fr_bat:
        if muts and k[0] == "ext":
            continue  # the target's option-sensitive hooks were generated before its table was mutated
        if fr_bat[k] != after[target][k]:
            viol.append((f"C18 oracle P3: c{target} gives {after[target][k]!r} for {kname(k)}, a fresh converter with all "
                         f"its registrations gives {fr_bat[k]!r} {wherep}", True))
            break
    # global converter untouched
    gimpl = Impl(preds)
    gimpl.adopt(cattrs_global(), ConvCfg("Converter"))
    gb = battery(gimpl, 0, GLOBAL_BATTERY)
    if gb != global_ref:
        k = next(k for k in gb if gb[k] != global_ref[k])
        viol.append((f"C18 oracle P2 (isolation): cattrs.global_converter changed its answer for {k[0]} {U.types[k[1]].name} "
                     f"from {global_ref[k]!r} to {gb[k]!r} {wherep}", True))
    # ---- model
    if cc0.klass != "JsonConverter":
        for d in DIRS:
            mt, ctx0 = dc.run_model(drv, full, d, [cc0], preds)
            ctxs = [dc.ModelCtx(c, d, preds) for c in impl.cfgs]
            for (i, dd, ty), pos in probe_at.items():
                if dd != d:
                    continue
                ctx = ctxs[i]
                m = dc.expect(ctx, dc.norm_term(ctx, mt[pos]), ty, Impl.sample(impl.cfgs[i], d, U.types[ty]))
                stats["probes"] += 1
                if m != after[i][(d, ty)]:
                    corr_fail.append((case, f"c{i} {d} {U.types[ty].name}: impl={after[i][(d, ty)]!r} model={m!r} term={mt[pos]!r} {wherep}"))
        # ---- identity layer: which containers are the same object?
        for d in DIRS:
            real = [real_containers(c, d) for c in impl.convs]
            if any(r is None for r in real):
                stats["locs_skipped"] = stats.get("locs_skipped", 0) + 1
                continue
            locs = model_locs(drv, full, d, [cc0], preds)
            if len(locs) != len(real):
                raise lean.InfraError("LOCS: wrong number of converters")
            pi, pm = identity_pattern(real, id), identity_pattern(locs, lambda x: x)
            stats["locs"] = stats.get("locs", 0) + len(pi)
            bad = [k for k in pi if pi[k] != pm[k]]
            if bad:
                (i, k), (j, l) = bad[0]
                loc_fail.append((case, f"{d}: the {LOC_NAMES[k]} of c{i} and the {LOC_NAMES[l]} of c{j} are "
                                       f"{'THE SAME OBJECT' if pi[bad[0]] else 'different objects'} in the implementation, "
                                       f"{'the same location' if pm[bad[0]] else 'different locations'} in the model {wherep}"))
    dc.prune_linecache()
    for e in impl.reg_errors:
        viol.append(("C18 oracle: a registration raised: " + e, True))
    for w in impl.options_written():
        viol.append((f"C18 oracle P2: an option attribute was written after construction (by use, by copying, or by an operation "
                     f"on another converter): {w} {wherep}", True))
    return viol


F52_SIG = "c18_attrs_has_cache_on_generic_alias_flips_baseconverter"


@framework.finding(F52_SIG)
def _f52(case):
    """F52: `register_structure_hook(G[int], f)` / `register_unstructure_hook(G[int], f)` (either converter class) call
    `attrs.has(G[int])`, which stores `__attrs_attrs__` ON THE (process-wide, cached) typing alias object `G[int]` --
    and then raise TypeError from `resolve_types(G[int])`.  From then on `cattrs._compat.has(G[int])` is true and every
    BaseConverter that has not yet cached a hook for it routes `G[int]` to its plain attrs hooks (which know nothing
    about type parameters) instead of `_gen_structure_generic`.  (Until /repo 055f296 the same was triggered by any
    Converter merely structuring / unstructuring `G[int]`: `gen_*_attrs_fromdict` called `attrs.has(cl)`.)
    Recognised by the shape of the input only: a parametrised generic ATTRS class, a class-based registration for it on
    one instance, observed on a BaseConverter."""
    return (case.get("op") == "cross-instance" and case.get("kind") == "generic-attrs"
            and str(case.get("xop", "")).startswith("register_") and case.get("observer") == "BaseConverter")


def cross_instance_probe():
    """no operation on one converter instance changes the behaviour of any other instance: `G[int]` for a fresh generic
    class (attrs / dataclass), observed on converter Y (an existing instance and a fresh one) before and after converter
    X structured / unstructured it.  -> [(what, case)]"""
    import dataclasses
    from cattrs import BaseConverter, Converter
    T = TypeVar("T")
    mk = {"Converter": Converter, "BaseConverter": BaseConverter}
    out = []
    for kind in ("generic-attrs", "generic-dataclass"):
        for xk in mk:
            for yk in mk:
                for xop in ("structure", "unstructure", "register_structure_hook", "register_unstructure_hook"):
                    # a fresh class per combination: whatever state there is sticks to the class / alias objects
                    if kind == "generic-attrs":
                        @attrs.define
                        class GBox(Generic[T]):
                            v: T
                    else:
                        @dataclasses.dataclass
                        class GBox(Generic[T]):
                            v: T
                    tgt = GBox[int]

                    def observe(c):
                        res = []
                        for f in (lambda: c.structure({"v": "2"}, tgt), lambda: c.unstructure(GBox(2), unstructure_as=tgt)):
                            try:
                                r = f()
                                res.append(("ok", repr(r.v) if isinstance(r, GBox) else repr(r)))
                            except Exception as e:  # noqa: BLE001
                                res.append(("err", type(e).__name__))
                        return res
                    y = mk[yk]()
                    before = observe(y)
                    x = mk[xk]()
                    try:
                        if xop == "structure":
                            x.structure({"v": "2"}, tgt)
                        elif xop == "unstructure":
                            x.unstructure(GBox(2), unstructure_as=tgt)
                        elif xop == "register_structure_hook":
                            x.register_structure_hook(tgt, lambda v, _: GBox(0))
                        else:
                            x.register_unstructure_hook(tgt, lambda v: {"v": 0})
                    except Exception:  # noqa: BLE001  (the class-based registration of `G[int]` itself raises TypeError)
                        pass
                    after_same, after_fresh = observe(y), observe(mk[yk]())
                    if before != after_same or before != after_fresh:
                        out.append((f"C18 oracle P2 (isolation): {yk}() answers {before!r} for (structure {{'v': '2'}}, unstructure GBox(2)) as "
                                    f"GBox[int] ({kind}); after ANOTHER instance, a {xk}(), did `{xop}` on GBox[int] the same {yk} answers "
                                    f"{after_same!r} and a fresh {yk}() answers {after_fresh!r}",
                                    {"op": "cross-instance", "kind": kind, "operated": xk, "observer": yk, "xop": xop}))
    return out


def cattrs_global():
    import cattrs
    return cattrs.global_converter


def gen_case(rng, quick):
    cc = gen_cfg(rng)
    preds = dc.gen_preds(rng)
    cnt = itertools.count(1)
    tagger = lambda: next(cnt)  # noqa: E731
    pre = []
    for _ in range(rng.randint(0, 12 if quick else 16)):
        d = rng.choice(DIRS)
        pre.append(dc.gen_warm(rng, 0, d, cc) if rng.random() < 0.25 else dc.gen_reg(rng, 0, d, preds, tagger, prev=pre))
    copies = [gen_copy(rng, 0, cc)]
    cfgs = [cc, ConvCfg.from_json(copies[0]["cfg"])]
    if rng.random() < 0.3:
        src = rng.choice([0, 1])
        copies.append(gen_copy(rng, src, cfgs[src]))
        cfgs.append(ConvCfg.from_json(copies[-1]["cfg"]))
    target = rng.randrange(len(cfgs))
    post = []
    for _ in range(rng.randint(1, 6)):
        d = rng.choice(DIRS)
        post.append(dc.gen_warm(rng, target, d, cfgs[target]) if rng.random() < 0.2 else dc.gen_reg(rng, target, d, preds, tagger, prev=post))
    if cfgs[target].gen() and rng.random() < 0.3:
        post.insert(rng.randrange(len(post) + 1), gen_mutopt(rng, target))
    return {"cfg": cc.to_json(), "preds": dc.preds_to_json(preds), "pre": pre, "copies": copies, "target": target, "post": post}


def gen_mutopt(rng, conv):
    return {"op": "mutopt", "conv": conv, "opt": "type_overrides", "key": "float", "val": rng.choice(["M", "M", "F", None])}


def systematic_mutation_cases():
    """the public option container of ONE converter is mutated after the copy: every way of copying (also copies with the
    table overridden, and a copy of a copy) x every converter of the store as the one mutated x source tables {} / {...}"""
    out = []
    p1 = {1: ({U.k("NA"), U.k("P")}, set())}
    hows = (("copy", {}), ("deepcopy", {}), ("copy", {"type_overrides": {"float": "G"}}), ("copy", {"detailed_validation": False}))
    grid = [("Converter", tyo, how, kw, False, t) for tyo in TYO_CHOICES[:2] for how, kw in hows for t in (0, 1)]
    grid += [("Converter", {}, "copy", {}, True, 2), ("Converter", {}, "deepcopy", {}, True, 0),
             ("JsonConverter", {}, "copy", {}, False, 0), ("JsonConverter", {}, "copy", {}, False, 1)]
    for klass, src_tyo, how, kwargs, of_copy, target in grid:
        cc = apply_override(ConvCfg(klass=klass), {"type_overrides": src_tyo} if src_tyo else {})
        copies = [copy_op(0, cc, kwargs, how)]
        if of_copy:
            copies.append(copy_op(1, ConvCfg.from_json(copies[0]["cfg"]), {}))
        post = [{"op": "mutopt", "conv": target, "opt": "type_overrides", "key": "float", "val": "M"},
                {"op": "hook", "conv": target, "dir": ST, "ty": U.k("D"), "form": "call", "tag": 3}]
        out.append({"cfg": cc.to_json(), "preds": dc.preds_to_json(p1), "pre": [], "copies": copies,
                    "target": target, "post": post, "systematic": f"{klass}: mutate type_overrides of c{target} after {how}({kwargs})"})
    return out


def run(chk: framework.Check):
    rng = chk.rng
    if os.environ.get("VERIF_C18_F52") and not any(f.get("signature") == F52_SIG for f in chk.known):
        chk.known.append({"id": "F52", "property": "C18", "kind": "finding", "signature": F52_SIG,
                          "what": "a class-based hook registration for G[int] (generic attrs class) on one converter makes other "
                                  "BaseConverters refuse G[int] (entry assumed via VERIF_C18_F52)"})
    drv = lean.Driver()
    stats = {"probes": 0, "copies": 0, "oracle_fail": 0}
    corr_fail = []
    loc_fail = []
    quick = chk.tier == "quick"
    # ---- cross-instance isolation on generic classes (implementation only; F52 is its recorded failure)
    xi = cross_instance_probe()
    chk.note("probe:cross-instance-generic")
    for what, case in xi:
        chk.count("cross-instance" + json.dumps(case, sort_keys=True), nontrivial=True, sample=case)
        if chk.violation(what, case, found_input=True):
            stats["oracle_fail"] += 1
    for f in chk.known:
        if f.get("signature") == F52_SIG and not chk.known_hits.get(f["id"]):
            print(f"STALE-FINDING: property=C18 {f['id']} did not reproduce in this run (cross-instance probe is its witness)")
            chk.note("stale-finding:" + f["id"])
    gimpl = Impl({})
    gimpl.adopt(cattrs_global(), ConvCfg("Converter"))
    global_ref = battery(gimpl, 0, GLOBAL_BATTERY)
    cases = []
    n_sys = 0
    # ---- systematic: every single registration kind x every way of copying x both targets
    p1 = {1: ({U.k("A"), U.k("B"), U.k("NA"), U.k("UAP"), U.k("list[A]"), U.k("int")}, set())}
    for klass in ("Converter", "BaseConverter", "JsonConverter"):
        for fb in (0, 1):
            cc = ConvCfg(klass=klass, fb_un=7001 * fb, fb_st=7002 * fb)
            for d in DIRS:
                singles = [
                    {"op": "hook", "conv": 0, "dir": d, "ty": U.k("A"), "form": "call", "tag": 1},
                    {"op": "hook", "conv": 0, "dir": d, "ty": U.k("int"), "form": "call", "tag": 1},
                    {"op": "hook", "conv": 0, "dir": d, "ty": U.k("UAP"), "form": "call", "tag": 1},
                    {"op": "hook", "conv": 0, "dir": d, "ty": U.k("OA"), "form": "call", "tag": 1},
                    {"op": "hook", "conv": 0, "dir": d, "ty": U.k("NA"), "form": "call", "tag": 1},
                    {"op": "func", "conv": 0, "dir": d, "pred": 1, "tag": 1},
                    {"op": "factory", "conv": 0, "dir": d, "pred": 1, "extended": True, "form": "call", "tag": 1},
                    {"op": "factory", "conv": 0, "dir": d, "pred": 1, "extended": False, "form": "call", "tag": 1},
                ]
                for reg in singles:
                    for how in ["copy", "deepcopy", "kw"]:
                        for target in (0, 1):
                            n_sys += 1
                            if quick and (n_sys + chk.seed) % 3:   # quick: a third of the grid, another third per seed
                                continue
                            cop = {"op": "copy", "src": 0, "how": "copy" if how == "kw" else how,
                                   "kwargs": {"detailed_validation": False} if how == "kw" else {}, "cfg": None}
                            ncc = ConvCfg.from_json(cc.to_json())
                            if how == "kw":
                                ncc.detailed = False
                            cop["cfg"] = ncc.to_json()
                            post = [dict(reg, conv=target, tag=2), {"op": "func", "conv": target, "dir": d, "pred": 1, "tag": 3}]
                            cases.append({"cfg": cc.to_json(), "preds": dc.preds_to_json(p1), "pre": [reg], "copies": [cop],
                                          "target": target, "post": post, "ext": "full" if how == "kw" else "light"})
    cases += systematic_option_cases()
    cases += systematic_mutation_cases()
    n_rand = 220 if quick else 3000
    for _ in range(n_rand):
        cases.append(gen_case(rng, quick))
    for case in cases:
        viol = run_case(chk, drv, case, global_ref, stats, corr_fail, loc_fail)
        cc = ConvCfg.from_json(case["cfg"])
        key = json.dumps(case, sort_keys=True, default=str)
        chk.count(key, nontrivial=any(o["op"] in REG for o in case["pre"]),
                  sample={"cfg": cc.name(), "pre": [dc.describe(o) for o in case["pre"]][:10],
                          "copies": [dc.describe(o) for o in case["copies"]], "target": case["target"],
                          "post": [dc_describe(o) for o in case["post"]]})
        chk.note("cfg:" + cc.name().split("/")[0], "copies:%d" % len(case["copies"]), "target:" + ("original" if case["target"] == 0 else "copy"))
        if "systematic" in case:
            chk.note("systematic-option-override")
        cfgs_ = [cc]
        for c in case["copies"]:
            chk.note("copy:" + c["how"] + (":overrides" if c["kwargs"] else "") + (":of-a-copy" if c["src"] else ""))
            src_cc = cfgs_[c["src"]]
            for k, v in c["kwargs"].items():
                old = {"detailed_validation": src_cc.detailed, "unstruct_strat": "astuple" if src_cc.tuple_strat else "asdict"}.get(
                    k, src_cc.extra.get(k, {"dict_factory": "dict", "type_overrides": {}, "unstruct_collection_overrides": {}}.get(k, False)))
                chk.note(f"override:{k}:" + (f"{old}->{v}" if isinstance(v, bool) else ("same" if old == v else "changed")))
            cfgs_.append(ConvCfg.from_json(c["cfg"]))
        if cc.fb_un or cc.fb_st:
            chk.note("fallback-factory")
        for op in case["post"]:
            if op["op"] == "mutopt":
                chk.note("post:mutate-" + op["opt"] + ":" + ("original" if case["target"] == 0 else "copy"))
        for op in case["pre"]:
            if op["op"] in REG:
                chk.note("pre:" + op["op"] + (":ext" if op.get("extended") else "") + ":" + op["dir"])
                if op["op"] == "hook":
                    chk.note("pre-target:" + U.types[op["ty"]].shape + ":" + op["dir"])
        for what, found in viol[:3]:
            stats["oracle_fail"] += 1
            chk.violation(what, case, found_input=found)
    if corr_fail and not stats["oracle_fail"]:
        for case, what in corr_fail[:5]:
            chk.violation("correspondence corr:C18:RUNHIST broken (theorems C18_* no longer tied to the code): " + what,
                          case, found_input=False)
    if loc_fail and not stats["oracle_fail"]:
        for case, what in loc_fail[:5]:
            chk.violation("correspondence corr:C18:LOCS broken (theorem C18_no_shared_locations no longer tied to the code): "
                          + what, case, found_input=False)
    chk.extra["container_pairs_compared_by_identity"] = stats.get("locs", 0)
    chk.extra["identity_comparisons_skipped"] = stats.get("locs_skipped", 0)
    chk.extra["rule"] = ("store histories: registrations+warm-ups on a converter ({Converter, BaseConverter, JsonConverter} x options x "
                         "fallback factories), copy()/deepcopy/copy(overrides) (also copy of a copy), divergent operations on one "
                         "converter; probes on every converter and on cattrs.global_converter; non-trivial = at least one "
                         "registration before the copy; distinct by case text")
    chk.extra["probes_compared_with_model"] = stats["probes"]
    chk.extra["copies"] = stats["copies"]
    chk.extra["first_use_probes_after_option_container_mutation"] = stats.get("mutopt_probes", 0)
    chk.extra["correspondence_disagreements"] = len(corr_fail)
    drv.close()


def replay(case):
    drv = lean.Driver()
    print("configuration:", ConvCfg.from_json(case["cfg"]).name())
    for k in ("pre", "copies", "post"):
        print(f" {k}:", " ; ".join(dc_describe(o) for o in case[k]))
    print(" divergent ops target: converter", case["target"])
    gimpl = Impl({})
    gimpl.adopt(cattrs_global(), ConvCfg("Converter"))
    global_ref = battery(gimpl, 0, GLOBAL_BATTERY)
    stats = {"probes": 0, "copies": 0, "oracle_fail": 0}
    corr = []
    locf = []
    viol = run_case(None, drv, case, global_ref, stats, corr, locf)
    for what, _ in viol:
        print("VIOLATED:", what[:1500])
    for _, what in locf[:3]:
        print("identity layer disagrees:", what[:1500])
    for _, what in corr[:3]:
        print("model disagrees:", what[:1500])
    if not viol:
        print("oracles hold")
    return 1 if viol else 0


if __name__ == "__main__":
    framework.main(run, "C18")
