"""Shared machinery of the C09 / C10 checks (customised generated hooks).

Abstract programs ("gworlds"): a class table in which every class carries its own hook configuration
(per-attribute overrides + generator flags), or one converter-level configuration for all classes.
The same gworld is realised as real classes + really generated cattrs hooks, and shipped to the model
(ops HOOKUN / HOOKST / HOOKKEYS / CONSISTENT / QUOTE of lean/CattrsModel/GenHook/Driver.lean)."""
from __future__ import annotations

import dataclasses
import os
import sys
import typing
from typing import Any, NamedTuple

import attrs

try:
    from typing import NotRequired, TypedDict
except ImportError:  # pragma: no cover
    from typing_extensions import NotRequired, TypedDict

from . import gen, terms
from .realise import Realised, Unrepresentable

CATTRS_SRC = os.environ.get("CATTRS_SRC", "/repo/src")
sys.path.insert(0, CATTRS_SRC)

import cattrs  # noqa: E402
from cattrs import Converter  # noqa: E402
from cattrs.cols import namedtuple_dict_structure_factory, namedtuple_dict_unstructure_factory  # noqa: E402
from cattrs.errors import ClassValidationError, ForbiddenExtraKeysError, IterableValidationError  # noqa: E402
from cattrs.errors import AttributeValidationNote, IterableValidationNote  # noqa: E402
from cattrs.gen import make_dict_structure_fn, make_dict_unstructure_fn, override  # noqa: E402
from cattrs.gen import typeddicts as td_gen  # noqa: E402

assert cattrs.__file__.startswith(CATTRS_SRC), (cattrs.__file__, CATTRS_SRC)

FUEL = 14

# key alphabets: quotes, backslashes, line breaks, braces, keywords, empty, near-identifiers
ODD_KEYS = ["it's", 'say "hi"', "back\\slash", "new\nline", "tab\there", "cr\rlf", "{brace}", "{0}", "%s", "class", "def",
            "None", "", " ", "a b", "'", '"', "\\", "'\"", "\\n", "\x00nul", "\x7f", "é", "k1", "K", "zz", "__c_a", "res", "o"]
PLAIN_KEYS = ["k1", "K", "zz", "key", "n2"]
EXTRA_STR_KEYS = ["zzz", "extra", "a2", "_x", "it's", "new\nline", "class", ""]
ATTR_NAMES = ["a", "b", "c", "d", "e", "xy", "_p", "_q", "f1"]
NT_NAMES = ["a", "b", "c", "d", "e", "xy", "f1"]
TD_NAMES = ["a", "b", "c", "d", "e", "class", "a-b", "in"]
# TypedDict keys (functional syntax) that differ only in characters outside [0-9A-Za-z_]: distinct keys whose
# "sanitised" spellings coincide -- anything in the generators that derives an identifier from the key must keep them apart
TD_COLLIDING = [("a-b", "a_b"), ("x.id", "x id"), ("x-id", "x.id"), ("retry-after", "retry_after"), ("in", "in ")]
EXPLICIT_ALIASES = ["al_a", "al_b", "al_c", "al_d"]

NEUTRAL = {"oid": None, "rename": None, "omit": None, "sh": None, "uh": None}


# --------------------------------------------------------------------------------------------- wire

def opt_bool_sx(v):
    return "-" if v is None else ("1" if v else "0")


def ovr_body_sx(o):
    return "%s %s %s %s %s" % (
        opt_bool_sx(o["oid"]),
        "-" if o["rename"] is None else terms.esc(o["rename"]),
        opt_bool_sx(o["omit"]),
        "-" if o["sh"] is None else str(o["sh"]),
        "-" if o["uh"] is None else str(o["uh"]),
    )


def hc_sx(hc):
    ovs = " ".join("(%s %s)" % (terms.esc(n), ovr_body_sx(o)) for n, o in hc["ovs"].items())
    return "(hc (ovs%s) %d %d %d %d %d)" % (
        (" " + ovs) if ovs else "", hc["use_alias"], hc["incl_init_false"], hc["oid"], hc["forbid"], hc["detailed"])


def conv_sx(co):
    tos = " ".join("(%s (%s))" % (terms.ty_sx(t), ovr_body_sx(o)) for t, o in co["tovs"])
    return "(hcconv %d %d %d (tovs%s))" % (co["oid"], co["forbid"], co["detailed"], (" " + tos) if tos else "")


def norm_obj(o):
    """sets sorted by canonical text: the model compares containers structurally, Python compares sets as sets"""
    t = o[0]
    if t in ("S", "F"):
        return (t, sorted((norm_obj(x) for x in o[1]), key=terms.canon_sx))
    if t in ("l", "t", "q"):
        return (t, [norm_obj(x) for x in o[1]])
    if t == "d":
        return ("d", [(norm_obj(k), norm_obj(v)) for k, v in o[1]])
    if t == "I":
        return ("I", o[1], [(n, norm_obj(v)) for n, v in o[2]])
    return o


def norm_field(f):
    if f["dflt"] is None:
        return f
    return dict(f, dflt=(f["dflt"][0], norm_obj(f["dflt"][1])))


def nt_conv_hc(co):
    """a NamedTuple in a converter-level world: its dict hooks are made by `namedtuple_dict_*_factory` with the
    converter's options passed explicitly (type_overrides do not reach them)"""
    return {"ovs": {}, "use_alias": False, "incl_init_false": False, "oid": co["oid"], "forbid": co["forbid"],
            "detailed": co["detailed"]}


def gcls_sx(c, conv=None):
    kw = " ".join(terms.esc(f["name"]) for f in c["fields"] if f.get("kw_only"))
    if conv is not None and c["kind"] == "nt":
        hc_text = hc_sx(nt_conv_hc(conv))
    else:
        hc_text = conv_sx(conv) if conv is not None else hc_sx(c["hc"])
    return "(gcls %s %d (kw%s) %s %s)" % (
        c["kind"], 1 if c["frozen"] else 0, (" " + kw) if kw else "",
        hc_text,
        " ".join(terms.field_sx(norm_field(f)) for f in c["fields"]))


def gworld_sx(g, forbid_off=False):
    if forbid_off:
        g = with_forbid(g, False)
    return "(gworld %d (classes %s) (enums %s))" % (
        1 if g["detailed"] else 0,
        " ".join(gcls_sx(c, g.get("conv")) for c in g["classes"]),
        " ".join("(" + " ".join(terms.obj_sx(v) for v in e) + ")" for e in g["enums"]))


def with_forbid(g, value):
    """copy of g with every forbid flag set to `value`"""
    g2 = dict(g)
    g2["classes"] = []
    for c in g["classes"]:
        c2 = dict(c)
        c2["hc"] = dict(c["hc"], forbid=value)
        g2["classes"].append(c2)
    if g.get("conv") is not None:
        g2["conv"] = dict(g["conv"], forbid=value)
    return g2


def eff_hc(g, ci):
    """the hook configuration in force for class ci (per-hook stream: its own; converter stream: resolved
    from the converter options as `gen_*_attrs_fromdict` do)"""
    c = g["classes"][ci]
    co = g.get("conv")
    if co is None:
        return c["hc"]
    if c["kind"] == "nt":
        return nt_conv_hc(co)
    ovs = {}
    if c["kind"] != "td":
        for f in c["fields"]:
            if f["ty"] is None:
                continue
            for t, o in co["tovs"]:
                if t == f["ty"]:
                    ovs[f["name"]] = o
                    break
    return {"ovs": ovs, "use_alias": False, "incl_init_false": False, "oid": co["oid"] if c["kind"] != "td" else False,
            "forbid": co["forbid"], "detailed": co["detailed"]}


# --------------------------------------------------------------------------------------------- the property's vocabulary
# (written from the property statement; used by the oracles, never by the model)

def ov_of(hc, f):
    return hc["ovs"].get(f["name"], NEUTRAL)


def final_key(kind, hc, f):
    o = ov_of(hc, f)
    if o["rename"] is not None:
        return o["rename"]
    if kind != "td" and hc["use_alias"]:
        return f["alias"]
    return f["name"]


def is_included(kind, hc, f):
    o = ov_of(hc, f)
    if o["omit"]:
        return False
    if kind == "td":
        return True
    return f["init"] or hc["incl_init_false"] or o["omit"] is False


def accepted_keys(kind, hc, fields):
    return [final_key(kind, hc, f) for f in fields if is_included(kind, hc, f)]


def oid_applies(kind, hc, f):
    if kind == "td" or f["dflt"] is None:
        return False
    o = ov_of(hc, f)
    return bool(o["oid"]) or (hc["oid"] and o["oid"] is not False)


def statement_consistent(c, hc):
    """'consistent customisation' as the property statement has it: final keys pairwise distinct, nothing the
    hooks skip is needed to rebuild an instance, custom hooks come as inverse pairs"""
    kind = c["kind"]
    keys = accepted_keys(kind, hc, c["fields"])
    if len(set(keys)) != len(keys):
        return False
    for f in c["fields"]:
        o = ov_of(hc, f)
        if (o["sh"] is None) != (o["uh"] is None) or (o["sh"] is not None and o["sh"] != o["uh"]):
            return False
        if kind != "td" and not is_included(kind, hc, f) and f["dflt"] is None:
            return False
    return True


# --------------------------------------------------------------------------------------------- generation

class HGen:
    def __init__(self, rng, big=False):
        self.rng = rng
        self.G = gen.Gen(rng, max_depth=2, big=big)
        self.big = big

    def leaf_type(self, w):
        r = self.rng
        if r.random() < 0.6:
            return r.choice(gen.PRIMS)
        t = self.G.type({"classes": [], "enums": w["enums"]}, depth=r.randint(0, 2), max_cls=0)
        return t

    def field_type(self, w, ci, kind):
        r = self.rng
        c = r.random()
        if ci == 0 or c < 0.55:
            return self.leaf_type(w)
        cj = r.randrange(ci)
        ref = ("td" if w["classes"][cj]["kind"] == "td" else "cls", cj)
        c = r.random()
        if c < 0.5:
            return ref
        if c < 0.65:
            return ("opt", ref)
        if c < 0.85:
            return (r.choice(["list", "seq", "tup*"]), ref)
        if c < 0.93:
            return (r.choice(["new", "ann", "alias"] + (["final"] if kind in ("attrs", "dc") else [])), ref)
        return ("opt", ("list", ref))

    def classes(self, w, n, kinds, chain=False):
        r = self.rng
        for ci in range(n):
            kind = r.choice(kinds)
            c = self.cls(w, ci, kind)
            if chain and ci > 0:
                # make sure class ci nests class ci-1: a required, plainly typed attribute placed first
                ref = ("td" if w["classes"][ci - 1]["kind"] == "td" else "cls", ci - 1)
                x = r.random()
                ty = ref if x < 0.6 else ((r.choice(["list", "seq", "tup*"]), ref) if x < 0.85 else ("opt", ref))
                used = {f["name"] for f in c["fields"]}
                pool = {"attrs": ATTR_NAMES, "dc": ATTR_NAMES, "nt": NT_NAMES, "td": TD_NAMES}[kind]
                name = next(n_ for n_ in pool if n_ not in used)
                f = {"name": name, "alias": name.lstrip("_") if kind == "attrs" else name, "ty": ty, "dflt": None,
                     "init": True, "required": True, "kw_only": False}
                c["fields"].insert(0, f)
            w["classes"].append(c)

    def cls(self, w, ci, kind):
        r = self.rng
        names = {"attrs": ATTR_NAMES, "dc": ATTR_NAMES, "nt": NT_NAMES, "td": TD_NAMES}[kind]
        names = r.sample(names, r.randint(1 if kind == "nt" else 0, 5 if self.big else 4))
        forced = {}
        if kind == "td" and r.random() < 0.3:
            # a colliding pair of keys with DIFFERENT types (so that swapping their handlers is visible)
            pair = list(r.choice(TD_COLLIDING))
            r.shuffle(pair)
            t1, t2 = r.choice([("int", "str"), ("str", "int"), (("list", "int"), ("list", "str")), ("int", ("opt", "str")),
                               ("bytes", "int")])
            forced = {pair[0]: t1, pair[1]: t2}
            names = [n for n in names if n not in pair][:2] + pair
            r.shuffle(names)
        fields = []
        used_alias = set()
        for n in names:
            untyped = kind == "attrs" and r.random() < 0.08
            ty = None if untyped else self.field_type(w, ci, kind)
            if n in forced:
                ty = forced[n]
            alias = n
            if kind == "attrs":
                alias = n.lstrip("_")
                if r.random() < 0.25:
                    alias = r.choice(EXPLICIT_ALIASES)
            if alias in used_alias:
                alias = n.lstrip("_") if kind == "attrs" else n
            used_alias.add(alias)
            f = {"name": n, "alias": alias, "ty": ty, "dflt": None, "init": True, "required": True, "kw_only": False}
            if kind == "td":
                f["required"] = r.random() < 0.65
            elif kind in ("attrs", "dc") and n not in forced and r.random() < 0.14:
                # a default that is an EMPTY BUILTIN COLLECTION produced by the builtin itself (`factory=list`,
                # `default_factory=dict`, ...) on an attribute whose type also admits values that are falsy without
                # being that default: None (Optional[...]), 0 / "" / False / an empty collection of another class (Any)
                f["ty"], f["dflt"] = self.empty_factory_shape(w, kind, untyped)
                if r.random() < 0.2:
                    f["kw_only"] = True
            else:
                if r.random() < 0.5:
                    v = self.G.value(w, ty, 2, any_stable=True) if ty is not None else self.G.any_leaf()
                    leafy = v[0] in ("N", "b", "i", "f", "s", "y", "e")
                    if kind == "nt":
                        # NamedTuple defaults are plain values; keep them immutable leaves
                        if leafy:
                            f["dflt"] = ("c", v)
                    else:
                        f["dflt"] = ("c", v) if leafy and r.random() < 0.6 else ("fac", v)
                    if f["dflt"] is not None and kind != "nt" and r.random() < 0.3:
                        f["init"] = False
                if kind != "nt" and r.random() < 0.2:
                    f["kw_only"] = True
            fields.append(f)
        frozen = kind in ("attrs", "dc") and r.random() < 0.3
        if kind in ("attrs", "dc"):
            pos = [f for f in fields if not f["kw_only"] and f["init"]]
            pos.sort(key=lambda f: f["dflt"] is not None)
            others = [f for f in fields if f["kw_only"] or not f["init"]]
            out = list(pos)
            for f in others:
                out.insert(r.randint(0, len(out)), f)
            fields = out
        elif kind == "nt":
            fields.sort(key=lambda f: f["dflt"] is not None)
        return {"kind": kind, "frozen": frozen, "slots": r.random() < 0.5, "fields": fields, "hc": neutral_hc()}

    def empty_factory_shape(self, w, kind, untyped):
        r = self.rng
        leaf = r.choice(["int", "str", "float", "bool"])
        x = r.random()
        if x < 0.3:
            return ("opt", (r.choice(["list", "seq", "mseq"]), leaf)), ("fac", ("l", []))
        if x < 0.5:
            return ("opt", ("dict", "str", leaf)), ("fac", ("d", []))
        if x < 0.58:
            return ("opt", ("tup*", leaf)), ("fac", ("t", []))
        if x < 0.64:
            return ("opt", (r.choice(["set", "fset"]), "int")), ("fac", r.choice([("S", []), ("F", [])]))
        if x < 0.85:
            return (None if (untyped and kind == "attrs") else "any"), ("fac", r.choice([("l", []), ("d", [])]))
        return ("list", leaf), ("fac", ("l", []))

    # ---- customisations
    def hookcfg(self, c, want, detailed, forbid):
        """want: 'consistent' | 'any'"""
        r = self.rng
        kind = c["kind"]
        for _ in range(30):
            hc = neutral_hc()
            hc["detailed"] = detailed
            hc["forbid"] = forbid
            if kind in ("attrs", "dc"):
                hc["use_alias"] = r.random() < 0.4
                hc["incl_init_false"] = r.random() < 0.4
            if kind != "td":
                hc["oid"] = r.random() < 0.35
            taken = []
            for f in c["fields"]:
                if r.random() < 0.45:
                    continue
                o = dict(NEUTRAL)
                x = r.random()
                if x < 0.45:
                    o["rename"] = self.rename_target(c, f, taken, want)
                    taken.append(o["rename"])
                x = r.random()
                if x < 0.15:
                    o["omit"] = True
                elif x < 0.30:
                    o["omit"] = False
                if kind != "td":
                    x = r.random()
                    if x < 0.2:
                        o["oid"] = True
                    elif x < 0.3:
                        o["oid"] = False
                x = r.random()
                if x < 0.15:
                    n = r.randint(1, 5)
                    o["sh"] = n
                    o["uh"] = n
                elif x < 0.2 and want == "any":
                    if r.random() < 0.5:
                        o["sh"] = r.randint(1, 5)
                    else:
                        o["uh"] = r.randint(1, 5)
                if o != NEUTRAL:
                    hc["ovs"][f["name"]] = o
            if want == "any" or statement_consistent(c, hc):
                return hc
        hc = neutral_hc()
        hc["detailed"] = detailed
        hc["forbid"] = forbid
        return hc

    def rename_target(self, c, f, taken, want):
        r = self.rng
        x = r.random()
        others = [g["name"] for g in c["fields"] if g is not f] + [g["alias"] for g in c["fields"] if g is not f]
        if x < 0.55:
            k = r.choice(ODD_KEYS)
        elif x < 0.75:
            k = r.choice(PLAIN_KEYS)
        elif x < 0.9 and others:
            k = r.choice(others)           # near miss: another attribute's name or alias
        elif x < 0.95:
            k = f["name"]                  # its own name
        else:
            k = r.choice(taken) if (taken and want == "any") else r.choice(PLAIN_KEYS)
        return k

    def conv_opts(self, w, detailed, forbid):
        r = self.rng
        tovs = []
        tys = []
        for c in w["classes"]:
            for f in c["fields"]:
                if f["ty"] is not None and f["ty"] not in tys:
                    tys.append(f["ty"])
        r.shuffle(tys)
        for t in tys[: r.randint(0, 2)]:
            o = dict(NEUTRAL)
            x = r.random()
            if x < 0.35:
                o["oid"] = r.random() < 0.7
            elif x < 0.6:
                o["omit"] = r.random() < 0.7
            elif x < 0.85:
                n = r.randint(1, 5)
                o["sh"] = n
                o["uh"] = n
            else:
                o["rename"] = r.choice(ODD_KEYS)
            tovs.append((t, o))
        return {"oid": r.random() < 0.5, "forbid": forbid, "detailed": detailed, "tovs": tovs}

    def gworld(self, n_classes=None, kinds=("attrs", "dc", "td", "nt"), want="consistent", conv_level=False, forbid_p=0.0,
               chain=False, nt_conv=False):
        """nt_conv: NamedTuples are allowed in a converter-level world (their dict hooks are registered on the converter
        through `namedtuple_dict_*_factory` with the converter's options)"""
        r = self.rng
        detailed = r.random() < 0.5
        w = {"classes": [], "enums": [], "detailed": detailed, "conv": None}
        for _ in range(r.randint(0, 2)):
            n = r.randint(1, 3)
            if r.random() < 0.5:
                w["enums"].append([("i", v) for v in r.sample(range(-3, 9), n)])
            else:
                w["enums"].append([("s", v) for v in r.sample(["b", "c", "x", "zz", "7", "-1", "b7"], n)])
        if conv_level and not nt_conv:
            kinds = tuple(k for k in kinds if k != "nt")
        self.classes(w, r.randint(1, 4) if n_classes is None else n_classes, kinds, chain)
        if conv_level:
            forbid = r.random() < forbid_p
            for _ in range(20):
                w["conv"] = self.conv_opts(w, detailed, forbid)
                if want == "any" or all(statement_consistent(c, eff_hc(w, ci)) for ci, c in enumerate(w["classes"])):
                    break
            else:
                w["conv"] = {"oid": r.random() < 0.5, "forbid": forbid, "detailed": detailed, "tovs": []}
                if not all(statement_consistent(c, eff_hc(w, ci)) for ci, c in enumerate(w["classes"])):
                    w["conv"]["oid"] = False
        else:
            for c in w["classes"]:
                c["hc"] = self.hookcfg(c, want, detailed, r.random() < forbid_p)
        return w

    # ---- values
    def instance(self, w, ci, depth=3):
        c = w["classes"][ci]
        return self.G.value(w, ("td" if c["kind"] == "td" else "cls", ci), depth, any_stable=True)


def neutral_hc():
    return {"ovs": {}, "use_alias": False, "incl_init_false": False, "oid": False, "forbid": False, "detailed": True}


# --------------------------------------------------------------------------------------------- realisation

def tag_wrap(n):
    return lambda v: [n, v]


def tag_unwrap(n):
    def unwrap(v, _):
        if v.__class__ is list and len(v) == 2 and v[0].__class__ is int and v[0] == n:
            return v[1]
        raise ValueError("not tagged")
    return unwrap


def py_override(o):
    return override(
        omit_if_default=o["oid"], rename=o["rename"], omit=o["omit"],
        struct_hook=None if o["sh"] is None else tag_unwrap(o["sh"]),
        unstruct_hook=None if o["uh"] is None else tag_wrap(o["uh"]))


EMPTY_FACTORIES = {"l": list, "d": dict, "S": set, "F": frozenset, "t": tuple}


def empty_factory(dflt):
    """the builtin a user writes as `factory=` / `default_factory=` for an empty-collection default, or None"""
    if dflt is not None and dflt[0] == "fac" and dflt[1][0] in EMPTY_FACTORIES and not dflt[1][1]:
        return EMPTY_FACTORIES[dflt[1][0]]
    return None


class HRealised(Realised):
    """classes of a gworld: attrs (aliases, kw_only), dataclasses, TypedDicts, NamedTuples"""

    def _default(self, d):
        # an empty-collection factory default is spelled the way people spell it: the builtin itself
        fac = empty_factory(d)
        if fac is not None:
            return ("fac", fac)
        return super()._default(d)

    def _make_class(self, ci, c):
        name = f"H{self.uid}_{ci}"
        kind = c["kind"]
        if kind == "td":
            from .realise import make_typeddict
            fs = [(f["name"], self.ty(f["ty"]) if f["ty"] is not None else Any, f.get("required", True)) for f in c["fields"]]
            # (six spellings incl. hierarchies of mixed totality; a self-referential TypedDict stays one class)
            return make_typeddict(name, fs, (self.uid + ci) % (3 if c.get("recursive") else 6))
        if kind == "nt":
            ann = [(f["name"], self.ty(f["ty"]) if f["ty"] is not None else Any) for f in c["fields"]]
            cl = NamedTuple(name, ann)
            defaults = [self.val(f["dflt"][1]) for f in c["fields"] if f["dflt"] is not None]
            if defaults:
                cl.__new__.__defaults__ = tuple(defaults)
                cl._field_defaults = {f["name"]: self.val(f["dflt"][1]) for f in c["fields"] if f["dflt"] is not None}
            return cl
        stringly = (self.uid + ci) % 4 == 0
        if kind == "attrs":
            flds = {}
            for f in c["fields"]:
                kw = {}
                d = self._default(f["dflt"])
                if d is not None:
                    kw["default" if d[0] == "c" else "factory"] = d[1]
                if not f["init"]:
                    kw["init"] = False
                if f.get("kw_only"):
                    kw["kw_only"] = True
                if f["ty"] is not None:
                    kw["type"] = self.ty(f["ty"])
                    if stringly and isinstance(f["ty"], str) and f["ty"] in ("int", "str", "float", "bytes", "bool"):
                        kw["type"] = f["ty"]  # PEP 563 style: still a string when the first hook is generated
                if f["alias"] != f["name"].lstrip("_"):
                    kw["alias"] = f["alias"]
                flds[f["name"]] = attrs.field(**kw)
            return attrs.make_class(name, flds, frozen=c["frozen"], slots=c.get("slots", True))
        if kind == "dc":
            flds = []
            for f in c["fields"]:
                kw = {}
                d = self._default(f["dflt"])
                if d is not None:
                    kw["default" if d[0] == "c" else "default_factory"] = d[1]
                if not f["init"]:
                    kw["init"] = False
                if f.get("kw_only"):
                    kw["kw_only"] = True
                t = self.ty(f["ty"]) if f["ty"] is not None else Any
                if stringly and isinstance(f["ty"], str) and f["ty"] in ("int", "str", "float", "bytes", "bool"):
                    t = f["ty"]
                flds.append((f["name"], t, dataclasses.field(**kw)))
            return dataclasses.make_dataclass(name, flds, frozen=c["frozen"])
        raise ValueError(kind)


class HookSession:
    """One gworld: real classes, one converter, the really generated hooks registered on it."""

    def __init__(self, drv, g, R=None):
        from .datapath import prune_linecache
        prune_linecache()
        self.drv = drv
        self.g = g
        self.R = R if R is not None else HRealised(g)   # R may be shared by sessions over the same classes
        self.gen_error = None
        self.conv = None
        self.hooks = {}
        try:
            self._build()
        except Exception as e:  # noqa: BLE001  hook generation failed
            self.gen_error = e

    def _build(self):
        g = self.g
        co = g.get("conv")
        if co is not None:
            tovs = {self.R.ty(t): py_override(o) for t, o in co["tovs"]}
            self.conv = conv = Converter(detailed_validation=g["detailed"], omit_if_default=co["oid"],
                                         forbid_extra_keys=co["forbid"], type_overrides=tovs)
            for ci, c in enumerate(g["classes"]):
                if c["kind"] == "nt":
                    cl = self.R.classes[ci]
                    hc = nt_conv_hc(co)
                    u = namedtuple_dict_unstructure_factory(cl, conv, hc["oid"], True)
                    s = namedtuple_dict_structure_factory(cl, conv, hc["detailed"], hc["forbid"], True)
                    self.hooks[ci] = (u, s)
                    conv.register_unstructure_hook_func(lambda t, cl=cl: t is cl, u)
                    conv.register_structure_hook_func(lambda t, cl=cl: t is cl, s)
            return
        self.conv = conv = Converter(detailed_validation=g["detailed"])
        for ci, c in enumerate(g["classes"]):
            cl = self.R.classes[ci]
            hc = c["hc"]
            ovs = {n: py_override(o) for n, o in hc["ovs"].items()}
            if c["kind"] == "td":
                # overrides of TypedDict keys that are not identifiers go through **{...} just the same
                u = td_gen.make_dict_unstructure_fn(cl, conv, **ovs)
                s = td_gen.make_dict_structure_fn(cl, conv, _cattrs_forbid_extra_keys=hc["forbid"],
                                                  _cattrs_detailed_validation=hc["detailed"], **ovs)
            elif c["kind"] == "nt":
                u = namedtuple_dict_unstructure_factory(cl, conv, hc["oid"], True, **ovs)
                s = namedtuple_dict_structure_factory(cl, conv, hc["detailed"], hc["forbid"], True, **ovs)
            else:
                u = make_dict_unstructure_fn(cl, conv, _cattrs_omit_if_default=hc["oid"], _cattrs_use_alias=hc["use_alias"],
                                             _cattrs_include_init_false=hc["incl_init_false"], **ovs)
                s = make_dict_structure_fn(cl, conv, _cattrs_forbid_extra_keys=hc["forbid"],
                                           _cattrs_detailed_validation=hc["detailed"], _cattrs_use_alias=hc["use_alias"],
                                           _cattrs_include_init_false=hc["incl_init_false"], **ovs)
            self.hooks[ci] = (u, s)
            conv.register_unstructure_hook_func(lambda t, cl=cl: t is cl, u)
            conv.register_structure_hook_func(lambda t, cl=cl: t is cl, s)

    # ---- implementation side
    def impl_un(self, ty, x):
        try:
            u = self.conv.unstructure(x, unstructure_as=self.R.ty(ty))
        except Exception as e:  # noqa: BLE001
            return ("err", e)
        try:
            return ("ok", self.R.abs(u), u)
        except Unrepresentable:
            return ("unrep", u)

    def impl_st(self, ty, payload):
        try:
            v = self.conv.structure(payload, self.R.ty(ty))
        except Exception as e:  # noqa: BLE001
            return ("err", e)
        try:
            return ("ok", self.R.abs(v), v)
        except Unrepresentable:
            return ("unrep", v)

    # ---- model side
    def model_un(self, ty, x_abs, g=None):
        return self.drv.ask("HOOKUN %s %d %s %s" % (gworld_sx(g or self.g), FUEL, terms.ty_sx(ty), terms.obj_sx(norm_obj(x_abs))))

    def model_st(self, ty, p_abs, g=None):
        return self.drv.ask("HOOKST %s %d %s %s" % (gworld_sx(g or self.g), FUEL, terms.ty_sx(ty), terms.obj_sx(norm_obj(p_abs))))

    def model_keys(self, ci, x_abs):
        return self.drv.ask("HOOKKEYS %s %d %s" % (gworld_sx(self.g), ci, terms.obj_sx(norm_obj(x_abs))))

    def model_consistent(self, ci):
        return self.drv.ask("CONSISTENT %s %d" % (gworld_sx(self.g), ci))

    def model_conf(self, ty, x_abs):
        """do the hypotheses of the nested round-trip theorem (C09_roundtrip_nested) hold for this value?"""
        return self.drv.ask("HOOKCONF %s %d %s %s" % (gworld_sx(self.g), FUEL, terms.ty_sx(ty), terms.obj_sx(norm_obj(x_abs))))

    def model_hits(self, ty, p_abs, g=None):
        """the model's `hits`: some forbidding class position of the payload (any depth) has an extra key"""
        return self.drv.ask("HOOKHITS %s %d %s %s" % (gworld_sx(g or self.g), FUEL, terms.ty_sx(ty), terms.obj_sx(norm_obj(p_abs))))


# --------------------------------------------------------------------------------------------- error views

def exc_view(S, exc, path=()):
    """every ForbiddenExtraKeysError in the exception tree: (path of notes, class#, sorted canonical extras)"""
    out = []
    if isinstance(exc, ForbiddenExtraKeysError):
        try:
            ks = tuple(sorted(terms.canon_sx(S.R.abs(k)) for k in exc.extra_fields))
        except Unrepresentable:
            ks = ("?",)
        ci = S.R._cls_index.get(exc.cl, -1)
        out.append((path, ci, ks))
    elif isinstance(exc, ClassValidationError):
        for sub in exc.exceptions:
            note = "-"
            for n in getattr(sub, "__notes__", []):
                if n.__class__ is AttributeValidationNote:
                    note = n.name
                    break
            out += exc_view(S, sub, path + (note,))
    elif isinstance(exc, IterableValidationError):
        for sub in exc.exceptions:
            note = "-"
            for n in getattr(sub, "__notes__", []):
                if n.__class__ is IterableValidationNote:
                    try:
                        note = terms.canon_sx(S.R.abs(n.index))
                    except Unrepresentable:
                        note = "?"
                    break
            out += exc_view(S, sub, path + (note,))
    return sorted(out)


def model_err_view(px, path=()):
    """same view of a parsed model error tree"""
    h = px[0]
    out = []
    if h == "extra":
        ks = tuple(sorted(terms.canon_sx(terms.obj_of_px(k)) for k in px[2:]))
        out.append((path, int(px[1]), ks))
    elif h == "cve":
        for note, sub in px[1:]:
            out += model_err_view(sub, path + (note[1] if isinstance(note, tuple) else "-",))
    elif h == "ive":
        for note, sub in px[1:]:
            out += model_err_view(sub, path + (terms.canon_sx(terms.obj_of_px(note)) if note != "-" else "-",))
    return sorted(out)


def model_reply(r):
    """-> ('unmodelled',) | ('ok', canon) | ('err', view) | ('bad', text)"""
    if r == "unmodelled":
        return ("unmodelled",)
    if r.startswith("(ok "):
        p = terms.parse_sx(r)
        return ("ok", terms.canon_sx(terms.obj_of_px(p[1])))
    if r.startswith("(err"):
        p = terms.parse_sx(r)
        return ("err", model_err_view(p[1]))
    return ("bad", r)


def impl_reply(S, ri):
    if ri[0] == "ok":
        return ("ok", terms.canon_sx(ri[1]))
    if ri[0] == "err":
        return ("err", exc_view(S, ri[1]))
    return ("unrep",)


# --------------------------------------------------------------------------------------------- payload surgery

def class_positions(g, ty, o, path=(), depth=0):
    """positions (path, class#) of the dict payloads that a class / TypedDict / NamedTuple hook will read when
    `o` is structured as `ty` (following only the keys the hooks read)"""
    out = []
    if isinstance(ty, str) or ty is None:
        return out
    k = ty[0]
    if k in ("opt",):
        if o[0] != "N":
            out += class_positions(g, ty[1], o, path, depth)
    elif k in ("new", "ann", "final", "alias"):
        out += class_positions(g, ty[1], o, path, depth)
    elif k in ("list", "seq", "mseq", "tup*", "deque", "set", "mset", "fset"):
        if o[0] in ("l", "t", "q", "S", "F"):
            for i, x in enumerate(o[1]):
                out += class_positions(g, ty[1], x, path + (("ix", i),), depth)
    elif k in ("cls", "td"):
        if o[0] == "d":
            out.append((path, ty[1], depth))
            c = g["classes"][ty[1]]
            hc = eff_hc(g, ty[1])
            for f in c["fields"]:
                if not is_included(c["kind"], hc, f) or ov_of(hc, f)["sh"] is not None or f["ty"] is None:
                    continue
                key = final_key(c["kind"], hc, f)
                for kk, v in o[1]:
                    if kk == ("s", key):
                        out += class_positions(g, f["ty"], v, path + (("key", key, f["name"]),), depth + 1)
    return out


def edit_at(o, path, fn):
    if not path:
        return fn(o)
    kind, sel = path[0][0], path[0][1]
    if kind == "ix":
        xs = list(o[1])
        xs[sel] = edit_at(xs[sel], path[1:], fn)
        return (o[0], xs)
    kvs = [(k, edit_at(v, path[1:], fn) if k == ("s", sel) else v) for k, v in o[1]]
    return ("d", kvs)


def notes_of_path(path):
    """the notes a detailed error carries along a payload path"""
    out = []
    for p in path:
        out.append(p[2] if p[0] == "key" else terms.canon_sx(("i", p[1])))
    return tuple(out)


# --------------------------------------------------------------------------------------------- JSON round trip (replays)

def gworld_from_json(g):
    out = terms.world_from_json({"classes": g["classes"], "enums": g["enums"]})
    out["detailed"] = g["detailed"]
    out["conv"] = None
    if g.get("conv") is not None:
        co = dict(g["conv"])
        co["tovs"] = [(terms.tuple_ify(t), dict(o)) for t, o in co["tovs"]]
        out["conv"] = co
    return out


def set_repr_hazard(text: str) -> bool:
    """a `str(...)` of a set inside a compared value: its element order is not part of the model"""
    if "frozenset(" in text or "set(" in text or "{\'" in text or "{'" in text:
        return True
    # "{17, -5, 295}": str() of a set of numbers / bytes inside a str value (canonical text: (s "{...}"))
    import re
    return any("{" in m and ", " in m for m in re.findall(r'\(s "((?:[^"\\]|\\.)*)"\)', text))
