"""Extended, implementation-only oracle stream for the data-path properties (C01, C02, C04).

The Lean model covers attrs classes, dataclasses, TypedDicts, enums, literals and the collections.  The properties
also speak about inputs and types outside that fragment; this module exercises some of them on the REAL code only
(no model, hence no correspondence): it can only ever produce a violation *with* a failing input, which is its
purpose -- it supports the search for failing inputs, it proves nothing.

  * class unions told apart by a Literal-typed tag field or by unique required fields (automatic disambiguation),
    also as Optional, as field types with defaults, inside collections;
  * NamedTuples (with defaults), nested;
  * user structure hooks that look a value up in a table and raise KeyError for unknown keys (a registry hook);
  * one-shot iterables (generators, iterators, map objects) as payloads at sequence positions.

Python-level descriptions only:   ("int"|"str"|"bool"), ("list", t), ("tup*", t), ("dict", kt, vt), ("opt", t),
("cls", K) for a realised class K, ("union", [K...]), ("nt", NT), ("reg",).
"""
from __future__ import annotations

import dataclasses
import itertools
import typing
from typing import Literal, NamedTuple, Optional, Union

import attrs

from harness import framework

_uid = itertools.count()
_ADDR = __import__("re").compile(r"0x[0-9a-f]+")


class RegValue:
    """values produced by the registry hook"""

    def __init__(self, key):
        self.key = key

    def __eq__(self, other):
        return type(other) is RegValue and other.key == self.key

    def __hash__(self):
        return hash(("RegValue", self.key))

    def __repr__(self):
        return f"RegValue({self.key!r})"


REG_TABLE = {"a": RegValue("a"), "b": RegValue("b"), 1: RegValue(1)}


def install_registry_hooks(conv):
    conv.register_structure_hook(RegValue, lambda v, _: REG_TABLE[v])       # KeyError for unknown keys
    conv.register_unstructure_hook(RegValue, lambda v: v.key)


# ------------------------------------------------------------------------------------------------ generation

# mapping types by TARGET CLASS and SPELLING (C02 "exact class"): what is written in the annotation -> class of the result.
# bare-c / bare-t: the unsubscripted class from `collections` / alias from `typing`; any-any: `X[Any, Any]`; typed: `X[K, V]`.
# (a bare defaultdict is documented as unsupported: no default_factory to discover)
def _tmap_table():
    import collections
    from typing import Any
    C, T = collections, typing
    return {
        "od": (C.OrderedDict, {"bare-c": C.OrderedDict, "bare-t": T.OrderedDict, "any-any": lambda k, v: C.OrderedDict[Any, Any],
                               "any-any-t": lambda k, v: T.OrderedDict[Any, Any], "typed": lambda k, v: C.OrderedDict[k, v],
                               "typed-t": lambda k, v: T.OrderedDict[k, v]}),
        "dd": (C.defaultdict, {"any-any": lambda k, v: C.defaultdict[Any, Any], "any-any-t": lambda k, v: T.DefaultDict[Any, Any],
                               "typed": lambda k, v: C.defaultdict[k, v], "typed-t": lambda k, v: T.DefaultDict[k, v]}),
        "ctr": (C.Counter, {"bare-c": C.Counter, "bare-t": T.Counter, "typed": lambda k, v: C.Counter[k],
                            "typed-t": lambda k, v: T.Counter[k]}),
        "dict": (dict, {"bare-c": dict, "bare-t": T.Dict, "any-any": lambda k, v: dict[Any, Any], "typed": lambda k, v: dict[k, v]}),
        "map": (dict, {"bare-t": T.Mapping, "any-any-t": lambda k, v: T.Mapping[Any, Any], "typed-t": lambda k, v: T.Mapping[k, v]}),
        "mmap": (dict, {"bare-t": T.MutableMapping, "any-any-t": lambda k, v: T.MutableMapping[Any, Any],
                        "typed-t": lambda k, v: T.MutableMapping[k, v]}),
    }


class ExtGen:
    def __init__(self, rng, tmaps=False, tds=False):
        self.rng = rng
        self.tmaps = tmaps      # mapping types by target class x spelling: ("tmap", class tag, spelling, K, V)
        self.tds = tds          # TypedDict holders ("td", K): key `x` Required / NotRequired / under total=False

    def td_holder(self, inner):
        from typing import NotRequired, Required, TypedDict
        r = self.rng
        style = r.choice(["required", "notrequired", "total-false", "total-false-required-n"])
        T = self.py_ty(inner)
        name = f"XT{next(_uid)}"
        if style == "required":
            cl = TypedDict(name, {"x": T, "n": int})
        elif style == "notrequired":
            cl = TypedDict(name, {"x": NotRequired[T], "n": int})
        elif style == "total-false":
            cl = TypedDict(name, {"x": T, "n": int}, total=False)
        else:
            cl = TypedDict(name, {"x": T, "n": Required[int]}, total=False)
        cl._ext_fields = [("x", inner), ("n", "int")]
        cl._ext_required = {"required": {"x", "n"}, "notrequired": {"n"}, "total-false": set(), "total-false-required-n": {"n"}}[style]
        return cl

    def make_tmap(self):
        r = self.rng
        tab = _tmap_table()
        tag = r.choice(["od", "od", "dd", "ctr", "ctr", "dict", "map", "mmap"])
        sp = r.choice(sorted(tab[tag][1]))
        typed = sp.startswith("typed")
        kt = r.choice(["str", "int"]) if typed else "any"
        vt = ("int" if tag == "ctr" else r.choice(["int", "str", "bool", ("list", "int")] if tag == "dd" else
                                                  ["int", "str", "bool", ("list", "int"), ("opt", "int")])) if typed else "any"
        return ("tmap", tag, sp, kt, vt)

    def leaf_ty(self):
        return self.rng.choice(["int", "str", "bool"])

    def make_union_members(self, n, tagged):
        """n attrs classes / dataclasses; `tagged`: told apart by a Literal tag field, else by unique required fields"""
        r = self.rng
        members = []
        u = next(_uid)
        for i in range(n):
            fields = []
            if tagged:
                fields.append(("kind", ("lit", [f"k{i}"]), False))
            fields.append((f"u{i}", self.leaf_ty(), False))                   # unique required field
            if r.random() < 0.6:
                fields.append(("shared", self.leaf_ty(), r.random() < 0.5))    # shared (maybe defaulted) field
            members.append(self.realise_class(f"XU{u}_{i}", fields, r.choice(["attrs", "dc"])))
        return members

    def realise_class(self, name, fields, kind):
        """fields: (name, type description, has_default)"""
        if kind == "attrs":
            d = {}
            for n, t, dflt in fields:
                kw = {"type": self.py_ty(t)}
                if dflt or (t[0] == "lit" if isinstance(t, tuple) else False):
                    v = self.value(t) if not (isinstance(t, tuple) and t[0] == "lit") else t[1][0]
                    if isinstance(v, (int, str, bool, type(None))):
                        kw["default"] = v
                    else:
                        kw["factory"] = (lambda v=v: v)
                d[n] = attrs.field(**kw)
            # attrs wants defaulted attributes last
            d = dict(sorted(d.items(), key=lambda kv: kv[1]._default is not attrs.NOTHING))
            cl = attrs.make_class(name, d)
        else:
            fl = []
            for n, t, dflt in fields:
                if dflt or (isinstance(t, tuple) and t[0] == "lit"):
                    v = self.value(t) if not (isinstance(t, tuple) and t[0] == "lit") else t[1][0]
                    if isinstance(v, (int, str, bool, type(None))):
                        fl.append((n, self.py_ty(t), dataclasses.field(default=v)))
                    else:
                        fl.append((n, self.py_ty(t), dataclasses.field(default_factory=(lambda v=v: v))))
                else:
                    fl.append((n, self.py_ty(t)))
            fl.sort(key=lambda f: len(f) == 3)
            cl = dataclasses.make_dataclass(name, fl)
        cl._ext_fields = [(n, t) for n, t, _ in fields]
        return cl

    def make_namedtuple(self):
        r = self.rng
        n = r.randint(1, 3)
        fields = [(f"f{i}", self.leaf_ty()) for i in range(n)]
        nd = r.randint(0, n)
        name = f"XN{next(_uid)}"
        lines = [f"class {name}(NamedTuple):"]
        for i, (k, t) in enumerate(fields):
            lines.append(f"    {k}: {t}" + (f" = {self.value(t)!r}" if i >= n - nd else ""))
        ns = {"NamedTuple": NamedTuple}
        exec(compile("\n".join(lines), f"<ext {name}>", "exec", dont_inherit=True), ns)  # no PEP 563 strings
        cl = ns[name]
        cl._ext_fields = fields
        return cl

    def py_ty(self, t):
        if isinstance(t, str):
            return {"int": int, "str": str, "bool": bool, "any": typing.Any}[t]
        k = t[0]
        if k == "tmap":
            sp = _tmap_table()[t[1]][1][t[2]]
            return sp(self.py_ty(t[3]), self.py_ty(t[4])) if t[2].split("-")[0] in ("any", "typed") else sp
        if k == "lit":
            return Literal[tuple(t[1])]
        if k == "list":
            return list[self.py_ty(t[1])]
        if k == "tup*":
            return tuple[self.py_ty(t[1]), ...]
        if k == "dict":
            return dict[self.py_ty(t[1]), self.py_ty(t[2])]
        if k == "opt":
            return Optional[self.py_ty(t[1])]
        if k in ("cls", "nt", "td"):
            return t[1]
        if k == "union":
            return Union[tuple(t[1])]
        if k == "reg":
            return RegValue
        raise ValueError(t)

    def value(self, t, depth=2):
        r = self.rng
        if isinstance(t, str):
            if t == "any":
                t = r.choice(["int", "str"])
            return {"int": lambda: r.randint(-5, 40), "str": lambda: r.choice(["", "a", "zz", "7"]),
                    "bool": lambda: r.random() < 0.5}[t]()
        k = t[0]
        if k == "lit":
            return r.choice(t[1])
        n = r.randint(0, 2 if depth > 0 else 0)
        if k == "tmap":
            import collections
            d = {self.value(t[3], 0): (r.randint(0, 5) if t[1] == "ctr" else self.value(t[4], depth - 1)) for _ in range(n)}
            cl = _tmap_table()[t[1]][0]
            return collections.defaultdict(self.py_ty(t[4]), d) if t[1] == "dd" else cl(d)
        if k == "list":
            return [self.value(t[1], depth - 1) for _ in range(n)]
        if k == "tup*":
            return tuple(self.value(t[1], depth - 1) for _ in range(n))
        if k == "dict":
            return {self.value(t[1], depth - 1): self.value(t[2], depth - 1) for _ in range(n)}
        if k == "opt":
            return None if r.random() < 0.3 else self.value(t[1], depth)
        if k == "cls":
            return t[1](**{n_: self.value(ft, depth - 1) for n_, ft in t[1]._ext_fields})
        if k == "td":
            return {n_: self.value(ft, depth - 1) for n_, ft in t[1]._ext_fields if n_ in t[1]._ext_required or r.random() < 0.8}
        if k == "nt":
            return t[1](*[self.value(ft, depth - 1) for _, ft in t[1]._ext_fields])
        if k == "union":
            m = r.choice(t[1])
            return self.value(("cls", m), depth)
        if k == "reg":
            return REG_TABLE[r.choice(list(REG_TABLE))]
        raise ValueError(t)

    def holder(self, inner, with_default):
        """a class with one field of type `inner` (possibly defaulted) and one plain field"""
        u = next(_uid)
        fields = [("x", inner, with_default), ("n", "int", False)]
        return self.realise_class(f"XH{u}", fields, self.rng.choice(["attrs", "dc"]))

    def type(self, depth=2):
        """a random extended type"""
        r = self.rng
        c = r.random()
        if depth <= 0 or c < 0.15:
            base = r.choice(["union-tag", "union-uniq", "nt", "reg"] + (["tmap", "tmap", "tmap"] if self.tmaps else []))
            if base == "tmap":
                return self.make_tmap()
            if base == "union-tag":
                return ("union", self.make_union_members(r.randint(2, 3), True))
            if base == "union-uniq":
                return ("union", self.make_union_members(r.randint(2, 3), False))
            if base == "nt":
                return ("nt", self.make_namedtuple())
            return ("reg",)
        if c < 0.3:
            return ("list", self.type(depth - 1))
        if c < 0.4:
            return ("tup*", self.type(depth - 1))
        if c < 0.55:
            return ("dict", r.choice(["str", "int"]), self.type(depth - 1))
        if c < 0.7:
            inner = self.type(depth - 1)
            return inner if inner[0] == "opt" else ("opt", inner)
        if self.tds and r.random() < 0.35:
            return ("td", self.td_holder(self.type(depth - 1)))
        return ("cls", self.holder(self.type(depth - 1), r.random() < 0.5))


# ------------------------------------------------------------------------------------------------ oracles

def same(a, b):
    """equal and of the same class at every depth"""
    if type(a) is not type(b):
        return False
    if isinstance(a, (list, tuple)) and not hasattr(a, "_fields"):
        return len(a) == len(b) and all(same(x, y) for x, y in zip(a, b))
    if isinstance(a, tuple):
        return len(a) == len(b) and all(same(x, y) for x, y in zip(a, b))
    if isinstance(a, dict):
        return list(a.keys()) == list(b.keys()) and all(same(a[k], b[k]) for k in a)
    if attrs.has(type(a)):
        return all(same(getattr(a, f.name), getattr(b, f.name)) for f in attrs.fields(type(a)))
    if dataclasses.is_dataclass(a):
        return all(same(getattr(a, f.name), getattr(b, f.name)) for f in dataclasses.fields(a))
    if type(a) is str and a != b:
        # `str(obj)` of a one-shot iterable met at a `str` position carries its memory address: two fresh payloads differ
        return _ADDR.sub("0x", a) == _ADDR.sub("0x", b)
    return a == b


def conforms(t, v):
    """independent conformance walker for the extended types (from the property statement)"""
    if isinstance(t, str):
        return t == "any" or type(v) is {"int": int, "str": str, "bool": bool}[t]
    k = t[0]
    if k == "tmap":
        # exactly the target class the annotation names (whatever the spelling); keys and values conforming to the
        # arguments when there are any; a defaultdict carries the value argument as its default_factory; a Counter
        # counts ints (judged when the annotation says so: a bare `Counter` declares nothing about its values)
        cl = _tmap_table()[t[1]][0]
        if type(v) is not cl:
            return False
        if t[1] == "dd" and v.default_factory != ExtGen(None).py_ty(t[4]):
            return False
        return all(conforms(t[3], a) and conforms(t[4], b) for a, b in v.items())
    if k == "lit":
        return any(type(v) is type(x) and v == x for x in t[1])
    if k == "list":
        return type(v) is list and all(conforms(t[1], x) for x in v)
    if k == "tup*":
        return type(v) is tuple and all(conforms(t[1], x) for x in v)
    if k == "dict":
        return type(v) is dict and all(conforms(t[1], a) and conforms(t[2], b) for a, b in v.items())
    if k == "opt":
        return v is None or conforms(t[1], v)
    if k == "cls":
        return type(v) is t[1] and all(conforms(ft, getattr(v, n)) for n, ft in t[1]._ext_fields)
    if k == "td":
        return (type(v) is dict and all(n in v for n in t[1]._ext_required)
                and all(conforms(ft, v[n]) for n, ft in t[1]._ext_fields if n in v))
    if k == "nt":
        return type(v) is t[1] and len(v) == len(t[1]._ext_fields) and all(conforms(ft, x) for (_, ft), x in zip(t[1]._ext_fields, v))
    if k == "union":
        return any(conforms(("cls", m), v) for m in t[1])
    if k == "reg":
        return type(v) is RegValue and REG_TABLE.get(v.key) == v
    raise ValueError(t)


def mutate(rng, p, depth=0):
    """corrupt one place of an unstructured payload"""
    c = rng.random()
    if isinstance(p, dict) and p and c < 0.8:
        k = rng.choice(list(p))
        q = dict(p)
        c2 = rng.random()
        if c2 < 0.25:
            del q[k]
        elif c2 < 0.7:
            q[k] = mutate(rng, p[k], depth + 1)
        else:
            q[k] = rng.choice(["zz?", None, [], {}, 12345, "k9"])
        return q
    if isinstance(p, (list, tuple)) and p and c < 0.8:
        i = rng.randrange(len(p))
        q = list(p)
        q[i] = mutate(rng, p[i], depth + 1)
        return type(p)(q) if type(p) in (list, tuple) else q
    return rng.choice(["zz?", None, [], {}, 12345, "k9", "nope", -1])


def one_shot_variants(rng, p):
    """factories that rebuild the payload with its top-level (and maybe one nested) sequence as a one-shot iterable"""
    out = []
    if isinstance(p, (list, tuple)):
        out.append(("generator", lambda: (x for x in p)))
        out.append(("iterator", lambda: iter(list(p))))
        out.append(("map", lambda: map(lambda x: x, p)))
        if any(isinstance(x, (list, tuple)) for x in p):
            out.append(("nested-iterators", lambda: [iter(list(x)) if isinstance(x, (list, tuple)) else x for x in p]))
    if isinstance(p, dict):
        ks = [k for k, v in p.items() if isinstance(v, (list, tuple))]
        if ks:
            k = rng.choice(ks)
            out.append(("dict-value-generator", lambda: {**p, k: (x for x in p[k])}))
    return out


class _MissingDict(dict):
    """a mapping whose `o[k]` manufactures a value for an absent key while `k in o` stays False"""

    def __missing__(self, k):
        return 0


def mapping_class_variants(rng, p):
    """factories that rebuild the payload with one of its mappings (the top one, or one nested one) as an instance of
    another mapping class: defaultdict / a dict subclass with `__missing__` (absent keys are manufactured by `o[k]`, not
    seen by `k in o`), OrderedDict, a read-only MappingProxyType"""
    import collections
    import types
    mk = [("defaultdict", lambda d: collections.defaultdict(int, d)), ("dict-with-__missing__", lambda d: _MissingDict(d)),
          ("OrderedDict", lambda d: collections.OrderedDict(d)), ("mappingproxy", lambda d: types.MappingProxyType(dict(d)))]
    out = []
    if isinstance(p, dict):
        for name, f in mk:
            out.append(("mapping-payload:" + name, lambda f=f: f(p)))
        ks = [k for k, v in p.items() if isinstance(v, dict)]
        if ks:
            k = rng.choice(ks)
            name, f = rng.choice(mk[:2])
            out.append(("nested-mapping-payload:" + name, lambda f=f, k=k: {**p, k: f(p[k])}))
    elif isinstance(p, (list, tuple)):
        ix = [i for i, v in enumerate(p) if isinstance(v, dict)]
        if ix:
            i = rng.choice(ix)
            name, f = rng.choice(mk[:2])
            out.append(("nested-mapping-payload:" + name, lambda f=f, i=i: [f(v) if j == i else v for j, v in enumerate(p)]))
    return out


def describe(t):
    if isinstance(t, str):
        return t
    k = t[0]
    if k == "tmap":
        return f"tmap:{t[1]}:{t[2]}[{describe(t[3])}, {describe(t[4])}]"
    if k == "td":
        return (f"td:{t[1].__name__}(" + ", ".join(n + ("" if n in t[1]._ext_required else "?") + ": " + describe(ft)
                                                     for n, ft in t[1]._ext_fields) + ")")
    if k in ("cls", "nt"):
        return f"{k}:{t[1].__name__}({', '.join(n + ': ' + describe(ft) for n, ft in t[1]._ext_fields)})"
    if k == "union":
        return "union[" + " | ".join(describe(("cls", m)) for m in t[1]) + "]"
    if k == "lit":
        return f"lit{t[1]}"
    if k == "reg":
        return "reg"
    return f"{k}[" + ", ".join(describe(x) for x in t[1:]) + "]"


# ------------------------------------------------------------------------------------------------ check entry points

def _converters():
    import cattrs
    out = []
    for cls in (cattrs.Converter, cattrs.BaseConverter):
        for dv in (True, False):
            c = cls(detailed_validation=dv)
            install_registry_hooks(c)
            out.append((f"{cls.__name__}/{'detailed' if dv else 'fast'}", c))
    return out


def _try(f):
    try:
        return ("ok", f())
    except Exception as e:  # noqa: BLE001
        return ("err", e)


def run_c01(chk, n_types):
    """round trip on the extended types (implementation-only oracle)"""
    G = ExtGen(chk.rng)
    for _ in range(n_types):
        t = G.type(2)
        T = G.py_ty(t)
        for name, conv in _converters():
            x = G.value(t)
            r = _try(lambda: conv.structure(conv.unstructure(x, unstructure_as=T), T))
            chk.count("ext:" + name + describe(t) + repr(x), sample=None)
            chk.note("ext-stream:roundtrip")
            if r[0] != "ok" or not same(r[1], x):
                chk.violation(f"C01 oracle (extended stream, implementation only): round trip of {x!r} as {describe(t)} on {name} gives {r!r:.300}",
                              {"ext": True, "type": describe(t), "value": repr(x), "converter": name, "got": repr(r)[:500]})


def run_c02(chk, n_types):
    """soundness on the extended types: accepted results conform; a present-but-invalid component of a class
    position is never replaced by the default or dropped"""
    G = ExtGen(chk.rng, tmaps=True, tds=True)
    rng = chk.rng
    # every (target class, spelling) of the mapping table -- bare from `collections`, bare from `typing`, [Any, Any],
    # [K, V] -- on its own and at two nested typed positions; then random types
    todo = []
    for tag, (_, sps) in sorted(_tmap_table().items()):
        for sp in sorted(sps):
            typed = sp.startswith("typed")
            t0 = ("tmap", tag, sp, "str" if typed else "any", ("int" if typed else "any"))
            wraps = [lambda t: ("list", t), lambda t: ("dict", "str", t), lambda t: ("opt", t), lambda t: ("tup*", t),
                     lambda t: ("cls", G.holder(t, False)), lambda t: ("cls", G.holder(("list", t), False))]
            todo += [t0] + [w(t0) for w in rng.sample(wraps, 2)]
    for i in range(len(todo) + n_types):
        t = todo[i] if i < len(todo) else G.type(2)
        T = G.py_ty(t)
        tm = _TMAP_RE.findall(describe(t))
        for sp in tm:
            chk.note("ext-stream:mapping-target:" + sp)
        for name, conv in _converters():
            if name.startswith("BaseConverter") and "td:" in describe(t):
                continue    # TypedDicts are outside a BaseConverter's support (it hands the payload to `dict`)
            if name.startswith("BaseConverter") and any(not sp.startswith(("dict", "map", "mmap")) for sp in tm):
                # a BaseConverter builds a plain dict for every mapping type (theorem C02_baseconverter_target_witness):
                # mapping types whose target class is not dict are outside its support
                continue
            x = G.value(t)
            u = _try(lambda: conv.unstructure(x, unstructure_as=T))
            if u[0] != "ok":
                continue
            payloads = [u[1]] + [mutate(rng, u[1]) for _ in range(3)]
            for p in payloads:
                r = _try(lambda: conv.structure(p, T))
                chk.count("ext:" + name + describe(t) + repr(p), sample=None)
                chk.note("ext-stream:structure:" + r[0])
                case = {"ext": True, "type": describe(t), "payload": repr(p), "converter": name, "got": repr(r)[:500]}
                if r[0] == "ok" and t[0] == "tmap" and t[1] == "ctr" and t[2].startswith("bare") and isinstance(r[1], dict) \
                        and any(type(b) is not int for b in r[1].values()):
                    # candidate finding (same pattern as F70: judged only once registered in known_findings.json): the bare
                    # spelling `Counter` / `typing.Counter` leaves the VALUES unstructured (`gen_structure_counter` passes
                    # val_type=int, the bare branch of mapping_structure_factory ignores it); `Counter[Any]` makes them ints
                    chk.note("ext-stream:bare-Counter-values-not-structured-as-int(finding region)")
                    if any(f.get("signature") == BARE_COUNTER_SIG for f in chk.known):
                        chk.violation(f"C02 oracle (extended stream): structure({p!r:.120}, {describe(t)}) on {name} returned {r[1]!r:.120}: "
                                      "a Counter whose counts are not ints", dict(case, stream="bare-counter", region=BARE_COUNTER_SIG))
                if r[0] == "ok" and not conforms(t, r[1]):
                    chk.violation(f"C02 oracle (extended stream): structure({p!r}, {describe(t)}) on {name} returned the non-conforming {r[1]!r}", case)
                    continue
                # compositional: every key of a class-position payload that is present must have been structured
                if t[0] == "cls" and isinstance(p, dict):
                    for fname, ft in t[1]._ext_fields:
                        if fname not in p:
                            continue
                        rf = _try(lambda: conv.structure(p[fname], G.py_ty(ft)))
                        if rf[0] == "err" and r[0] == "ok":
                            chk.violation(
                                f"C02 oracle (extended stream): field {fname!r} of the payload {p!r} is present but invalid for "
                                f"{describe(ft)} ({rf[1]!r:.120}), yet structuring {describe(t)} on {name} succeeded with {r[1]!r} "
                                "(component silently defaulted or dropped)", case)
                        elif rf[0] == "ok" and r[0] == "ok" and not same(getattr(r[1], fname), rf[1]):
                            chk.violation(
                                f"C02 oracle (extended stream): field {fname!r}: structured alone gives {rf[1]!r}, inside {describe(t)} on {name} "
                                f"the result holds {getattr(r[1], fname)!r}", case)


BARE_COUNTER_SIG = "c02-bare-counter-values-not-structured"


@framework.finding(BARE_COUNTER_SIG)
def _bare_counter_pred(case) -> bool:
    """candidate F72"""
    return isinstance(case, dict) and case.get("stream") == "bare-counter" and case.get("region") == BARE_COUNTER_SIG


_TMAP_RE = __import__("re").compile(r"tmap:(\w+:[\w-]+)")


def _outcome(r):
    return ("ok", r[1]) if r[0] == "ok" else ("err",)


def run_c04(chk, n_types):
    """both validation modes accept the same inputs with equal results: extended types, one-shot iterables"""
    import cattrs
    G = ExtGen(chk.rng, tmaps=True, tds=True)
    rng = chk.rng
    for _ in range(n_types):
        t = G.type(2)
        T = G.py_ty(t)
        if "td:" in describe(t):
            chk.note("ext-stream:typeddict-holder")
        for cls in (cattrs.Converter, cattrs.BaseConverter):
            if cls is cattrs.BaseConverter and "td:" in describe(t):
                continue    # TypedDicts are outside a BaseConverter's support (it hands the payload to `dict`)
            cd, cf = cls(detailed_validation=True), cls(detailed_validation=False)
            install_registry_hooks(cd)
            install_registry_hooks(cf)
            x = G.value(t)
            u = _try(lambda: cd.unstructure(x, unstructure_as=T))
            if u[0] != "ok":
                continue
            cases = [("valid", lambda p=u[1]: p)]
            # (a one-shot iterable at an `Any` position is handed through as it is: two fresh payloads never compare equal)
            one_shot = "any" not in describe(t)
            for _ in range(3):
                m = mutate(rng, u[1])
                cases.append(("mutated", lambda m=m: m))
                for kind, fac in one_shot_variants(rng, m) if one_shot else []:
                    cases.append((kind, fac))
            for kind, fac in one_shot_variants(rng, u[1]) if one_shot else []:
                cases.append((kind, fac))
            # the same payloads with a mapping of another class ("all inputs": defaultdict / __missing__ / OrderedDict / proxy)
            for q in [u[1]] + [c[1]() for c in cases[1:3] if c[0] == "mutated"]:
                cases += mapping_class_variants(rng, q)
            for kind, fac in cases:
                rd = _try(lambda: cd.structure(fac(), T))
                rf = _try(lambda: cf.structure(fac(), T))
                chk.count("ext:" + cls.__name__ + describe(t) + kind + repr(fac())[:200], sample=None)
                chk.note("ext-stream:" + kind)
                od, of = _outcome(rd), _outcome(rf)
                if od[0] != of[0] or (od[0] == "ok" and not same(od[1], of[1])):
                    chk.violation(
                        f"C04 oracle (extended stream): {cls.__name__} structure(<{kind}> {fac()!r:.200}, {describe(t)}): detailed -> {rd!r:.160}, fast -> {rf!r:.160}",
                        {"ext": True, "type": describe(t), "payload_kind": kind, "payload": repr(list(fac()) if kind in ("generator", "iterator", "map") else fac())[:400],
                         "converter": cls.__name__, "detailed": repr(rd)[:300], "fast": repr(rf)[:300]})


def mutate_leaf(rng, p):
    """corrupt one LEAF (or delete one key) of a payload; containers keep their kind, so class positions keep holding mappings"""
    if isinstance(p, dict) and p:
        k = rng.choice(list(p))
        q = dict(p)
        if rng.random() < 0.2:
            del q[k]
        else:
            q[k] = mutate_leaf(rng, p[k])
        return q
    if isinstance(p, (list, tuple)) and p:
        i = rng.randrange(len(p))
        q = list(p)
        q[i] = mutate_leaf(rng, p[i])
        return type(p)(q) if type(p) in (list, tuple) else q
    if isinstance(p, (dict, list, tuple)):
        return p
    return rng.choice(["zz?", None, 12345, "k9", "nope", -1, 2.5])


def run_c06(chk, n_types):
    """Converter and BaseConverter agree (same outcome, equal results) on the extended types for payloads whose class
    positions hold mappings; implementation-only"""
    import cattrs
    G = ExtGen(chk.rng)
    rng = chk.rng
    for _ in range(n_types):
        t = G.type(2)
        T = G.py_ty(t)
        for dv in (True, False):
            cg, cb = cattrs.Converter(detailed_validation=dv), cattrs.BaseConverter(detailed_validation=dv)
            install_registry_hooks(cg)
            install_registry_hooks(cb)
            x = G.value(t)
            u = _try(lambda: cg.unstructure(x, unstructure_as=T))
            if u[0] != "ok":
                continue
            for p in [u[1]] + [mutate_leaf(rng, u[1]) for _ in range(3)]:
                rg = _try(lambda: cg.structure(p, T))
                rb = _try(lambda: cb.structure(p, T))
                chk.count("ext:c06" + describe(t) + repr(p)[:300], sample=None)
                chk.note("ext-stream:engines:" + rg[0] + "/" + rb[0])
                og, ob = _outcome(rg), _outcome(rb)
                if og[0] != ob[0] or (og[0] == "ok" and not same(og[1], ob[1])):
                    chk.violation(
                        f"C06 oracle (extended stream): structure({p!r:.200}, {describe(t)}), detailed_validation={dv}: Converter -> {rg!r:.160}, "
                        f"BaseConverter -> {rb!r:.160}",
                        {"ext": True, "type": describe(t), "payload": repr(p)[:400], "detailed": dv,
                         "converter": repr(rg)[:300], "baseconverter": repr(rb)[:300]})


# ------------------------------------------------------------------------------------------------ C03: mixin enums

F59_SIG = "str-mixin-enum-member-survives"


def _mixin_enums():
    """Enum classes with a data-type mix-in (the core model's enums are plain `Enum` classes)"""
    import enum

    class IE(enum.IntEnum):
        A = 1
        B = 7

    class IF(enum.IntFlag):
        R = 1
        W = 2

    class FE(float, enum.Enum):
        H = 1.5
        Z = 0.0

    class SE(str, enum.Enum):
        A = "a"
        B = "bz"

    class BE(bytes, enum.Enum):
        X = b"x"

    out = [IE, IF, FE, SE, BE]
    if hasattr(enum, "StrEnum"):
        class SN(enum.StrEnum):
            A = "a"
        out.append(SN)
    return out


def _enum_leftovers(o, acc):
    """enum members surviving anywhere inside an unstructured object"""
    import enum
    if isinstance(o, enum.Enum):
        acc.append(o)
    elif isinstance(o, dict):
        for k, v in o.items():
            _enum_leftovers(k, acc)
            _enum_leftovers(v, acc)
    elif isinstance(o, (list, tuple, set, frozenset)):
        for e in o:
            _enum_leftovers(e, acc)
    return acc


def run_c03(chk):
    """C03 on enums with a data-type mix-in (IntEnum, IntFlag, (float, Enum), (str, Enum), StrEnum, (bytes, Enum)),
    implementation only: wherever a member sits -- declared type, Optional, Any, list element, dict key and value,
    attrs field, run-time class -- the output holds its VALUE (exact builtin class) and no enum member.
    Deterministic (no random choice)."""
    import typing
    import attrs
    import cattrs
    from cattrs import UnstructureStrategy
    for E in _mixin_enums():
        members = list(E)
        if issubclass(E, __import__("enum").IntFlag):
            members.append(members[0] | members[1])
        Holder = attrs.make_class("H_" + E.__name__, {"m": attrs.field(type=E), "o": attrs.field(type=typing.Optional[E]),
                                                      "a": attrs.field(type=typing.Any)})
        for cname, cls in (("Converter", cattrs.Converter), ("BaseConverter", cattrs.BaseConverter)):
            for sname, strat in (("dict", UnstructureStrategy.AS_DICT), ("tuple", UnstructureStrategy.AS_TUPLE)):
                conv = cls(unstruct_strat=strat)
                for m in members:
                    val = m.value
                    cases = [
                        ("as-E", lambda: conv.unstructure(m, unstructure_as=E), val),
                        ("runtime", lambda: conv.unstructure(m), val),
                        ("Optional[E]", lambda: conv.unstructure(m, unstructure_as=typing.Optional[E]), val),
                        ("Any", lambda: conv.unstructure(m, unstructure_as=typing.Any), val),
                        ("list[E]", lambda: conv.unstructure([m], unstructure_as=typing.List[E]), [val]),
                        ("list-runtime", lambda: conv.unstructure([m]), [val]),
                        ("dict[E,E]", lambda: conv.unstructure({m: m}, unstructure_as=typing.Dict[E, E]), {val: val}),
                        ("dict-runtime", lambda: conv.unstructure({m: m}), {val: val}),
                        ("attrs-fields", lambda: conv.unstructure(Holder(m, m, m)),
                         {"m": val, "o": val, "a": val} if sname == "dict" else (val, val, val)),
                    ]
                    for pos, f, want in cases:
                        r = _try(f)
                        key = f"ext:mixin-enum:{E.__name__}:{m!r}:{cname}/{sname}:{pos}"
                        chk.count(key, sample=None)
                        chk.note("ext-stream:mixin-enum:" + E.__mro__[1].__name__)
                        ok = r[0] == "ok" and not _enum_leftovers(r[1], []) and same(r[1], want)
                        if ok:
                            continue
                        left = _enum_leftovers(r[1], []) if r[0] == "ok" else []
                        # F59: the surviving object is a member of an Enum class that also subclasses str or bytes
                        f59 = bool(left) and all(isinstance(x, (str, bytes)) for x in left)
                        chk.violation(
                            f"C03 oracle (extended stream, implementation only): unstructure of {m!r} at position {pos} on "
                            f"{cname}/{sname} gives {r[1]!r:.200}, expected {want!r}",
                            {"ext": True, "probe": F59_SIG if f59 else "mixin-enum", "enum": E.__name__, "member": repr(m),
                             "position": pos, "converter": cname + "/" + sname, "got": repr(r[1])[:300]})


# ------------------------------------------------------------------------------------------------ Literal[...] over enum members
# IMPLEMENTATION-ONLY stream (no model): `Literal[...]` types whose arguments are members of enum classes WITH a data-type
# mix-in (IntEnum, (str, Enum), StrEnum -- their members compare equal to their values and to equal-valued members of
# other classes; the core worlds only have plain `Enum` classes, whose members are equal to nothing else) next to plain
# `Enum` members and plain values.  Several literals whose argument tuples are position-wise EQUAL (`Literal[Color.RED]`,
# `Literal[Fruit.APPLE]`, `Literal[1]`) are structured one after another on the same converters in the same process, so
# that anything remembered per literal under a key that only looks at `==` / `hash` of the arguments shows.

def _literal_enum_families():
    import enum

    class Color(enum.IntEnum):
        RED = 1
        GREEN = 2

    class Fruit(enum.IntEnum):
        APPLE = 1
        PEAR = 2

    class Suit(str, enum.Enum):
        HEARTS = "h"
        SPADES = "s"

    class Shape(str, enum.Enum):
        HEXAGON = "h"
        SQUARE = "s"

    class Plain(enum.Enum):
        ONE = 1
        TWO = 2

    class Other(enum.Enum):
        UN = 1
        DEUX = 2

    fams = [[Color, Fruit, Plain, Other], [Suit, Shape]]
    if hasattr(enum, "StrEnum"):
        class Tag(enum.StrEnum):
            H = "h"
            S = "s"
        fams[1].append(Tag)
    return fams


def _lit_conforms(value, args):
    """is `value` one of the literal's arguments: the member itself / a plain value of the same class"""
    import enum
    for a in args:
        if isinstance(a, enum.Enum):
            if value is a:
                return True
        elif type(value) is type(a) and value == a:
            return True
    return False


def _lit_key(a):
    import enum
    return a.value if isinstance(a, enum.Enum) else a


def run_enum_literals(chk, n_rounds, prop):
    """prop C02: an accepted result is one of the literal's arguments (top level, as a class field, as a list element);
    C01: structure(unstructure(a)) is a for every argument a (keys pairwise different);
    C04: detailed and fast validation agree;  C06: Converter and BaseConverter agree."""
    import typing
    import attrs
    import cattrs
    rng = chk.rng
    fams = _literal_enum_families()
    for _ in range(n_rounds):
        fam = rng.choice(fams)
        plain_vals = [m.value for m in fam[0]] + (["x", "y"] if isinstance(list(fam[0])[0].value, str) else [7, 9])
        # a shape (which positions hold a member, which a plain value), then several literals of that shape over
        # different classes of the family: position-wise equal argument tuples
        n_args = rng.randint(1, 3)
        idx = rng.sample(range(len(plain_vals)), n_args)
        shape = [(i, rng.random() < 0.65 and i < 2) for i in idx]        # (value index, is a member?)
        if not any(m for _, m in shape):
            shape[0] = (shape[0][0] % 2, True)
        lits = []
        for _k in range(rng.randint(2, 4)):
            args = tuple(list(rng.choice(fam))[i] if mem else plain_vals[i] for i, mem in shape)
            lits.append(args)
        if rng.random() < 0.5:
            lits.append(tuple(plain_vals[i] for i, _m in shape))           # the same shape without any member
        convs = [(cn, dv, cls(detailed_validation=dv)) for cn, cls in (("Converter", cattrs.Converter), ("BaseConverter", cattrs.BaseConverter))
                 for dv in (True, False)]
        payloads = plain_vals + [3, "junk", None, 1.5, (), b"h"]
        for args in lits:
            L = typing.Literal[args]
            Holder = attrs.make_class("LitHolder", {"f": attrs.field(type=L)})
            keys_distinct = len({(_lit_key(a).__class__, _lit_key(a)) for a in args}) == len(args) and \
                len({_lit_key(a) for a in args}) == len(args)
            chk.note("ext-stream:enum-literal:" + "+".join(sorted({type(a).__mro__[1].__name__ if hasattr(a, "value") else "plain" for a in args})))
            for p in payloads:
                res = {}
                for cn, dv, conv in convs:
                    for pos, call, pick in (("top", lambda: conv.structure(p, L), lambda r: r),
                                            ("field", lambda: conv.structure({"f": p}, Holder), lambda r: r.f),
                                            ("list", lambda: conv.structure([p], typing.List[L]), lambda r: r[0])):
                        r = _try(call)
                        got = ("ok", pick(r[1])) if r[0] == "ok" else ("err",)
                        res[(cn, dv, pos)] = got
                        chk.count(f"ext:enum-literal:{args!r}:{p!r}:{cn}:{dv}:{pos}", sample=None)
                        case = {"ext": True, "probe": "enum-literal", "literal": repr(args), "payload": repr(p),
                                "converter": f"{cn}/{'detailed' if dv else 'fast'}", "position": pos, "got": repr(got)[:200]}
                        if prop == "C02" and got[0] == "ok" and not _lit_conforms(got[1], args):
                            chk.violation(f"C02 oracle (enum-literal stream, implementation only): structure({p!r}, Literal{list(args)}) "
                                          f"at position {pos} on {cn}/{'detailed' if dv else 'fast'} returned {got[1]!r}, which is "
                                          "not one of the literal's arguments", case)
                for cn, dv, conv in convs:
                    for pos in ("top", "field", "list"):
                        a, b = res[(cn, dv, pos)], res[(cn, not dv, pos)]
                        same_out = a[0] == b[0] and (a[0] == "err" or a[1] is b[1] or (type(a[1]) is type(b[1]) and a[1] == b[1]))
                        if prop == "C04" and dv and not same_out:
                            chk.violation(f"C04 oracle (enum-literal stream): modes disagree on structure({p!r}, Literal{list(args)}) "
                                          f"[{cn} {pos}]: detailed={a!r} fast={b!r}",
                                          {"ext": True, "probe": "enum-literal", "literal": repr(args), "payload": repr(p)})
                        c = res[("BaseConverter" if cn == "Converter" else "Converter", dv, pos)]
                        same_eng = a[0] == c[0] and (a[0] == "err" or a[1] is c[1] or (type(a[1]) is type(c[1]) and a[1] == c[1]))
                        if prop == "C06" and cn == "Converter" and not same_eng:
                            chk.violation(f"C06 oracle (enum-literal stream): engines disagree on structure({p!r}, Literal{list(args)}) "
                                          f"[{'detailed' if dv else 'fast'} {pos}]: Converter={a!r} BaseConverter={c!r}",
                                          {"ext": True, "probe": "enum-literal", "literal": repr(args), "payload": repr(p)})
            if prop == "C01" and keys_distinct:
                for a in args:
                    for cn, dv, conv in convs:
                        r = _try(lambda: conv.structure(conv.unstructure(a, unstructure_as=L), L))
                        chk.count(f"ext:enum-literal-roundtrip:{args!r}:{a!r}:{cn}:{dv}", sample=None)
                        if r[0] != "ok" or not _lit_conforms(r[1], (a,)):
                            chk.violation(f"C01 oracle (enum-literal stream, implementation only): round trip of {a!r} as Literal{list(args)} "
                                          f"on {cn}/{'detailed' if dv else 'fast'} gives {r!r:.200}",
                                          {"ext": True, "probe": "enum-literal", "literal": repr(args), "value": repr(a)})


# ------------------------------------------------------------------------------------------------ C06: attrs field converters
# over annotations that cannot be structured

class _Money:
    """a plain user class cattrs has no hook for"""

    def __init__(self, text):
        self.cents = int(round(float(text) * 100))

    def __eq__(self, other):
        return type(other) is _Money and other.cents == self.cents

    def __hash__(self):
        return hash(("_Money", self.cents))

    def __repr__(self):
        return f"_Money({self.cents / 100!r})"


def _unsupported_leaves():
    """(class without a structure hook, leaf converter str -> instance, a valid raw value)"""
    import datetime
    import decimal
    return [
        (datetime.date, lambda v: v if isinstance(v, datetime.date) else datetime.date.fromisoformat(v), ["2020-01-02", "1999-12-31"]),
        (decimal.Decimal, lambda v: v if isinstance(v, decimal.Decimal) else decimal.Decimal(v), ["1.50", "7"]),
        (_Money, lambda v: v if isinstance(v, _Money) else _Money(v), ["2.25", "10"]),
    ]


def _fc_shape(rng, leaf, depth):
    """-> (annotation, attrs converter, valid raw payload): a CONTAINER of / WRAPPER around a class without a hook"""
    import collections
    U, cv, raws = leaf
    if depth <= 0 or rng.random() < 0.2:
        return U, cv, rng.choice(raws)
    inner_t, inner_cv, inner_raw = _fc_shape(rng, leaf, depth - 1)
    # (no `Annotated`: a BaseConverter has no hook for it -- outside the common support)
    k = rng.choice(["list", "seq", "mseq", "dict", "map", "odict", "ddict", "new", "opt", "set", "tup*", "deque", "tup"])
    n = rng.randint(0, 2)
    if k in ("list", "seq", "mseq"):
        T = {"list": list, "seq": typing.Sequence, "mseq": typing.MutableSequence}[k][inner_t]
        return T, (lambda vs, f=inner_cv: [f(v) for v in vs]), [inner_raw] * n
    if k in ("dict", "map", "odict", "ddict"):
        T = {"dict": dict, "map": typing.Mapping, "odict": collections.OrderedDict, "ddict": collections.defaultdict}[k][str, inner_t]
        return T, (lambda m, f=inner_cv: {a: f(b) for a, b in m.items()}), {f"k{i}": inner_raw for i in range(n)}
    if k == "new":
        return typing.NewType(f"FcNT{next(_uid)}", inner_t), inner_cv, inner_raw
    if k == "opt":
        return Optional[inner_t], (lambda v, f=inner_cv: None if v is None else f(v)), inner_raw
    try:
        hash(inner_raw)
    except TypeError:
        k = "tup*" if k == "set" else k
    if k == "set":
        return set[inner_t], (lambda vs, f=inner_cv: {f(v) for v in vs}), [inner_raw][:n]
    if k == "deque":
        return collections.deque[inner_t], (lambda vs, f=inner_cv: collections.deque(f(v) for v in vs)), [inner_raw] * n
    if k == "tup":
        return tuple[inner_t, int], (lambda vs, f=inner_cv: (f(vs[0]), int(vs[1]))), [inner_raw, 3]
    return tuple[inner_t, ...], (lambda vs, f=inner_cv: tuple(f(v) for v in vs)), [inner_raw] * n


def _hook_creation_fails(T) -> bool:
    """no structure hook can be CREATED for the annotation (as opposed to: a hook exists and raises
    StructureHandlerNotFoundError when called -- the region of the recorded finding F36, which belongs to C20)"""
    import cattrs
    from cattrs.errors import StructureHandlerNotFoundError
    try:
        cattrs.Converter().get_structure_hook(T)
    except StructureHandlerNotFoundError:
        return True
    except Exception:  # noqa: BLE001
        return False
    return False


FC_WRAPPED_SIG = "c06-fieldconv-inner-shnf-wrapped-by-detailed-validation"


def _all_leaves_shnf(exc) -> bool:
    from cattrs.errors import StructureHandlerNotFoundError
    if isinstance(exc, BaseExceptionGroup):
        return bool(exc.exceptions) and all(_all_leaves_shnf(e) for e in exc.exceptions)
    return isinstance(exc, StructureHandlerNotFoundError)


def _fc_wrapped_region(dv, pac, rg, rb) -> bool:
    """finding candidate (same root as F36, mirrored): attrs converter on the attribute, prefer_attrib_converters off,
    detailed validation, annotation for which a Converter cannot create a hook (it hands the raw value to the attrs
    converter and ACCEPTS) while the BaseConverter's interpretive container hook exists, meets the missing inner hook at
    call time and re-raises it wrapped in an IterableValidationError -- which `_structure_attribute` does not swallow
    (it catches only a bare StructureHandlerNotFoundError): BaseConverter REJECTS every payload"""
    from cattrs.errors import IterableValidationError
    return (dv and not pac and rg[0] == "ok" and rb[0] == "err" and isinstance(rb[1], IterableValidationError)
            and _all_leaves_shnf(rb[1]))


@framework.finding(FC_WRAPPED_SIG)
def _fc_pred(case) -> bool:
    """F70"""
    return isinstance(case, dict) and case.get("stream") == "fieldconv" and case.get("region") == FC_WRAPPED_SIG


def run_c06_fieldconv(chk, n_classes):
    """Engine agreement on attrs classes whose attributes carry NON-identity attrs converters and are annotated with
    containers of / wrappers around classes cattrs has no hook for (`list[date]`, `dict[str, Decimal]`,
    `Annotated[list[Money], ...]`, NewTypes ...), next to ordinary attributes with and without converters; both values of
    prefer_attrib_converters, both validation modes, both strategies; valid, corrupted and incomplete payloads.  Oracle
    (statement of C06): Converter and BaseConverter both reject, or both accept with equal results.
    Annotations whose hook can be created but fails when CALLED (Optional[U], set[U], tuple[U, ...], ...) are the
    recorded finding F36 (C20): counted, not judged."""
    import cattrs
    rng = chk.rng
    leaves = _unsupported_leaves()
    for _ in range(n_classes):
        leaf = rng.choice(leaves)
        T, cv, raw = _fc_shape(rng, leaf, rng.randint(0, 2))
        eager = _hook_creation_fails(T)
        chk.note("fieldconv:annotation:" + ("no-hook-can-be-created" if eager else "hook-fails-when-called(F36 region: skipped)"))
        if not eager:
            continue
        fields = {}
        kw = {"type": T, "converter": cv}
        mode = rng.choice(["required", "default-none", "factory"])
        if mode == "default-none":
            kw["default"] = None
        elif mode == "factory":
            kw["factory"] = (lambda raw=raw: cv(raw))
        if rng.random() < 0.3:
            kw["kw_only"] = True
        others = []
        if rng.random() < 0.7:
            others.append(("n", attrs.field(type=int, converter=int, default=0)))
        if rng.random() < 0.5:
            others.append(("s", attrs.field(type=str, default="d")))
        if rng.random() < 0.4:
            others.append(("i", attrs.field(type=list[int], converter=(lambda v: v), factory=list)))
        items = [("x", attrs.field(**kw))] + others
        rng.shuffle(items)
        items.sort(key=lambda kv: (kv[1]._default is not attrs.NOTHING) and not kv[1].kw_only)
        cl = attrs.make_class(f"Fc{next(_uid)}", dict(items))
        base = {"x": raw, "n": "4", "s": "t", "i": [1, "2"]}
        base = {k: v for k, v in base.items() if k in dict(items)}
        payloads = [("valid", base)]
        for _ in range(3):
            payloads.append(("mutated", mutate_leaf(rng, base)))
        payloads.append(("x-missing", {k: v for k, v in base.items() if k != "x"}))
        payloads.append(("x-junk", dict(base, x=rng.choice(["zz", 5, None, [], {}]))))
        for tup in (False, True):
            strat = cattrs.UnstructureStrategy.AS_TUPLE if tup else cattrs.UnstructureStrategy.AS_DICT
            for dv in (True, False):
                for pac in (False, True):
                    kwc = dict(detailed_validation=dv, prefer_attrib_converters=pac, unstruct_strat=strat)
                    cg, cb = cattrs.Converter(**kwc), cattrs.BaseConverter(**kwc)
                    base_first = rng.random() < 0.5       # which engine meets the class first
                    cfgname = f"{'tuple' if tup else 'dict'}/{'detailed' if dv else 'fast'}{'/pac' if pac else ''}"
                    for kind, p in payloads:
                        if tup:
                            p = [p[a.name] for a in attrs.fields(cl) if a.name in p] if kind == "valid" else list(p.values())
                        if base_first:
                            r2 = _try(lambda: cb.structure(p, cl))
                            r1 = _try(lambda: cg.structure(p, cl))
                        else:
                            r1 = _try(lambda: cg.structure(p, cl))
                            r2 = _try(lambda: cb.structure(p, cl))
                        chk.count("ext:c06fc" + repr(T)[:80] + cfgname + kind + repr(p)[:200], sample=None)
                        chk.note("fieldconv:engines(Converter/BaseConverter):" + r1[0] + "/" + r2[0], "fieldconv:" + mode)
                        o1, o2 = _outcome(r1), _outcome(r2)
                        if o1[0] != o2[0] or (o1[0] == "ok" and not same(o1[1], o2[1])):
                            case = {"ext": True, "stream": "fieldconv", "annotation": repr(T)[:200], "config": cfgname,
                                    "payload": repr(p)[:400], "converter": repr(r1)[:300], "baseconverter": repr(r2)[:300]}
                            what = (f"C06 oracle (field-converter stream): attrs class with `x: {T!r:.80} = field(converter=...)` "
                                    f"[{cfgname}] structure({p!r:.160}): Converter -> {r1!r:.140}, BaseConverter -> {r2!r:.140}")
                            if _fc_wrapped_region(dv, pac, r1, r2):
                                # recorded / candidate finding: reported through the framework only when registered in
                                # known_findings.json (then it shows as KNOWN-FINDING with its reproduction count)
                                chk.note("fieldconv:inner-SHNF-wrapped-by-detailed-validation(finding region)")
                                if any(f.get("signature") == FC_WRAPPED_SIG for f in chk.known):
                                    chk.violation(what, dict(case, region=FC_WRAPPED_SIG))
                                continue
                            chk.violation(what, case)


# ------------------------------------------------------------------------------------------------ generator options
# (C02 / C04): hooks built by make_dict_structure_fn with `_cattrs_use_alias`, `_cattrs_include_init_false`,
# override(omit=False / rename=...), `_cattrs_forbid_extra_keys`, on classes with private / aliased / init=False /
# kw_only / defaulted attributes.  Implementation-only.

_GO_TYPES = ["int", "str", "bool", ("list", "int"), ("opt", "int"), ("dict", "str", "int")]


def _go_class(G):
    """-> (class, [field descriptions]): an attrs class with private names, explicit aliases, init=False attributes
    (with and without defaults), kw_only, defaults and factories"""
    r = G.rng
    names = r.sample(["a", "b", "_c", "_d", "e", "xy", "_pq"], r.randint(1, 4))
    fds = []
    for n in names:
        t = r.choice(_GO_TYPES)
        f = {"name": n, "ty": t, "alias": None, "init": True, "dflt": False, "kw_only": False, "value": None}
        if r.random() < 0.3:
            f["alias"] = r.choice(["al_" + n.lstrip("_"), n.lstrip("_") + "2", "A"])
        if r.random() < 0.5:
            f["dflt"] = True
            f["value"] = G.value(t)
        if r.random() < 0.3:
            f["init"] = False
        elif r.random() < 0.2:
            f["kw_only"] = True
        fds.append(f)
    als = [f["alias"] for f in fds if f["alias"]]
    if len(set(als)) != len(als):
        for f in fds:
            f["alias"] = None
    d = {}
    for f in fds:
        kw = {"type": G.py_ty(f["ty"])}
        if f["alias"]:
            kw["alias"] = f["alias"]
        if f["dflt"]:
            v = f["value"]
            if isinstance(v, (int, str, bool, type(None))):
                kw["default"] = v
            else:
                kw["factory"] = (lambda v=v: type(v)(v))
        if not f["init"]:
            kw["init"] = False
        if f["kw_only"]:
            kw["kw_only"] = True
        d[f["name"]] = attrs.field(**kw)
    order = sorted(fds, key=lambda f: (f["dflt"] and f["init"] and not f["kw_only"]))
    cl = attrs.make_class(f"Go{next(_uid)}", {f["name"]: d[f["name"]] for f in order}, slots=r.random() < 0.5)
    by = {a.name: a for a in attrs.fields(cl)}
    for f in order:
        f["attr_alias"] = by[f["name"]].alias
    return cl, order


def _go_outcome(r, fds):
    """('ok', {attribute: value | <unset>}) | ('err',)"""
    if r[0] != "ok":
        return ("err",)
    return ("ok", {f["name"]: getattr(r[1], f["name"], "<unset>") for f in fds}, type(r[1]))


def run_genopts(chk, n_classes, prop):
    import cattrs
    from cattrs.gen import make_dict_structure_fn, override
    G = ExtGen(chk.rng)
    r = chk.rng
    for _ in range(n_classes):
        cl, fds = _go_class(G)
        use_alias = r.random() < 0.6
        iif = r.random() < 0.5
        forbid = r.random() < 0.3
        ovs = {}
        for f in fds:
            c = r.random()
            if not f["init"] and c < 0.4:
                ovs[f["name"]] = override(omit=False)
            elif c < 0.1:
                ovs[f["name"]] = override(rename="rn_" + f["name"].lstrip("_"))
        included = [f for f in fds if f["init"] or iif or (f["name"] in ovs and ovs[f["name"]].omit is False)]

        def key(f):
            ov = ovs.get(f["name"])
            if ov is not None and ov.rename is not None:
                return ov.rename
            return f["attr_alias"] if use_alias else f["name"]

        valid = {key(f): G.value(f["ty"]) for f in included}
        payloads = [("valid", valid)]
        for f in included:
            bad = dict(valid)
            bad[key(f)] = r.choice(["zz?", None, [None], {"k": "v"}, "nope"])
            payloads.append(("junk:" + ("init-false" if not f["init"] else "init"), bad))
            miss = {k: v for k, v in valid.items() if k != key(f)}
            payloads.append(("missing:" + ("init-false" if not f["init"] else "init"), miss))
            other = f["name"] if key(f) != f["name"] else f["attr_alias"]
            if other != key(f) and other not in valid:
                moved = {k: v for k, v in valid.items() if k != key(f)}
                moved[other] = G.value(f["ty"])
                payloads.append(("other-spelling-of-key", moved))
        payloads.append(("extra", dict(valid, zz_extra=1)))
        for ccls in (cattrs.Converter, cattrs.BaseConverter):
            hooks = {}
            for dv in (True, False):
                conv = ccls(detailed_validation=dv)
                hooks[dv] = _try(lambda: make_dict_structure_fn(
                    cl, conv, _cattrs_use_alias=use_alias, _cattrs_include_init_false=iif,
                    _cattrs_forbid_extra_keys=forbid, _cattrs_detailed_validation=dv, **ovs))
            opts = f"use_alias={use_alias} include_init_false={iif} forbid={forbid} overrides={sorted(ovs)}"
            desc = f"{ccls.__name__} {cl.__name__}({', '.join(f['name'] + ': ' + describe(f['ty']) + ('' if f['init'] else ' [init=False]') + (' =dflt' if f['dflt'] else '') for f in fds)}) {opts}"
            if prop == "C04" and hooks[True][0] != hooks[False][0]:
                chk.violation(f"C04 oracle (generator-options stream): hook creation differs: detailed -> {hooks[True]!r:.120}, fast -> {hooks[False]!r:.120} [{desc}]",
                              {"ext": True, "stream": "genopts", "class": desc})
            if hooks[True][0] != "ok" or hooks[False][0] != "ok":
                chk.note("genopts:hook-creation-failed")
                continue
            for kind, p in payloads:
                res = {dv: _try(lambda: hooks[dv][1](dict(p), cl)) for dv in (True, False)}
                chk.count("ext:genopts" + desc + repr(p)[:200], sample=None)
                chk.note("genopts:" + kind.split(":")[0], "genopts:use_alias" if use_alias else "genopts:by-name",
                         "genopts:include_init_false" if iif else "genopts:init-false-skipped")
                case = {"ext": True, "stream": "genopts", "class": desc, "payload": repr(p)[:300],
                        "detailed": repr(res[True])[:300], "fast": repr(res[False])[:300]}
                if prop == "C04":
                    od, of = _go_outcome(res[True], fds), _go_outcome(res[False], fds)
                    if od[0] != of[0] or (od[0] == "ok" and not (od[2] is of[2] and od[1].keys() == of[1].keys()
                                                                   and all(same(od[1][k], of[1][k]) for k in od[1]))):
                        chk.violation(f"C04 oracle (generator-options stream): modes disagree on {p!r:.160}: detailed -> {res[True]!r:.140}, "
                                      f"fast -> {res[False]!r:.140} [{desc}]", case)
                    continue
                # C02: an accepted result conforms; a present component is structured or the call raises
                for dv in (True, False):
                    rr = res[dv]
                    if rr[0] != "ok":
                        continue
                    mode = "detailed" if dv else "fast"
                    if type(rr[1]) is not cl:
                        chk.violation(f"C02 oracle (generator-options stream, {mode}): result is not an instance of the class [{desc}]", case)
                        continue
                    for f in included:
                        k = key(f)
                        has = hasattr(rr[1], f["name"])
                        if k in p:
                            alone = _try(lambda: ccls(detailed_validation=dv).structure(p[k], G.py_ty(f["ty"])))
                            if alone[0] == "err":
                                chk.violation(
                                    f"C02 oracle (generator-options stream, {mode}): key {k!r} of {p!r:.160} is present but invalid for "
                                    f"{describe(f['ty'])}, yet the hook returned {rr[1]!r:.120} (attribute {'= ' + repr(getattr(rr[1], f['name'])) if has else 'left UNSET'}: "
                                    f"invalid component silently dropped / defaulted) [{desc}]", case)
                                break
                            if not has or not same(getattr(rr[1], f["name"]), alone[1]):
                                chk.violation(
                                    f"C02 oracle (generator-options stream, {mode}): key {k!r} of {p!r:.160} structures to {alone[1]!r} alone, the "
                                    f"instance holds {getattr(rr[1], f['name'], '<unset>')!r} [{desc}]", case)
                                break
                        elif f["init"] and not f["dflt"]:
                            chk.violation(f"C02 oracle (generator-options stream, {mode}): required key {k!r} is missing from {p!r:.160}, "
                                          f"yet the hook returned {rr[1]!r:.120} [{desc}]", case)
                            break
                        if has and not conforms(f["ty"], getattr(rr[1], f["name"])):
                            chk.violation(f"C02 oracle (generator-options stream, {mode}): attribute {f['name']} = {getattr(rr[1], f['name'])!r} "
                                          f"does not conform to {describe(f['ty'])} [{desc}]", case)
                            break


# ------------------------------------------------------------------------------------------------ hand-written __init__
CUSTOM_INIT_SIG = "c04-handwritten-init-positional-vs-keyword"


@framework.finding(CUSTOM_INIT_SIG)
def _ci_pred(case) -> bool:
    """F71"""
    return isinstance(case, dict) and case.get("stream") == "custom-init" and case.get("region") == CUSTOM_INIT_SIG


def run_custom_init(chk, n_classes):
    """`@define(init=False)` classes with a hand-written `__init__`.  The generated FAST template passes the required
    attributes POSITIONALLY (in attribute order), the DETAILED template and the interpretive BaseConverter pass
    everything BY KEYWORD (attribute alias).  Parameters = aliases in attribute order: both agree (checked as an oracle).
    Parameters renamed, or the same names in another ORDER: finding candidate -- fast accepts what detailed rejects
    (renamed), or fast silently SWAPS the values (reordered)."""
    import cattrs
    r = chk.rng
    registered = any(f.get("signature") == CUSTOM_INIT_SIG for f in chk.known)
    for _ in range(n_classes):
        n = r.randint(1, 3)
        names = r.sample(["x", "y", "z", "w"], n)
        n_req = r.randint(1, n)
        shape = r.choice(["same", "same", "renamed", "reordered"]) if n_req >= 2 else r.choice(["same", "renamed"])
        params = list(names)
        if shape == "renamed":
            params[0] = "value"
        elif shape == "reordered":
            params[:n_req] = list(reversed(params[:n_req]))
        src = ["@attrs.define(init=False)", f"class Ci{next(_uid)}:"]
        for i, a in enumerate(names):
            src.append(f"    {a}: int" + ("" if i < n_req else " = 5"))
        sig = ", ".join(p + ("" if names.index(a) < n_req else "=5") for p, a in
                        sorted(zip(params, names), key=lambda pa: names.index(pa[1]) >= n_req))
        src.append(f"    def __init__(self, {sig}):")
        for p, a in zip(params, names):
            src.append(f"        self.{a} = {p}")
        ns = {"attrs": attrs}
        exec(compile("\n".join(src), "<custom-init>", "exec", dont_inherit=True), ns)
        cl = [v for k, v in ns.items() if k.startswith("Ci")][0]
        payloads = [{a: i + 1 for i, a in enumerate(names)}, {a: i + 1 for i, a in enumerate(names[:n_req])},
                    {a: "7" for a in names}]
        for ccls in (cattrs.Converter, cattrs.BaseConverter):
            for p in payloads:
                rd = _try(lambda: ccls(detailed_validation=True).structure(p, cl))
                rf = _try(lambda: ccls(detailed_validation=False).structure(p, cl))
                chk.count("ext:custom-init" + shape + ccls.__name__ + repr(p) + "\n".join(src), sample=None)
                chk.note("custom-init:" + shape + ":" + rd[0] + "/" + rf[0])
                od = ("ok", {a: getattr(rd[1], a) for a in names}) if rd[0] == "ok" else ("err",)
                of = ("ok", {a: getattr(rf[1], a) for a in names}) if rf[0] == "ok" else ("err",)
                if od == of:
                    continue
                case = {"ext": True, "stream": "custom-init", "class": "\n".join(src), "payload": repr(p),
                        "converter": ccls.__name__, "detailed": repr(rd)[:200], "fast": repr(rf)[:200]}
                what = (f"C04 oracle (hand-written __init__): {ccls.__name__} structure({p!r}) detailed -> {rd!r:.120}, fast -> {rf!r:.120} "
                        f"for\n" + "\n".join(src))
                if shape in ("renamed", "reordered") and ccls is cattrs.Converter:
                    chk.note("custom-init:finding-region(positional vs keyword)")
                    if registered:
                        chk.violation(what, dict(case, region=CUSTOM_INIT_SIG))
                    continue
                chk.violation(what, case)


def run_genopts_roundtrip(chk, n_classes):
    """C01 on hooks built with generator options: `make_dict_unstructure_fn` / `make_dict_structure_fn` with the same
    `_cattrs_use_alias`, `_cattrs_include_init_false` and per-attribute overrides (rename, omit=False) are inverse to each
    other on classes with private / explicitly aliased / init=False / kw_only / defaulted attributes -- both converter
    classes, both validation modes.  Implementation-only."""
    import cattrs
    from cattrs.gen import make_dict_structure_fn, make_dict_unstructure_fn, override
    G = ExtGen(chk.rng)
    r = chk.rng
    for _ in range(n_classes):
        cl, fds = _go_class(G)
        use_alias = r.random() < 0.6
        iif = r.random() < 0.5
        ovs = {}
        for f in fds:
            c = r.random()
            if not f["init"] and c < 0.4:
                ovs[f["name"]] = override(omit=False)
            elif c < 0.15:
                ovs[f["name"]] = override(rename="rn_" + f["name"].lstrip("_"))
        kwargs = {f["attr_alias"]: G.value(f["ty"]) for f in fds if f["init"] and (not f["dflt"] or r.random() < 0.7)}
        x = cl(**kwargs)
        included = [f for f in fds if f["init"] or iif or (f["name"] in ovs and ovs[f["name"]].omit is False)]
        for f in fds:
            if not f["init"] and f in included and (f["dflt"] or r.random() < 0.8):
                # an included init=False attribute carries a value of its own (not the default)
                object.__setattr__(x, f["name"], G.value(f["ty"]))
        if any(not hasattr(x, f["name"]) for f in included):
            continue
        for ccls in (cattrs.Converter, cattrs.BaseConverter):
            for dv in (True, False):
                conv = ccls(detailed_validation=dv)
                un = _try(lambda: make_dict_unstructure_fn(cl, conv, _cattrs_use_alias=use_alias,
                                                           _cattrs_include_init_false=iif, **ovs))
                st = _try(lambda: make_dict_structure_fn(cl, conv, _cattrs_use_alias=use_alias,
                                                         _cattrs_include_init_false=iif,
                                                         _cattrs_detailed_validation=dv, **ovs))
                desc = (f"{ccls.__name__}/{'detailed' if dv else 'fast'} {cl.__name__}("
                        + ", ".join(f["name"] + ": " + describe(f["ty"]) + ("" if f["init"] else " [init=False]")
                                    + (f" alias={f['attr_alias']}" if f["attr_alias"] != f["name"] else "") for f in fds)
                        + f") use_alias={use_alias} include_init_false={iif} overrides={sorted(ovs)}")
                chk.count("ext:genopts-rt" + desc + repr(x), sample=None)
                chk.note("genopts-roundtrip:" + ("use_alias" if use_alias else "by-name"))
                case = {"ext": True, "stream": "genopts-roundtrip", "class": desc, "value": repr(x)}
                if un[0] != "ok" or st[0] != "ok":
                    chk.violation(f"C01 oracle (generator-options stream): hook creation failed: un={un!r:.100} st={st!r:.100} [{desc}]", case)
                    continue
                u = _try(lambda: un[1](x))
                back = _try(lambda: st[1](u[1], cl)) if u[0] == "ok" else ("err", "unstructure failed")
                ok = back[0] == "ok" and type(back[1]) is cl and all(
                    hasattr(back[1], f["name"]) and same(getattr(back[1], f["name"]), getattr(x, f["name"])) for f in included)
                if not ok:
                    chk.violation(f"C01 oracle (generator-options stream): round trip of {x!r} gives {u!r:.120} -> {back!r:.120} [{desc}]", case)


def run_generic_roundtrip(chk, n_cases):
    """C01 on parametrised GENERIC attrs classes / dataclasses whose type argument is itself a parametrised type (containers,
    Optional, Literal of strings / negative numbers / enum members, Annotated): the generated hook is named after the
    argument.  Implementation-only (the Lean data path has no generic classes; C17 owns their model)."""
    import enum
    import cattrs
    r = chk.rng
    T = typing.TypeVar("T")
    E = enum.Enum("GE", {"A": "a", "B": "b"})
    args = [
        (int, lambda: r.randint(-3, 9)), (str, lambda: r.choice(["", "a", "zz"])),
        (list[int], lambda: [r.randint(0, 5) for _ in range(r.randint(0, 2))]),
        (Optional[int], lambda: r.choice([None, 3])),
        (dict[str, int], lambda: {k: 1 for k in r.sample(["a", "b", "c"], r.randint(0, 2))}),
        (tuple[int, ...], lambda: tuple(r.randint(0, 5) for _ in range(r.randint(0, 2)))),
        (Literal["a", "b-c"], lambda: r.choice(["a", "b-c"])), (Literal[-1, 2], lambda: r.choice([-1, 2])),
        (Literal[E.A, "x"], lambda: r.choice([E.A, "x"])), (typing.Annotated[int, "meta"], lambda: r.randint(0, 5)),
        (typing.Annotated[list[str], "m:1"], lambda: [r.choice(["a", "b"])]), (E, lambda: r.choice(list(E))),
        (list[Literal["p", "q r"]], lambda: [r.choice(["p", "q r"])]),
    ]
    for _ in range(n_cases):
        kind = r.choice(["attrs", "dc"])
        name = f"Gn{next(_uid)}"
        if kind == "attrs":
            cl = attrs.make_class(name, {"x": attrs.field(type=T), "ys": attrs.field(type=list[T], factory=list)}, bases=(typing.Generic[T],))
        else:
            cl = dataclasses.make_dataclass(name, [("x", T), ("ys", list[T], dataclasses.field(default_factory=list))], bases=(typing.Generic[T],))
        arg, gv = r.choice(args)
        x = cl(gv(), [gv() for _ in range(r.randint(0, 2))])
        for dv in (True, False):
            for strat in (cattrs.UnstructureStrategy.AS_DICT,):
                conv = cattrs.Converter(detailed_validation=dv, unstruct_strat=strat)
                res = _try(lambda: conv.structure(conv.unstructure(x, unstructure_as=cl[arg]), cl[arg]))
                chk.count("ext:generic" + kind + repr(arg) + repr(x) + str(dv), sample=None)
                chk.note("generic-roundtrip:" + res[0])
                if res[0] != "ok" or type(res[1]) is not cl or not same(res[1].x, x.x) or not same(res[1].ys, x.ys):
                    chk.violation(f"C01 oracle (generic-class stream): round trip of {x!r} as {cl.__name__}[{arg!r}] "
                                  f"({kind}, detailed_validation={dv}) gives {res!r:.200}",
                                  {"ext": True, "stream": "generic", "arg": repr(arg), "kind": kind, "value": repr(x), "got": repr(res)[:300]})


# ------------------------------------------------------------------------------------------------ C02: unsupported types
# at typed positions ("unsupported types raise StructureHandlerNotFoundError"; nothing a structuring call could put at such
# a position conforms, so the call must raise -- never pass the raw payload component through)

def _unsup_table():
    """name -> (annotation, is-a-value-of-it test, raw payload components that look plausible, a genuine instance)"""
    import datetime
    import decimal
    import fractions
    import uuid
    U = typing.Union[int, str]
    return {
        "date": (datetime.date, lambda v: type(v) is datetime.date, ["2020-01-02", 737000, None], datetime.date(2020, 1, 2)),
        "datetime": (datetime.datetime, lambda v: type(v) is datetime.datetime, ["2020-01-02T03:04:05", "yesterday-ish", 0.5],
                     datetime.datetime(2020, 1, 2, 3, 4, 5)),
        "decimal": (decimal.Decimal, lambda v: type(v) is decimal.Decimal, ["1.50", 7, 2.5], decimal.Decimal("1.50")),
        "fraction": (fractions.Fraction, lambda v: type(v) is fractions.Fraction, ["1/3", 2, [1, 3]], fractions.Fraction(1, 3)),
        "uuid": (uuid.UUID, lambda v: type(v) is uuid.UUID, ["12345678-1234-5678-1234-567812345678", 5], uuid.UUID(int=5)),
        "plain-class": (_Money, lambda v: type(v) is _Money, ["2.25", {"cents": 225}, 42], _Money("2.25")),
        "union-int-str": (U, lambda v: type(v) in (int, str), [None, 2.5, [1], {"a": 1}, b"x"], 3),
        "complex": (complex, lambda v: type(v) is complex, ["1+2j", [1, 2], None], 1 + 2j),
    }


def _unsup_shape(rng, name, depth):
    """-> (annotation, conformance test, raw payload, genuine value) of a type with the unsupported leaf inside"""
    import collections
    ann, ok, raws, inst = _unsup_table()[name]
    if depth <= 0 or rng.random() < 0.35:
        return ann, ok, rng.choice(raws), inst, name
    a, ok1, raw, v, d = _unsup_shape(rng, name, depth - 1)
    k = rng.choice(["list", "opt", "dict", "tup", "tup*", "seq", "odict"])
    n = rng.randint(1, 2)
    if k in ("list", "seq"):
        return ((list if k == "list" else typing.Sequence)[a], lambda x: type(x) is list and all(ok1(e) for e in x), [raw] * n, [v],
                f"{k}[{d}]")
    if k == "opt":
        return Optional[a], lambda x: x is None or ok1(x), raw, v, f"opt[{d}]"
    if k in ("dict", "odict"):
        cl = dict if k == "dict" else collections.OrderedDict
        return (cl[str, a], lambda x: type(x) is cl and all(type(q) is str and ok1(e) for q, e in x.items()),
                {f"k{i}": raw for i in range(n)}, cl({"k": v}), f"{k}[str, {d}]")
    if k == "tup":
        return (tuple[a, int], lambda x: type(x) is tuple and len(x) == 2 and ok1(x[0]) and type(x[1]) is int, [raw, 3], (v, 3),
                f"tuple[{d}, int]")
    return tuple[a, ...], lambda x: type(x) is tuple and all(ok1(e) for e in x), [raw] * n, (v,), f"tuple[{d}, ...]"


def _unsup_host(rng, kind, ann, v, desc):
    """a class of the given kind with the attribute `x: ann` (required, defaulted or with a factory) among ordinary ones"""
    name = f"Us{next(_uid)}"
    mode = rng.choice(["required", "required", "default", "factory"]) if kind != "td" else rng.choice(["required", "notrequired"])
    if desc.startswith("final") and kind not in ("attrs", "dc"):
        kind = "attrs"
    others = [("n", int, 0)] + ([("s", str, "d")] if rng.random() < 0.5 else [])
    if kind == "attrs":
        kw = {"type": ann}
        if mode == "default":
            kw["default"] = v
        elif mode == "factory":
            kw["factory"] = lambda v=v: v
        if rng.random() < 0.2:
            kw["kw_only"] = True
        items = [("x", attrs.field(**kw))] + [(n, attrs.field(type=t, default=d)) for n, t, d in others]
        if mode == "required" and rng.random() < 0.5:
            items.append(("m", attrs.field(type=int)))
        rng.shuffle(items)
        items.sort(key=lambda kv: (kv[1]._default is not attrs.NOTHING) and not kv[1].kw_only)
        cl = attrs.make_class(name, dict(items), slots=rng.random() < 0.5, frozen=rng.random() < 0.3)
    elif kind == "dc":
        fx = ("x", ann) if mode == "required" else (
            "x", ann, dataclasses.field(default=v) if (mode == "default" and v.__class__.__hash__ is not None)
            else dataclasses.field(default_factory=lambda v=v: v))
        fl = [fx] + [(n, t, dataclasses.field(default=d)) for n, t, d in others]
        fl.sort(key=lambda f: len(f) == 3)
        cl = dataclasses.make_dataclass(name, fl)
    elif kind == "nt":
        ns = {"A": ann, "V": v, "NamedTuple": NamedTuple}
        src = f"class {name}(NamedTuple):\n    n: int\n    x: A" + (" = V" if mode != "required" else "") + "\n"
        exec(compile(src, f"<ext {name}>", "exec", dont_inherit=True), ns)
        cl = ns[name]
    else:
        from typing import NotRequired, TypedDict
        cl = TypedDict(name, {"n": int, "x": ann if mode == "required" else NotRequired[ann]})
    return cl, kind, mode


def run_c02_unsupported(chk, n_cases):
    """Types with an UNSUPPORTED component (a class cattrs has no structure hook for -- date, datetime, Decimal, Fraction,
    UUID, complex, a plain user class -- or a union it cannot disambiguate, `Union[int, str]`) at a typed position: as the
    type of an attribute / NamedTuple field / TypedDict key without any attrs converter, bare or inside containers /
    Optional / Final, the class itself nested in another class or a list.  No hook, fallback or converter is registered.
    Oracle (statement of C02): structure either raises or returns a value that conforms at every depth -- at the
    unsupported position only a genuine instance conforms (it can only come from the attribute's default), never the raw
    payload component.  Implementation-only; all converter classes / modes / forbid_extra_keys / prefer_attrib_converters."""
    import cattrs
    rng = chk.rng
    names = sorted(_unsup_table())
    for _ in range(n_cases):
        leaf = rng.choice(names)
        ann, ok, raw, v, desc = _unsup_shape(rng, leaf, rng.randint(0, 2))
        kind = rng.choice(["attrs", "attrs", "dc", "dc", "nt", "td", "top"])
        if kind in ("attrs", "dc") and rng.random() < 0.15:
            ann, desc = typing.Final[ann], f"final[{desc}]"      # (outermost only; understood by the generated hooks)
        if kind == "top":
            T, conf, base, hd = ann, ok, raw, desc
            mode = "-"
        else:
            cl, kind, mode = _unsup_host(rng, kind, ann, v, desc)
            if kind == "nt":
                conf = lambda r, cl=cl: type(r) is cl and len(r) == 2 and type(r[0]) is int and ok(r[1])   # noqa: E731
                base = [1, raw]
            elif kind == "td":
                conf = lambda r: type(r) is dict and type(r.get("n")) is int and ("x" not in r or ok(r["x"])) and (  # noqa: E731
                    "x" in r or mode != "required")
                base = {"n": 1, "x": raw}
            else:
                conf = lambda r, cl=cl: type(r) is cl and ok(r.x) and type(r.n) is int   # noqa: E731
                base = {"x": raw, "n": 1, "m": 2, "s": "t"}
                base = {k: b for k, b in base.items() if hasattr(cl, "__dataclass_fields__") and k in cl.__dataclass_fields__
                        or attrs.has(cl) and k in attrs.fields_dict(cl)}
            T, hd = cl, f"{kind} class with x: {desc} ({mode})"
        nest = rng.choice(["-", "-", "field", "list", "opt-field"]) if kind in ("attrs", "dc") else "-"
        if nest != "-":
            inner_T, inner_conf, inner_base = T, conf, base
            W = attrs.make_class(f"UsW{next(_uid)}", {"inner": attrs.field(
                type={"field": inner_T, "list": list[inner_T], "opt-field": Optional[inner_T]}[nest]), "k": attrs.field(type=int, default=0)})
            T = W
            conf = (lambda r, W=W: type(r) is W and type(r.k) is int and (
                all(inner_conf(e) for e in r.inner) and type(r.inner) is list if nest == "list"
                else (r.inner is None and nest == "opt-field") or inner_conf(r.inner)))
            base = {"inner": [inner_base] if nest == "list" else inner_base, "k": 1}
            hd = f"wrapper({nest}) of " + hd
        payloads = [("plausible", base)]
        if isinstance(base, dict):
            payloads.append(("junk-leaf", mutate_leaf(rng, base)))
            payloads.append(("mutated", mutate(rng, base)))
            if "x" in base:
                payloads.append(("x-missing", {k: b for k, b in base.items() if k != "x"}))
        else:
            payloads.append(("mutated", mutate(rng, base)))
        for ccls in (cattrs.Converter, cattrs.BaseConverter):
            if ccls is cattrs.BaseConverter and (kind in ("nt", "td") or "final" in desc or "odict" in desc):
                continue        # outside a BaseConverter's support (NamedTuple / TypedDict / Final; OrderedDict -> plain dict)
            for dv in (True, False):
                kw = {"detailed_validation": dv, "prefer_attrib_converters": rng.random() < 0.3}
                if ccls is cattrs.Converter and rng.random() < 0.3:
                    kw["forbid_extra_keys"] = True
                conv = ccls(**kw)
                for pk, p in payloads:
                    r = _try(lambda: conv.structure(p, T))
                    chk.count("ext:unsup" + hd + ccls.__name__ + str(sorted(kw.items())) + repr(p)[:200], sample=None)
                    chk.note("unsupported-stream:" + leaf, "unsupported-stream:host:" + kind + ":" + mode,
                             "unsupported-stream:outcome:" + r[0], "unsupported-stream:nest:" + nest)
                    if r[0] == "ok" and not conf(r[1]):
                        chk.violation(
                            f"C02 oracle (unsupported-type stream): {ccls.__name__}({', '.join(f'{a}={b}' for a, b in sorted(kw.items()))})"
                            f".structure({p!r:.160}, <{hd}>) returned the non-conforming {r[1]!r:.200} (no structure hook exists for the "
                            "unsupported component of `x`: only a genuine instance conforms there, a raw payload component has to make the call raise)",
                            {"ext": True, "stream": "unsupported", "type": hd, "payload": repr(p)[:300], "converter": ccls.__name__,
                             "options": repr(sorted(kw.items())), "got": repr(r[1])[:300]})


# ------------------------------------------------------------------------------------------------ C04: histories
# ("otherwise identical converter": the same sequence of registrations and uses applied to both -- the modes must agree
# after EVERY step, not only on a freshly configured converter)

class _NewResult:
    """what the late-registered hooks return: recognisably not what the default hook of the member builds"""

    def __init__(self, tag, raw):
        self.tag, self.raw = tag, raw

    def __eq__(self, other):
        return type(other) is _NewResult and (other.tag, other.raw) == (self.tag, self.raw)

    def __hash__(self):
        return hash((self.tag, self.raw))

    def __repr__(self):
        return f"<new-hook {self.tag}: {self.raw}>"


def _hist_members(rng):
    """member types whose hook a later registration may change: (description, annotation, payloads, has classmethod)"""
    import enum
    u = next(_uid)
    A = attrs.make_class(f"HmA{u}", {"a": attrs.field(type=int), "b": attrs.field(type=str, default="d")}, slots=rng.random() < 0.5)
    A._verif_from = classmethod(lambda cls, data: cls(int(data["a"]) * 100))
    D = dataclasses.make_dataclass(f"HmD{u}", [("a", int), ("c", list[int], dataclasses.field(default_factory=list))])
    D._verif_from = classmethod(lambda cls, data: cls(-int(data["a"])))
    from typing import TypedDict
    TD = TypedDict(f"HmT{u}", {"a": int})
    NT = NamedTuple(f"HmN{u}", [("a", int), ("s", str)])
    E = enum.Enum(f"HmE{u}", {"P": "p", "Q": "q"})
    cls_p = [{"a": 1}, {"a": "5"}, {"a": "x"}, {}, {"a": 2, "b": "z", "c": [1]}, None, 3]
    return [
        ("attrs-class", A, cls_p, True), ("dataclass", D, cls_p, True), ("typeddict", TD, cls_p, False),
        ("namedtuple", NT, [[1, "s"], ["2", 3], [1], "ab", None], False),
        ("optional-int", Optional[int], [1, None, "7", "x", [1]], False), ("list-int", list[int], [[1], ["2"], "ab", [None], 5], False),
        ("newtype-int", typing.NewType(f"HmNT{u}", int), [1, "3", "x", None], False),
        ("literal", Literal["p", "q"], ["p", "r", 1], False), ("enum", E, ["p", "r", None], False),
        ("int", int, [1, "2", "x", None], False), ("union-of-classes", Union[A, D], cls_p, False),
        ("optional-class", Optional[A], cls_p, False), ("dict-str-int", dict[str, int], [{"k": 1}, {"k": "2"}, {"k": "x"}, [], None], False),
    ]


def _hist_containers(rng, M):
    """types with M at a typed position: (description, annotation, payload-of-member -> payload)"""
    import collections
    u = next(_uid)
    H = attrs.make_class(f"HcA{u}", {"m": attrs.field(type=M), "n": attrs.field(type=int, default=0)})
    HT = attrs.make_class(f"HcAT{u}", {"t": attrs.field(type=tuple[M, int])})
    HD = dataclasses.make_dataclass(f"HcD{u}", [("m", M)])
    from typing import NotRequired, TypedDict
    TD = TypedDict(f"HcT{u}", {"m": M, "o": NotRequired[M]})
    TDo = TypedDict(f"HcTo{u}", {"o": NotRequired[M], "k": int})
    TDf = TypedDict(f"HcTf{u}", {"o": list[M]}, total=False)
    ns = {"M": M, "NamedTuple": NamedTuple}
    exec(compile(f"class HcN{u}(NamedTuple):\n    m: M\n    k: int = 0\n", "<hist>", "exec", dont_inherit=True), ns)
    NT = ns[f"HcN{u}"]
    return [
        ("itself", M, lambda p: p), ("tuple[M, int]", tuple[M, int], lambda p: [p, 1]), ("tuple[int, M]", tuple[int, M], lambda p: (2, p)),
        ("tuple[M, M]", tuple[M, M], lambda p: [p, p]), ("NamedTuple(m: M, k: int = 0)", NT, lambda p: [p, 3]),
        ("list[M]", list[M], lambda p: [p, p]), ("tuple[M, ...]", tuple[M, ...], lambda p: [p]),
        ("dict[str, M]", dict[str, M], lambda p: {"k": p}), ("Optional[tuple[M, int]]", Optional[tuple[M, int]], lambda p: [p, 1]),
        ("deque[M]", collections.deque[M], lambda p: [p]), ("attrs class(m: M)", H, lambda p: {"m": p, "n": 1}),
        ("attrs class(t: tuple[M, int])", HT, lambda p: {"t": [p, 1]}), ("dataclass(m: M)", HD, lambda p: {"m": p}),
        ("TypedDict(m: M, o: NotRequired[M])", TD, lambda p: {"m": p, "o": p}),
        ("list[tuple[M, int]]", list[tuple[M, int]], lambda p: [[p, 1], [p, 2]]),
        ("TypedDict(o: NotRequired[M], k: int)", TDo, lambda p: {"o": p, "k": 1}),
        ("TypedDict(total=False; o: list[M])", TDf, lambda p: {"o": [p]}),
        ("dict[str, NamedTuple(m: M)]", dict[str, NT], lambda p: {"k": [p]}),
    ]


def _hist_registration(rng, mdesc, M, has_cm):
    """-> (description, apply(converter)): ONE way of changing the hook of M after the converter has been used"""
    behaviour = rng.choice(["accept-all", "reject-all", "reject-some"])
    # the exception class a rejecting hook raises: also the ones hook templates use for their own control flow
    exc = rng.choice([ValueError, KeyError, KeyError, IndexError, AttributeError, TypeError, LookupError, StopIteration, RuntimeError])
    if behaviour != "accept-all":
        behaviour += ":" + exc.__name__

    def new_hook(v, t=None):
        if behaviour.startswith("reject-all") or (behaviour.startswith("reject-some") and not isinstance(v, (dict, int))):
            raise exc("late-registered hook rejects")
        return _NewResult(behaviour, repr(v))

    def is_m(t):
        return t is M or (t == M and type(t) is type(M))

    apis = ["hook", "hook_func", "factory", "factory-decorator", "factory-extended", "hook_func-then-factory"]
    if has_cm:
        apis += ["use_class_methods", "use_class_methods"]
    api = rng.choice(apis)

    def apply(conv):
        if api == "hook":
            conv.register_structure_hook(M, new_hook)
        elif api == "hook_func":
            conv.register_structure_hook_func(is_m, new_hook)
        elif api == "factory":
            conv.register_structure_hook_factory(is_m, lambda t: new_hook)
        elif api == "factory-decorator":
            @conv.register_structure_hook_factory(is_m)
            def _fac(t):
                return new_hook
        elif api == "factory-extended":
            conv.register_structure_hook_factory(is_m, lambda t, c: new_hook)
        elif api == "hook_func-then-factory":
            conv.register_structure_hook_func(is_m, lambda v, t: (_ for _ in ()).throw(TypeError("shadowed")))
            conv.register_structure_hook_factory(is_m, lambda t: new_hook)
        else:
            from cattrs.strategies import use_class_methods
            use_class_methods(conv, "_verif_from")
    return f"{api}({mdesc}; {behaviour})", apply


def run_c04_histories(chk, n_cases):
    """Twin converters (detailed_validation True / False, same class, same options) driven through the SAME history of
    uses and registrations: structure with 1-2 types that hold a member type M at a typed position (heterogeneous tuples,
    NamedTuples, lists, mappings, Optional, attributes, TypedDict keys, M itself), THEN a registration that changes M's hook
    through one of the registration APIs (register_structure_hook, register_structure_hook_func,
    register_structure_hook_factory in its plain / decorator / two-argument forms, the use_class_methods strategy), THEN
    the same uses again, possibly a second registration or a copy(), and again.  Oracle (statement of C04): after every
    step the two converters accept the same payloads with equal results, and hook creation succeeds in both or neither."""
    import cattrs
    rng = chk.rng
    for _ in range(n_cases):
        members = _hist_members(rng)
        mdesc, M, mpayloads, has_cm = rng.choice(members)
        conts = _hist_containers(rng, M)
        used = rng.sample(conts, rng.randint(1, 3))
        if rng.random() < 0.6 and not any(d.startswith(("tuple[M, int]", "NamedTuple", "tuple[int, M]")) for d, _, _ in used):
            used.append(rng.choice(conts[1:5]))
        steps = ["use", "register", "use"]
        for _k in range(rng.randint(0, 2)):
            steps += [rng.choice(["register", "copy", "register"]), "use"]
        regs = [_hist_registration(rng, mdesc, M, has_cm) for s in steps if s == "register"]
        for ccls in (cattrs.Converter, cattrs.BaseConverter):
            kw = {"prefer_attrib_converters": True} if rng.random() < 0.2 else {}
            if ccls is cattrs.Converter and rng.random() < 0.25:
                kw["forbid_extra_keys"] = True
            cd, cf = ccls(detailed_validation=True, **kw), ccls(detailed_validation=False, **kw)
            history, ri = [], 0
            bad = None
            for s in steps:
                if s == "register":
                    rdesc, apply = regs[ri]
                    ri += 1
                    ed, ef = _try(lambda: apply(cd)), _try(lambda: apply(cf))
                    history.append(rdesc + ("" if ed[0] == "ok" else f" -> raised {type(ed[1]).__name__}"))
                    chk.note("history-stream:register:" + rdesc.split("(")[0])
                    if ed[0] != ef[0]:
                        bad = f"registration {rdesc}: detailed -> {ed!r:.100}, fast -> {ef!r:.100}"
                elif s == "copy":
                    cd, cf = cd.copy(), cf.copy()
                    history.append("copy()")
                    chk.note("history-stream:copy")
                else:
                    for cdesc, T, wrap in used:
                        hd, hf = _try(lambda: cd.get_structure_hook(T)), _try(lambda: cf.get_structure_hook(T))
                        if hd[0] != hf[0] and bad is None:
                            bad = f"hook creation for {cdesc} with M = {mdesc}: detailed -> {hd!r:.100}, fast -> {hf!r:.100}"
                        for mp in mpayloads:
                            p = wrap(mp)
                            rd, rf = _try(lambda: cd.structure(p, T)), _try(lambda: cf.structure(p, T))
                            chk.count(f"ext:hist{ccls.__name__}{mdesc}{cdesc}{history}{p!r}", sample=None)
                            chk.note("history-stream:use:" + ("before-registration" if ri == 0 else "after-registration"),
                                     "history-stream:container:" + cdesc, "history-stream:outcome:" + rd[0] + "/" + rf[0])
                            od, of = _outcome(rd), _outcome(rf)
                            if (od[0] != of[0] or (od[0] == "ok" and not same(od[1], of[1]))) and bad is None:
                                bad = (f"structure({p!r:.120}, {cdesc}) with M = {mdesc}: detailed -> {rd!r:.140}, fast -> {rf!r:.140}")
                    history.append("use " + ", ".join(d for d, _, _ in used))
                if bad is not None:
                    break
            if bad is not None:
                chk.violation(f"C04 oracle (history stream): {ccls.__name__}({', '.join(f'{a}={b}' for a, b in sorted(kw.items()))}) after the history "
                              f"[{'; '.join(history)}]: {bad}",
                              {"ext": True, "stream": "histories", "converter": ccls.__name__, "options": repr(sorted(kw.items())),
                               "member": mdesc, "history": history, "what": bad})
