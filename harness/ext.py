"""Extended, implementation-only oracle stream for the data-path properties (C01, C02, C04).

The Lean model covers attrs classes, dataclasses, TypedDicts, enums, literals and the collections.  The properties
also speak about inputs and types outside that fragment; this module exercises some of them on the REAL code only
(no model, hence no correspondence): it can only ever produce a violation *with* a failing input, which is its
purpose -- it supports the search for failing inputs, it proves nothing.

  * class unions told apart by a Literal-typed tag field or by unique required fields (automatic disambiguation),
    also as Optional, as field types with defaults, inside collections;
  * NamedTuples (with defaults), nested;
  * user structure hooks that look a value up in a table and raise KeyError for unknown keys (a registry hook);
  * one-shot iterables (generators, iterators, map objects) as payloads at sequence positions.

Python-level descriptions only:   ("int"|"str"|"bool"), ("list", t), ("tup*", t), ("dict", kt, vt), ("opt", t),
("cls", K) for a realised class K, ("union", [K...]), ("nt", NT), ("reg",).
"""
from __future__ import annotations

import dataclasses
import itertools
import typing
from typing import Literal, NamedTuple, Optional, Union

import attrs

_uid = itertools.count()
_ADDR = __import__("re").compile(r"0x[0-9a-f]+")


class RegValue:
    """values produced by the registry hook"""

    def __init__(self, key):
        self.key = key

    def __eq__(self, other):
        return type(other) is RegValue and other.key == self.key

    def __hash__(self):
        return hash(("RegValue", self.key))

    def __repr__(self):
        return f"RegValue({self.key!r})"


REG_TABLE = {"a": RegValue("a"), "b": RegValue("b"), 1: RegValue(1)}


def install_registry_hooks(conv):
    conv.register_structure_hook(RegValue, lambda v, _: REG_TABLE[v])       # KeyError for unknown keys
    conv.register_unstructure_hook(RegValue, lambda v: v.key)


# ------------------------------------------------------------------------------------------------ generation

class ExtGen:
    def __init__(self, rng):
        self.rng = rng

    def leaf_ty(self):
        return self.rng.choice(["int", "str", "bool"])

    def make_union_members(self, n, tagged):
        """n attrs classes / dataclasses; `tagged`: told apart by a Literal tag field, else by unique required fields"""
        r = self.rng
        members = []
        u = next(_uid)
        for i in range(n):
            fields = []
            if tagged:
                fields.append(("kind", ("lit", [f"k{i}"]), False))
            fields.append((f"u{i}", self.leaf_ty(), False))                   # unique required field
            if r.random() < 0.6:
                fields.append(("shared", self.leaf_ty(), r.random() < 0.5))    # shared (maybe defaulted) field
            members.append(self.realise_class(f"XU{u}_{i}", fields, r.choice(["attrs", "dc"])))
        return members

    def realise_class(self, name, fields, kind):
        """fields: (name, type description, has_default)"""
        if kind == "attrs":
            d = {}
            for n, t, dflt in fields:
                kw = {"type": self.py_ty(t)}
                if dflt or (t[0] == "lit" if isinstance(t, tuple) else False):
                    v = self.value(t) if not (isinstance(t, tuple) and t[0] == "lit") else t[1][0]
                    if isinstance(v, (int, str, bool, type(None))):
                        kw["default"] = v
                    else:
                        kw["factory"] = (lambda v=v: v)
                d[n] = attrs.field(**kw)
            # attrs wants defaulted attributes last
            d = dict(sorted(d.items(), key=lambda kv: kv[1]._default is not attrs.NOTHING))
            cl = attrs.make_class(name, d)
        else:
            fl = []
            for n, t, dflt in fields:
                if dflt or (isinstance(t, tuple) and t[0] == "lit"):
                    v = self.value(t) if not (isinstance(t, tuple) and t[0] == "lit") else t[1][0]
                    if isinstance(v, (int, str, bool, type(None))):
                        fl.append((n, self.py_ty(t), dataclasses.field(default=v)))
                    else:
                        fl.append((n, self.py_ty(t), dataclasses.field(default_factory=(lambda v=v: v))))
                else:
                    fl.append((n, self.py_ty(t)))
            fl.sort(key=lambda f: len(f) == 3)
            cl = dataclasses.make_dataclass(name, fl)
        cl._ext_fields = [(n, t) for n, t, _ in fields]
        return cl

    def make_namedtuple(self):
        r = self.rng
        n = r.randint(1, 3)
        fields = [(f"f{i}", self.leaf_ty()) for i in range(n)]
        nd = r.randint(0, n)
        name = f"XN{next(_uid)}"
        lines = [f"class {name}(NamedTuple):"]
        for i, (k, t) in enumerate(fields):
            lines.append(f"    {k}: {t}" + (f" = {self.value(t)!r}" if i >= n - nd else ""))
        ns = {"NamedTuple": NamedTuple}
        exec(compile("\n".join(lines), f"<ext {name}>", "exec", dont_inherit=True), ns)  # no PEP 563 strings
        cl = ns[name]
        cl._ext_fields = fields
        return cl

    def py_ty(self, t):
        if isinstance(t, str):
            return {"int": int, "str": str, "bool": bool}[t]
        k = t[0]
        if k == "lit":
            return Literal[tuple(t[1])]
        if k == "list":
            return list[self.py_ty(t[1])]
        if k == "tup*":
            return tuple[self.py_ty(t[1]), ...]
        if k == "dict":
            return dict[self.py_ty(t[1]), self.py_ty(t[2])]
        if k == "opt":
            return Optional[self.py_ty(t[1])]
        if k in ("cls", "nt"):
            return t[1]
        if k == "union":
            return Union[tuple(t[1])]
        if k == "reg":
            return RegValue
        raise ValueError(t)

    def value(self, t, depth=2):
        r = self.rng
        if isinstance(t, str):
            return {"int": lambda: r.randint(-5, 40), "str": lambda: r.choice(["", "a", "zz", "7"]),
                    "bool": lambda: r.random() < 0.5}[t]()
        k = t[0]
        if k == "lit":
            return r.choice(t[1])
        n = r.randint(0, 2 if depth > 0 else 0)
        if k == "list":
            return [self.value(t[1], depth - 1) for _ in range(n)]
        if k == "tup*":
            return tuple(self.value(t[1], depth - 1) for _ in range(n))
        if k == "dict":
            return {self.value(t[1], depth - 1): self.value(t[2], depth - 1) for _ in range(n)}
        if k == "opt":
            return None if r.random() < 0.3 else self.value(t[1], depth)
        if k == "cls":
            return t[1](**{n_: self.value(ft, depth - 1) for n_, ft in t[1]._ext_fields})
        if k == "nt":
            return t[1](*[self.value(ft, depth - 1) for _, ft in t[1]._ext_fields])
        if k == "union":
            m = r.choice(t[1])
            return self.value(("cls", m), depth)
        if k == "reg":
            return REG_TABLE[r.choice(list(REG_TABLE))]
        raise ValueError(t)

    def holder(self, inner, with_default):
        """a class with one field of type `inner` (possibly defaulted) and one plain field"""
        u = next(_uid)
        fields = [("x", inner, with_default), ("n", "int", False)]
        return self.realise_class(f"XH{u}", fields, self.rng.choice(["attrs", "dc"]))

    def type(self, depth=2):
        """a random extended type"""
        r = self.rng
        c = r.random()
        if depth <= 0 or c < 0.15:
            base = r.choice(["union-tag", "union-uniq", "nt", "reg"])
            if base == "union-tag":
                return ("union", self.make_union_members(r.randint(2, 3), True))
            if base == "union-uniq":
                return ("union", self.make_union_members(r.randint(2, 3), False))
            if base == "nt":
                return ("nt", self.make_namedtuple())
            return ("reg",)
        if c < 0.3:
            return ("list", self.type(depth - 1))
        if c < 0.4:
            return ("tup*", self.type(depth - 1))
        if c < 0.55:
            return ("dict", r.choice(["str", "int"]), self.type(depth - 1))
        if c < 0.7:
            inner = self.type(depth - 1)
            return inner if inner[0] == "opt" else ("opt", inner)
        return ("cls", self.holder(self.type(depth - 1), r.random() < 0.5))


# ------------------------------------------------------------------------------------------------ oracles

def same(a, b):
    """equal and of the same class at every depth"""
    if type(a) is not type(b):
        return False
    if isinstance(a, (list, tuple)) and not hasattr(a, "_fields"):
        return len(a) == len(b) and all(same(x, y) for x, y in zip(a, b))
    if isinstance(a, tuple):
        return len(a) == len(b) and all(same(x, y) for x, y in zip(a, b))
    if isinstance(a, dict):
        return list(a.keys()) == list(b.keys()) and all(same(a[k], b[k]) for k in a)
    if attrs.has(type(a)):
        return all(same(getattr(a, f.name), getattr(b, f.name)) for f in attrs.fields(type(a)))
    if dataclasses.is_dataclass(a):
        return all(same(getattr(a, f.name), getattr(b, f.name)) for f in dataclasses.fields(a))
    if type(a) is str and a != b:
        # `str(obj)` of a one-shot iterable met at a `str` position carries its memory address: two fresh payloads differ
        return _ADDR.sub("0x", a) == _ADDR.sub("0x", b)
    return a == b


def conforms(t, v):
    """independent conformance walker for the extended types (from the property statement)"""
    if isinstance(t, str):
        return type(v) is {"int": int, "str": str, "bool": bool}[t]
    k = t[0]
    if k == "lit":
        return any(type(v) is type(x) and v == x for x in t[1])
    if k == "list":
        return type(v) is list and all(conforms(t[1], x) for x in v)
    if k == "tup*":
        return type(v) is tuple and all(conforms(t[1], x) for x in v)
    if k == "dict":
        return type(v) is dict and all(conforms(t[1], a) and conforms(t[2], b) for a, b in v.items())
    if k == "opt":
        return v is None or conforms(t[1], v)
    if k == "cls":
        return type(v) is t[1] and all(conforms(ft, getattr(v, n)) for n, ft in t[1]._ext_fields)
    if k == "nt":
        return type(v) is t[1] and len(v) == len(t[1]._ext_fields) and all(conforms(ft, x) for (_, ft), x in zip(t[1]._ext_fields, v))
    if k == "union":
        return any(conforms(("cls", m), v) for m in t[1])
    if k == "reg":
        return type(v) is RegValue and REG_TABLE.get(v.key) == v
    raise ValueError(t)


def mutate(rng, p, depth=0):
    """corrupt one place of an unstructured payload"""
    c = rng.random()
    if isinstance(p, dict) and p and c < 0.8:
        k = rng.choice(list(p))
        q = dict(p)
        c2 = rng.random()
        if c2 < 0.25:
            del q[k]
        elif c2 < 0.7:
            q[k] = mutate(rng, p[k], depth + 1)
        else:
            q[k] = rng.choice(["zz?", None, [], {}, 12345, "k9"])
        return q
    if isinstance(p, (list, tuple)) and p and c < 0.8:
        i = rng.randrange(len(p))
        q = list(p)
        q[i] = mutate(rng, p[i], depth + 1)
        return type(p)(q) if type(p) in (list, tuple) else q
    return rng.choice(["zz?", None, [], {}, 12345, "k9", "nope", -1])


def one_shot_variants(rng, p):
    """factories that rebuild the payload with its top-level (and maybe one nested) sequence as a one-shot iterable"""
    out = []
    if isinstance(p, (list, tuple)):
        out.append(("generator", lambda: (x for x in p)))
        out.append(("iterator", lambda: iter(list(p))))
        out.append(("map", lambda: map(lambda x: x, p)))
        if any(isinstance(x, (list, tuple)) for x in p):
            out.append(("nested-iterators", lambda: [iter(list(x)) if isinstance(x, (list, tuple)) else x for x in p]))
    if isinstance(p, dict):
        ks = [k for k, v in p.items() if isinstance(v, (list, tuple))]
        if ks:
            k = rng.choice(ks)
            out.append(("dict-value-generator", lambda: {**p, k: (x for x in p[k])}))
    return out


def describe(t):
    if isinstance(t, str):
        return t
    k = t[0]
    if k in ("cls", "nt"):
        return f"{k}:{t[1].__name__}({', '.join(n + ': ' + describe(ft) for n, ft in t[1]._ext_fields)})"
    if k == "union":
        return "union[" + " | ".join(describe(("cls", m)) for m in t[1]) + "]"
    if k == "lit":
        return f"lit{t[1]}"
    if k == "reg":
        return "reg"
    return f"{k}[" + ", ".join(describe(x) for x in t[1:]) + "]"


# ------------------------------------------------------------------------------------------------ check entry points

def _converters():
    import cattrs
    out = []
    for cls in (cattrs.Converter, cattrs.BaseConverter):
        for dv in (True, False):
            c = cls(detailed_validation=dv)
            install_registry_hooks(c)
            out.append((f"{cls.__name__}/{'detailed' if dv else 'fast'}", c))
    return out


def _try(f):
    try:
        return ("ok", f())
    except Exception as e:  # noqa: BLE001
        return ("err", e)


def run_c01(chk, n_types):
    """round trip on the extended types (implementation-only oracle)"""
    G = ExtGen(chk.rng)
    for _ in range(n_types):
        t = G.type(2)
        T = G.py_ty(t)
        for name, conv in _converters():
            x = G.value(t)
            r = _try(lambda: conv.structure(conv.unstructure(x, unstructure_as=T), T))
            chk.count("ext:" + name + describe(t) + repr(x), sample=None)
            chk.note("ext-stream:roundtrip")
            if r[0] != "ok" or not same(r[1], x):
                chk.violation(f"C01 oracle (extended stream, implementation only): round trip of {x!r} as {describe(t)} on {name} gives {r!r:.300}",
                              {"ext": True, "type": describe(t), "value": repr(x), "converter": name, "got": repr(r)[:500]})


def run_c02(chk, n_types):
    """soundness on the extended types: accepted results conform; a present-but-invalid component of a class
    position is never replaced by the default or dropped"""
    G = ExtGen(chk.rng)
    rng = chk.rng
    for _ in range(n_types):
        t = G.type(2)
        T = G.py_ty(t)
        for name, conv in _converters():
            x = G.value(t)
            u = _try(lambda: conv.unstructure(x, unstructure_as=T))
            if u[0] != "ok":
                continue
            payloads = [u[1]] + [mutate(rng, u[1]) for _ in range(3)]
            for p in payloads:
                r = _try(lambda: conv.structure(p, T))
                chk.count("ext:" + name + describe(t) + repr(p), sample=None)
                chk.note("ext-stream:structure:" + r[0])
                case = {"ext": True, "type": describe(t), "payload": repr(p), "converter": name, "got": repr(r)[:500]}
                if r[0] == "ok" and not conforms(t, r[1]):
                    chk.violation(f"C02 oracle (extended stream): structure({p!r}, {describe(t)}) on {name} returned the non-conforming {r[1]!r}", case)
                    continue
                # compositional: every key of a class-position payload that is present must have been structured
                if t[0] == "cls" and isinstance(p, dict):
                    for fname, ft in t[1]._ext_fields:
                        if fname not in p:
                            continue
                        rf = _try(lambda: conv.structure(p[fname], G.py_ty(ft)))
                        if rf[0] == "err" and r[0] == "ok":
                            chk.violation(
                                f"C02 oracle (extended stream): field {fname!r} of the payload {p!r} is present but invalid for "
                                f"{describe(ft)} ({rf[1]!r:.120}), yet structuring {describe(t)} on {name} succeeded with {r[1]!r} "
                                "(component silently defaulted or dropped)", case)
                        elif rf[0] == "ok" and r[0] == "ok" and not same(getattr(r[1], fname), rf[1]):
                            chk.violation(
                                f"C02 oracle (extended stream): field {fname!r}: structured alone gives {rf[1]!r}, inside {describe(t)} on {name} "
                                f"the result holds {getattr(r[1], fname)!r}", case)


def _outcome(r):
    return ("ok", r[1]) if r[0] == "ok" else ("err",)


def run_c04(chk, n_types):
    """both validation modes accept the same inputs with equal results: extended types, one-shot iterables"""
    import cattrs
    G = ExtGen(chk.rng)
    rng = chk.rng
    for _ in range(n_types):
        t = G.type(2)
        T = G.py_ty(t)
        for cls in (cattrs.Converter, cattrs.BaseConverter):
            cd, cf = cls(detailed_validation=True), cls(detailed_validation=False)
            install_registry_hooks(cd)
            install_registry_hooks(cf)
            x = G.value(t)
            u = _try(lambda: cd.unstructure(x, unstructure_as=T))
            if u[0] != "ok":
                continue
            cases = [("valid", lambda p=u[1]: p)]
            for _ in range(3):
                m = mutate(rng, u[1])
                cases.append(("mutated", lambda m=m: m))
                for kind, fac in one_shot_variants(rng, m):
                    cases.append((kind, fac))
            for kind, fac in one_shot_variants(rng, u[1]):
                cases.append((kind, fac))
            for kind, fac in cases:
                rd = _try(lambda: cd.structure(fac(), T))
                rf = _try(lambda: cf.structure(fac(), T))
                chk.count("ext:" + cls.__name__ + describe(t) + kind + repr(fac())[:200], sample=None)
                chk.note("ext-stream:" + kind)
                od, of = _outcome(rd), _outcome(rf)
                if od[0] != of[0] or (od[0] == "ok" and not same(od[1], of[1])):
                    chk.violation(
                        f"C04 oracle (extended stream): {cls.__name__} structure(<{kind}> {fac()!r:.200}, {describe(t)}): detailed -> {rd!r:.160}, fast -> {rf!r:.160}",
                        {"ext": True, "type": describe(t), "payload_kind": kind, "payload": repr(list(fac()) if kind in ("generator", "iterator", "map") else fac())[:400],
                         "converter": cls.__name__, "detailed": repr(rd)[:300], "fast": repr(rf)[:300]})


def mutate_leaf(rng, p):
    """corrupt one LEAF (or delete one key) of a payload; containers keep their kind, so class positions keep holding mappings"""
    if isinstance(p, dict) and p:
        k = rng.choice(list(p))
        q = dict(p)
        if rng.random() < 0.2:
            del q[k]
        else:
            q[k] = mutate_leaf(rng, p[k])
        return q
    if isinstance(p, (list, tuple)) and p:
        i = rng.randrange(len(p))
        q = list(p)
        q[i] = mutate_leaf(rng, p[i])
        return type(p)(q) if type(p) in (list, tuple) else q
    if isinstance(p, (dict, list, tuple)):
        return p
    return rng.choice(["zz?", None, 12345, "k9", "nope", -1, 2.5])


def run_c06(chk, n_types):
    """Converter and BaseConverter agree (same outcome, equal results) on the extended types for payloads whose class
    positions hold mappings; implementation-only"""
    import cattrs
    G = ExtGen(chk.rng)
    rng = chk.rng
    for _ in range(n_types):
        t = G.type(2)
        T = G.py_ty(t)
        for dv in (True, False):
            cg, cb = cattrs.Converter(detailed_validation=dv), cattrs.BaseConverter(detailed_validation=dv)
            install_registry_hooks(cg)
            install_registry_hooks(cb)
            x = G.value(t)
            u = _try(lambda: cg.unstructure(x, unstructure_as=T))
            if u[0] != "ok":
                continue
            for p in [u[1]] + [mutate_leaf(rng, u[1]) for _ in range(3)]:
                rg = _try(lambda: cg.structure(p, T))
                rb = _try(lambda: cb.structure(p, T))
                chk.count("ext:c06" + describe(t) + repr(p)[:300], sample=None)
                chk.note("ext-stream:engines:" + rg[0] + "/" + rb[0])
                og, ob = _outcome(rg), _outcome(rb)
                if og[0] != ob[0] or (og[0] == "ok" and not same(og[1], ob[1])):
                    chk.violation(
                        f"C06 oracle (extended stream): structure({p!r:.200}, {describe(t)}), detailed_validation={dv}: Converter -> {rg!r:.160}, "
                        f"BaseConverter -> {rb!r:.160}",
                        {"ext": True, "type": describe(t), "payload": repr(p)[:400], "detailed": dv,
                         "converter": repr(rg)[:300], "baseconverter": repr(rb)[:300]})


# ------------------------------------------------------------------------------------------------ C03: mixin enums

F59_SIG = "str-mixin-enum-member-survives"


def _mixin_enums():
    """Enum classes with a data-type mix-in (the core model's enums are plain `Enum` classes)"""
    import enum

    class IE(enum.IntEnum):
        A = 1
        B = 7

    class IF(enum.IntFlag):
        R = 1
        W = 2

    class FE(float, enum.Enum):
        H = 1.5
        Z = 0.0

    class SE(str, enum.Enum):
        A = "a"
        B = "bz"

    class BE(bytes, enum.Enum):
        X = b"x"

    out = [IE, IF, FE, SE, BE]
    if hasattr(enum, "StrEnum"):
        class SN(enum.StrEnum):
            A = "a"
        out.append(SN)
    return out


def _enum_leftovers(o, acc):
    """enum members surviving anywhere inside an unstructured object"""
    import enum
    if isinstance(o, enum.Enum):
        acc.append(o)
    elif isinstance(o, dict):
        for k, v in o.items():
            _enum_leftovers(k, acc)
            _enum_leftovers(v, acc)
    elif isinstance(o, (list, tuple, set, frozenset)):
        for e in o:
            _enum_leftovers(e, acc)
    return acc


def run_c03(chk):
    """C03 on enums with a data-type mix-in (IntEnum, IntFlag, (float, Enum), (str, Enum), StrEnum, (bytes, Enum)),
    implementation only: wherever a member sits -- declared type, Optional, Any, list element, dict key and value,
    attrs field, run-time class -- the output holds its VALUE (exact builtin class) and no enum member.
    Deterministic (no random choice)."""
    import typing
    import attrs
    import cattrs
    from cattrs import UnstructureStrategy
    for E in _mixin_enums():
        members = list(E)
        if issubclass(E, __import__("enum").IntFlag):
            members.append(members[0] | members[1])
        Holder = attrs.make_class("H_" + E.__name__, {"m": attrs.field(type=E), "o": attrs.field(type=typing.Optional[E]),
                                                      "a": attrs.field(type=typing.Any)})
        for cname, cls in (("Converter", cattrs.Converter), ("BaseConverter", cattrs.BaseConverter)):
            for sname, strat in (("dict", UnstructureStrategy.AS_DICT), ("tuple", UnstructureStrategy.AS_TUPLE)):
                conv = cls(unstruct_strat=strat)
                for m in members:
                    val = m.value
                    cases = [
                        ("as-E", lambda: conv.unstructure(m, unstructure_as=E), val),
                        ("runtime", lambda: conv.unstructure(m), val),
                        ("Optional[E]", lambda: conv.unstructure(m, unstructure_as=typing.Optional[E]), val),
                        ("Any", lambda: conv.unstructure(m, unstructure_as=typing.Any), val),
                        ("list[E]", lambda: conv.unstructure([m], unstructure_as=typing.List[E]), [val]),
                        ("list-runtime", lambda: conv.unstructure([m]), [val]),
                        ("dict[E,E]", lambda: conv.unstructure({m: m}, unstructure_as=typing.Dict[E, E]), {val: val}),
                        ("dict-runtime", lambda: conv.unstructure({m: m}), {val: val}),
                        ("attrs-fields", lambda: conv.unstructure(Holder(m, m, m)),
                         {"m": val, "o": val, "a": val} if sname == "dict" else (val, val, val)),
                    ]
                    for pos, f, want in cases:
                        r = _try(f)
                        key = f"ext:mixin-enum:{E.__name__}:{m!r}:{cname}/{sname}:{pos}"
                        chk.count(key, sample=None)
                        chk.note("ext-stream:mixin-enum:" + E.__mro__[1].__name__)
                        ok = r[0] == "ok" and not _enum_leftovers(r[1], []) and same(r[1], want)
                        if ok:
                            continue
                        left = _enum_leftovers(r[1], []) if r[0] == "ok" else []
                        # F59: the surviving object is a member of an Enum class that also subclasses str or bytes
                        f59 = bool(left) and all(isinstance(x, (str, bytes)) for x in left)
                        chk.violation(
                            f"C03 oracle (extended stream, implementation only): unstructure of {m!r} at position {pos} on "
                            f"{cname}/{sname} gives {r[1]!r:.200}, expected {want!r}",
                            {"ext": True, "probe": F59_SIG if f59 else "mixin-enum", "enum": E.__name__, "member": repr(m),
                             "position": pos, "converter": cname + "/" + sname, "got": repr(r[1])[:300]})


# ------------------------------------------------------------------------------------------------ Literal[...] over enum members
# IMPLEMENTATION-ONLY stream (no model): `Literal[...]` types whose arguments are members of enum classes WITH a data-type
# mix-in (IntEnum, (str, Enum), StrEnum -- their members compare equal to their values and to equal-valued members of
# other classes; the core worlds only have plain `Enum` classes, whose members are equal to nothing else) next to plain
# `Enum` members and plain values.  Several literals whose argument tuples are position-wise EQUAL (`Literal[Color.RED]`,
# `Literal[Fruit.APPLE]`, `Literal[1]`) are structured one after another on the same converters in the same process, so
# that anything remembered per literal under a key that only looks at `==` / `hash` of the arguments shows.

def _literal_enum_families():
    import enum

    class Color(enum.IntEnum):
        RED = 1
        GREEN = 2

    class Fruit(enum.IntEnum):
        APPLE = 1
        PEAR = 2

    class Suit(str, enum.Enum):
        HEARTS = "h"
        SPADES = "s"

    class Shape(str, enum.Enum):
        HEXAGON = "h"
        SQUARE = "s"

    class Plain(enum.Enum):
        ONE = 1
        TWO = 2

    class Other(enum.Enum):
        UN = 1
        DEUX = 2

    fams = [[Color, Fruit, Plain, Other], [Suit, Shape]]
    if hasattr(enum, "StrEnum"):
        class Tag(enum.StrEnum):
            H = "h"
            S = "s"
        fams[1].append(Tag)
    return fams


def _lit_conforms(value, args):
    """is `value` one of the literal's arguments: the member itself / a plain value of the same class"""
    import enum
    for a in args:
        if isinstance(a, enum.Enum):
            if value is a:
                return True
        elif type(value) is type(a) and value == a:
            return True
    return False


def _lit_key(a):
    import enum
    return a.value if isinstance(a, enum.Enum) else a


def run_enum_literals(chk, n_rounds, prop):
    """prop C02: an accepted result is one of the literal's arguments (top level, as a class field, as a list element);
    C01: structure(unstructure(a)) is a for every argument a (keys pairwise different);
    C04: detailed and fast validation agree;  C06: Converter and BaseConverter agree."""
    import typing
    import attrs
    import cattrs
    rng = chk.rng
    fams = _literal_enum_families()
    for _ in range(n_rounds):
        fam = rng.choice(fams)
        plain_vals = [m.value for m in fam[0]] + (["x", "y"] if isinstance(list(fam[0])[0].value, str) else [7, 9])
        # a shape (which positions hold a member, which a plain value), then several literals of that shape over
        # different classes of the family: position-wise equal argument tuples
        n_args = rng.randint(1, 3)
        idx = rng.sample(range(len(plain_vals)), n_args)
        shape = [(i, rng.random() < 0.65 and i < 2) for i in idx]        # (value index, is a member?)
        if not any(m for _, m in shape):
            shape[0] = (shape[0][0] % 2, True)
        lits = []
        for _k in range(rng.randint(2, 4)):
            args = tuple(list(rng.choice(fam))[i] if mem else plain_vals[i] for i, mem in shape)
            lits.append(args)
        if rng.random() < 0.5:
            lits.append(tuple(plain_vals[i] for i, _m in shape))           # the same shape without any member
        convs = [(cn, dv, cls(detailed_validation=dv)) for cn, cls in (("Converter", cattrs.Converter), ("BaseConverter", cattrs.BaseConverter))
                 for dv in (True, False)]
        payloads = plain_vals + [3, "junk", None, 1.5, (), b"h"]
        for args in lits:
            L = typing.Literal[args]
            Holder = attrs.make_class("LitHolder", {"f": attrs.field(type=L)})
            keys_distinct = len({(_lit_key(a).__class__, _lit_key(a)) for a in args}) == len(args) and \
                len({_lit_key(a) for a in args}) == len(args)
            chk.note("ext-stream:enum-literal:" + "+".join(sorted({type(a).__mro__[1].__name__ if hasattr(a, "value") else "plain" for a in args})))
            for p in payloads:
                res = {}
                for cn, dv, conv in convs:
                    for pos, call, pick in (("top", lambda: conv.structure(p, L), lambda r: r),
                                            ("field", lambda: conv.structure({"f": p}, Holder), lambda r: r.f),
                                            ("list", lambda: conv.structure([p], typing.List[L]), lambda r: r[0])):
                        r = _try(call)
                        got = ("ok", pick(r[1])) if r[0] == "ok" else ("err",)
                        res[(cn, dv, pos)] = got
                        chk.count(f"ext:enum-literal:{args!r}:{p!r}:{cn}:{dv}:{pos}", sample=None)
                        case = {"ext": True, "probe": "enum-literal", "literal": repr(args), "payload": repr(p),
                                "converter": f"{cn}/{'detailed' if dv else 'fast'}", "position": pos, "got": repr(got)[:200]}
                        if prop == "C02" and got[0] == "ok" and not _lit_conforms(got[1], args):
                            chk.violation(f"C02 oracle (enum-literal stream, implementation only): structure({p!r}, Literal{list(args)}) "
                                          f"at position {pos} on {cn}/{'detailed' if dv else 'fast'} returned {got[1]!r}, which is "
                                          "not one of the literal's arguments", case)
                for cn, dv, conv in convs:
                    for pos in ("top", "field", "list"):
                        a, b = res[(cn, dv, pos)], res[(cn, not dv, pos)]
                        same_out = a[0] == b[0] and (a[0] == "err" or a[1] is b[1] or (type(a[1]) is type(b[1]) and a[1] == b[1]))
                        if prop == "C04" and dv and not same_out:
                            chk.violation(f"C04 oracle (enum-literal stream): modes disagree on structure({p!r}, Literal{list(args)}) "
                                          f"[{cn} {pos}]: detailed={a!r} fast={b!r}",
                                          {"ext": True, "probe": "enum-literal", "literal": repr(args), "payload": repr(p)})
                        c = res[("BaseConverter" if cn == "Converter" else "Converter", dv, pos)]
                        same_eng = a[0] == c[0] and (a[0] == "err" or a[1] is c[1] or (type(a[1]) is type(c[1]) and a[1] == c[1]))
                        if prop == "C06" and cn == "Converter" and not same_eng:
                            chk.violation(f"C06 oracle (enum-literal stream): engines disagree on structure({p!r}, Literal{list(args)}) "
                                          f"[{'detailed' if dv else 'fast'} {pos}]: Converter={a!r} BaseConverter={c!r}",
                                          {"ext": True, "probe": "enum-literal", "literal": repr(args), "payload": repr(p)})
            if prop == "C01" and keys_distinct:
                for a in args:
                    for cn, dv, conv in convs:
                        r = _try(lambda: conv.structure(conv.unstructure(a, unstructure_as=L), L))
                        chk.count(f"ext:enum-literal-roundtrip:{args!r}:{a!r}:{cn}:{dv}", sample=None)
                        if r[0] != "ok" or not _lit_conforms(r[1], (a,)):
                            chk.violation(f"C01 oracle (enum-literal stream, implementation only): round trip of {a!r} as Literal{list(args)} "
                                          f"on {cn}/{'detailed' if dv else 'fast'} gives {r!r:.200}",
                                          {"ext": True, "probe": "enum-literal", "literal": repr(args), "value": repr(a)})
