"""Type-directed generators of abstract programs: worlds, types, conforming values, junk, mutations.
Every random choice comes from the one `random.Random` handed in."""
from __future__ import annotations

import os
import random

PRIMS = ["int", "float", "str", "bytes", "bool"]
STR_ALPHABET = "bcxz0127-"
SEQ_KINDS = ["list", "seq", "mseq", "tup*", "deque"]
SET_KINDS = ["set", "mset", "fset"]
MAP_KINDS = ["dict", "map", "mmap"]
# mapping types whose TARGET CLASS is not dict: OrderedDict[K, V], defaultdict[K, V] (default_factory = V), Counter[K]
# (values are ints).  Structured into that class by a Converter (gen_structure_mapping / defaultdict_structure_factory /
# gen_structure_counter); outside a BaseConverter's support (its _structure_dict always builds a plain dict).
TMAP_KINDS = ["odict", "ddict"]
ALL_MAP_KINDS = MAP_KINDS + TMAP_KINDS + ["counter"]
WRAPS = ["new", "ann", "alias"]
FIELD_NAMES = ["a", "b", "c", "d", "e", "_p", "_q", "xy"]


def is_wrap(t):
    return not isinstance(t, str) and t[0] in ("new", "ann", "final", "alias")


def strip_wraps(t):
    while is_wrap(t):
        t = t[1]
    return t


def sub_types(t):
    if isinstance(t, str):
        return []
    k = t[0]
    if k in ("enum", "lit", "cls", "td", "union", "nt"):
        return []
    if k == "tup":
        return list(t[1])
    if k in MAP_KINDS or k in TMAP_KINDS:
        return [t[1], t[2]]
    return [t[1]]


def walk_types(t):
    yield t
    for s in sub_types(t):
        yield from walk_types(s)


def hashable_prim(t) -> bool:
    """types whose values *and* encodings are hashable leaves (usable as set elements / dict keys)"""
    if isinstance(t, str):
        return t in PRIMS
    k = t[0]
    if k in ("enum", "lit"):
        return True
    if k in ("opt", "new", "ann", "alias", "final"):
        return hashable_prim(t[1])
    return False


def type_classes(t):
    out = []
    for x in walk_types(t):
        if isinstance(x, str):
            continue
        if x[0] in ("cls", "td", "nt"):
            out.append(x[1])
        elif x[0] == "union":
            out.extend(x[1])
    return out


def reach_types(world, t):
    """t, and the field types of every class reachable from it"""
    seen, out, todo = set(), [t], list(type_classes(t))
    while todo:
        c = todo.pop()
        if c in seen:
            continue
        seen.add(c)
        for f in world["classes"][c]["fields"]:
            if f["ty"] is not None:
                out.append(f["ty"])
                todo.extend(type_classes(f["ty"]))
    return out


def reaches_nt(world, ci) -> bool:
    """is class ci a NamedTuple class, or can an instance of it hold an instance of one (by declared field types)?"""
    if world["classes"][ci]["kind"] == "nt":
        return True
    return any(not isinstance(x, str) and x[0] == "nt" for ty in reach_types(world, ("cls", ci)) for x in walk_types(ty))


def reach_unions(world, t):
    return [x for ty in reach_types(world, t) for x in walk_types(ty) if not isinstance(x, str) and x[0] == "union"]


def has_enum_lit(world, t) -> bool:
    """does t (or a field type of a class reachable from it) contain a Literal with an enum member among its values?"""
    return any(not isinstance(x, str) and x[0] == "lit" and any(v[0] == "e" for v in x[1])
               for ty in reach_types(world, t) for x in walk_types(ty))


def class_closure(world, roots):
    """the classes reachable from the given ones through field types"""
    seen, todo = set(), list(roots)
    while todo:
        c = todo.pop()
        if c in seen:
            continue
        seen.add(c)
        for f in world["classes"][c]["fields"]:
            if f["ty"] is not None:
                todo.extend(type_classes(f["ty"]))
    return seen


def tuple_on_cycle(world, roots) -> bool:
    """Is a class reachable from the given classes that refers back to itself THROUGH a heterogeneous tuple type
    (`e: Optional[tuple[Self, int]]`)?  Region of the finding `recursive-class-hetero-tuple-late-binding`: the generated
    dict hooks of a Converter unstructure such a tuple by run-time class, as a list."""
    for c in class_closure(world, roots):
        if world["classes"][c]["kind"] == "td":
            continue
        for f in world["classes"][c]["fields"]:
            if f["ty"] is None:
                continue
            for t in walk_types(f["ty"]):
                if not isinstance(t, str) and t[0] == "tup" and c in class_closure(world, type_classes(t)):
                    return True
    return False


def union_by_construction(world, u) -> bool:
    """is the union a subset (>= 2 members) of a family the generator built to be distinguishable (unique required
    attributes and/or a Literal tag with pairwise different values)?  Such a union must never be refused."""
    ms = set(u[1])
    return any(fam["byc"] and ms <= set(fam["members"]) for fam in world.get("families", []))


def may_refuse(world, t) -> bool:
    """a union reachable from t is not distinguishable by construction: hook creation or structuring may refuse"""
    return any(not union_by_construction(world, u) for u in reach_unions(world, t))


def supported(cfg, world, t, top=True, _seen=None, roundtrip=True) -> bool:
    """Documented type support of the converter class selected by cfg (mirrors Lean `Supported`).
    roundtrip=False: support for unstructuring alone (a class union is unstructured under either strategy; it can be
    structured back only under the dict strategy)."""
    _seen = _seen or set()
    for x in walk_types(t):
        if isinstance(x, str):
            continue
        k = x[0]
        if k in SET_KINDS and not hashable_prim(x[1]):
            return False
        if k in ALL_MAP_KINDS and not hashable_prim(x[1]):
            return False
        if k in TMAP_KINDS + ["counter"] and not cfg["gen"]:
            return False  # BaseConverter: every mapping type is structured into a plain dict; no Counter[K] hook at all
        if k == "opt" and strip_wraps(x[1]) in ("any",):
            return False
        if not cfg["gen"]:
            if k in ("ann", "td"):
                return False
            if k == "new" and not (isinstance(x[1], str) and x[1] in PRIMS):
                return False
            if k == "tup" and not all(isinstance(y, str) and y in PRIMS for y in x[1]):
                return False
        if k == "union" and cfg["tuple"] and roundtrip:
            return False  # the decision function of a class union only accepts mappings
        if k == "nt" and not cfg["gen"]:
            # a BaseConverter has no NamedTuple unstructure hook (the instance is left as it is): only NamedTuples
            # whose fields are all of primitive types are within its support (as for heterogeneous tuples / NewTypes)
            if not all(isinstance(f["ty"], str) and f["ty"] in PRIMS for f in world["classes"][x[1]]["fields"]):
                return False
        members = [x[1]] if k in ("cls", "td", "nt") else (list(x[1]) if k == "union" else [])
        for ci in members:
            if world["classes"][ci].get("recursive") == "self" and (not cfg["gen"] or cfg["tuple"]):
                return False  # typing.Self is resolved by the generated dict hooks only (Converter, dict strategy)
            if ci not in _seen:
                _seen.add(ci)
                for f in world["classes"][ci]["fields"]:
                    if f.get("bare_final") and (not cfg["gen"] or cfg["tuple"]):
                        return False  # bare Final is understood by the generated dict hooks only
                    if f["ty"] is not None and not supported(cfg, world, f["ty"], False, _seen, roundtrip):
                        return False
    return True


class Gen:
    def __init__(self, rng: random.Random, max_depth=3, big=False, no_any=False, recursive=True, unions=False, nt=False,
                 enum_lits=False, coercible=False, hierarchies=False, twin_fields=False, map_targets=False,
                 class_features=False, validators=True):
        self.rng = rng
        self.validators = validators   # (class features) attrs validators / post-init checks that reject some values
        # CLASS FEATURES the model does not see (a class is its flat field list) or sees through the harness
        # (validators): class syntax (`@attrs.define`, `@attr.s(auto_attribs=True)`, `@dataclass` class bodies instead of
        # make_class / make_dataclass), explicit `alias=` on public and private attributes, `Factory(takes_self=True)`,
        # eq=False, class-level kw_only=True, slots=True dataclasses, ClassVar / InitVar pseudo-fields, a hand-written
        # `__init__` (`@define(init=False)`) whose parameters are the aliases in declaration order, attrs validators /
        # `__attrs_post_init__` / `__post_init__` that reject some values of the declared type.  VERIF_NO_CLASS_FEATURES=1
        # switches them off.
        self.class_features = class_features and not os.environ.get("VERIF_NO_CLASS_FEATURES")
        # mapping types with a target class other than dict (OrderedDict[K, V], defaultdict[K, V], Counter[K]) and their
        # values (instances of those classes); VERIF_NO_MAP_TARGETS=1 switches them off
        self.map_targets = map_targets and not os.environ.get("VERIF_NO_MAP_TARGETS")
        # class HIERARCHIES (an attrs class / dataclass derived from an earlier class of the world: `base` = its index,
        # `fields` = the inherited attributes (marked `inherited`) followed by its own) and ordinary classes whose
        # annotations are all STRINGS (`strann`, PEP 563 style).  Invisible to the model (a class is its flat field list).
        self.hierarchies = hierarchies
        # attrs classes with two attributes of the SAME type exactly one of which carries an (identity) attrs converter
        self.twin_fields = twin_fields
        # `Literal[...]` types that contain enum members (structured by `_structure_enum_literal`, unstructured by
        # run-time class); kept out of set-element / mapping-key / union-tag positions
        self.enum_lits = enum_lits and not os.environ.get("VERIF_NO_ENUM_LITS")
        # payload mutations that replace a leaf by a DIFFERENT value the leaf hooks accept and convert ('32' for an int,
        # an int for a float, ...): accepted-and-changed, where most mutations are rejected
        self.coercible = coercible
        # typing.NamedTuple classes (kind 'nt') in worlds, ('nt', k) types; VERIF_NO_NT=1 switches them off (to measure
        # what they change in a run's statistics)
        self.nt = nt and not os.environ.get("VERIF_NO_NT")
        self.unions = unions  # class unions (automatic disambiguation): union families in worlds, union types
        self.recursive = recursive  # generate self-referential classes (typing.Self)
        self.max_depth = max_depth
        self.big = big
        self.no_any = no_any  # no Any-typed positions and no untyped fields (round-trip scope)

    # ------------------------------------------------------------ leaves
    def g_int(self):
        r = self.rng
        c = r.random()
        if c < 0.7:
            return r.randint(-9, 20)
        if c < 0.95:
            return r.randint(-300, 300)
        return r.randint(-(10**6), 10**6)

    def g_str(self, maxlen=3):
        r = self.rng
        return "".join(r.choice(STR_ALPHABET) for _ in range(r.randint(0, maxlen)))

    def g_bytes(self):
        r = self.rng
        return "".join("%02x" % ord(r.choice("bcxz0127")) for _ in range(r.randint(0, 3)))

    def leaf_of(self, t):
        r = self.rng
        if t == "int":
            return ("i", self.g_int())
        if t == "float":
            return ("f", r.randint(-40, 40))
        if t == "str":
            return ("s", self.g_str())
        if t == "bytes":
            return ("y", self.g_bytes())
        if t == "bool":
            return ("b", r.random() < 0.5)
        raise ValueError(t)

    def any_leaf(self, with_none=True):
        r = self.rng
        t = r.choice(PRIMS + (["none"] if with_none else []))
        if t == "none":
            return ("N",)
        return self.leaf_of(t)

    # ------------------------------------------------------------ worlds
    def world(self, n_classes=None, n_enums=None, kinds=("attrs", "dc", "td"), allow_untyped=True):
        r = self.rng
        if self.nt and "nt" not in kinds:
            kinds = tuple(kinds) + ("nt",)
        w = {"classes": [], "enums": []}
        for _ in range(r.randint(0, 2) if n_enums is None else n_enums):
            n = r.randint(1, 3)
            if r.random() < 0.5:
                vals = r.sample(range(-3, 9), n)
                w["enums"].append([("i", v) for v in vals])
            else:
                vals = r.sample(["b", "c", "x", "zz", "7", "-1", "b7"], n)
                w["enums"].append([("s", v) for v in vals])
        n = r.randint(1, 4) if n_classes is None else n_classes
        if not self.unions:
            for ci in range(n):
                w["classes"].append(self.cls(w, ci, kinds, allow_untyped))
            return w
        # union families come IN ADDITION to the n ordinary classes (the share of TypedDicts, init=False / kw_only
        # attributes, recursive classes ... per world stays what it is without unions)
        w["families"] = []
        for _ in range(n):
            if r.random() < 0.3 and ("attrs" in kinds or "dc" in kinds):
                self.family(w, [k for k in kinds if k not in ("td", "nt")], allow_untyped)
            w["classes"].append(self.cls(w, len(w["classes"]), kinds, allow_untyped))
        return w

    TAG_POOL = [("s", "k0"), ("s", "k1"), ("s", "k2"), ("i", 1), ("i", 2), ("i", 3), ("s", "b"), ("i", 0)]

    def family(self, w, kinds, allow_untyped=True):
        """2-3 attrs classes / dataclasses meant to be members of one union.
        uniq: every member has a required attribute of its own;  tag: a common Literal attribute `kind` with pairwise
        different values;  tag-overlap: two members share a tag value and are told apart by their own required
        attributes (literal sub-union);  same: identical attribute names, nothing to tell them apart (refused);
        random: ordinary random classes."""
        r = self.rng
        base = len(w["classes"])
        n = r.randint(2, 3)
        mode = r.choice(["uniq", "uniq", "tag", "tag", "tag-overlap", "same", "random"])
        if mode == "random":
            for _ in range(n):
                w["classes"].append(self.cls(w, len(w["classes"]), kinds, allow_untyped))
            w["families"].append({"members": list(range(base, base + n)), "mode": mode, "byc": False})
            return
        tags = r.sample(self.TAG_POOL, 6)
        shared = [(nm, self.type(w, r.randint(0, 1), max_cls=base), r.random() < 0.5)
                  for nm in r.sample(["a", "b", "c", "xy", "_p"], r.randint(0 if mode != "same" else 1, 2))]
        for i in range(n):
            kind = r.choice(kinds)

            def mk(name, ty, dflt=None):
                return {"name": name, "alias": name.lstrip("_") if kind == "attrs" else name, "ty": ty, "dflt": dflt,
                        "init": True, "required": True, "kw_only": False}

            fields = []
            if mode in ("tag", "tag-overlap"):
                vals = [tags[2 * i]] + ([tags[2 * i + 1]] if r.random() < 0.3 else [])
                if mode == "tag-overlap" and i == 1:
                    vals = [tags[0]] + vals[1:]  # shares its first value with member 0
                fields.append(mk("kind", ("lit", vals), ("c", vals[0]) if r.random() < 0.5 else None))
            if mode in ("uniq", "tag-overlap") or (mode == "tag" and r.random() < 0.4):
                fields.append(mk("u%d" % i, self.type(w, r.randint(0, 1), max_cls=base)))
            for nm, ty, dfl in shared:
                if mode != "same" and r.random() < 0.25:
                    continue
                d = None
                if dfl:
                    v = self.value(w, ty, 1, any_stable=True)
                    d = ("c", v) if v[0] in ("N", "b", "i", "f", "s", "y", "e") else ("fac", v)
                f = mk(nm, ty, d)
                if d is not None and r.random() < 0.15:
                    f["init"] = False  # (never the tag / the unique attributes: they must reach the payload)
                elif r.random() < 0.15:
                    f["kw_only"] = True
                fields.append(f)
            r.shuffle(fields)
            fields.sort(key=lambda f: (f["dflt"] is not None) if (f["init"] and not f["kw_only"]) else False)
            pos = [f for f in fields if f["init"] and not f["kw_only"]]
            pos.sort(key=lambda f: f["dflt"] is not None)
            others = [f for f in fields if not (f["init"] and not f["kw_only"])]
            fields = list(pos)
            for f in others:
                fields.insert(r.randint(0, len(fields)), f)
            w["classes"].append({"kind": kind, "frozen": r.random() < 0.35, "fields": fields, "slots": r.random() < 0.5,
                                 "recursive": None})
        w["families"].append({"members": list(range(base, base + n)), "mode": mode,
                              "byc": mode in ("uniq", "tag", "tag-overlap")})

    def union_type(self, w, n_cls):
        """a union over (a subset of) a family, or over arbitrary attrs classes / dataclasses of the world"""
        r = self.rng
        fams = [f for f in w.get("families", []) if all(m < n_cls for m in f["members"])]
        if fams and r.random() < 0.85:
            ms = list(r.choice(fams)["members"])
            if len(ms) > 2 and r.random() < 0.3:
                ms = r.sample(ms, 2)
        else:
            cands = [i for i in range(n_cls) if w["classes"][i]["kind"] not in ("td", "nt")]
            if len(cands) < 2:
                return None
            ms = r.sample(cands, r.randint(2, min(3, len(cands))))
        # one spelling per member set and world: `Union[A, B] == Union[B, A]`, so a converter's hook cache hands the
        # hook made for whichever spelling it saw first to the other one (member order matters on junk payloads)
        rank = w.setdefault("urank", {})
        for m in ms:
            if m not in rank:
                rank[m] = r.random()
        ms.sort(key=lambda m: rank[m])
        return ("union", ms, r.random() < 0.3)

    def cls(self, w, ci, kinds, allow_untyped=True):
        r = self.rng
        kind = r.choice(kinds)
        if kind == "nt":
            return self.nt_cls(w, ci)
        frozen = kind != "td" and r.random() < 0.35
        names = r.sample(FIELD_NAMES, r.randint(0, 4))
        fields = []
        for n in names:
            untyped = allow_untyped and not self.no_any and kind == "attrs" and r.random() < 0.1
            ty = None if untyped else self.type(w, depth=r.randint(0, self.max_depth - 1), max_cls=ci, field=(kind != 'td'))
            f = {"name": n, "alias": n.lstrip("_") if kind == "attrs" else n, "ty": ty, "dflt": None, "init": True,
                 "required": True, "kw_only": False}
            if kind == "td":
                f["required"] = r.random() < 0.7
            else:
                if r.random() < 0.45:
                    v = self.value(w, ty, 2, any_stable=True) if ty is not None else self.any_leaf()
                    f["dflt"] = ("c", v) if v[0] in ("N", "b", "i", "f", "s", "y", "e") and r.random() < 0.7 else ("fac", v)
                    if r.random() < 0.15:
                        f["init"] = False
                if r.random() < 0.15:
                    f["kw_only"] = True
            fields.append(f)
        if kind in ("attrs", "dc") and r.random() < 0.2:
            # bare `Final` attributes with plain defaults: cattrs dispatches on the class of the default (generated
            # dict hooks only); the model sees `Final[<class of the default>]`.  Several per class, of different classes.
            cands = [f for f in fields if f["ty"] is not None and f["dflt"] is None and f["init"]]
            r.shuffle(cands)
            prims, enums = list(PRIMS), [("enum", e) for e in range(len(w["enums"]))]
            r.shuffle(prims)
            r.shuffle(enums)
            bases = prims[:1] + enums + prims[1:]
            if r.random() < 0.5:
                r.shuffle(bases)
            for f, base in zip(cands[: r.randint(1, 3)], bases):  # declaration order of `cands` is shuffled above
                f["ty"] = ("final", base)
                f["dflt"] = ("c", self.value(w, base, 0))
                f["bare_final"] = True
        recursive = None
        if self.recursive and fields and r.random() < 0.3:
            # a recursive class: one attribute refers to the class itself (realised with typing.Self) through an
            # Optional / sequence / mapping, so that finite values exist
            me = ("td" if kind == "td" else "cls", ci)
            shape = r.choice([("opt", me), ("list", me), ("dict", "str", me), ("opt", ("list", me)), ("tup*", me),
                              ("dict", "str", ("opt", me)), ("seq", ("opt", me)), ("map", "int", me),
                              # the self-reference two or more constructors deep
                              ("opt", ("list", me)), ("dict", "str", ("list", me)), ("list", ("opt", me)),
                              ("opt", ("tup", [me, "int"])), ("tup*", ("tup", ["int", me])),
                              ("opt", ("dict", "str", ("list", me)))])
            f = r.choice(fields)
            f["ty"] = shape
            f["dflt"] = None
            f["init"] = True
            f.pop("bare_final", None)
            # spelled as typing.Self, or as a forward reference by name (string annotation)
            recursive = r.choice(["self", "name"])
            if kind == "attrs" and r.random() < 0.5:
                f["idconv"] = True  # reference cycle met on the `attrib.converter is not None` path
        if kind == "attrs":
            for f in fields:
                # an attrs field converter that is the identity: semantically invisible, but the hook generators
                # take the `attrib.converter is not None` paths of find_structure_handler for it
                if r.random() < 0.12 and not f.get("bare_final"):
                    # (not on bare `Final` attributes: with a field converter cattrs looks the hook up for `Final` itself,
                    # finds none and hands the raw value to the converter -- the C20 rule, but not transparent)
                    f["idconv"] = True
        if kind != "td":
            # positional parameters: required before defaulted; kw_only ones may sit anywhere
            pos = [f for f in fields if not f["kw_only"] and f["init"]]
            pos.sort(key=lambda f: f["dflt"] is not None)
            others = [f for f in fields if f["kw_only"] or not f["init"]]
            out = list(pos)
            for f in others:
                out.insert(r.randint(0, len(out)), f)
            fields = out
        c = {"kind": kind, "frozen": frozen, "fields": fields, "slots": r.random() < 0.5, "recursive": recursive}
        if self.twin_fields and kind == "attrs":
            self._twin(w, ci, c)
        if self.hierarchies and kind in ("attrs", "dc"):
            self._inherit(w, ci, c)
        if self.class_features and kind in ("attrs", "dc"):
            self._features(w, ci, c)
        return c

    def _features(self, w, ci, c):
        r = self.rng
        kind = c["kind"]
        own = [f for f in c["fields"] if not f.get("inherited")]
        feats = c["features"] = {}
        if all(f["ty"] is not None for f in own) and r.random() < 0.5:
            # class SYNTAX (a class body run through the decorator) -- needs every attribute annotated
            feats["syntax"] = r.choice(["define", "attr.s"]) if kind == "attrs" else "dataclass"
        if r.random() < 0.15:
            feats["eq"] = False
        if feats.get("syntax") and c.get("base") is None and own and r.random() < 0.15:
            feats["kw_only_cls"] = True
            for f in own:
                f["kw_only"] = True
        if kind == "dc" and feats.get("syntax"):
            if r.random() < 0.3:
                feats["dc_slots"] = True
            if r.random() < 0.3:
                feats["classvars"] = [("CV%d" % i, self.any_leaf(with_none=False)) for i in range(r.randint(1, 2))]
            if r.random() < 0.25:
                feats["initvars"] = [("iv%d" % i, ("i", r.randint(0, 5))) for i in range(r.randint(1, 2))]
        if kind == "attrs":
            for f in own:
                if f.get("bare_final"):
                    continue
                if r.random() < 0.2:
                    # explicit alias: on a public attribute, or replacing the derived alias of a private one
                    f["alias"] = r.choice(["al_", "x_", "A"]) + f["name"].lstrip("_")
                    f["explicit_alias"] = True
                if f["dflt"] is not None and f["dflt"][0] == "fac" and r.random() < 0.3:
                    f["takes_self"] = True
            als = [f["alias"] for f in c["fields"]]
            if len(set(als)) != len(als):
                for f in own:
                    if f.pop("explicit_alias", None):
                        f["alias"] = f["name"].lstrip("_")
            if feats.get("syntax") == "define" and c.get("base") is None and not c["frozen"] and r.random() < 0.2 \
                    and not any(k.get("base") == ci for k in w["classes"]):
                feats["custom_init"] = True
        # validators: reject some values OF the declared type (the defaults pass by construction)
        if self.validators and c["recursive"] is None and r.random() < 0.45:
            cands = [f for f in own if validator_kind(f["ty"]) and not f.get("bare_final") and not f.get("idconv")]
            r.shuffle(cands)
            for f in cands[: r.randint(1, 2)]:
                vk = validator_kind(f["ty"])
                f["validator"] = vk
                if kind == "dc" or r.random() < 0.3:
                    f["validator_in"] = "post_init"      # checked by __attrs_post_init__ / __post_init__
                if f["dflt"] is not None and not passes(vk, f["dflt"][1]):
                    # the default has to pass too (attrs validates it in __init__)
                    for _ in range(20):
                        v = self.value(w, f["ty"], 2, any_stable=True)
                        if passes(vk, v):
                            leaf = v[0] in ("N", "b", "i", "f", "s", "y", "e")
                            f["dflt"] = ("c", v) if (leaf and f["dflt"][0] == "c") else ("fac", v)
                            break
                    else:
                        f.pop("validator", None)
                        f.pop("validator_in", None)
        # a post-init check is a METHOD: it needs the class-body spelling
        if any(f.get("validator_in") == "post_init" for f in c["fields"]) and not feats.get("syntax"):
            if all(f["ty"] is not None for f in own):
                feats["syntax"] = "define" if kind == "attrs" else "dataclass"
            else:
                for f in own:
                    if f.pop("validator_in", None) and kind == "dc":
                        f.pop("validator", None)

    def _twin(self, w, ci, c):
        """two attributes of one type, exactly one of them with an attrs converter"""
        r = self.rng
        cands = [f for f in c["fields"] if f["ty"] is not None and not f.get("bare_final") and f["init"]
                 and ci not in type_classes(f["ty"])]
        if len(cands) < 2 or r.random() >= 0.4:
            return
        f1, f2 = r.sample(cands, 2)
        ty = r.choice(["int", "float", "bool", "str"]) if r.random() < 0.6 else f1["ty"]
        for f in (f1, f2):
            f["ty"] = ty
            if f["dflt"] is not None:
                v = self.value(w, ty, 2, any_stable=True)
                f["dflt"] = ("c", v) if v[0] in ("N", "b", "i", "f", "s", "y", "e") else ("fac", v)
            f.pop("idconv", None)
        r.choice([f1, f2])["idconv"] = True
        c["twin"] = True

    def _inherit(self, w, ci, c):
        """derive the class from an earlier one / spell its annotations as strings"""
        r = self.rng
        if c["recursive"] is not None or any(f.get("bare_final") for f in c["fields"]):
            return
        if r.random() < 0.3:
            c["strann"] = True
        bases = [j for j in range(ci) if w["classes"][j]["kind"] == c["kind"] and w["classes"][j].get("recursive") is None
                 and not any(f.get("bare_final") for f in w["classes"][j]["fields"])
                 and not (w["classes"][j].get("features") or {}).get("custom_init")
                 and not (w["classes"][j].get("features") or {}).get("initvars")]
        if not bases or r.random() >= 0.35:
            return
        bi = r.choice(bases)
        base = w["classes"][bi]
        names = {f["name"] for f in base["fields"]}
        own = [f for f in c["fields"] if f["name"] not in names]
        if any(f["init"] and not f["kw_only"] and f["dflt"] is not None for f in base["fields"]):
            for f in own:
                if f["init"] and not f["kw_only"] and f["dflt"] is None:
                    f["kw_only"] = True      # no mandatory positional attribute after a defaulted (inherited) one
        c["fields"] = [dict(f, inherited=True) for f in base["fields"]] + own
        c["base"] = bi
        c["frozen"] = base["frozen"]
        c["slots"] = base["slots"]
        if base.get("strann") and r.random() < 0.7:
            c["strann"] = True
        if c["kind"] == "attrs" and r.random() < 0.4:
            # a hierarchy written in one module with postponed evaluation of annotations: both classes stringified
            c["strann"] = True
            if not base.get("strann") and not any(k.get("base") == bi for k in w["classes"]):
                base["strann"] = True

    def nt_cls(self, w, ci):
        """a typing.NamedTuple class: every field annotated (no leading underscore), defaults on a suffix of the fields
        (plain values: they are class attributes), nothing else to configure"""
        r = self.rng
        names = r.sample([n for n in FIELD_NAMES if not n.startswith("_")] + ["f", "g"], r.randint(0, 4))
        fields = []
        n_dflt = r.randint(0, len(names)) if r.random() < 0.5 else 0
        for i, n in enumerate(names):
            ty = self.type(w, depth=r.randint(0, self.max_depth - 1), max_cls=ci, allow_any=not self.no_any)
            f = {"name": n, "alias": n, "ty": ty, "dflt": None, "init": True, "required": True, "kw_only": False}
            if i >= len(names) - n_dflt:
                v = self.value(w, ty, 2, any_stable=True)
                f["dflt"] = ("c", v)
            fields.append(f)
        return {"kind": "nt", "frozen": True, "fields": fields, "slots": False, "recursive": None}

    # ------------------------------------------------------------ types
    def type(self, w, depth, max_cls=None, field=False, hashable=False, allow_any=True):
        r = self.rng
        n_cls = len(w["classes"]) if max_cls is None else max_cls
        if self.unions and not hashable and n_cls >= 2 and r.random() < (0.14 if depth <= 0 else 0.05):
            u = self.union_type(w, n_cls)
            if u is not None:
                return u
        if self.nt and not hashable and r.random() < 0.07:
            nts = [i for i in range(n_cls) if w["classes"][i]["kind"] == "nt"]
            if nts:
                return ("nt", r.choice(nts))
        if hashable:
            c = r.random()
            if c < 0.55:
                return r.choice(PRIMS)
            if c < 0.7 and w["enums"]:
                return ("enum", r.randrange(len(w["enums"])))
            if c < 0.8:
                return self.lit(w, enums=False)
            if c < 0.9 and depth > 0:
                return ("opt", self.type(w, depth - 1, max_cls, hashable=True, allow_any=False))
            if depth > 0:
                return (r.choice(WRAPS), self.type(w, depth - 1, max_cls, hashable=True))
            return r.choice(PRIMS)
        if depth <= 0:
            c = r.random()
            if c < 0.55:
                return r.choice(PRIMS)
            if c < 0.65 and allow_any and not self.no_any:
                return "any"
            if c < 0.78 and w["enums"]:
                return ("enum", r.randrange(len(w["enums"])))
            if c < 0.86:
                return self.lit(w)
            if n_cls > 0:
                ci = r.randrange(n_cls)
                return ({"td": "td", "nt": "nt"}.get(w["classes"][ci]["kind"], "cls"), ci)
            return r.choice(PRIMS)
        c = r.random()
        if c < 0.22:
            return (r.choice(SEQ_KINDS), self.type(w, depth - 1, max_cls))
        if c < 0.32:
            return (r.choice(SET_KINDS), self.type(w, depth - 1, max_cls, hashable=True))
        if c < 0.44:
            return ("tup", [self.type(w, depth - 1, max_cls) for _ in range(r.randint(0, 3))])
        if c < 0.58:
            if self.map_targets and r.random() < 0.4:
                k = r.choice(TMAP_KINDS + ["counter"])
                kt = self.type(w, depth - 1, max_cls, hashable=True)
                if k == "counter":
                    return ("counter", kt)
                vt = self.type(w, depth - 1, max_cls)
                if k == "ddict":
                    # the value type doubles as the default_factory: `defaultdict(V)` demands a callable (a class, a
                    # parametrised generic) -- not an Optional / Literal / alias / union
                    for _ in range(6):
                        if factory_type(vt):
                            break
                        vt = self.type(w, max(depth - 1, 0), max_cls)
                    else:
                        vt = r.choice(PRIMS)
                return (k, kt, vt)
            return (r.choice(MAP_KINDS), self.type(w, depth - 1, max_cls, hashable=True), self.type(w, depth - 1, max_cls))
        if c < 0.70:
            inner = self.type(w, depth - 1, max_cls, allow_any=False)
            if strip_wraps(inner) == "any" or (not isinstance(strip_wraps(inner), str) and strip_wraps(inner)[0] == "opt"):
                return inner
            return ("opt", inner)
        if c < 0.82:
            k = r.choice(WRAPS + (["final"] if field else []))
            return (k, self.type(w, depth - 1, max_cls))
        return self.type(w, 0, max_cls)

    def lit(self, w=None, enums=True):
        r = self.rng
        n = r.randint(1, 3)
        pool = [("i", 1), ("i", 2), ("i", -1), ("s", "b"), ("s", "x7"), ("s", ""), ("b", True), ("i", 0), ("b", False)]
        cand = r.sample(pool, n)
        if enums and self.enum_lits and w is not None and w["enums"] and r.random() < 0.4:
            # enum members among the literal's values (in any position)
            for _ in range(r.randint(1, 2)):
                e = r.randrange(len(w["enums"]))
                cand.insert(r.randint(0, len(cand)), ("e", e, r.randrange(len(w["enums"][e]))))
            cand = cand[:3]

        def key(v):  # what `_structure_enum_literal` indexes: the member's value, or the plain value
            return w["enums"][v[1]][v[2]] if v[0] == "e" else v

        vals = []
        for v in cand:
            # keep the literal's values (and the keys they are looked up by) pairwise distinct under ==
            if not any(py_eq(key(v), key(u)) or v == u for u in vals):
                vals.append(v)
        return ("lit", vals)

    # ------------------------------------------------------------ values
    def value(self, w, t, depth, any_stable=False):
        """a value conforming to t (abstract). any_stable: Any/untyped positions hold values that
        unstructure to themselves (needed for round trips)."""
        r = self.rng
        if isinstance(t, str):
            if t == "any":
                return self.any_value(w, depth, any_stable)
            return self.leaf_of(t)
        k = t[0]
        if k == "enum":
            return ("e", t[1], r.randrange(len(w["enums"][t[1]])))
        if k == "lit":
            return r.choice(t[1])
        n = r.randint(0, 3 if depth > 0 else 1)
        if depth < -1:
            n = 0  # recursive classes: bottom out
        if k in ("list", "seq", "mseq"):
            return ("l", [self.value(w, t[1], depth - 1, any_stable) for _ in range(n)])
        if k == "tup*":
            return ("t", [self.value(w, t[1], depth - 1, any_stable) for _ in range(n)])
        if k == "deque":
            return ("q", [self.value(w, t[1], depth - 1, any_stable) for _ in range(n)])
        if k in SET_KINDS:
            xs = []
            for _ in range(n):
                v = self.value(w, t[1], depth - 1, any_stable)
                if not any(py_eq(v, u) for u in xs):
                    xs.append(v)
            return ("F" if k == "fset" else "S", xs)
        if k == "tup":
            return ("t", [self.value(w, x, depth - 1, any_stable) for x in t[1]])
        if k in MAP_KINDS or k in TMAP_KINDS or k == "counter":
            kvs = []
            for _ in range(n):
                kk = self.value(w, t[1], depth - 1, any_stable)
                if not any(py_eq(kk, u) for u, _ in kvs):
                    kvs.append((kk, ("i", self.g_int()) if k == "counter" else self.value(w, t[2], depth - 1, any_stable)))
            if k in MAP_KINDS:
                return ("d", kvs)
            return ("D", {"odict": "od", "ddict": "dd", "counter": "ctr"}[k], kvs)
        if k == "opt":
            return ("N",) if (r.random() < 0.3 or depth < -1) else self.value(w, t[1], depth, any_stable)
        if k in ("new", "ann", "final", "alias"):
            return self.value(w, t[1], depth, any_stable)
        if k == "nt":
            c = w["classes"][t[1]]
            return ("I", t[1], [(f["name"], f["dflt"][1] if (f["dflt"] is not None and r.random() < 0.3)
                                 else self.value(w, f["ty"], depth - 1, any_stable)) for f in c["fields"]])
        if k == "cls":
            c = w["classes"][t[1]]
            fs = []
            for f in c["fields"]:
                if not f["init"]:
                    fs.append((f["name"], f["dflt"][1]))
                elif f["dflt"] is not None and r.random() < 0.3:
                    fs.append((f["name"], f["dflt"][1]))
                elif f["ty"] is None:
                    fs.append((f["name"], self.any_value(w, depth - 1, any_stable)))
                else:
                    v = self.value(w, f["ty"], depth - 1, any_stable)
                    if f.get("validator"):
                        for _ in range(30):       # a value the attribute's validator accepts
                            if passes(f["validator"], v):
                                break
                            v = self.value(w, f["ty"], max(depth - 1, 1), any_stable)
                        else:
                            v = f["dflt"][1] if f["dflt"] is not None else VALIDATOR_SAFE[f["validator"]]
                    fs.append((f["name"], v))
            return ("I", t[1], fs)
        if k == "union":
            if t[2] and r.random() < 0.25:
                return ("N",)
            return self.value(w, ("cls", r.choice(t[1])), depth, any_stable)
        if k == "td":
            c = w["classes"][t[1]]
            kvs = []
            for f in c["fields"]:
                if not f["required"] and r.random() < 0.4:
                    continue
                kvs.append((("s", f["name"]), self.value(w, f["ty"], depth - 1, any_stable)))
            r.shuffle(kvs)
            return ("d", kvs)
        raise ValueError(t)

    def any_value(self, w, depth, stable, no_nt=False):
        r = self.rng
        c = r.random()
        if c < 0.6 or depth <= 0:
            return self.any_leaf()
        if stable:
            if c < 0.8:
                return ("l", [self.any_leaf() for _ in range(r.randint(0, 2))])
            return ("d", self._uniq_kvs([(self.leaf_of(r.choice(["int", "str"])), self.any_leaf()) for _ in range(r.randint(0, 2))]))
        if c < 0.7:
            return (r.choice(["l", "t", "q"]), [self.any_value(w, depth - 1, stable, no_nt) for _ in range(r.randint(0, 2))])
        if c < 0.76:
            xs = []
            for _ in range(r.randint(0, 2)):
                v = self.any_leaf()
                if not any(py_eq(v, u) for u in xs):
                    xs.append(v)
            return (r.choice(["S", "F"]), xs)
        if c < 0.84:
            # keys: leaves, or enum members (a mapping reached by run-time class must unstructure its KEYS too)
            def any_key():
                if w["enums"] and r.random() < 0.3:
                    e = r.randrange(len(w["enums"]))
                    return ("e", e, r.randrange(len(w["enums"][e])))
                return self.any_leaf()
            return ("d", self._uniq_kvs([(any_key(), self.any_value(w, depth - 1, stable, no_nt)) for _ in range(r.randint(0, 2))]))
        if c < 0.9 and w["enums"]:
            e = r.randrange(len(w["enums"]))
            return ("e", e, r.randrange(len(w["enums"][e])))
        if c < 0.96:
            cands = [i for i, cl in enumerate(w["classes"]) if cl["kind"] != "td" and not (no_nt and reaches_nt(w, i))]
            if cands:
                ci = r.choice(cands)
                return self.value(w, ("nt" if w["classes"][ci]["kind"] == "nt" else "cls", ci), depth - 1, stable)
        return ("o", r.randint(0, 3))

    def _uniq_kvs(self, kvs):
        out = []
        for k, v in kvs:
            if not any(py_eq(k, u) for u, _ in out):
                out.append((k, v))
        return out

    # ------------------------------------------------------------ junk and mutation
    def junk(self, w, depth=2):
        r = self.rng
        c = r.random()
        if c < 0.5 or depth <= 0:
            return self.any_leaf()
        # (no instances of NamedTuple classes in payloads: they ARE tuples for the structuring code -- the model's
        # payloads hold the plain tuples instead)
        return self.any_value(w, depth, False, no_nt=True)

    def mutate(self, w, o, n_mut=1):
        """apply n_mut random local edits to an unstructured payload"""
        for _ in range(n_mut):
            o = self._mutate1(w, o)
        return o

    def _positions(self, o, path=()):
        yield path
        t = o[0]
        if t in ("l", "t", "q", "S", "F"):
            for i, x in enumerate(o[1]):
                yield from self._positions(x, path + (i,))
        elif t == "d":
            for i, (k, v) in enumerate(o[1]):
                yield from self._positions(k, path + ((i, 0),))
                yield from self._positions(v, path + ((i, 1),))

    def _edit(self, o, path, fn):
        if not path:
            return fn(o)
        p = path[0]
        t = o[0]
        if t == "d":
            i, side = p
            kvs = list(o[1])
            k, v = kvs[i]
            if side == 0:
                kvs[i] = (self._edit(k, path[1:], fn), v)
            else:
                kvs[i] = (k, self._edit(v, path[1:], fn))
            return ("d", kvs)
        xs = list(o[1])
        xs[p] = self._edit(xs[p], path[1:], fn)
        return (t, xs)

    def _mutate1(self, w, o):
        r = self.rng
        pos = list(self._positions(o))
        path = r.choice(pos)

        def fn(x):
            t = x[0]
            c = r.random()
            if self.coercible and t in ("i", "f", "b", "s") and r.random() < 0.35:
                # a different value that the leaf hook of the position ACCEPTS and converts
                if t == "i":
                    return r.choice([("s", str(x[1])), ("f", 2 * x[1]), ("f", 2 * x[1] + 1)])
                if t == "f":
                    return r.choice([("i", x[1] // 2), ("s", str(x[1] // 2)), ("b", x[1] % 4 == 2)])
                if t == "b":
                    return r.choice([("i", 1 if x[1] else 0), ("i", 7), ("s", ""), ("s", "0")])
                return r.choice([("i", 17), ("b", True), ("y", "6263")])
            if t == "d":
                kvs = list(x[1])
                if c < 0.3 and kvs:
                    del kvs[r.randrange(len(kvs))]
                    return ("d", kvs)
                if c < 0.6:
                    names = FIELD_NAMES + ["zz", "a2", "p"] + (["u0", "u1", "kind"] if self.unions else [])
                    k = r.choice([("s", r.choice(names)), self.any_leaf()])
                    if not any(py_eq(k, u) for u, _ in kvs):
                        kvs.insert(r.randint(0, len(kvs)), (k, self.junk(w, 1)))
                    return ("d", kvs)
                if c < 0.7:
                    return ("l", [k for k, _ in kvs])
                return self.junk(w, 1)
            if t in ("l", "t", "q", "S", "F"):
                xs = list(x[1])
                if c < 0.25 and xs:
                    del xs[r.randrange(len(xs))]
                    return (t, xs)
                if c < 0.45:
                    v = self.junk(w, 1)
                    if t in ("S", "F") and (any(py_eq(v, u) for u in xs) or not hashable_abs(v)):
                        return (t, xs)
                    xs.insert(r.randint(0, len(xs)), v)
                    return (t, xs)
                if c < 0.65:
                    nt = r.choice(["l", "t", "q", "S", "F"])
                    if nt in ("S", "F"):
                        ys = []
                        for v in xs:
                            if hashable_abs(v) and not any(py_eq(v, u) for u in ys):
                                ys.append(v)
                        xs = ys
                    return (nt, xs)
                return self.junk(w, 1)
            return self.junk(w, 1)

        return self._edit(o, path, fn)


# ---------------------------------------------------------------- validators (class features)
# kinds: 'mod3' (an int attribute rejects multiples of 3), 'noz' (a str attribute rejects strings starting with 'z'),
# 'len2' (a list / sequence attribute rejects containers of length 2)
VALIDATOR_SAFE = {"mod3": ("i", 1), "noz": ("s", "b"), "len2": ("l", [])}


def validator_kind(t):
    t = strip_wraps(t) if t is not None else None
    if t == "int":
        return "mod3"
    if t == "str":
        return "noz"
    if t is not None and not isinstance(t, str) and t[0] in ("list", "seq", "mseq"):
        return "len2"
    return None


def passes(vk, v) -> bool:
    """does the abstract value pass the validator? (values of other classes pass: the validators test their own class)"""
    if vk == "mod3":
        return not (v[0] == "i" and v[1] % 3 == 0)
    if vk == "noz":
        return not (v[0] == "s" and v[1].startswith("z"))
    if vk == "len2":
        return not (v[0] in ("l", "t", "q") and len(v[1]) == 2)
    return True


def validators_ok(world, o) -> bool:
    """no instance inside the abstract object holds a value its attribute's validator rejects (what attrs `__init__` /
    `__attrs_post_init__` / `__post_init__` would raise on)"""
    t = o[0]
    if t in ("l", "t", "q", "S", "F"):
        return all(validators_ok(world, x) for x in o[1])
    if t == "d":
        return all(validators_ok(world, k) and validators_ok(world, v) for k, v in o[1])
    if t == "D":
        return all(validators_ok(world, k) and validators_ok(world, v) for k, v in o[2])
    if t == "I":
        for f, (_, v) in zip(world["classes"][o[1]]["fields"], o[2]):
            if f.get("validator") and not passes(f["validator"], v):
                return False
            if not validators_ok(world, v):
                return False
    return True


def has_validators(world) -> bool:
    return any(f.get("validator") for c in world["classes"] for f in c["fields"])


def factory_type(t) -> bool:
    """can the (realised) type serve as a defaultdict's default_factory, i.e. is it callable?"""
    if isinstance(t, str):
        return t in PRIMS
    return t[0] in SEQ_KINDS + SET_KINDS + ALL_MAP_KINDS + ["tup", "enum", "cls", "nt", "td"]


def num2(o):
    if o[0] == "b":
        return 2 if o[1] else 0
    if o[0] == "i":
        return 2 * o[1]
    if o[0] == "f":
        return o[1]
    return None


def py_eq(a, b) -> bool:
    """Python == on abstract objects (mirrors Lean Obj.pyEq: numeric tower on leaves, structural otherwise)"""
    na, nb = num2(a), num2(b)
    if na is not None and nb is not None:
        return na == nb
    if na is not None or nb is not None:
        return False
    return a == b


def hashable_abs(o, frozen=lambda c: False) -> bool:
    t = o[0]
    if t == "t":
        return all(hashable_abs(x, frozen) for x in o[1])
    if t == "F":
        return True
    if t in ("l", "q", "S", "d", "D"):
        return False
    if t == "I":
        return frozen(o[1]) and all(hashable_abs(v, frozen) for _, v in o[2])
    return True


def lookalike_hazard(o, keyed=False) -> bool:
    """Python equality is finer than the model's structural equality on containers: flag a tuple or
    frozenset that holds bools/floats *and* is used as a set element or dict key."""
    t = o[0]
    if t in ("t", "F"):
        if keyed and any(x[0] in ("b", "f") for x in o[1]):
            return True
        return any(lookalike_hazard(x, keyed or t == "F") for x in o[1])
    if t in ("l", "q"):
        return any(lookalike_hazard(x, False) for x in o[1])
    if t == "S":
        return any(lookalike_hazard(x, True) for x in o[1])
    if t == "d":
        return any(lookalike_hazard(k, True) or lookalike_hazard(v, False) for k, v in o[1])
    if t == "D":
        return any(lookalike_hazard(k, True) or lookalike_hazard(v, False) for k, v in o[2])
    if t == "I":
        return any(lookalike_hazard(v, False) for _, v in o[2])
    return False
