import CattrsModel.Conv.StructDetailed
import CattrsModel.Conv.Encoding
/-!
# C06 vocabulary: the hypotheses and the normalisation of the Converter / BaseConverter comparison

Everything here is specification (no part of the executable data path uses it):

* `mapsAtCls w T o` — "the class positions of the payload `o` hold mappings": the traversal follows the one of
  the structuring hooks for `T`; at a position typed with a class the payload must be a `dict`, and the values
  found under the keys of its `init` fields must satisfy the predicate for the fields' types.  A `str` / `bytes`
  payload at an iterating position is iterated like the hooks do (`mapsAtClsLf`): its items are not mappings.
* `normSeq` — the documented container difference: a `Converter` turns tuples and deques into lists, a
  `BaseConverter` keeps the container class it finds.  `normSeq` maps every list/tuple/deque to a list,
  recursively through sequences and dict values; sets and dict keys are left alone.
* `scalarKeys` — every set element and every dict key inside a value is a scalar (None/bool/int/float/str/
  bytes/enum member/object of an unknown class).  Outside this region a `Converter` raises `TypeError:
  unhashable` (recorded finding F10), so there is nothing to compare.
* `AllInit` — no class has an `init=False` field (region of the recorded finding F43).
-/
namespace CattrsModel.GenInterp
open CattrsModel

/-! ### class positions hold mappings -/

/-! `str` / `bytes` payloads at iterating positions (see `stLF`): the items are 1-character strings / ints, never
mappings -- the predicate fails exactly when such an item reaches a class position. -/
mutual
def mapsAtClsLf (w : World) : Nat → Ty → Obj → Bool
  | n, .coll _ t, o =>
      match leafItems o with
      | Option.none => true
      | some xs => mapsAtClsLfL w n t xs
  | n, .tupleHet ts, o =>
      match leafItems o with
      | Option.none => true
      | some xs => mapsAtClsLfT w n ts xs
  | _, .opt _, .none => true
  | n, .opt t, x => mapsAtClsLf w n t x
  | n, .wrap _ t, x => mapsAtClsLf w n t x
  | _, .cls _, _ => false
  | _, .td _, _ => false
  | _, .union _ _, .none => true
  | _, .union _ _, _ => false
  | n, .nt c, o =>
      match n with
      | 0 => true
      | n' + 1 =>
        match leafItems o with
        | Option.none => true
        | some xs => mapsAtClsLfT w n' (w.ntTys c) xs
  | _, _, _ => true
termination_by n t _ => (n, sizeOf t, 0)
def mapsAtClsLfL (w : World) (n : Nat) (t : Ty) : List Obj → Bool
  | [] => true
  | x :: xs => mapsAtClsLf w n t x && mapsAtClsLfL w n t xs
termination_by xs => (n, sizeOf t, xs.length + 1)
def mapsAtClsLfT (w : World) (n : Nat) : List Ty → List Obj → Bool
  | t :: ts, x :: xs => mapsAtClsLf w n t x && mapsAtClsLfT w n ts xs
  | _, _ => true
termination_by ts _ => (n, sizeOf ts, 0)
end

mutual
def mapsAtCls (w : World) : Ty → Obj → Bool
  | .coll k t, o =>
      match h : iterItems o with
      | Option.none => mapsAtClsLf w (leafFuel w) (.coll k t) o
      | some xs => mapsAtClsL w t xs
  | .tupleHet ts, o =>
      match h : iterItems o with
      | Option.none => mapsAtClsLf w (leafFuel w) (.tupleHet ts) o
      | some xs => mapsAtClsT w ts xs
  | .map _ kt vt, .dict kvs => mapsAtClsKV w kt vt kvs
  | .opt _, .none => true
  | .opt t, x => mapsAtCls w t x
  | .wrap _ t, x => mapsAtCls w t x
  | .cls c, .dict kvs => mapsAtClsF w (w.fields c) kvs
  | .cls _, _ => false
  | .td c, .dict kvs => mapsAtClsF w (w.fields c) kvs
  | .td _, _ => false
  -- a union position is a class position: `None`, or a mapping that suits every member it could be handed to
  | .union _ _, .none => true
  | .union cs _, .dict kvs => cs.all (fun c => mapsAtClsF w (w.fields c) kvs)
  | .union _ _, _ => false
  -- a NamedTuple position is a tuple position: the items are inspected like those of a heterogeneous tuple
  | .nt c, o =>
      match h : iterItems o with
      | Option.none => mapsAtClsLf w (leafFuel w) (.nt c) o
      | some xs => mapsAtClsT w (w.ntTys c) xs
  | _, _ => true
termination_by t x => (sizeOf x, sizeOf t)
decreasing_by
  all_goals first
    | decreasing_tactic
    | (apply Prod.Lex.left; exact iterItems_lt h)
def mapsAtClsL (w : World) (t : Ty) : List Obj → Bool
  | [] => true
  | x :: xs => mapsAtCls w t x && mapsAtClsL w t xs
termination_by xs => (sizeOf xs, sizeOf t)
/-- positions beyond the shorter of the two lists are not inspected (the call raises on the arity anyway) -/
def mapsAtClsT (w : World) : List Ty → List Obj → Bool
  | t :: ts, x :: xs => mapsAtCls w t x && mapsAtClsT w ts xs
  | _, _ => true
termination_by ts xs => (sizeOf xs, sizeOf ts)
def mapsAtClsKV (w : World) (kt vt : Ty) : List (Obj × Obj) → Bool
  | [] => true
  | (a, b) :: rest => mapsAtCls w kt a && mapsAtCls w vt b && mapsAtClsKV w kt vt rest
termination_by kvs => (sizeOf kvs, sizeOf kt + sizeOf vt)
/-- the values found under the keys of the `init` fields -/
def mapsAtClsF (w : World) : List Field → (kvs : List (Obj × Obj)) → Bool
  | [], _ => true
  | f :: fds, kvs =>
      match h : dlookup kvs f.key with
      | Option.none => mapsAtClsF w fds kvs
      | some x =>
        (!f.init || (match f.ty with | Option.none => true | some t => mapsAtCls w t x)) && mapsAtClsF w fds kvs
termination_by fds kvs => (sizeOf kvs, fds.length)
decreasing_by
  all_goals first
    | decreasing_tactic
    | (apply Prod.Lex.left; exact dlookup_lt h)
end

/-! ### tuples and deques become lists -/

mutual
def normSeq : Obj → Obj
  | .coll ck xs => if ck.isSet then .coll ck xs else .coll .list (normSeqL xs)
  | .dict kvs => .dict (normSeqKV kvs)
  | x => x
termination_by structural x => x
def normSeqL : List Obj → List Obj
  | [] => []
  | x :: xs => normSeq x :: normSeqL xs
termination_by structural xs => xs
def normSeqKV : List (Obj × Obj) → List (Obj × Obj)
  | [] => []
  | (k, v) :: rest => (k, normSeq v) :: normSeqKV rest
termination_by structural kvs => kvs
end

/-! ### scalar set elements and dict keys -/

def isScalar : Obj → Bool
  | .coll _ _ | .dict _ | .mdict _ _ | .inst _ _ => false
  | _ => true

def allScalar (xs : List Obj) : Bool := xs.all isScalar

mutual
def scalarKeys : Obj → Bool
  | .coll ck xs => (!ck.isSet || allScalar xs) && scalarKeysL xs
  | .dict kvs => scalarKeysKV kvs
  | .inst _ fs => scalarKeysF fs
  | _ => true
termination_by structural x => x
def scalarKeysL : List Obj → Bool
  | [] => true
  | x :: xs => (scalarKeys x) && scalarKeysL xs
termination_by structural xs => xs
def scalarKeysKV : List (Obj × Obj) → Bool
  | [] => true
  | (k, v) :: rest => (isScalar k) && (scalarKeys v) && scalarKeysKV rest
termination_by structural kvs => kvs
def scalarKeysF : List (String × Obj) → Bool
  | [] => true
  | (_, x) :: rest => (scalarKeys x) && scalarKeysF rest
termination_by structural fs => fs
end

/-! ### no `init=False` field -/

def AllInit (w : World) : Prop := ∀ c, ∀ f ∈ w.fields c, f.init = true

def allInitB (w : World) : Bool := w.classes.all (fun c => c.fields.all (·.init))

theorem allInitB_sound (w : World) (h : (allInitB w) = true) : (AllInit w) := by
  simp only [allInitB, List.all_eq_true] at h
  intro c f hf
  unfold World.fields at hf
  cases hc : w.classes[c]? with
  | none => rw [hc] at hf; cases hf
  | some k => rw [hc] at hf; exact h k (List.mem_of_getElem? hc) f hf

end CattrsModel.GenInterp
