import CattrsModel.Conv.Driver
import CattrsModel.GenInterp.Model
/-!
# Line-protocol operations of C06 (driver only): the theorems' hypotheses evaluated on a concrete case
-/
namespace CattrsModel.GenInterp
open CattrsModel
open Sexp

def genInterpHandle (w : World) (op : String) (args : List Sexp) : Option Sexp :=
  match op, args with
  | "C06SCOPE", [cfg, ty, o] => do
      -- C06_struct_agree: (type/world in the common support and forbid off, class positions hold mappings,
      -- the model's own verdict "both engines give the same outcome")
      let cfg ← cfgOfSexp cfg; let ty ← tyOfSexp ty; let o ← objOfSexp o
      some (.list [ofBool (ty.supU false && w.supUB false && !cfg.forbid),
                   ofBool (cfg.tupleStrat || mapsAtCls w ty o),
                   ofBool (decide (convStructure w { cfg with gen := true } ty o = convStructure w { cfg with gen := false } ty o))])
  | "C06USCOPE", [cfg, ty, x] => do
      -- C06_unstruct_agree_partial: (common support, well-typed, scalar set elements / dict keys,
      -- tuple strategy or no init=False field, the model's own verdict "equal up to normSeq")
      let cfg ← cfgOfSexp cfg; let ty ← tyOfSexp ty; let x ← objOfSexp x
      some (.list [ofBool (ty.supU false && w.supUB false),
                   ofBool (wellTyped w ty x),
                   ofBool (scalarKeys x),
                   ofBool (cfg.tupleStrat || (allInitB w)),
                   ofBool (decide (normSeq (convUnstructure w { cfg with gen := false } ty x)
                                    = normSeq (convUnstructure w { cfg with gen := true } ty x)))])
  | "NORMSEQ", [x] => do
      let x ← objOfSexp x
      some (replyObj (normSeq x))
  | _, _ => Option.none

end CattrsModel.GenInterp
