/-!
# S-expressions: the wire format of the line protocol

One term per line.  `atom` = bare token, `str` = JSON-escaped string literal, `list` = `( … )`.
Used only by the drivers (not by any theorem), hence `partial` is acceptable here.
-/
namespace CattrsModel

inductive Sexp where
  | atom (s : String)
  | str (s : String)
  | list (xs : List Sexp)
  deriving Repr, Inhabited, BEq

namespace Sexp

private def hexDigit (n : Nat) : Char :=
  if n < 10 then Char.ofNat (48 + n) else Char.ofNat (87 + n)

private def hex4 (n : Nat) : String :=
  String.ofList [hexDigit ((n / 4096) % 16), hexDigit ((n / 256) % 16), hexDigit ((n / 16) % 16), hexDigit (n % 16)]

def escapeStr (s : String) : String := Id.run do
  let mut out := "\""
  for c in s.toList do
    if c == '"' then out := out ++ "\\\""
    else if c == '\\' then out := out ++ "\\\\"
    else if c.toNat < 32 || c.toNat > 126 then out := out ++ "\\u" ++ hex4 c.toNat
    else out := out.push c
  return out.push '"'

partial def toString : Sexp → String
  | .atom s => s
  | .str s => escapeStr s
  | .list xs => "(" ++ " ".intercalate (xs.map toString) ++ ")"

instance : ToString Sexp := ⟨Sexp.toString⟩

private def hexVal (c : Char) : Nat :=
  if '0' ≤ c && c ≤ '9' then c.toNat - 48
  else if 'a' ≤ c && c ≤ 'f' then c.toNat - 87
  else if 'A' ≤ c && c ≤ 'F' then c.toNat - 55
  else 0

private partial def parseStrBody : List Char → List Char → Option (String × List Char)
  | [], _ => none
  | '"' :: rest, acc => some (String.ofList acc.reverse, rest)
  | '\\' :: 'u' :: a :: b :: c :: d :: rest, acc =>
      parseStrBody rest (Char.ofNat (hexVal a * 4096 + hexVal b * 256 + hexVal c * 16 + hexVal d) :: acc)
  | '\\' :: 'n' :: rest, acc => parseStrBody rest ('\n' :: acc)
  | '\\' :: 't' :: rest, acc => parseStrBody rest ('\t' :: acc)
  | '\\' :: 'r' :: rest, acc => parseStrBody rest ('\r' :: acc)
  | '\\' :: 'b' :: rest, acc => parseStrBody rest (Char.ofNat 8 :: acc)
  | '\\' :: 'f' :: rest, acc => parseStrBody rest (Char.ofNat 12 :: acc)
  | '\\' :: c :: rest, acc => parseStrBody rest (c :: acc)
  | c :: rest, acc => parseStrBody rest (c :: acc)

private def isDelim (c : Char) : Bool := c == ' ' || c == '(' || c == ')' || c == '"' || c == '\n' || c == '\t' || c == '\r'

private partial def parseAtom : List Char → List Char → String × List Char
  | [], acc => (String.ofList acc.reverse, [])
  | c :: rest, acc => if isDelim c then (String.ofList acc.reverse, c :: rest) else parseAtom rest (c :: acc)

mutual
partial def parseOne : List Char → Option (Sexp × List Char)
  | [] => none
  | c :: rest =>
    if c == ' ' || c == '\n' || c == '\t' || c == '\r' then parseOne rest
    else if c == '(' then
      match parseMany rest [] with
      | some (xs, rest') => some (.list xs, rest')
      | none => none
    else if c == ')' then none
    else if c == '"' then
      match parseStrBody rest [] with
      | some (s, rest') => some (.str s, rest')
      | none => none
    else
      let (a, rest') := parseAtom (c :: rest) []
      some (.atom a, rest')
partial def parseMany : List Char → List Sexp → Option (List Sexp × List Char)
  | [], _ => none
  | c :: rest, acc =>
    if c == ' ' || c == '\n' || c == '\t' || c == '\r' then parseMany rest acc
    else if c == ')' then some (acc.reverse, rest)
    else match parseOne (c :: rest) with
      | some (x, rest') => parseMany rest' (x :: acc)
      | none => none
end

/-- Parse a whole line as a sequence of top-level terms. -/
partial def parseLine (s : String) : Option (List Sexp) :=
  let rec go (cs : List Char) (acc : List Sexp) : Option (List Sexp) :=
    match cs with
    | [] => some acc.reverse
    | c :: rest =>
      if c == ' ' || c == '\n' || c == '\t' || c == '\r' then go rest acc
      else match parseOne (c :: rest) with
        | some (x, rest') => go rest' (x :: acc)
        | none => none
  go s.toList []

def atomInt? : Sexp → Option Int
  | .atom s => s.toInt?
  | _ => none

def atomNat? : Sexp → Option Nat
  | .atom s => s.toNat?
  | _ => none

def ofBool (b : Bool) : Sexp := .atom (if b then "1" else "0")
def ofNat (n : Nat) : Sexp := .atom (ToString.toString n)
def ofInt (n : Int) : Sexp := .atom (ToString.toString n)

def bool? : Sexp → Option Bool
  | .atom "1" => some true
  | .atom "0" => some false
  | _ => none

end Sexp
end CattrsModel
