import CattrsModel.Lemmas.Primitive
/-!
# C03 core: `un` computes exactly the documented encoding (`EncAs`)
-/
namespace CattrsModel
variable (w : World) (cfg : Cfg)

theorem un_opt_ne {t : Ty} {x : Obj} (hx : x ≠ .none) :
    un w cfg (.opt t) x = if cfg.gen then un w cfg t x else unAny w cfg x := by
  cases x <;> simp_all [un]

/-! ### the relation is functional: whatever the documentation allows is what `un` returns -/

mutual
theorem encAs_fun : ∀ {t : Ty} {x y : Obj}, EncAs w cfg t x y → y = un w cfg t x
  | _, _, _, .any h => by rw [un]; exact encRt_fun h
  | _, _, _, .int => by simp [un]
  | _, _, _, .float => by simp [un]
  | _, _, _, .str => by simp [un]
  | _, _, _, .bytes => by simp [un]
  | _, _, _, .bool => by simp [un]
  | _, _, _, .enum h => by simp [un, enumValue, h]
  | _, x, _, .lit h => by rw [un]; simp [h]
  | _, _, _, .litE h hr => by rw [un]; simp only [h, if_true]; exact encRt_fun hr
  | _, _, _, .collG hg h => by rw [un, if_pos hg, encL_fun h]
  | _, _, _, .collB hg h => by rw [un, if_neg (by simp [hg]), encRtL_fun h]
  | _, _, _, .tupG hg h => by rw [un, if_pos hg, encT_fun h]
  | _, _, _, .tupB hg => by rw [un, if_neg (by simp [hg])]
  | _, _, _, .mapG hg h => by rw [un, if_pos hg, encKV_fun h]
  | _, _, _, .mapB hg h => by rw [un, if_neg (by simp [hg]), encRtKV_fun h]
  | _, _, _, .optNone => by simp [un]
  | _, _, _, .optG hg hx h => by rw [un_opt_ne w cfg hx, if_pos hg]; exact encAs_fun h
  | _, _, _, .optB hg hx h => by rw [un_opt_ne w cfg hx, if_neg (by simp [hg])]; exact encRt_fun h
  | _, _, _, .wrap hc h => by
      rw [un, if_pos (by rcases hc with h | h | h <;> simp [h])]; exact encAs_fun h
  | _, _, _, .wrapB hg h1 h2 => by rw [un, if_neg (by simp [hg, h1, h2])]
  | _, _, _, .clsDict ht h => by rw [un, if_neg (by simp [ht]), encF_fun h]
  | _, _, _, .clsTuple ht h => by rw [un, if_pos ht, encFT_fun h]
  | _, _, _, .tdG hg h => by rw [un, if_pos hg, encTD_fun h]
  | _, _, _, .tdB hg h => by rw [un, if_neg (by simp [hg]), encRtKV_fun h]
  | _, _, _, .union h => by simp only [un]; exact encRt_fun h
  | _, _, _, .ntG hg h => by rw [un, if_pos hg, encT_fun h]
  | _, _, _, .ntB hg => by rw [un, if_neg (by simp [hg])]
theorem encRt_fun : ∀ {x y : Obj}, EncRt w cfg x y → y = unAny w cfg x
  | _, _, .none => by simp [unAny]
  | _, _, .bool => by simp [unAny]
  | _, _, .int => by simp [unAny]
  | _, _, .flt => by simp [unAny]
  | _, _, .str => by simp [unAny]
  | _, _, .bytes => by simp [unAny]
  | _, _, .opaque => by simp [unAny]
  | _, _, .enum h => by simp [unAny, enumValue, h]
  | _, _, .coll h => by rw [unAny, encRtL_fun h]
  | _, _, .dict h => by rw [unAny, encRtKV_fun h]
  | _, _, .instDict hn ht h => by rw [unAny, if_neg (by simp [hn]), if_neg (by simp [ht]), encF_fun h]
  | _, _, .instTuple hn ht h => by rw [unAny, if_neg (by simp [hn]), if_pos ht, encFT_fun h]
  | _, _, .ntG hn hg h => by rw [unAny, if_pos hn, if_pos hg, encT_fun h]
  | _, _, .ntB hn hg => by rw [unAny, if_pos hn, if_neg (by simp [hg])]
theorem encL_fun : ∀ {t : Ty} {xs ys : List Obj}, EncL w cfg t xs ys → ys = unL w cfg t xs
  | _, _, _, .nil => by simp [unL]
  | _, _, _, .cons h hr => by rw [unL, ← encAs_fun h, ← encL_fun hr]
theorem encRtL_fun : ∀ {xs ys : List Obj}, EncRtL w cfg xs ys → ys = unAnyL w cfg xs
  | _, _, .nil => by simp [unAnyL]
  | _, _, .cons h hr => by rw [unAnyL, ← encRt_fun h, ← encRtL_fun hr]
theorem encT_fun : ∀ {ts : List Ty} {xs ys : List Obj}, EncT w cfg ts xs ys → ys = unT w cfg ts xs
  | _, _, _, .nil => by simp [unT]
  | _, _, _, .cons h hr => by rw [unT, ← encAs_fun h, ← encT_fun hr]
theorem encKV_fun : ∀ {kt vt : Ty} {kvs out : List (Obj × Obj)}, EncKV w cfg kt vt kvs out → out = unKV w cfg kt vt kvs
  | _, _, _, _, .nil => by simp [unKV]
  | _, _, _, _, .cons h1 h2 hr => by rw [unKV, ← encAs_fun h1, ← encAs_fun h2, ← encKV_fun hr]
theorem encRtKV_fun : ∀ {kvs out : List (Obj × Obj)}, EncRtKV w cfg kvs out → out = unAnyKV w cfg kvs
  | _, _, .nil => by simp [unAnyKV]
  | _, _, .cons h1 h2 hr => by rw [unAnyKV, ← encRt_fun h1, ← encRt_fun h2, ← encRtKV_fun hr]
theorem encF_fun : ∀ {fds : List Field} {fs : List (String × Obj)} {out : List (Obj × Obj)},
    EncF w cfg fds fs out → out = unFields w cfg fds fs
  | _, _, _, .nil => by simp [unFields]
  | _, _, _, .typed he ht h hr => by
      rw [unFields_cons, if_pos he, ← encF_fun hr]; simp only [unField, ht, Field.key]; rw [← encAs_fun h]
  | _, _, _, .untyped he ht h hr => by
      rw [unFields_cons, if_pos he, ← encF_fun hr]; simp only [unField, ht, Field.key]; rw [← encRt_fun h]
  | _, _, _, .skipped he hr => by rw [unFields_cons, if_neg (by simp [he])]; exact encF_fun hr
theorem encFT_fun : ∀ {fds : List Field} {fs : List (String × Obj)} {out : List Obj},
    EncFT w cfg fds fs out → out = unFieldsT w cfg fds fs
  | _, _, _, .nil => by simp [unFieldsT]
  | _, _, _, .typed ht h hr => by
      rw [unFieldsT_cons, ← encFT_fun hr]; simp only [unField, ht]; rw [← encAs_fun h]
  | _, _, _, .untyped ht h hr => by
      rw [unFieldsT_cons, ← encFT_fun hr]; simp only [unField, ht]; rw [← encRt_fun h]
theorem encTD_fun : ∀ {fds : List Field} {kvs out : List (Obj × Obj)}, EncTD w cfg fds kvs out → out = unTD w cfg fds kvs
  | _, _, _, .nil => by simp [unTD]
  | _, _, _, .typed hf ht h hr => by
      rw [unTD_cons, ← encTD_fun hr]; simp only [hf, unField, ht]; rw [← encAs_fun h]
  | _, _, _, .untyped hf ht h hr => by
      rw [unTD_cons, ← encTD_fun hr]; simp only [hf, unField, ht]; rw [← encRt_fun h]
end

end CattrsModel

namespace CattrsModel
variable (w : World) (cfg : Cfg)

/-! ### … and total on genuine values: `un` of a genuine value IS its documented encoding -/

theorem encL_of (t : Ty) : ∀ (xs : List Obj), (∀ x ∈ xs, EncAs w cfg t x (un w cfg t x)) → EncL w cfg t xs (unL w cfg t xs)
  | [], _ => by rw [unL]; exact .nil
  | x :: xs, h => by
      rw [unL]; exact .cons (h x (by simp)) (encL_of t xs (fun y hy => h y (by simp [hy])))

theorem encRtL_of : ∀ (xs : List Obj), (∀ x ∈ xs, EncRt w cfg x (unAny w cfg x)) → EncRtL w cfg xs (unAnyL w cfg xs)
  | [], _ => by rw [unAnyL]; exact .nil
  | x :: xs, h => by
      rw [unAnyL]; exact .cons (h x (by simp)) (encRtL_of xs (fun y hy => h y (by simp [hy])))

theorem encT_of : ∀ (ts : List Ty) (xs : List Obj), wellTypedT w ts xs = true →
    (∀ t ∈ ts, ∀ x ∈ xs, wellTyped w t x = true → EncAs w cfg t x (un w cfg t x)) → EncT w cfg ts xs (unT w cfg ts xs)
  | [], [], _, _ => by simp only [unT]; exact .nil
  | [], _ :: _, hwt, _ => by simp [wellTypedT] at hwt
  | _ :: _, [], hwt, _ => by simp [wellTypedT] at hwt
  | t :: ts, x :: xs, hwt, h => by
      simp only [wellTypedT, Bool.and_eq_true] at hwt
      rw [unT]
      exact .cons (h t (by simp) x (by simp) hwt.1)
        (encT_of ts xs hwt.2 (fun t' ht' y hy => h t' (by simp [ht']) y (by simp [hy])))

theorem encKV_of (kt vt : Ty) : ∀ (kvs : List (Obj × Obj)),
    (∀ p ∈ kvs, EncAs w cfg kt p.1 (un w cfg kt p.1) ∧ EncAs w cfg vt p.2 (un w cfg vt p.2)) →
    EncKV w cfg kt vt kvs (unKV w cfg kt vt kvs)
  | [], _ => by rw [unKV]; exact .nil
  | (a, b) :: rest, h => by
      rw [unKV]
      exact .cons (h (a, b) (by simp)).1 (h (a, b) (by simp)).2 (encKV_of kt vt rest (fun q hq => h q (by simp [hq])))

theorem encRtKV_of : ∀ (kvs : List (Obj × Obj)),
    (∀ p ∈ kvs, EncRt w cfg p.1 (unAny w cfg p.1) ∧ EncRt w cfg p.2 (unAny w cfg p.2)) →
    EncRtKV w cfg kvs (unAnyKV w cfg kvs)
  | [], _ => by rw [unAnyKV]; exact .nil
  | (a, b) :: rest, h => by
      rw [unAnyKV]
      exact .cons (h (a, b) (by simp)).1 (h (a, b) (by simp)).2 (encRtKV_of rest (fun q hq => h q (by simp [hq])))

/-- the documented encoding of one field position -/
def EncField (f : Field) (x y : Obj) : Prop :=
  match f.ty with | Option.none => EncRt w cfg x y | some t => EncAs w cfg t x y

theorem encF_of : ∀ (fds : List Field) (fs : List (String × Obj)), wellTypedF w fds fs = true →
    (∀ f ∈ fds, ∀ p ∈ fs, wtField w f p.2 = true → EncField w cfg f p.2 (unField w cfg f p.2)) →
    EncF w cfg fds fs (unFields w cfg fds fs)
  | [], [], _, _ => by simp only [unFields]; exact .nil
  | [], _ :: _, hwt, _ => by simp [wellTypedF] at hwt
  | _ :: _, [], hwt, _ => by simp [wellTypedF] at hwt
  | f :: fds, (n, x) :: rest, hwt, h => by
      rw [wellTypedF_cons] at hwt
      simp only [Bool.and_eq_true] at hwt
      have hx := h f (by simp) (n, x) (by simp) hwt.1
      have hr := encF_of fds rest hwt.2 (fun g hg q hq => h g (by simp [hg]) q (by simp [hq]))
      rw [unFields_cons]
      by_cases he : emits cfg f = true
      · rw [if_pos he]
        cases hty : f.ty with
        | none => simp only [EncField, unField, hty] at hx ⊢; exact .untyped he hty hx hr
        | some t => simp only [EncField, unField, hty] at hx ⊢; exact .typed he hty hx hr
      · rw [if_neg he]; exact .skipped (by simpa using he) hr

theorem encFT_of : ∀ (fds : List Field) (fs : List (String × Obj)), wellTypedF w fds fs = true →
    (∀ f ∈ fds, ∀ p ∈ fs, wtField w f p.2 = true → EncField w cfg f p.2 (unField w cfg f p.2)) →
    EncFT w cfg fds fs (unFieldsT w cfg fds fs)
  | [], [], _, _ => by simp only [unFieldsT]; exact .nil
  | [], _ :: _, hwt, _ => by simp [wellTypedF] at hwt
  | _ :: _, [], hwt, _ => by simp [wellTypedF] at hwt
  | f :: fds, (n, x) :: rest, hwt, h => by
      rw [wellTypedF_cons] at hwt
      simp only [Bool.and_eq_true] at hwt
      have hx := h f (by simp) (n, x) (by simp) hwt.1
      have hr := encFT_of fds rest hwt.2 (fun g hg q hq => h g (by simp [hg]) q (by simp [hq]))
      rw [unFieldsT_cons]
      cases hty : f.ty with
      | none => simp only [EncField, unField, hty] at hx ⊢; exact .untyped hty hx hr
      | some t => simp only [EncField, unField, hty] at hx ⊢; exact .typed hty hx hr

theorem encTD_of (fds : List Field) : ∀ (kvs : List (Obj × Obj)), wellTypedTD w fds kvs = true →
    (∀ f ∈ fds, ∀ p ∈ kvs, wtField w f p.2 = true → EncField w cfg f p.2 (unField w cfg f p.2)) →
    EncTD w cfg fds kvs (unTD w cfg fds kvs)
  | [], _, _ => by rw [unTD]; exact .nil
  | (k, v) :: rest, hwt, h => by
      rw [wellTypedTD_cons] at hwt
      simp only [Bool.and_eq_true] at hwt
      have hr := encTD_of fds rest hwt.2 (fun g hg q hq => h g hg q (by simp [hq]))
      rw [unTD_cons]
      cases hf : findField fds k with
      | none => rw [hf] at hwt; simp at hwt
      | some f =>
        rw [hf] at hwt
        have hx := h f (findField_mem hf) (k, v) (by simp) hwt.1
        cases hty : f.ty with
        | none => simp only [EncField, unField, hty] at hx ⊢; exact .untyped hf hty hx hr
        | some t => simp only [EncField, unField, hty] at hx ⊢; exact .typed hf hty hx hr

theorem enc_aux (hws : w.SupU cfg.gen) :
    ∀ (n : Nat),
      (∀ (x : Obj), sizeOf x ≤ n → wellTypedAny w x = true → EncRt w cfg x (unAny w cfg x)) ∧
      (∀ (m : Nat) (t : Ty) (x : Obj), sizeOf x ≤ n → sizeOf t ≤ m → t.supU cfg.gen = true → wellTyped w t x = true →
        EncAs w cfg t x (un w cfg t x)) := by
  intro n
  induction n with
  | zero =>
    constructor
    · intro x hx; have : 0 < sizeOf x := by cases x <;> simp <;> omega
      omega
    · intro m t x hx; have : 0 < sizeOf x := by cases x <;> simp <;> omega
      omega
  | succ n ihn =>
    obtain ⟨ihA, ihU⟩ := ihn
    have hField : ∀ (c : Nat) (fs : List (String × Obj)), sizeOf fs ≤ n →
        ∀ f ∈ w.fields c, ∀ p ∈ fs, wtField w f p.2 = true → EncField w cfg f p.2 (unField w cfg f p.2) := by
      intro c fs hfs f hf p hp hwt
      have hlt := sizeOf_snd_lt_of_mem hp
      cases hty : f.ty with
      | none => simp only [wtField, hty] at hwt; simp only [EncField, unField, hty]; exact ihA p.2 (by omega) hwt
      | some t => simp only [wtField, hty] at hwt; simp only [EncField, unField, hty]
                  exact ihU (sizeOf t) t p.2 (by omega) (Nat.le_refl _) (hws.fieldsOK c f hf t hty) hwt
    have hNTT : ∀ (c : Nat) (fs : List (String × Obj)), sizeOf fs ≤ n → cfg.gen = true →
        wellTypedT w (w.ntTys c) (vals fs) = true →
        EncT w cfg (w.ntTys c) (vals fs) (unT w cfg (w.ntTys c) (vals fs)) := by
      intro c fs hfs hg hwt
      exact encT_of w cfg _ _ hwt (fun t' ht' z hz hh => by
        have := sizeOf_lt_of_mem_vals hz
        exact ihU (sizeOf t') t' z (by omega) (Nat.le_refl _) (ntTys_supU w hws c t' ht') hh)
    have hNT : ∀ (c : Nat) (fs : List (String × Obj)), sizeOf fs ≤ n → w.isNT c = true →
        wellTypedT w (w.ntTys c) (vals fs) = true →
        EncRt w cfg (.inst c fs) (.coll .tuple (if cfg.gen then unT w cfg (w.ntTys c) (vals fs) else vals fs)) := by
      intro c fs hfs hnt hwt
      by_cases hg : cfg.gen = true
      · rw [if_pos hg]; exact .ntG hnt hg (hNTT c fs hfs hg hwt)
      · rw [if_neg hg]; exact .ntB hnt (by simpa using hg)
    have hAny : ∀ (x : Obj), sizeOf x ≤ n + 1 → wellTypedAny w x = true → EncRt w cfg x (unAny w cfg x) := by
      intro x hx hwt
      cases x with
      | enumM e m =>
        simp only [wellTypedAny, decide_eq_true_eq] at hwt
        rw [unAny]; unfold enumValue
        have : (w.members e)[m]? = some ((w.members e)[m]'hwt) := by simp [hwt]
        rw [this]; exact .enum this
      | coll ck xs =>
        rw [wellTypedAny] at hwt
        have hel := (wellTypedAnyL_iff w xs).mp hwt
        simp at hx
        rw [unAny]
        exact .coll (encRtL_of w cfg xs (fun z hz => by
          have := List.sizeOf_lt_of_mem hz
          exact ihA z (by omega) (hel z hz)))
      | dict kvs =>
        rw [wellTypedAny] at hwt
        have hel := (wellTypedAnyKV_iff w kvs).mp hwt
        simp at hx
        rw [unAny]
        exact .dict (encRtKV_of w cfg kvs (fun p hp => by
          have := sizeOf_lt_of_mem_kv hp
          exact ⟨ihA p.1 (by omega) (hel p hp).1, ihA p.2 (by omega) (hel p hp).2⟩))
      | inst c fs =>
        rw [wellTypedAny] at hwt
        simp at hx
        rw [unAny]
        by_cases hnt : w.isNT c = true
        · rw [if_pos hnt] at hwt ⊢
          exact hNT c fs (by omega) hnt hwt
        · rw [if_neg hnt] at hwt ⊢
          by_cases ht : cfg.tupleStrat = true
          · rw [if_pos ht]; exact .instTuple (by simpa using hnt) ht (encFT_of w cfg _ fs hwt (hField c fs (by omega)))
          · rw [if_neg ht]
            exact .instDict (by simpa using hnt) (by simpa using ht) (encF_of w cfg _ fs hwt (hField c fs (by omega)))
      | none => simp only [unAny]; exact .none
      | bool b => simp only [unAny]; exact .bool
      | int i => simp only [unAny]; exact .int
      | flt k => simp only [unAny]; exact .flt
      | str s => simp only [unAny]; exact .str
      | bytes h => simp only [unAny]; exact .bytes
      | mdict d kvs => simp [wellTypedAny] at hwt
      | _ => simp only [unAny]; exact .opaque
    refine ⟨hAny, ?_⟩
    intro m
    induction m with
    | zero => intro t x _ ht; have : 0 < sizeOf t := by cases t <;> simp <;> omega
              omega
    | succ m ihm =>
      intro t x hx ht hs hwt
      cases t with
      | any => rw [wellTyped] at hwt; rw [un]; exact .any (hAny x hx hwt)
      | int => cases x <;> simp [wellTyped] at hwt; simp only [un]; exact .int
      | float => cases x <;> simp [wellTyped] at hwt; simp only [un]; exact .float
      | str => cases x <;> simp [wellTyped] at hwt; simp only [un]; exact .str
      | bytes => cases x <;> simp [wellTyped] at hwt; simp only [un]; exact .bytes
      | bool => cases x <;> simp [wellTyped] at hwt; simp only [un]; exact .bool
      | enum e =>
        cases x <;> simp [wellTyped] at hwt
        rename_i e' mm
        obtain ⟨rfl, hm⟩ := hwt
        rw [un]; unfold enumValue
        have : (w.members e)[mm]? = some ((w.members e)[mm]'hm) := by simp [hm]
        rw [this]; exact .enum this
      | lit vs =>
        rw [wellTyped] at hwt
        simp only [Bool.and_eq_true] at hwt
        rw [un]
        cases he : litHasEnum vs with
        | false => simp only [Bool.false_eq_true, if_false]; exact .lit he
        | true => simp only [if_true]; exact .litE he (hAny x hx hwt.2)
      | coll k t' =>
        cases x with
        | coll ck xs =>
          simp only [wellTyped, Bool.and_eq_true, beq_iff_eq] at hwt
          have hel := (wellTypedL_iff w t' xs).mp hwt.2
          have hs' : t'.supU cfg.gen = true := by simpa [Ty.supU] using hs
          simp at hx
          rw [un]
          by_cases hg : cfg.gen = true
          · rw [if_pos hg]
            exact .collG hg (encL_of w cfg t' xs (fun z hz => by
              have := List.sizeOf_lt_of_mem hz
              exact ihU (sizeOf t') t' z (by omega) (Nat.le_refl _) hs' (hel z hz)))
          · rw [if_neg hg]
            exact .collB (by simpa using hg) (encRtL_of w cfg xs (fun z hz => by
              have := List.sizeOf_lt_of_mem hz
              exact ihA z (by omega) (wellTyped_any w cfg.gen hws hs' (hel z hz))))
        | _ => simp [wellTyped] at hwt
      | tupleHet ts =>
        cases x with
        | coll ck xs =>
          cases ck <;> simp [wellTyped] at hwt
          simp only [Ty.supU, Bool.and_eq_true, Bool.or_eq_true] at hs
          simp at hx
          rw [un]
          by_cases hg : cfg.gen = true
          · rw [if_pos hg]
            exact .tupG hg (encT_of w cfg ts xs hwt (fun t' ht' z hz hh => by
              have := List.sizeOf_lt_of_mem hz
              exact ihU (sizeOf t') t' z (by omega) (Nat.le_refl _) (supUL_mem hs.1 t' ht') hh))
          · rw [if_neg hg]; exact .tupB (by simpa using hg)
        | _ => simp [wellTyped] at hwt
      | map mk kt vt =>
        cases x with
        | dict kvs =>
          rw [wellTyped] at hwt
          have hel := (wellTypedKV_iff w kt vt kvs).mp hwt
          simp only [Ty.supU, Bool.and_eq_true] at hs
          replace hs := hs.1
          simp at hx
          rw [un]
          by_cases hg : cfg.gen = true
          · rw [if_pos hg]
            exact .mapG hg (encKV_of w cfg kt vt kvs (fun p hp => by
              have := sizeOf_lt_of_mem_kv hp
              exact ⟨ihU (sizeOf kt) kt p.1 (by omega) (Nat.le_refl _) hs.1 (hel p hp).1,
                     ihU (sizeOf vt) vt p.2 (by omega) (Nat.le_refl _) hs.2 (hel p hp).2⟩))
          · rw [if_neg hg]
            exact .mapB (by simpa using hg) (encRtKV_of w cfg kvs (fun p hp => by
              have := sizeOf_lt_of_mem_kv hp
              exact ⟨ihA p.1 (by omega) (wellTyped_any w cfg.gen hws hs.1 (hel p hp).1),
                     ihA p.2 (by omega) (wellTyped_any w cfg.gen hws hs.2 (hel p hp).2)⟩))
        | _ => simp [wellTyped] at hwt
      | opt t' =>
        have hs' : t'.supU cfg.gen = true := by simpa [Ty.supU] using hs
        by_cases hx0 : x = .none
        · subst hx0; simp only [un]; exact .optNone
        · have hw' : wellTyped w t' x = true := by cases x <;> simp_all [wellTyped]
          rw [un_opt_ne w cfg hx0]
          simp at ht
          by_cases hg : cfg.gen = true
          · rw [if_pos hg]; exact .optG hg hx0 (ihm t' x hx (by omega) hs' hw')
          · rw [if_neg hg]; exact .optB (by simpa using hg) hx0 (hAny x hx (wellTyped_any w cfg.gen hws hs' hw'))
      | wrap k t' =>
        simp only [Ty.supU, Bool.and_eq_true] at hs
        rw [wellTyped] at hwt
        simp at ht
        rw [un]
        by_cases hc : (cfg.gen || k == .final || k == .alias) = true
        · rw [if_pos hc]
          refine .wrap ?_ (ihm t' x hx (by omega) hs.1 hwt)
          simp only [Bool.or_eq_true, beq_iff_eq] at hc
          rcases hc with (h | h) | h
          · exact Or.inl h
          · exact Or.inr (Or.inl h)
          · exact Or.inr (Or.inr h)
        · rw [if_neg hc]
          simp only [Bool.or_eq_true, beq_iff_eq, not_or] at hc
          exact .wrapB (by simpa using hc.1.1) hc.1.2 hc.2
      | cls c =>
        cases x with
        | inst c' fs =>
          simp only [wellTyped, Bool.and_eq_true, beq_iff_eq] at hwt
          simp at hx
          rw [un]
          by_cases ht : cfg.tupleStrat = true
          · rw [if_pos ht]; exact .clsTuple ht (encFT_of w cfg _ fs hwt.2 (hField c fs (by omega)))
          · rw [if_neg ht]; exact .clsDict (by simpa using ht) (encF_of w cfg _ fs hwt.2 (hField c fs (by omega)))
        | _ => simp [wellTyped] at hwt
      | td c =>
        cases x with
        | dict kvs =>
          rw [wellTyped] at hwt
          have hg : cfg.gen = true := by simpa [Ty.supU] using hs
          simp at hx
          rw [un, if_pos hg]
          refine .tdG hg (encTD_of w cfg _ kvs hwt (fun f hf p hp hh => ?_))
          have := sizeOf_lt_of_mem_kv hp
          cases hty : f.ty with
          | none => simp only [wtField, hty] at hh; simp only [EncField, unField, hty]; exact ihA p.2 (by omega) hh
          | some t' => simp only [wtField, hty] at hh; simp only [EncField, unField, hty]
                       exact ihU (sizeOf t') t' p.2 (by omega) (Nat.le_refl _) (hws.fieldsOK c f hf t' hty) hh
        | _ => simp [wellTyped] at hwt
      | union ucs hn =>
        have hun : un w cfg (.union ucs hn) x = unAny w cfg x := by simp only [un]
        rw [hun]
        refine .union (hAny x hx ?_)
        cases x with
        | none => simp [wellTypedAny]
        | inst c fs =>
          simp only [wellTyped, Bool.and_eq_true] at hwt
          rw [wellTypedAny]; split
          · exact wellTypedF_T w _ fs hwt.2
          · exact hwt.2
        | _ => simp [wellTyped] at hwt
      | nt c =>
        cases x with
        | inst c' fs =>
          simp only [wellTyped, Bool.and_eq_true, beq_iff_eq] at hwt
          obtain ⟨⟨rfl, hnt⟩, h⟩ := hwt
          simp at hx
          rw [un]
          by_cases hg : cfg.gen = true
          · rw [if_pos hg]; exact .ntG hg (hNTT c fs (by omega) hg h)
          · rw [if_neg hg]; exact .ntB (by simpa using hg)
        | _ => simp [wellTyped] at hwt

theorem un_enc (hws : w.SupU cfg.gen) {t : Ty} {x : Obj} (hs : t.supU cfg.gen = true) (h : wellTyped w t x = true) :
    EncAs w cfg t x (un w cfg t x) :=
  (enc_aux w cfg hws (sizeOf x)).2 (sizeOf t) t x (Nat.le_refl _) (Nat.le_refl _) hs h

end CattrsModel
