import CattrsModel.Conv.StructDetailed
import CattrsModel.Disambig.Lemmas
/-!
# Facts about the bridge between the data path and the disambiguator model (`Conv/Union.lean`)
-/
namespace CattrsModel
open Disambig (Outcome unionStructure resolve resolveF createOk deepOk SetOrder)

/-- the union hook answers `None` only for the payload `None`, and only when `None` is a member -/
theorem unionPick_none {w : World} {cs : List Nat} {hn : Bool} {o : Obj}
    (h : unionPick w cs hn o = Outcome.none) : hn = true ∧ o = Obj.none := by
  unfold unionPick at h
  split at h
  · cases h
  · split at h
    · refine ⟨?_, rfl⟩
      unfold unionStructure at h
      simp only at h
      split at h
      · rfl
      · split at h
        · split at h
          · assumption
          · cases h
        · cases h
    · exfalso
      unfold unionStructure at h
      simp only at h
      split at h
      · cases h
      · exact Disambig.resolveF_ne_none _ _ _ _ _ _ h
    · exfalso
      split at h
      · cases h
      · split at h <;> cases h

/-- union members are attrs classes / dataclasses: never NamedTuple classes -/
theorem unionMembersOk_notNT {w : World} {cs : List Nat} (h : unionMembersOk w cs = true) {c : Nat} (hc : c ∈ cs) :
    w.isNT c = false := by
  unfold unionMembersOk at h
  rw [List.all_eq_true] at h
  have := h c hc
  unfold World.isNT
  unfold World.cls? at this
  cases hk : w.classes[c]? with
  | none => rfl
  | some k =>
    rw [hk] at this
    simp only [Bool.and_eq_true, bne_iff_ne, ne_eq] at this
    simp [this.2]

/-- the payload `None` is never handed to a member class -/
theorem unionPick_none_payload {w : World} {cs : List Nat} {hn : Bool} {m : Nat} :
    unionPick w cs hn Obj.none ≠ Outcome.ok m := by
  unfold unionPick
  split
  · simp
  · simp only [unionStructure]
    split
    · simp
    · split
      · split <;> simp
      · simp

end CattrsModel
