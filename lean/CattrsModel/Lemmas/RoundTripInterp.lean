import CattrsModel.Lemmas.RoundTrip
import CattrsModel.Conv.Encoding
/-!
# C01 core (BaseConverter): structuring by DECLARED type inverts unstructuring by RUN-TIME class

A `BaseConverter` (`cfg.gen = false`) unstructures the components of collections, mappings and optionals by
their run-time class (`unAny`), keeps container classes, passes NewType values and heterogeneous tuples through.
Inside its documented support (`Ty.supB`) the whole of `un` coincides with `unAny` on conforming values
(`un_eq_unAny`); the heart is `roundtrip_any`: `stF w cs t (unAny w cu x) = some x` for conforming `x`,
proved by the same double induction (value size, then type size) as `roundtrip` for `Converter`.
-/
namespace CattrsModel

/-- `BaseConverter`'s documented type support, intersected with the round-trip scope of `Ty.supG`:
no `Any`, no TypedDict, no `Annotated` (all three have no BaseConverter hook pair), NewType and heterogeneous
tuples over primitives only (their values are passed through unchanged), literals over leaf values (the model's
`Literal` does not cover enum members), set elements / mapping keys with hashable-leaf encodings. -/
def Ty.supB : Ty → Bool
  | .any => false
  -- literals of leaf values; literals containing enum members (scope condition: `litOK`, part of `Ty.unionsOK`)
  | .lit vs => litHasEnum vs || vs.all Obj.isLeaf
  | .coll k t => t.supB && (!k.structTo.isSet || t.hashPrim)
  | .tupleHet ts => ts.all Ty.isPrimLeaf
  -- (mapping types with the target class `dict` only: `_structure_dict` always returns a plain `dict`)
  | .map k kt vt => kt.hashPrim && kt.supB && vt.supB && k.target.isNone
  | .opt t => t.supB
  | .wrap k t => ((k == .final || k == .alias) && t.supB) || (k == .newtype && t.isPrimLeaf)
  | .td _ => false
  | _ => true

/-- every field of every class is typed and inside BaseConverter's support -/
def World.supB (w : World) : Prop :=
  ∀ c, ∀ f ∈ w.fields c, ∃ t, f.ty = some t ∧ t.supB = true

/-- the same, demanded only of a set `S` of classes closed under "mentioned by a field type": the classes a
type can reach.  (`World.supB` is the case `S = everything`.) -/
structure World.supBOn (w : World) (S : Nat → Prop) : Prop where
  fieldsOK : ∀ c, S c → ∀ f ∈ w.fields c, ∃ t, f.ty = some t ∧ t.supB = true ∧ ∀ c' ∈ t.refs, S c'

theorem World.supB.on {w : World} (h : w.supB) : w.supBOn (fun _ => True) :=
  ⟨fun c _ f hf => by obtain ⟨t, ht, hs⟩ := h c f hf; exact ⟨t, ht, hs, fun _ _ => trivial⟩⟩

/-! ### NamedTuples and a `BaseConverter`

A `BaseConverter` has no NamedTuple unstructure hook: an instance of a NamedTuple class is left as it is, wherever
it is met (by declared type or by run-time class).  Two demands keep that inside the round-trip scope:
class-typed positions (`.cls`, union members) name attrs classes / dataclasses, never NamedTuple classes -- in
Python a class is one or the other, the model's class table could say otherwise -- and NamedTuple classes have
fields of primitive types only (the same restriction as for heterogeneous tuples and NewTypes). -/

mutual
def Ty.ntOK (w : World) : Ty → Bool
  | .cls c => !w.isNT c
  | .union cs _ => cs.all (fun c => !w.isNT c)
  | .coll _ t => t.ntOK w
  | .tupleHet ts => Ty.ntOKL w ts
  | .map _ kt vt => kt.ntOK w && vt.ntOK w
  | .opt t => t.ntOK w
  | .wrap _ t => t.ntOK w
  | _ => true
termination_by structural t => t
def Ty.ntOKL (w : World) : List Ty → Bool
  | [] => true
  | t :: ts => t.ntOK w && Ty.ntOKL w ts
termination_by structural ts => ts
end

/-- the class-table side, demanded of a set `S` of classes -/
structure World.ntOKOn (w : World) (S : Nat → Prop) : Prop where
  fieldsOK : ∀ c, S c → ∀ f ∈ w.fields c, ∀ t, f.ty = some t → t.ntOK w = true
  ntPrim : ∀ c, S c → w.isNT c = true → ∀ f ∈ w.fields c, ∃ t, f.ty = some t ∧ t.isPrimLeaf = true

def World.ntOK (w : World) : Prop := w.ntOKOn (fun _ => True)

/-- class tables without NamedTuple classes are in the scope trivially -/
def World.noNT (w : World) : Prop := ∀ c, w.isNT c = false

mutual
theorem noNT_ntOK {w : World} (h : w.noNT) : ∀ t : Ty, t.ntOK w = true
  | .cls c => by simp [Ty.ntOK, h c]
  | .union cs _ => by simp only [Ty.ntOK, List.all_eq_true]; intro c _; simp [h c]
  | .coll _ t => by simp only [Ty.ntOK]; exact noNT_ntOK h t
  | .tupleHet ts => by simp only [Ty.ntOK]; exact noNT_ntOKL h ts
  | .map _ kt vt => by simp only [Ty.ntOK, Bool.and_eq_true]; exact ⟨noNT_ntOK h kt, noNT_ntOK h vt⟩
  | .opt t => by simp only [Ty.ntOK]; exact noNT_ntOK h t
  | .wrap _ t => by simp only [Ty.ntOK]; exact noNT_ntOK h t
  | .any | .int | .float | .str | .bytes | .bool | .enum _ | .lit _ | .td _ | .nt _ => by simp [Ty.ntOK]
theorem noNT_ntOKL {w : World} (h : w.noNT) : ∀ ts : List Ty, Ty.ntOKL w ts = true
  | [] => by simp [Ty.ntOKL]
  | t :: ts => by simp only [Ty.ntOKL, Bool.and_eq_true]; exact ⟨noNT_ntOK h t, noNT_ntOKL h ts⟩
end

theorem World.noNT.ntOKOn {w : World} (h : w.noNT) (S : Nat → Prop) : w.ntOKOn S :=
  ⟨fun _ _ _ _ t _ => noNT_ntOK h t, fun c _ hc => by rw [h c] at hc; cases hc⟩

theorem World.noNT.ntOK {w : World} (h : w.noNT) : w.ntOK := h.ntOKOn _

theorem primLeaf_ntOK (w : World) {t : Ty} (h : t.isPrimLeaf = true) : t.ntOK w = true := by
  cases t <;> simp_all [Ty.isPrimLeaf, Ty.ntOK]

theorem primLeaf_unionsOK (w : World) (tup : Bool) {t : Ty} (h : t.isPrimLeaf = true) : t.unionsOK w tup = true := by
  cases t <;> simp_all [Ty.isPrimLeaf, Ty.unionsOK]

theorem ntOKL_mem (w : World) : ∀ (ts : List Ty), Ty.ntOKL w ts = true → ∀ t ∈ ts, t.ntOK w = true
  | [], _ => by intro t h; cases h
  | a :: l, h => by
      intro t ht
      simp only [Ty.ntOKL, Bool.and_eq_true] at h
      rcases List.mem_cons.mp ht with e | e
      · subst e; exact h.1
      · exact ntOKL_mem w l h.2 t e

/-- the field types of a NamedTuple class in the scope: all primitive -/
theorem ntTys_prim {w : World} {S : Nat → Prop} (h : w.ntOKOn S) {c : Nat} (hS : S c) (hnt : w.isNT c = true) :
    (w.ntTys c).all Ty.isPrimLeaf = true := by
  rw [List.all_eq_true]
  intro t ht
  simp only [World.ntTys, List.mem_map] at ht
  obtain ⟨f, hf, rfl⟩ := ht
  obtain ⟨t', hty, hp⟩ := h.ntPrim c hS hnt f hf
  simp only [Field.tyA, hty]; exact hp

theorem primLeaf_refs {t : Ty} (h : t.isPrimLeaf = true) : t.refs = [] := by
  cases t <;> simp_all [Ty.isPrimLeaf, Ty.refs]

/-! ### the BaseConverter support is inside the Converter round-trip scope -/

theorem primLeaf_supB {t : Ty} (h : t.isPrimLeaf = true) : t.supB = true := by
  cases t <;> simp_all [Ty.isPrimLeaf, Ty.supB]

theorem primLeaf_supG (td : Bool) {t : Ty} (h : t.isPrimLeaf = true) : t.supG td = true := by
  cases t <;> simp_all [Ty.isPrimLeaf, Ty.supG]

theorem supGL_of_prim (td : Bool) : ∀ (ts : List Ty), ts.all Ty.isPrimLeaf = true → Ty.supGL td ts = true
  | [], _ => by simp [Ty.supGL]
  | t :: ts, h => by
      simp only [List.all_cons, Bool.and_eq_true] at h
      simp [Ty.supGL, primLeaf_supG td h.1, supGL_of_prim td ts h.2]

theorem supB_supG (td : Bool) : ∀ (t : Ty), t.supB = true → t.supG td = true
  | .any, h => by simp [Ty.supB] at h
  | .int, _ | .float, _ | .str, _ | .bytes, _ | .bool, _ | .enum _, _ | .cls _, _ | .union _ _, _
  | .nt _, _ => by simp [Ty.supG]
  | .lit vs, _ => by simp [Ty.supG]
  | .coll k t, h => by
      simp only [Ty.supB, Bool.and_eq_true] at h
      simp only [Ty.supG, Bool.and_eq_true]
      exact ⟨supB_supG td t h.1, h.2⟩
  | .tupleHet ts, h => by
      simp only [Ty.supB] at h
      simp only [Ty.supG]
      exact supGL_of_prim td ts h
  | .map _ kt vt, h => by
      simp only [Ty.supB, Bool.and_eq_true] at h
      simp only [Ty.supG, Bool.and_eq_true]
      exact ⟨⟨⟨h.1.1.1, supB_supG td kt h.1.1.2⟩, supB_supG td vt h.1.2⟩, by simp [h.2]⟩
  | .opt t, h => by
      simp only [Ty.supB] at h
      simp only [Ty.supG]
      exact supB_supG td t h
  | .wrap k t, h => by
      simp only [Ty.supB, Bool.or_eq_true, Bool.and_eq_true] at h
      simp only [Ty.supG]
      rcases h with h | h
      · exact supB_supG td t h.2
      · exact primLeaf_supG td h.2
  | .td _, h => by simp [Ty.supB] at h

theorem World.supB_supG {w : World} (h : w.supB) (td : Bool) : w.supG td := by
  intro c f hf
  obtain ⟨t, ht, hs⟩ := h c f hf
  exact ⟨t, ht, CattrsModel.supB_supG td t hs⟩

/-! ### leaves -/

theorem pyEq_isLeaf {v x : Obj} (hv : v.isLeaf = true) (h : Obj.pyEq v x = true) : x.isLeaf = true := by
  unfold Obj.pyEq at h
  cases v <;> cases x <;> simp_all [Obj.num2?, Obj.isLeaf]

theorem lit_leaf {vs : List Obj} {x : Obj} (hvs : vs.all Obj.isLeaf = true) (h : Obj.memPy x vs = true) :
    x.isLeaf = true := by
  obtain ⟨y, hy, e⟩ := memPy_iff.mp h
  exact pyEq_isLeaf (List.all_eq_true.mp hvs y hy) e

theorem conf_prim_leaf (w : World) {t : Ty} {x : Obj} (ht : t.isPrimLeaf = true) (hc : conf w t x = true) :
    x.isLeaf = true := by
  cases t <;> simp [Ty.isPrimLeaf] at ht <;> cases x <;> simp_all [conf, Obj.isLeaf]

theorem confT_prim_leaves (w : World) : ∀ (ts : List Ty) (xs : List Obj), ts.all Ty.isPrimLeaf = true →
    confT w ts xs = true → ∀ x ∈ xs, x.isLeaf = true
  | [], [], _, _ => by intro x hx; cases hx
  | [], _ :: _, _, hc => by simp [confT] at hc
  | _ :: _, [], _, hc => by simp [confT] at hc
  | t :: ts, y :: ys, hp, hc => by
      simp only [List.all_cons, Bool.and_eq_true] at hp
      simp only [confT, Bool.and_eq_true] at hc
      intro x hx
      rcases List.mem_cons.mp hx with e | e
      · subst e; exact conf_prim_leaf w hp.1 hc.1
      · exact confT_prim_leaves w ts ys hp.2 hc.2 x e

variable (w : World) (cu cs : Cfg)

theorem unAny_leaf {x : Obj} (h : x.isLeaf = true) : unAny w cu x = x := by
  cases x <;> simp_all [Obj.isLeaf, unAny]

theorem unAnyL_leaves : ∀ (xs : List Obj), (∀ x ∈ xs, x.isLeaf = true) → unAnyL w cu xs = xs
  | [], _ => by simp [unAnyL]
  | x :: xs, h => by
      simp only [unAnyL]
      rw [unAny_leaf w cu (h x (by simp)), unAnyL_leaves xs (fun y hy => h y (by simp [hy]))]

/-! ### inside the support, unstructuring by declared type IS unstructuring by run-time class -/

theorem un_eq_unAny (hg : cu.gen = false) :
    ∀ (t : Ty) (x : Obj), t.supB = true → t.ntOK w = true → conf w t x = true → un w cu t x = unAny w cu x
  | .any, _, hs, _, _ => by simp [Ty.supB] at hs
  | .int, x, _, _, hc => by cases x <;> simp_all [conf, un, unAny]
  | .float, x, _, _, hc => by cases x <;> simp_all [conf, un, unAny]
  | .str, x, _, _, hc => by cases x <;> simp_all [conf, un, unAny]
  | .bytes, x, _, _, hc => by cases x <;> simp_all [conf, un, unAny]
  | .bool, x, _, _, hc => by cases x <;> simp_all [conf, un, unAny]
  | .enum e, x, _, _, hc => by
      obtain ⟨m, rfl, _⟩ := conf_enum_inv w hc
      simp [un, unAny]
  | .lit vs, x, hs, _, hc => by
      cases he : litHasEnum vs with
      | true => rw [un]; simp [he]
      | false =>
        have hvs : vs.all Obj.isLeaf = true := by simpa [Ty.supB, he] using hs
        have hl : x.isLeaf = true := lit_leaf hvs (litConf_memPy (by simpa [conf] using hc))
        rw [unAny_leaf w cu hl, un_lit_simple w cu x he]
  | .coll k t, x, _, _, hc => by
      cases x <;> simp [conf] at hc
      rw [un, unAny]; simp [hg]
  | .tupleHet ts, x, hs, _, hc => by
      cases x with
      | coll ck xs =>
        cases ck <;> simp [conf] at hc
        have hl := confT_prim_leaves w ts xs (by simpa [Ty.supB] using hs) hc
        rw [un, unAny]
        simp [hg, mkColl, CK.isSet, unAnyL_leaves w cu xs hl]
      | _ => simp [conf] at hc
  | .map _ kt vt, x, _, _, hc => by
      cases x <;> simp [conf] at hc
      · rw [un, unAny]; simp [hg]
      · rw [un, unAny]; simp [hg]
  | .opt t, x, _, _, _ => by
      cases x <;> simp [un, unAny, hg]
  | .wrap k t, x, hs, hk', hc => by
      simp only [Ty.supB, Bool.or_eq_true, Bool.and_eq_true, beq_iff_eq] at hs
      have hc' : conf w t x = true := by simpa [conf] using hc
      rcases hs with ⟨hk, hs'⟩ | ⟨hk, hp⟩
      · have ih := un_eq_unAny hg t x hs' (by simpa [Ty.ntOK] using hk') hc'
        rcases hk with hk | hk <;> subst hk <;> simp [un, ih]
      · subst hk
        rw [unAny_leaf w cu (conf_prim_leaf w hp hc')]
        simp [un, hg]
  | .cls c, x, _, hk, hc => by
      cases x <;> simp [conf] at hc
      have hnt : w.isNT c = false := by simpa [Ty.ntOK] using hk
      rw [un, unAny, ← hc.1]; simp [hnt]
  | .td _, _, hs, _, _ => by simp [Ty.supB] at hs
  | .union _ _, x, _, _, _ => by simp only [un]
  | .nt c, x, _, _, hc => by
      cases x <;> simp [conf] at hc
      rw [un, unAny, ← hc.1.1.1]; simp [hg, hc.1.1.2]

/-- a non-`None` value is never unstructured to `None` (so `Optional` round-trips) -/
theorem unAny_ne_none (tup : Bool) (hwe : w.WFE) :
    ∀ (t : Ty) (x : Obj), t.supB = true → t.unionsOK w tup = true → conf w t x = true → x ≠ .none →
      unAny w cu x ≠ .none
  | .any, _, hs, _, _, _ => by simp [Ty.supB] at hs
  | .int, x, _, _, hc, _ => by cases x <;> simp_all [conf, unAny]
  | .float, x, _, _, hc, _ => by cases x <;> simp_all [conf, unAny]
  | .str, x, _, _, hc, _ => by cases x <;> simp_all [conf, unAny]
  | .bytes, x, _, _, hc, _ => by cases x <;> simp_all [conf, unAny]
  | .bool, x, _, _, hc, _ => by cases x <;> simp_all [conf, unAny]
  | .enum e, x, _, _, hc, _ => by
      obtain ⟨m, rfl, hm⟩ := conf_enum_inv w hc
      simp only [unAny, enumValue]
      have : (w.members e)[m]? = some ((w.members e)[m]'hm) := by simp [hm]
      rw [this]
      exact (hwe.enumLeaf e _ (List.getElem_mem hm)).2
  | .lit vs, x, hs, hu, hc, hx => by
      cases he : litHasEnum vs with
      | false =>
        have hvs : vs.all Obj.isLeaf = true := by simpa [Ty.supB, he] using hs
        rw [unAny_leaf w cu (lit_leaf hvs (litConf_memPy (by simpa [conf] using hc)))]
        exact hx
      | true =>
        have ha := (litOK_arg w he (by simpa [Ty.unionsOK] using hu) (by simpa [conf] using hc)).1
        have h1 := un_ne_none w { cu with gen := true } false tup rfl hwe (Ty.lit vs) x (by simp [Ty.supG]) hu hc hx
        rw [un_lit_key w { cu with gen := true } he ha] at h1
        have h2 : unAny w cu x = litKey w x := by
          cases x <;> simp_all [litArgOK, Obj.isLeaf, unAny, litKey]
        rw [h2]; exact h1
  | .coll k t, x, _, _, hc, _ => by
      cases x <;> simp [conf] at hc
      rw [unAny]; simp [mkColl]
  | .tupleHet ts, x, _, _, hc, _ => by
      cases x with
      | coll ck xs => rw [unAny]; simp [mkColl]
      | _ => simp [conf] at hc
  | .map _ kt vt, x, _, _, hc, _ => by
      cases x <;> simp [conf] at hc
      · rw [unAny]; simp
      · rw [unAny]; split <;> simp
  | .opt t, x, hs, hu, hc, hx => by
      rw [conf_opt_some w hx] at hc
      exact unAny_ne_none tup hwe t x (by simpa [Ty.supB] using hs) (by simpa [Ty.unionsOK] using hu) hc hx
  | .wrap k t, x, hs, hu, hc, hx => by
      simp only [Ty.supB, Bool.or_eq_true, Bool.and_eq_true] at hs
      have hc' : conf w t x = true := by simpa [conf] using hc
      rcases hs with ⟨_, hs'⟩ | ⟨_, hp⟩
      · exact unAny_ne_none tup hwe t x hs' (by simpa [Ty.unionsOK] using hu) hc' hx
      · rw [unAny_leaf w cu (conf_prim_leaf w hp hc')]; exact hx
  | .cls c, x, _, _, hc, _ => by
      cases x <;> simp [conf] at hc
      simp only [unAny]; split <;> (try split) <;> simp
  | .td _, _, hs, _, _, _ => by simp [Ty.supB] at hs
  | .union _ _, x, _, _, hc, hx => by
      cases x <;> simp [conf] at hc
      · exact absurd rfl hx
      · simp only [unAny]; split <;> (try split) <;> simp
  | .nt _, x, _, _, hc, _ => by
      cases x <;> simp [conf] at hc
      simp only [unAny]; split <;> (try split) <;> simp

/-- on hashable-primitive types a `BaseConverter` emits what a `Converter` emits -/
theorem unAny_eq_un_hp (cg : Cfg) (hg : cg.gen = true) :
    ∀ (t : Ty) (a : Obj), t.hashPrim = true → t.supB = true → conf w t a = true → unAny w cu a = un w cg t a
  | .int, a, _, _, hc => by cases a <;> simp_all [conf, un, unAny]
  | .float, a, _, _, hc => by cases a <;> simp_all [conf, un, unAny]
  | .str, a, _, _, hc => by cases a <;> simp_all [conf, un, unAny]
  | .bytes, a, _, _, hc => by cases a <;> simp_all [conf, un, unAny]
  | .bool, a, _, _, hc => by cases a <;> simp_all [conf, un, unAny]
  | .enum e, a, _, _, hc => by
      obtain ⟨m, rfl, _⟩ := conf_enum_inv w hc
      simp [un, unAny]
  | .lit vs, a, hp, hs, hc => by
      have he : litHasEnum vs = false := by simpa [Ty.hashPrim] using hp
      have hvs : vs.all Obj.isLeaf = true := by simpa [Ty.supB, he] using hs
      have hl : a.isLeaf = true := lit_leaf hvs (litConf_memPy (by simpa [conf] using hc))
      rw [unAny_leaf w cu hl, un_lit_simple w cg a he]
  | .opt t, a, hp, hs, hc => by
      by_cases ha : a = .none
      · subst ha; simp [un, unAny]
      · rw [un_opt_some w cg ha hg]
        rw [conf_opt_some w ha] at hc
        exact unAny_eq_un_hp cg hg t a (by simpa [Ty.hashPrim] using hp) (by simpa [Ty.supB] using hs) hc
  | .wrap k t, a, hp, hs, hc => by
      simp only [Ty.supB, Bool.or_eq_true, Bool.and_eq_true] at hs
      have hc' : conf w t a = true := by simpa [conf] using hc
      have hs' : t.supB = true := by
        rcases hs with ⟨_, h⟩ | ⟨_, h⟩
        · exact h
        · exact primLeaf_supB h
      simp only [un, hg, Bool.true_or, if_true]
      exact unAny_eq_un_hp cg hg t a (by simpa [Ty.hashPrim] using hp) hs' hc'
  | .any, _, hp, _, _ | .coll _ _, _, hp, _, _ | .tupleHet _, _, hp, _, _ | .map _ _ _, _, hp, _, _
  | .cls _, _, hp, _, _ | .td _, _, hp, _, _ | .union _ _, _, hp, _, _ | .nt _, _, hp, _, _ => by
      simp [Ty.hashPrim] at hp

/-- run-time-class unstructuring is injective up to Python `==` on the values of a hashable-primitive type -/
theorem unAny_inj (hwe : w.WFE) (t : Ty) (hp : t.hashPrim = true) (hs : t.supB = true) (a b : Obj)
    (ha : conf w t a = true) (hb : conf w t b = true)
    (h : Obj.pyEq (unAny w cu a) (unAny w cu b) = true) : Obj.pyEq a b = true := by
  let cg : Cfg := { cu with gen := true }
  rw [unAny_eq_un_hp w cu cg rfl t a hp hs ha, unAny_eq_un_hp w cu cg rfl t b hp hs hb] at h
  exact (un_hp w cg false rfl hwe t hp (supB_supG false t hs)).2 a b ha hb h

/-! ### lists, tuples, mappings unstructured by run-time class -/

theorem rtAnyL (t : Ty) (xs : List Obj) (ih : ∀ x ∈ xs, stF w cs t (unAny w cu x) = some x) :
    stFL w cs t (unAnyL w cu xs) = some xs := by
  induction xs with
  | nil => simp [unAnyL, stFL]
  | cons x xs ihx =>
    simp [unAnyL, stFL, ih x (by simp), ihx (fun y hy => ih y (by simp [hy]))]

theorem rtAnyT : ∀ (ts : List Ty) (xs : List Obj), confT w ts xs = true →
    (∀ t ∈ ts, ∀ x ∈ xs, conf w t x = true → stF w cs t (unAny w cu x) = some x) →
    stFT w cs ts (unAnyL w cu xs) = some xs := by
  intro ts
  induction ts with
  | nil => intro xs hc _; cases xs <;> simp_all [confT, unAnyL, stFT]
  | cons t ts iht =>
    intro xs hc ih
    cases xs with
    | nil => simp [confT] at hc
    | cons x xs =>
      simp only [confT, Bool.and_eq_true] at hc
      simp [unAnyL, stFT, ih t (by simp) x (by simp) hc.1,
        iht xs hc.2 (fun t' ht' y hy => ih t' (by simp [ht']) y (by simp [hy]))]

theorem rtAnyKV (kt vt : Ty) (kvs : List (Obj × Obj))
    (ih : ∀ p ∈ kvs, stF w cs kt (unAny w cu p.1) = some p.1 ∧ stF w cs vt (unAny w cu p.2) = some p.2) :
    stFKV w cs kt vt (unAnyKV w cu kvs) = some kvs := by
  induction kvs with
  | nil => simp [unAnyKV, stFKV]
  | cons p rest ihr =>
    obtain ⟨a, b⟩ := p
    have hp := ih (a, b) (by simp)
    simp [unAnyKV, stFKV, hp.1, hp.2, ihr (fun q hq => ih q (by simp [hq]))]

theorem keysOf_unAnyKV (kvs : List (Obj × Obj)) : keysOf (unAnyKV w cu kvs) = unAnyL w cu (keysOf kvs) := by
  induction kvs with
  | nil => simp [unAnyKV, unAnyL, keysOf]
  | cons p rest ih => obtain ⟨a, b⟩ := p; simp only [unAnyKV, keysOf, List.map_cons, unAnyL] at ih ⊢; rw [ih]

theorem mem_unAnyL_rt {xs : List Obj} {y : Obj} (h : y ∈ unAnyL w cu xs) : ∃ x ∈ xs, y = unAny w cu x := by
  induction xs with
  | nil => simp [unAnyL] at h
  | cons x xs ih =>
    simp only [unAnyL, List.mem_cons] at h
    rcases h with h | h
    · exact ⟨x, by simp, h⟩
    · obtain ⟨z, hz, e⟩ := ih h; exact ⟨z, by simp [hz], e⟩

/-- injectivity up to `==` on the elements keeps the unstructured elements pairwise distinct -/
theorem unAnyL_nodup (xs : List Obj)
    (inj : ∀ a ∈ xs, ∀ b ∈ xs, Obj.pyEq (unAny w cu a) (unAny w cu b) = true → Obj.pyEq a b = true)
    (h : nodupPy xs = true) : nodupPy (unAnyL w cu xs) = true := by
  induction xs with
  | nil => simp [unAnyL, nodupPy]
  | cons x xs ih =>
    simp only [nodupPy, Bool.and_eq_true, Bool.not_eq_true'] at h
    simp only [unAnyL, nodupPy, Bool.and_eq_true, Bool.not_eq_true']
    refine ⟨?_, ih (fun a ha b hb => inj a (by simp [ha]) b (by simp [hb])) h.2⟩
    cases hm : Obj.memPy (unAny w cu x) (unAnyL w cu xs) with
    | false => rfl
    | true =>
      exfalso
      obtain ⟨y, hy, hyx⟩ := memPy_iff.mp hm
      obtain ⟨z, hz, rfl⟩ := mem_unAnyL_rt w cu hy
      have := inj z (by simp [hz]) x (by simp) hyx
      have : Obj.memPy x xs = true := memPy_iff.mpr ⟨z, hz, this⟩
      rw [this] at h; cases h.1

/-! ### the heart: structuring by declared type inverts unstructuring by run-time class -/

/-- the heterogeneous-tuple case of `roundtrip_any` (items of primitive types, passed through) -/
theorem roundtrip_any_tup (hg : cu.gen = false) (ts : List Ty) (x : Obj) (hc : conf w (.tupleHet ts) x = true)
    (hps : ts.all Ty.isPrimLeaf = true)
    (IH : ∀ (t' : Ty) (y : Obj), sizeOf y < sizeOf x → t'.isPrimLeaf = true → conf w t' y = true → y.valid = true →
      stF w cs t' (unAny w cu y) = some y) :
    stF w cs (.tupleHet ts) (unAny w cu x) = some x := by
  cases x with
  | coll ck xs =>
    cases ck <;> simp [conf] at hc
    have hl := confT_prim_leaves w ts xs hps hc
    rw [unAny]
    simp only [hg, Bool.false_eq_true, if_false, mkColl, CK.isSet]
    rw [stF_tup_some w cs (o := .coll .tuple (unAnyL w cu xs)) (xs := unAnyL w cu xs) rfl]
    rw [rtAnyT w cu cs ts xs hc (fun t' ht' y hy hcy =>
      IH t' y (by have := List.sizeOf_lt_of_mem hy; simp; omega) (List.all_eq_true.mp hps t' ht') hcy
        (by have := hl y hy; cases y <;> simp_all [Obj.isLeaf, Obj.valid]))]
    rfl
  | _ => simp [conf] at hc

/-- the NamedTuple case of `roundtrip_any`: the instance is left as the tuple it is, its (primitive) items are
structured back by their declared types, `cl(*res)` rebuilds the instance -/
theorem roundtrip_any_nt (hg : cu.gen = false) (c : Nat) (x : Obj) (hc : conf w (.nt c) x = true)
    (hps : w.isNT c = true → (w.ntTys c).all Ty.isPrimLeaf = true)
    (IH : ∀ (t' : Ty) (y : Obj), sizeOf y < sizeOf x → t'.isPrimLeaf = true → conf w t' y = true → y.valid = true →
      stF w cs t' (unAny w cu y) = some y) :
    stF w cs (.nt c) (unAny w cu x) = some x := by
  cases x with
  | inst c' fs =>
    simp only [conf, Bool.and_eq_true, beq_iff_eq] at hc
    obtain ⟨⟨⟨hcc, hnt⟩, hnames⟩, hcT⟩ := hc
    subst hcc
    have hps := hps hnt
    have hl := confT_prim_leaves w (w.ntTys c) (vals fs) hps hcT
    rw [unAny]; simp only [hnt, hg, Bool.false_eq_true, if_true, if_false]
    rw [stF_nt_some w cs (o := .coll .tuple (vals fs)) (xs := vals fs) rfl, if_pos hnt]
    have hsz : ∀ y ∈ vals fs, sizeOf y < sizeOf (Obj.inst c fs) := by
      intro y hy
      have h1 := List.sizeOf_lt_of_mem hy
      have h2 := sizeOf_vals_lt fs
      simp; omega
    have hrt := rtAnyT w cu cs (w.ntTys c) (vals fs) hcT (fun t' ht' y hy hcy =>
      IH t' y (hsz y hy) (List.all_eq_true.mp hps t' ht') hcy
        (by have := hl y hy; cases y <;> simp_all [Obj.isLeaf, Obj.valid]))
    rw [unAnyL_leaves w cu (vals fs) hl] at hrt
    rw [hrt]
    simp only [Option.map_some, ntMk, Option.some.injEq, Obj.inst.injEq, true_and]
    rw [← hnames]; exact zip_names_vals
  | _ => simp [conf] at hc



theorem roundtrip_any_aux (hg : cu.gen = false) (hstrat : cs.tupleStrat = cu.tupleStrat) (hforbid : cs.forbid = false)
    (hw : w.WF) (hwe : w.WFE) (S : Nat → Prop) (hws : w.supBOn S) (hwk : w.ntOKOn S)
    (hwu : ∀ c, S c → ∀ f ∈ w.fields c, ∀ t, f.ty = some t → t.unionsOK w cs.tupleStrat = true) :
    ∀ (n m : Nat) (t : Ty) (x : Obj), sizeOf x ≤ n → sizeOf t ≤ m → t.supB = true → t.ntOK w = true →
      (∀ c ∈ t.refs, S c) → t.unionsOK w cs.tupleStrat = true →
      conf w t x = true → x.valid = true → stF w cs t (unAny w cu x) = some x := by
  intro n
  induction n with
  | zero => intro m t x hx _; have : 0 < sizeOf x := by cases x <;> simp <;> omega
            omega
  | succ n ihn =>
    intro m
    induction m with
    | zero => intro t x _ ht; have : 0 < sizeOf t := by cases t <;> simp <;> omega
              omega
    | succ m ihm =>
      intro t x hx ht hs hk hr hu hc hv
      have IHo : ∀ (t' : Ty) (x' : Obj), sizeOf x' < sizeOf x → t'.supB = true → t'.ntOK w = true →
          (∀ c ∈ t'.refs, S c) → t'.unionsOK w cs.tupleStrat = true →
          conf w t' x' = true → x'.valid = true → stF w cs t' (unAny w cu x') = some x' :=
        fun t' x' hlt hs' hk' hr' hu' hc' hv' =>
          ihn (sizeOf t') t' x' (by omega) (Nat.le_refl _) hs' hk' hr' hu' hc' hv'
      cases t with
      | any => simp [Ty.supB] at hs
      | int => clear IHo ihm ihn hwu hws hwk hu hr hk; cases x <;> simp_all [conf, unAny, stF, Obj.toInt?]
      | float => clear IHo ihm ihn hwu hws hwk hu hr hk; cases x <;> simp_all [conf, unAny, stF, Obj.toFlt?]
      | str => clear IHo ihm ihn hwu hws hwk hu hr hk; cases x <;> simp_all [conf, unAny, stF, pyStr]
      | bytes => clear IHo ihm ihn hwu hws hwk hu hr hk; cases x <;> simp_all [conf, unAny, stF, Obj.toBytes?]
      | bool => clear IHo ihm ihn hwu hws hwk hu hr hk; cases x <;> simp_all [conf, unAny, stF, Obj.truthy]
      | enum e =>
        obtain ⟨mm, rfl, hm⟩ := conf_enum_inv w hc
        simp only [unAny, enumValue, stF]
        have g1 : (w.members e)[mm]? = some ((w.members e)[mm]'hm) := by simp [hm]
        rw [g1]
        rw [isLeaf_not_enum (hwe.enumLeaf e _ (List.getElem_mem hm)).1, enumIdx_get (hwe.enumDistinct e) g1]
        rfl
      | lit vs =>
        simp only [conf] at hc
        cases he : litHasEnum vs with
        | false =>
          have hvs : vs.all Obj.isLeaf = true := by simpa [Ty.supB, he] using hs
          rw [unAny_leaf w cu (lit_leaf hvs (litConf_memPy hc))]
          simp only [stF]
          rw [litStruct_simple w x he]
          simp [litConf_memPy hc]
        | true =>
          obtain ⟨ha, hfind⟩ := litOK_arg w he (by simpa [Ty.unionsOK] using hu) hc
          have h2 : unAny w cu x = litKey w x := by
            cases x <;> simp_all [litArgOK, Obj.isLeaf, unAny, litKey]
          rw [h2]
          simp only [stF, litStruct, he, if_true]
          exact hfind
      | coll k t' =>
        simp only [Ty.supB, Bool.and_eq_true, Bool.or_eq_true, Bool.not_eq_true'] at hs
        obtain ⟨hs', hset⟩ := hs
        have hr' : ∀ c ∈ t'.refs, S c := by simpa [Ty.refs] using hr
        cases x with
        | coll ck xs =>
          simp only [conf, Bool.and_eq_true, beq_iff_eq, Bool.or_eq_true, Bool.not_eq_true'] at hc
          obtain ⟨⟨hck, hcl⟩, hcs⟩ := hc
          subst hck
          have hel := (confL_iff w t' xs).mp hcl
          have hrt : stFL w cs t' (unAnyL w cu xs) = some xs :=
            rtAnyL w cu cs t' xs (fun y hy => IHo t' y (by have := List.sizeOf_lt_of_mem hy; simp; omega) hs'
              (by simpa [Ty.ntOK] using hk) hr'
              (by simpa [Ty.unionsOK] using hu) (hel y hy)
              (validL_mem (by simpa [Obj.valid] using hv) hy))
          rw [unAny]
          simp only [hg, Bool.false_eq_true, if_false]
          by_cases hiss : k.structTo.isSet = true
          · -- sets: the unstructured elements stay pairwise distinct
            have hp : t'.hashPrim = true := by
              rcases hset with h | h
              · rw [hiss] at h; cases h
              · exact h
            rcases hcs with h | h
            · rw [hiss] at h; cases h
            · obtain ⟨hnd, hh⟩ := h
              have hnd' := unAnyL_nodup w cu xs
                (fun a ha b hb => unAny_inj w cu hwe t' hp hs' a b (hel a ha) (hel b hb)) hnd
              simp only [mkColl, hiss, if_true, mkSet_of_nodup _ hnd']
              rw [stF_coll_some w cs (o := .coll k.structTo (unAnyL w cu xs)) (xs := unAnyL w cu xs) rfl, hrt]
              simp [finishColl, hiss, hh, mkSet_of_nodup _ hnd]
          · have hiss' : k.structTo.isSet = false := by simpa using hiss
            simp only [mkColl, hiss', Bool.false_eq_true, if_false]
            rw [stF_coll_some w cs (o := .coll k.structTo (unAnyL w cu xs)) (xs := unAnyL w cu xs) rfl, hrt]
            simp [finishColl, hiss']
        | _ => simp [conf] at hc
      | tupleHet ts =>
        exact roundtrip_any_tup w cu cs hg ts x hc (by simpa [Ty.supB] using hs)
          (fun t' y hy hp hcy hvy => IHo t' y hy (primLeaf_supB hp) (primLeaf_ntOK w hp)
            (by rw [primLeaf_refs hp]; intro c hc'; cases hc') (primLeaf_unionsOK w _ hp) hcy hvy)
      | map k kt vt =>
        simp only [Ty.supB, Bool.and_eq_true] at hs
        obtain ⟨⟨⟨hp, hsk⟩, hsv⟩, hkt⟩ := hs
        have hkt' : k.target = Option.none := by simpa using hkt
        have hrk : ∀ c ∈ kt.refs, S c := fun c hc' => hr c (by simp [Ty.refs, hc'])
        have hrv : ∀ c ∈ vt.refs, S c := fun c hc' => hr c (by simp [Ty.refs, hc'])
        simp only [Ty.unionsOK, Bool.and_eq_true] at hu
        simp only [Ty.ntOK, Bool.and_eq_true] at hk
        cases x with
        | dict kvs =>
          simp only [conf, Bool.and_eq_true] at hc
          obtain ⟨⟨⟨hckv, hnd⟩, hh⟩, _⟩ := hc
          have hkv := (confKV_iff w kt vt kvs).mp hckv
          have hnd' : nodupPy (keysOf (unAnyKV w cu kvs)) = true := by
            rw [keysOf_unAnyKV]
            exact unAnyL_nodup w cu _
              (fun a ha b hb => unAny_inj w cu hwe kt hp hsk a b (hkv.1 a ha) (hkv.1 b hb)) hnd
          rw [unAny]; simp only [mkDict_of_nodup _ hnd']
          rw [stF]
          rw [rtAnyKV w cu cs kt vt kvs (fun p hp' => by
            have h1 := List.sizeOf_lt_of_mem hp'
            obtain ⟨a, b⟩ := p
            simp only [Prod.mk.sizeOf_spec] at h1
            have hvv := validKV_mem (p := (a, b)) (by simp only [Obj.valid, Bool.and_eq_true] at hv; exact hv.2) hp'
            exact ⟨IHo kt a (by simp; omega) hsk hk.1 hrk hu.1 (hkv.1 a (by simp only [keysOf, List.mem_map]; exact ⟨(a, b), hp', rfl⟩)) hvv.1,
                   IHo vt b (by simp; omega) hsv hk.2 hrv hu.2 (hkv.2 b (by simp only [List.mem_map]; exact ⟨(a, b), hp', rfl⟩)) hvv.2⟩)]
          simp [hh, mkDict_of_nodup _ hnd, mapRes_plain cs kvs hkt']
        | mdict d kvs => simp [conf, hkt'] at hc
        | _ => simp [conf] at hc
      | opt t' =>
        have hsz : sizeOf t' ≤ m := by simp at ht; omega
        have hs' : t'.supB = true := by simpa [Ty.supB] using hs
        by_cases hxn : x = .none
        · subst hxn; simp [unAny, stF]
        · rw [conf_opt_some w hxn] at hc
          have hne := unAny_ne_none w cu cs.tupleStrat hwe t' x hs' (by simpa [Ty.unionsOK] using hu) hc hxn
          have : stF w cs (.opt t') (unAny w cu x) = stF w cs t' (unAny w cu x) := by
            cases hu : unAny w cu x <;> simp_all [stF]
          rw [this]
          exact ihm t' x hx hsz hs' (by simpa [Ty.ntOK] using hk) (by simpa [Ty.refs] using hr)
            (by simpa [Ty.unionsOK] using hu) hc hv
      | wrap k t' =>
        have hsz : sizeOf t' ≤ m := by simp at ht; omega
        have hs' : t'.supB = true := by
          simp only [Ty.supB, Bool.or_eq_true, Bool.and_eq_true] at hs
          rcases hs with ⟨_, h⟩ | ⟨_, h⟩
          · exact h
          · exact primLeaf_supB h
        simp only [stF]
        exact ihm t' x hx hsz hs' (by simpa [Ty.ntOK] using hk) (by simpa [Ty.refs] using hr)
          (by
            simp only [Ty.supB, Bool.or_eq_true, Bool.and_eq_true] at hs
            simpa [Ty.unionsOK] using hu) (by simpa [conf] using hc) hv
      | cls c =>
        cases x with
        | inst c' fs =>
          simp only [conf, Bool.and_eq_true, beq_iff_eq] at hc
          obtain ⟨rfl, hcf⟩ := hc
          have hnd := hw.namesNodup c
          have hfield : ∀ f ∈ w.fields c, ∀ p ∈ fs, f.name = p.1 → hF w cs f (unField w cu f p.2) = some p.2 := by
            intro f hf p hp hname
            obtain ⟨t', hty, hst', hrt'⟩ := hws.fieldsOK c (hr c (by simp [Ty.refs])) f hf
            have hfc := confF_pair w (w.fields c) fs hcf hnd f hf p hp hname
            unfold hF unField
            simp only [hty]
            unfold fconf at hfc
            simp only [hty] at hfc
            have hkf := hwk.fieldsOK c (hr c (by simp [Ty.refs])) f hf t' hty
            rw [un_eq_unAny w cu hg t' p.2 hst' hkf hfc]
            exact IHo t' p.2 (by have := sizeOf_snd_lt_of_mem hp; simp; omega) hst' hkf hrt'
              (hwu c (hr c (by simp [Ty.refs])) f hf t' hty) hfc
              (validF_mem (by simpa [Obj.valid] using hv) hp)
          have hnt : w.isNT c = false := by simpa [Ty.ntOK] using hk
          by_cases htup : cu.tupleStrat = true
          · rw [unAny]; simp only [hnt, Bool.false_eq_true, htup, if_true, if_false]
            rw [stF_cls_tuple w cs (by rw [hstrat]; exact htup)]
            simp only [iterItems]
            rw [rtFieldsT w cu cs (w.fields c) fs hcf (fun f hf p hp hn _ => hfield f hf p hp hn)]
            rfl
          · have htup' : cu.tupleStrat = false := by simpa using htup
            rw [unAny]; simp only [hnt, htup', Bool.false_eq_true, if_false]
            rw [stF_cls_dict w cs (by rw [hstrat]; exact htup')]
            -- the interpretive hook emits every field, `init=False` ones included; structuring ignores those
            rw [rtFields w cu cs (unFields w cu (w.fields c) fs) (w.fields c) fs hcf (fun f hf p hp hn _ =>
              ⟨dlookup_unFields w cu (w.fields c) fs hcf hnd f hf p hp hn (by simp [emits, hg]), hfield f hf p hp hn⟩)]
            simp [hforbid]
        | _ => simp [conf] at hc
      | td c => simp [Ty.supB] at hs
      | union ucs hn =>
        simp only [Ty.unionsOK, Bool.and_eq_true, Bool.not_eq_true'] at hu
        obtain ⟨htupS, hok⟩ := hu
        have htupU : cu.tupleStrat = false := by rw [← hstrat]; exact htupS
        cases x with
        | none =>
          simp only [conf] at hc; subst hc
          simp only [unAny]
          rw [stF_union, unionPick_none_ok w hok]
        | inst c fs =>
          simp only [conf, Bool.and_eq_true, List.contains_iff_mem] at hc
          obtain ⟨hcm, hcf⟩ := hc
          have hcm' : c ∈ ucs := by simpa using hcm
          have hcls := ihm (.cls c) (.inst c fs) hx (by have := sizeOf_cls_lt_union hcm' hn; omega)
            (by simp [Ty.supB]) (by simp [Ty.ntOK, unionOKB_notNT hok hcm'])
            (by intro c' hc'; simp only [Ty.refs, List.mem_singleton] at hc'; rw [hc']
                exact hr c (by simpa [Ty.refs] using hcm'))
            (by simp [Ty.unionsOK]) (by simp [conf, hcf]) hv
          have hd : unAny w cu (.inst c fs) = .dict (unFields w cu (w.fields c) fs) := by
            simp [unAny, htupU, unionOKB_notNT hok hcm']
          rw [stF_union, hd, unionPick_member w cu hw hok hn hcm' fs hcf]
          simp only [hcm', if_true]
          rw [← hd]; exact hcls
        | _ => simp [conf] at hc
      | nt c =>
        exact roundtrip_any_nt w cu cs hg c x hc (ntTys_prim hwk (hr c (by simp [Ty.refs])))
          (fun t' y hy hp hcy hvy => IHo t' y hy (primLeaf_supB hp) (primLeaf_ntOK w hp)
            (by rw [primLeaf_refs hp]; intro c hc'; cases hc') (primLeaf_unionsOK w _ hp) hcy hvy)

/-- structuring by declared type inverts unstructuring by run-time class on conforming values;
the support hypothesis is demanded only of a closed set `S` of classes containing those the type mentions -/
theorem roundtrip_any_on (hg : cu.gen = false) (hstrat : cs.tupleStrat = cu.tupleStrat) (hforbid : cs.forbid = false)
    (hw : w.WF) (hwe : w.WFE) (S : Nat → Prop) (hws : w.supBOn S) (hwk : w.ntOKOn S)
    (hwu : ∀ c, S c → ∀ f ∈ w.fields c, ∀ t, f.ty = some t → t.unionsOK w cs.tupleStrat = true)
    (t : Ty) (x : Obj) (hs : t.supB = true) (hk : t.ntOK w = true) (hr : ∀ c ∈ t.refs, S c)
    (hu : t.unionsOK w cs.tupleStrat = true)
    (hc : conf w t x = true) (hv : x.valid = true) :
    stF w cs t (unAny w cu x) = some x :=
  roundtrip_any_aux w cu cs hg hstrat hforbid hw hwe S hws hwk hwu (sizeOf x) (sizeOf t) t x (Nat.le_refl _) (Nat.le_refl _)
    hs hk hr hu hc hv

theorem roundtrip_any (hg : cu.gen = false) (hstrat : cs.tupleStrat = cu.tupleStrat) (hforbid : cs.forbid = false)
    (hw : w.WF) (hwe : w.WFE) (hws : w.supB) (hwk : w.ntOK) (hwu : w.unionsOK cs.tupleStrat)
    (t : Ty) (x : Obj) (hs : t.supB = true) (hk : t.ntOK w = true) (hu : t.unionsOK w cs.tupleStrat = true)
    (hc : conf w t x = true) (hv : x.valid = true) :
    stF w cs t (unAny w cu x) = some x :=
  roundtrip_any_on w cu cs hg hstrat hforbid hw hwe _ hws.on hwk (fun c _ => hwu c) t x hs hk (fun _ _ => trivial) hu hc hv

/-- **C01 (core, BaseConverter-unstructured data), support demanded of the reachable classes only.** -/
theorem roundtrip_interp_on (hg : cu.gen = false) (hstrat : cs.tupleStrat = cu.tupleStrat) (hforbid : cs.forbid = false)
    (hw : w.WF) (hwe : w.WFE) (S : Nat → Prop) (hws : w.supBOn S) (hwk : w.ntOKOn S)
    (hwu : ∀ c, S c → ∀ f ∈ w.fields c, ∀ t, f.ty = some t → t.unionsOK w cs.tupleStrat = true)
    (t : Ty) (x : Obj) (hs : t.supB = true) (hk : t.ntOK w = true) (hr : ∀ c ∈ t.refs, S c)
    (hu : t.unionsOK w cs.tupleStrat = true)
    (hc : conf w t x = true) (hv : x.valid = true) :
    stF w cs t (un w cu t x) = some x := by
  rw [un_eq_unAny w cu hg t x hs hk hc]
  exact roundtrip_any_on w cu cs hg hstrat hforbid hw hwe S hws hwk hwu t x hs hk hr hu hc hv

/-- **C01 (core, BaseConverter-unstructured data).**  The structuring converter may be of either class. -/
theorem roundtrip_interp (hg : cu.gen = false) (hstrat : cs.tupleStrat = cu.tupleStrat) (hforbid : cs.forbid = false)
    (hw : w.WF) (hwe : w.WFE) (hws : w.supB) (hwk : w.ntOK) (hwu : w.unionsOK cs.tupleStrat)
    (t : Ty) (x : Obj) (hs : t.supB = true) (hk : t.ntOK w = true) (hu : t.unionsOK w cs.tupleStrat = true)
    (hc : conf w t x = true) (hv : x.valid = true) :
    stF w cs t (un w cu t x) = some x :=
  roundtrip_interp_on w cu cs hg hstrat hforbid hw hwe _ hws.on hwk (fun c _ => hwu c) t x hs hk (fun _ _ => trivial) hu hc hv

/-- both halves: any pair of converter classes, inside the common support -/
theorem roundtrip_cross (hstrat : cs.tupleStrat = cu.tupleStrat) (hforbid : cs.forbid = false)
    (hw : w.WF) (hwe : w.WFE) (hws : w.supB) (hwk : w.ntOK) (hwu : w.unionsOK cs.tupleStrat)
    (t : Ty) (x : Obj) (hs : t.supB = true) (hk : t.ntOK w = true) (hu : t.unionsOK w cs.tupleStrat = true)
    (hc : conf w t x = true) (hv : x.valid = true) :
    stF w cs t (un w cu t x) = some x := by
  cases hg : cu.gen with
  | false => exact roundtrip_interp w cu cs hg hstrat hforbid hw hwe hws hwk hwu t x hs hk hu hc hv
  | true =>
    exact roundtrip w cu cs hg hstrat hforbid hw hwe (World.supB_supG hws cs.gen) hwu t x (supB_supG cs.gen t hs) hu hc hv

/-! ### the support of a pair (unstructuring converter, structuring converter) -/

/-- "each converter class within its documented type support": data unstructured by a `Converter` is in scope
when the type is in `Ty.supG` (TypedDicts only if the structuring side is a `Converter` too); data unstructured by a
`BaseConverter` when the type is in `Ty.supB`. -/
def Ty.supPair (cu cs : Cfg) (t : Ty) : Bool := if cu.gen then t.supG cs.gen else t.supB

def World.supPair (w : World) (cu cs : Cfg) : Prop := if cu.gen = true then w.supG cs.gen else w.supB

/-- **C01 (core), all four pairs of converter classes.** -/
theorem roundtrip_full (hstrat : cs.tupleStrat = cu.tupleStrat) (hforbid : cs.forbid = false)
    (hw : w.WF) (hwe : w.WFE) (hws : w.supPair cu cs) (hwk : cu.gen = false → w.ntOK) (hwu : w.unionsOK cs.tupleStrat)
    (t : Ty) (x : Obj) (hs : t.supPair cu cs = true) (hk : cu.gen = false → t.ntOK w = true)
    (hu : t.unionsOK w cs.tupleStrat = true)
    (hc : conf w t x = true) (hv : x.valid = true) :
    stF w cs t (un w cu t x) = some x := by
  unfold World.supPair at hws
  unfold Ty.supPair at hs
  cases hg : cu.gen with
  | false =>
    simp only [hg, Bool.false_eq_true, if_false] at hws hs
    exact roundtrip_interp w cu cs hg hstrat hforbid hw hwe hws (hwk hg) hwu t x hs (hk hg) hu hc hv
  | true =>
    simp only [hg, if_true] at hws hs
    exact roundtrip w cu cs hg hstrat hforbid hw hwe hws hwu t x hs hu hc hv

end CattrsModel
