import CattrsModel.Lemmas.RoundTripBase
/-!
# The bridge lemma: the unstructured form of a conforming instance of member `k` IS a `PayloadOf … k`

`unionPick_member`: for a union in the round-trip scope (`unionOKB`: distinct attrs/dataclass members, `deepOk`,
literal attributes initialised), the dict a converter emits for a conforming instance of member `c` is resolved
to `c` by the union hook.  The proof builds the hypotheses of `Disambig.resolveF_complete` (= `C12_complete`)
from the data-path facts.
-/
namespace CattrsModel
open Disambig (PayloadOf LitKeysPresent pkeys)

variable (w : World) (cu : Cfg)

/-! ### literal codes respect Python `==` -/

theorem litCode_congr (pool : List Obj) {a b : Obj} (h : Obj.pyEq a b = true) : litCode pool a = litCode pool b := by
  induction pool with
  | nil => rfl
  | cons u pool ih =>
    simp only [litCode]
    have : Obj.pyEq u a = Obj.pyEq u b := by
      cases h1 : Obj.pyEq u a <;> cases h2 : Obj.pyEq u b <;> try rfl
      · have := pyEq_trans h2 (by rw [Obj.pyEq_symm]; exact h); rw [this] at h1; cases h1
      · have := pyEq_trans h1 h; rw [this] at h2; cases h2
    rw [this, ih]

theorem litCode_mem (pool : List Obj) {x : Obj} {vs : List Obj} (h : Obj.memPy x vs = true) :
    litCode pool x ∈ vs.map (litCode pool) := by
  obtain ⟨y, hy, hyx⟩ := memPy_iff.mp h
  rw [← litCode_congr pool hyx]
  exact List.mem_map_of_mem hy

/-! ### the class table as the disambiguator sees it -/

theorem table_cls (c : Nat) : (w.table).cls c = ⟨(w.fields c).map (sigField w.litPool)⟩ := by
  unfold Disambig.Table.cls World.table World.fields
  rw [List.getD_eq_getElem?_getD, List.getElem?_map]
  cases w.classes[c]? <;> simp [sigOf]

theorem table_WF (hw : w.WF) : (w.table).WF := by
  intro sg hsg
  unfold World.table at hsg
  obtain ⟨k, hk, rfl⟩ := List.mem_map.mp hsg
  obtain ⟨i, hi, hget⟩ := List.getElem_of_mem hk
  have hnd := hw.namesNodup i
  have hf : w.fields i = k.fields := by
    unfold World.fields
    rw [List.getElem?_eq_getElem hi, hget]
  rw [hf] at hnd
  constructor
  · simpa [sigOf, sigField, List.map_map, Function.comp_def] using hnd
  · intro f hfm _
    simp only [sigOf, List.mem_map] at hfm
    obtain ⟨g, _, rfl⟩ := hfm
    rfl

/-! ### what the dict hook emits -/

/-- the value emitted for a field -/
def uval (f : Field) (x : Obj) : Obj :=
  match f.ty with | Option.none => unAny w cu x | some t => un w cu t x

/-- emitted (field, value) pairs, in order -/
def emitted : List Field → List (String × Obj) → List (Field × Obj)
  | f :: fds, (_, x) :: rest => if emits cu f then (f, x) :: emitted fds rest else emitted fds rest
  | _, _ => []

theorem unFields_emitted : ∀ (fds : List Field) (fs : List (String × Obj)),
    unFields w cu fds fs = (emitted cu fds fs).map (fun p => (Obj.str p.1.name, uval w cu p.1 p.2)) := by
  intro fds
  induction fds with
  | nil => intro fs; cases fs <;> simp [unFields, emitted]
  | cons f fds ih =>
    intro fs
    cases fs with
    | nil => simp [unFields, emitted]
    | cons q rest =>
      obtain ⟨n, x⟩ := q
      rw [unFields, emitted]
      split
      · rw [List.map_cons, ← ih rest]; simp only [Field.key, uval]; cases f.ty <;> rfl
      · exact ih rest

theorem disPayload_map (pool : List Obj) (l : List (Field × Obj)) (g : Field × Obj → Obj) :
    disPayload pool (l.map (fun p => (Obj.str p.1.name, g p))) = l.map (fun p => (p.1.name, litCode pool (g p))) := by
  induction l with
  | nil => rfl
  | cons a l ih => simp [disPayload, ih]

theorem emitted_mem : ∀ (fds : List Field) (fs : List (String × Obj)), confF w fds fs = true →
    ∀ p ∈ emitted cu fds fs, p.1 ∈ fds ∧ emits cu p.1 = true ∧ fconf w p.1 p.2 = true := by
  intro fds
  induction fds with
  | nil => intro fs _ p hp; cases fs <;> simp [emitted] at hp
  | cons f fds ih =>
    intro fs hc p hp
    cases fs with
    | nil => simp [emitted] at hp
    | cons q rest =>
      obtain ⟨n, x⟩ := q
      rw [confF_cons] at hc
      simp only [Bool.and_eq_true] at hc
      rw [emitted] at hp
      split at hp
      · rename_i hem
        rcases List.mem_cons.mp hp with e | hp'
        · subst e; exact ⟨by simp, hem, hc.1.1.2⟩
        · obtain ⟨h1, h2, h3⟩ := ih rest hc.2 p hp'; exact ⟨by simp [h1], h2, h3⟩
      · obtain ⟨h1, h2, h3⟩ := ih rest hc.2 p hp; exact ⟨by simp [h1], h2, h3⟩

/-- every initialised field is emitted (by either converter class, dict strategy); a field that is not an
`__init__` argument has a default -/
theorem emitted_all : ∀ (fds : List Field) (fs : List (String × Obj)), confF w fds fs = true →
    ∀ f ∈ fds, (f.init = true → ∃ x, (f, x) ∈ emitted cu fds fs) ∧ (f.init = false → f.dflt.value?.isSome = true) := by
  intro fds
  induction fds with
  | nil => intro fs _ f hf; cases hf
  | cons g fds ih =>
    intro fs hc f hf
    cases fs with
    | nil => simp [confF] at hc
    | cons q rest =>
      obtain ⟨n, x⟩ := q
      rw [confF_cons] at hc
      simp only [Bool.and_eq_true, Bool.or_eq_true, beq_iff_eq] at hc
      rcases List.mem_cons.mp hf with e | hf'
      · subst e
        constructor
        · intro hi; exact ⟨x, by rw [emitted]; simp [emits, hi]⟩
        · intro hi
          rcases hc.1.2 with h | h
          · rw [h] at hi; cases hi
          · rw [h]; rfl
      · obtain ⟨h1, h2⟩ := ih rest hc.2 f hf'
        refine ⟨fun hi => ?_, h2⟩
        obtain ⟨y, hy⟩ := h1 hi
        refine ⟨y, ?_⟩
        rw [emitted]; split
        · exact List.mem_cons_of_mem _ hy
        · exact hy

theorem lookup_mem {α} [BEq α] [LawfulBEq α] {β} : ∀ (l : List (α × β)) (k : α) (v : β),
    l.lookup k = some v → (k, v) ∈ l := by
  intro l
  induction l with
  | nil => intro k v h; simp [List.lookup] at h
  | cons a l ih =>
    intro k v h
    obtain ⟨k', v'⟩ := a
    simp only [List.lookup] at h
    split at h
    · rename_i heq; cases h; have : k = k' := by simpa using heq
      subst this; simp
    · exact List.mem_cons_of_mem _ (ih k v h)

theorem name_inj_of_nodup : ∀ (fds : List Field), (fds.map (·.name)).Nodup →
    ∀ f ∈ fds, ∀ g ∈ fds, f.name = g.name → f = g := by
  intro fds
  induction fds with
  | nil => intro _ f hf; cases hf
  | cons a fds ih =>
    intro hnd f hf g hg hname
    rw [List.map_cons, List.nodup_cons] at hnd
    rcases List.mem_cons.mp hf with e | hf' <;> rcases List.mem_cons.mp hg with e' | hg'
    · rw [e, e']
    · subst e; exact absurd (by rw [hname]; exact List.mem_map_of_mem hg') hnd.1
    · subst e'; exact absurd (by rw [← hname]; exact List.mem_map_of_mem hf') hnd.1
    · exact ih hnd.2 f hf' g hg' hname

/-- **Bridge lemma.**  The dict emitted for a conforming instance of class `c` (either converter class, dict
strategy) is, in the disambiguator's vocabulary, a payload of member `c` with all literal keys present. -/
theorem payloadOf_unFields (hw : w.WF) (c : Nat) (fs : List (String × Obj))
    (hcf : confF w (w.fields c) fs = true)
    (hlit : (w.fields c).all (fun f => match f.ty with | some (.lit vs) => f.init && !litHasEnum vs | _ => true) = true) :
    PayloadOf w.table c (disPayload w.litPool (unFields w cu (w.fields c) fs)) ∧
    LitKeysPresent w.table c (disPayload w.litPool (unFields w cu (w.fields c) fs)) := by
  have hnd := hw.namesNodup c
  rw [unFields_emitted, disPayload_map]
  have hkeys : ∀ f ∈ w.fields c, f.init = true →
      f.name ∈ pkeys ((emitted cu (w.fields c) fs).map (fun p => (p.1.name, litCode w.litPool (uval w cu p.1 p.2)))) := by
    intro f hf hi
    obtain ⟨x, hx⟩ := (emitted_all w cu (w.fields c) fs hcf f hf).1 hi
    simp only [pkeys, List.map_map, List.mem_map, Function.comp_def]
    exact ⟨(f, x), hx, rfl⟩
  refine ⟨⟨?_, ?_, ?_⟩, ?_⟩
  · -- required keys are present
    intro sf hsf hreq
    rw [table_cls] at hsf
    obtain ⟨f, hf, rfl⟩ := List.mem_map.mp hsf
    simp only [sigField] at hreq ⊢
    have hi : f.init = true := by
      cases hi : f.init with
      | true => rfl
      | false =>
        have := (emitted_all w cu (w.fields c) fs hcf f hf).2 hi
        rw [Option.isNone_iff_eq_none] at hreq
        rw [hreq] at this; cases this
    exact hkeys f hf hi
  · -- no foreign keys
    intro k hk
    simp only [pkeys, List.map_map, List.mem_map, Function.comp_def] at hk
    obtain ⟨p, hp, rfl⟩ := hk
    have := (emitted_mem w cu (w.fields c) fs hcf p hp).1
    rw [table_cls]
    simp only [Disambig.CSig.keys, List.map_map, List.mem_map, Function.comp_def, sigField]
    exact ⟨p.1, this, rfl⟩
  · -- literal values
    intro sf hsf vs v hl hlook
    rw [table_cls] at hsf
    obtain ⟨f, hf, rfl⟩ := List.mem_map.mp hsf
    have hmem := lookup_mem _ _ _ hlook
    obtain ⟨p, hp, hpe⟩ := List.mem_map.mp hmem
    obtain ⟨hp1, _, hp3⟩ := emitted_mem w cu (w.fields c) fs hcf p hp
    simp only [sigField, Prod.mk.injEq] at hpe
    have : p.1 = f := name_inj_of_nodup (w.fields c) hnd p.1 hp1 f hf hpe.1
    simp only [sigField] at hl
    split at hl
    · rename_i vs' hty
      cases hl
      rw [← hpe.2]
      rw [this] at hp3 ⊢
      unfold fconf at hp3
      unfold uval
      simp only [hty, conf] at hp3 ⊢
      have hne : litHasEnum vs' = false := by
        have hfi := List.all_eq_true.mp hlit f hf
        simp only [hty, Bool.and_eq_true, Bool.not_eq_true'] at hfi
        exact hfi.2
      rw [un_lit_simple w cu _ hne]
      exact litCode_mem w.litPool (litConf_memPy hp3)
    · cases hl
  · -- literal keys are present
    intro sf hsf hl
    rw [table_cls] at hsf
    obtain ⟨f, hf, rfl⟩ := List.mem_map.mp hsf
    simp only [sigField] at hl ⊢
    have hfi := List.all_eq_true.mp hlit f hf
    split at hl
    · rename_i vs' hty
      simp only [hty, Bool.and_eq_true] at hfi
      exact hkeys f hf hfi.1
    · cases hl

end CattrsModel

namespace CattrsModel
variable (w : World) (cu : Cfg)

theorem deepOk_length {so : Disambig.SetOrder} {t : Disambig.Table} {n : Nat} {ms : List Nat}
    (h : Disambig.deepOk so t n ms = true) : 2 ≤ ms.length := by
  cases n with
  | zero => simp [Disambig.deepOk] at h
  | succ n => simp only [Disambig.deepOk, Bool.and_eq_true, decide_eq_true_eq] at h; exact h.1

theorem deepOk_createOk {so : Disambig.SetOrder} {t : Disambig.Table} {n : Nat} {ms : List Nat}
    (h : Disambig.deepOk so t n ms = true) : Disambig.createOk so t ms = true := by
  cases n with
  | zero => simp [Disambig.deepOk] at h
  | succ n =>
    simp only [Disambig.deepOk, Bool.and_eq_true, decide_eq_true_eq] at h
    simp only [Disambig.createOk, Bool.and_eq_true, decide_eq_true_eq, Bool.or_eq_true]
    refine ⟨h.1, ?_⟩
    cases hl : Disambig.litSelect Disambig.sortStr t ms with
    | none => right; simpa [hl] using h.2
    | some d => left; rfl

/-- **The union hook picks the member the instance came from** (uses `C12_complete`). -/
theorem unionPick_member (hw : w.WF) {cs : List Nat} (hok : unionOKB w cs = true) (hn : Bool)
    {c : Nat} (hc : c ∈ cs) (fs : List (String × Obj)) (hcf : confF w (w.fields c) fs = true) :
    unionPick w cs hn (.dict (unFields w cu (w.fields c) fs)) = .ok c := by
  simp only [unionOKB, Bool.and_eq_true, decide_eq_true_eq] at hok
  obtain ⟨⟨⟨hnd, hmem⟩, hdeep⟩, hlit⟩ := hok
  have hlitc := List.all_eq_true.mp hlit c hc
  obtain ⟨hp, hl⟩ := payloadOf_unFields w cu hw c fs hcf hlitc
  have hlen := deepOk_length hdeep
  unfold unionPick
  simp only [hmem, Bool.not_true, Bool.false_eq_true, if_false]
  unfold Disambig.unionStructure
  simp only
  split
  · rename_i m _ heq
    simp at hlen
  · exact Disambig.resolveF_complete _ _ (table_WF w hw) _ _ _ hnd c hc hp hl hdeep

/-- `None` goes through a union that has `None` as a member -/
theorem unionPick_none_ok {cs : List Nat} (hok : unionOKB w cs = true) :
    unionPick w cs true .none = .none := by
  simp only [unionOKB, Bool.and_eq_true, decide_eq_true_eq] at hok
  obtain ⟨⟨⟨_, hmem⟩, hdeep⟩, _⟩ := hok
  have hlen := deepOk_length hdeep
  unfold unionPick
  simp only [hmem, Bool.not_true, Bool.false_eq_true, if_false]
  unfold Disambig.unionStructure
  simp only
  split
  · rfl
  · simp [deepOk_createOk hdeep]

end CattrsModel
