import CattrsModel.Lemmas.RoundTripBase
import CattrsModel.Lemmas.UnionPayload
/-!
# C01 core (Converter): structuring the unstructured form of a conforming value returns that value
-/
namespace CattrsModel
variable (w : World) (cu cs : Cfg)

theorem rtL (t : Ty) (xs : List Obj) (ih : ∀ x ∈ xs, stF w cs t (un w cu t x) = some x) :
    stFL w cs t (unL w cu t xs) = some xs := by
  induction xs with
  | nil => simp [unL, stFL]
  | cons x xs ihx =>
    simp [unL, stFL, ih x (by simp), ihx (fun y hy => ih y (by simp [hy]))]

theorem rtT : ∀ (ts : List Ty) (xs : List Obj), confT w ts xs = true →
    (∀ t ∈ ts, ∀ x ∈ xs, conf w t x = true → stF w cs t (un w cu t x) = some x) →
    stFT w cs ts (unT w cu ts xs) = some xs := by
  intro ts
  induction ts with
  | nil => intro xs hc _; cases xs <;> simp_all [confT, unT, stFT]
  | cons t ts iht =>
    intro xs hc ih
    cases xs with
    | nil => simp [confT] at hc
    | cons x xs =>
      simp only [confT, Bool.and_eq_true] at hc
      simp [unT, stFT, ih t (by simp) x (by simp) hc.1,
        iht xs hc.2 (fun t' ht' y hy => ih t' (by simp [ht']) y (by simp [hy]))]

theorem rtKV (kt vt : Ty) (kvs : List (Obj × Obj))
    (ih : ∀ p ∈ kvs, stF w cs kt (un w cu kt p.1) = some p.1 ∧ stF w cs vt (un w cu vt p.2) = some p.2) :
    stFKV w cs kt vt (unKV w cu kt vt kvs) = some kvs := by
  induction kvs with
  | nil => simp [unKV, stFKV]
  | cons p rest ihr =>
    obtain ⟨a, b⟩ := p
    have hp := ih (a, b) (by simp)
    simp [unKV, stFKV, hp.1, hp.2, ihr (fun q hq => ih q (by simp [hq]))]

theorem keysOf_unKV (kt vt : Ty) (kvs : List (Obj × Obj)) :
    keysOf (unKV w cu kt vt kvs) = unL w cu kt (keysOf kvs) := by
  induction kvs with
  | nil => simp [unKV, unL, keysOf]
  | cons p rest ih => obtain ⟨a, b⟩ := p; simp only [unKV, keysOf, List.map_cons, unL] at ih ⊢; rw [ih]

theorem mem_unL {t : Ty} {xs : List Obj} {y : Obj} (h : y ∈ unL w cu t xs) : ∃ x ∈ xs, y = un w cu t x := by
  induction xs with
  | nil => simp [unL] at h
  | cons x xs ih =>
    simp only [unL, List.mem_cons] at h
    rcases h with h | h
    · exact ⟨x, by simp, h⟩
    · obtain ⟨z, hz, e⟩ := ih h; exact ⟨z, by simp [hz], e⟩

/-- injectivity up to `==` on the elements keeps the unstructured elements pairwise distinct -/
theorem unL_nodup (t : Ty) (xs : List Obj)
    (inj : ∀ a ∈ xs, ∀ b ∈ xs, Obj.pyEq (un w cu t a) (un w cu t b) = true → Obj.pyEq a b = true)
    (h : nodupPy xs = true) : nodupPy (unL w cu t xs) = true := by
  induction xs with
  | nil => simp [unL, nodupPy]
  | cons x xs ih =>
    simp only [nodupPy, Bool.and_eq_true, Bool.not_eq_true'] at h
    simp only [unL, nodupPy, Bool.and_eq_true, Bool.not_eq_true']
    refine ⟨?_, ih (fun a ha b hb => inj a (by simp [ha]) b (by simp [hb])) h.2⟩
    cases hm : Obj.memPy (un w cu t x) (unL w cu t xs) with
    | false => rfl
    | true =>
      exfalso
      obtain ⟨y, hy, hyx⟩ := memPy_iff.mp hm
      obtain ⟨z, hz, rfl⟩ := mem_unL w cu hy
      have := inj z (by simp [hz]) x (by simp) hyx
      have : Obj.memPy x xs = true := memPy_iff.mpr ⟨z, hz, this⟩
      rw [this] at h; cases h.1

theorem unL_hashable (t : Ty) (xs : List Obj)
    (hh : ∀ a ∈ xs, hashable w a = true → hashable w (un w cu t a) = true)
    (h : hashableL w xs = true) : hashableL w (unL w cu t xs) = true := by
  rw [hashableL_iff] at h ⊢
  intro z hz
  obtain ⟨x, hx, rfl⟩ := mem_unL w cu hz
  exact hh x hx (h x hx)

/-! ### classes -/

/-- the value the class hook emits for one field -/
def unField (f : Field) (x : Obj) : Obj :=
  match f.ty with | Option.none => unAny w cu x | some t => un w cu t x

theorem unFields_cons (f : Field) (fds : List Field) (n : String) (x : Obj) (rest : List (String × Obj)) :
    unFields w cu (f :: fds) ((n, x) :: rest) =
      if emits cu f then (f.key, unField w cu f x) :: unFields w cu fds rest else unFields w cu fds rest := by
  rw [unFields]; unfold unField; cases f.ty <;> rfl

theorem unFieldsT_cons (f : Field) (fds : List Field) (n : String) (x : Obj) (rest : List (String × Obj)) :
    unFieldsT w cu (f :: fds) ((n, x) :: rest) = unField w cu f x :: unFieldsT w cu fds rest := by
  rw [unFieldsT]; unfold unField; cases f.ty <;> rfl

theorem key_ne {f g : Field} (h : g.name ≠ f.name) : Obj.pyEq g.key f.key = false := by
  cases hp : Obj.pyEq g.key f.key
  · rfl
  · have := pyEq_str_right.mp hp
    simp only [Field.key, Obj.str.injEq] at this
    exact absurd this h

/-- a field's key is not among the keys emitted for fields with other names -/
theorem dlookup_unFields_fresh (f : Field) : ∀ (fds : List Field) (fs : List (String × Obj)),
    (∀ g ∈ fds, g.name ≠ f.name) → dlookup (unFields w cu fds fs) f.key = Option.none := by
  intro fds
  induction fds with
  | nil => intro fs _; cases fs <;> simp [unFields, dlookup]
  | cons g fds ih =>
    intro fs hne
    cases fs with
    | nil => simp [unFields, dlookup]
    | cons p rest =>
      obtain ⟨n, x⟩ := p
      rw [unFields_cons]
      have hrest := ih rest (fun g' hg' => hne g' (by simp [hg']))
      split
      · simp [dlookup, key_ne (hne g (by simp)), hrest]
      · exact hrest

/-- dict strategy: structuring the emitted dict field by field gives the instance's fields back.
`D` is the whole emitted dict; `hD` says where each emitted field is found in it. -/
theorem rtFields (D : List (Obj × Obj)) : ∀ (fds : List Field) (fs : List (String × Obj)),
    confF w fds fs = true →
    (∀ f ∈ fds, ∀ p ∈ fs, f.name = p.1 → f.init = true →
        dlookup D f.key = some (unField w cu f p.2) ∧ hF w cs f (unField w cu f p.2) = some p.2) →
    stFFields w cs fds D = some fs := by
  intro fds
  induction fds with
  | nil => intro fs hc _; cases fs <;> simp_all [confF, stFFields]
  | cons f fds ih =>
    intro fs hc hD
    cases fs with
    | nil => simp [confF] at hc
    | cons p rest =>
      obtain ⟨n, x⟩ := p
      rw [confF_cons] at hc
      simp only [Bool.and_eq_true, beq_iff_eq, Bool.or_eq_true] at hc
      obtain ⟨⟨⟨hn, hfc⟩, hinit⟩, hrestc⟩ := hc
      have hrest := ih rest hrestc (fun g hg q hq => hD g (by simp [hg]) q (by simp [hq]))
      by_cases hi : f.init = true
      · obtain ⟨h1, h2⟩ := hD f (by simp) (n, x) (by simp) hn hi
        rw [stFFields_present w cs hi h1, h2, hrest]
        simp [hn]
      · have hi' : f.init = false := by simpa using hi
        rw [stFFields_noinit w cs hi']
        rcases hinit with hinit | hinit
        · exact absurd hinit hi
        · rw [hinit, hrest]; simp [hn]

/-- tuple strategy -/
theorem rtFieldsT : ∀ (fds : List Field) (fs : List (String × Obj)),
    confF w fds fs = true →
    (∀ f ∈ fds, ∀ p ∈ fs, f.name = p.1 → f.init = true → hF w cs f (unField w cu f p.2) = some p.2) →
    stFFieldsT w cs fds (unFieldsT w cu fds fs) = some fs := by
  intro fds
  induction fds with
  | nil => intro fs hc _; cases fs <;> simp_all [confF, stFFieldsT, unFieldsT]
  | cons f fds ih =>
    intro fs hc hD
    cases fs with
    | nil => simp [confF] at hc
    | cons p rest =>
      obtain ⟨n, x⟩ := p
      rw [confF_cons] at hc
      simp only [Bool.and_eq_true, beq_iff_eq, Bool.or_eq_true] at hc
      obtain ⟨⟨⟨hn, hfc⟩, hinit⟩, hrestc⟩ := hc
      have hrest := ih rest hrestc (fun g hg q hq => hD g (by simp [hg]) q (by simp [hq]))
      rw [unFieldsT_cons, stFFieldsT]
      by_cases hi : f.init = true
      · have h2 := hD f (by simp) (n, x) (by simp) hn hi
        unfold hF at h2
        simp only [hi, Bool.not_true, Bool.false_eq_true, if_false]
        cases hty : f.ty with
        | none => simp only [hty] at h2 ⊢; simp at h2; simp [h2, hrest, hn]
        | some t => simp only [hty] at h2 ⊢; simp [h2, hrest, hn]
      · have hi' : f.init = false := by simpa using hi
        simp only [hi', Bool.not_false, if_true]
        rcases hinit with hinit | hinit
        · exact absurd hinit hi
        · simp [hinit, hrest, hn]

theorem confF_names : ∀ (fds : List Field) (fs : List (String × Obj)), confF w fds fs = true →
    ∀ p ∈ fs, ∃ g ∈ fds, g.name = p.1 := by
  intro fds
  induction fds with
  | nil => intro fs hc p hp; cases fs <;> simp_all [confF]
  | cons f fds ih =>
    intro fs hc p hp
    cases fs with
    | nil => cases hp
    | cons q rest =>
      obtain ⟨n, x⟩ := q
      rw [confF_cons] at hc
      simp only [Bool.and_eq_true, beq_iff_eq] at hc
      rcases List.mem_cons.mp hp with e | hp'
      · subst e; exact ⟨f, by simp, hc.1.1.1⟩
      · obtain ⟨g, hg, e⟩ := ih rest hc.2 p hp'; exact ⟨g, by simp [hg], e⟩

/-- where the class hook's output holds each emitted field -/
theorem dlookup_unFields : ∀ (fds : List Field) (fs : List (String × Obj)),
    confF w fds fs = true → (fds.map (·.name)).Nodup →
    ∀ f ∈ fds, ∀ p ∈ fs, f.name = p.1 → emits cu f = true →
    dlookup (unFields w cu fds fs) f.key = some (unField w cu f p.2) := by
  intro fds
  induction fds with
  | nil => intro fs _ _ f hf; cases hf
  | cons g fds ih =>
    intro fs hc hnd f hf p hp hname hem
    cases fs with
    | nil => cases hp
    | cons q rest =>
      obtain ⟨n, x⟩ := q
      rw [confF_cons] at hc
      simp only [Bool.and_eq_true, beq_iff_eq] at hc
      obtain ⟨⟨⟨hn, _⟩, _⟩, hrestc⟩ := hc
      rw [List.map_cons, List.nodup_cons] at hnd
      rw [unFields_cons]
      rcases List.mem_cons.mp hf with e | hf'
      · subst e
        rcases List.mem_cons.mp hp with e | hp'
        · subst e; simp [hem, dlookup, Obj.pyEq_refl]
        · exfalso
          obtain ⟨g', hg', e'⟩ := confF_names w fds rest hrestc p hp'
          exact hnd.1 (by rw [hname, ← e']; exact List.mem_map_of_mem hg')
      · rcases List.mem_cons.mp hp with e | hp'
        · exfalso
          subst e
          have hname' : f.name = n := hname
          exact hnd.1 (by rw [hn, ← hname']; exact List.mem_map_of_mem hf')
        · have hne : g.name ≠ f.name := fun e => hnd.1 (by rw [e]; exact List.mem_map_of_mem hf')
          have := ih rest hrestc hnd.2 f hf' p hp' hname hem
          split
          · simp [dlookup, key_ne hne, this]
          · exact this

theorem keys_unFields : ∀ (fds : List Field) (fs : List (String × Obj)),
    ∀ k ∈ keysOf (unFields w cu fds fs), ∃ f ∈ fds, emits cu f = true ∧ k = f.key := by
  intro fds
  induction fds with
  | nil => intro fs k hk; cases fs <;> simp [unFields, keysOf] at hk
  | cons g fds ih =>
    intro fs k hk
    cases fs with
    | nil => simp [unFields, keysOf] at hk
    | cons q rest =>
      obtain ⟨n, x⟩ := q
      rw [unFields_cons] at hk
      split at hk
      · rename_i hem
        simp only [keysOf, List.map_cons, List.mem_cons] at hk
        rcases hk with e | hk
        · exact ⟨g, by simp, hem, e⟩
        · obtain ⟨f, hf, h1, h2⟩ := ih rest k (by simpa [keysOf] using hk); exact ⟨f, by simp [hf], h1, h2⟩
      · obtain ⟨f, hf, h1, h2⟩ := ih rest k hk; exact ⟨f, by simp [hf], h1, h2⟩

/-- the generated dict hook emits exactly keys the forbid-check allows -/
theorem no_extras (hg : cu.gen = true) (ht : cu.tupleStrat = false) (fds : List Field) (fs : List (String × Obj)) :
    extraKeys (fieldNames (initFields fds)) (unFields w cu fds fs) = [] := by
  unfold extraKeys
  rw [List.filter_eq_nil_iff]
  intro k hk
  obtain ⟨f, hf, hem, rfl⟩ := keys_unFields w cu fds fs k hk
  have hi : f.init = true := by simpa [emits, hg, ht] using hem
  have : f.key ∈ fieldNames (initFields fds) := by
    simp only [fieldNames, initFields, List.mem_map, List.mem_filter]
    exact ⟨f, ⟨hf, hi⟩, rfl⟩
  simp [memPy_of_mem this]

/-! ### TypedDicts: copy-then-patch in both directions -/

theorem unTD_cons (fds : List Field) (k v : Obj) (rest : List (Obj × Obj)) :
    unTD w cu fds ((k, v) :: rest) =
      (k, match findField fds k with | Option.none => v | some f => unField w cu f v) :: unTD w cu fds rest := by
  rw [unTD]; unfold unField
  cases findField fds k with
  | none => rfl
  | some f => cases f.ty <;> rfl

theorem keysOf_unTD (fds : List Field) (kvs : List (Obj × Obj)) : keysOf (unTD w cu fds kvs) = keysOf kvs := by
  induction kvs with
  | nil => simp [unTD, keysOf]
  | cons p rest ih => obtain ⟨k, v⟩ := p; rw [unTD_cons]; simp only [keysOf, List.map_cons] at ih ⊢; rw [ih]

theorem findField_cons_ne {f : Field} {rest : List Field} {k : Obj} (h : Obj.pyEq f.key k = false) :
    findField (f :: rest) k = findField rest k := by
  simp [findField, List.find?, h]

theorem findField_cons_eq {f : Field} {rest : List Field} {k : Obj} (h : Obj.pyEq f.key k = true) :
    findField (f :: rest) k = some f := by
  simp [findField, List.find?, h]

theorem findField_none_of_fresh {rest : List Field} {a : String} (h : ∀ g ∈ rest, g.name ≠ a) :
    findField rest (.str a) = Option.none := by
  induction rest with
  | nil => rfl
  | cons g rest ih =>
    have : Obj.pyEq g.key (.str a) = false := by
      cases hp : Obj.pyEq g.key (.str a)
      · rfl
      · have := pyEq_str_right.mp hp
        simp only [Field.key, Obj.str.injEq] at this
        exact absurd this (h g (by simp))
    rw [findField_cons_ne this]
    exact ih (fun g' hg' => h g' (by simp [hg']))

/-- dropping a field whose key does not occur in the payload changes nothing -/
theorem unTD_drop_absent {f : Field} {rest : List Field} : ∀ (kvs : List (Obj × Obj)),
    Obj.memPy f.key (keysOf kvs) = false → unTD w cu (f :: rest) kvs = unTD w cu rest kvs := by
  intro kvs
  induction kvs with
  | nil => intro _; simp [unTD]
  | cons p tl ih =>
    obtain ⟨k, v⟩ := p
    intro h
    simp only [keysOf, List.map_cons, Obj.memPy, Bool.or_eq_false_iff] at h
    rw [unTD_cons, unTD_cons, ih (by simpa [keysOf] using h.2)]
    have : Obj.pyEq f.key k = false := by rw [Obj.pyEq_symm]; exact h.1
    rw [findField_cons_ne this]

theorem dlookup_unTD (fds : List Field) (a : String) : ∀ (kvs : List (Obj × Obj)),
    dlookup (unTD w cu fds kvs) (.str a) =
      (dlookup kvs (.str a)).map (fun v => match findField fds (.str a) with
        | Option.none => v | some f => unField w cu f v) := by
  intro kvs
  induction kvs with
  | nil => simp [unTD, dlookup]
  | cons p tl ih =>
    obtain ⟨k, v⟩ := p
    rw [unTD_cons]
    simp only [dlookup]
    split
    · rename_i h
      have := pyEq_str_right.mp h; subst this
      simp
    · exact ih

/-- after the declared key `f.key` has been structured back, the working dict is the payload
unstructured for the remaining fields only -/
theorem dictSet_unTD {f : Field} {rest : List Field} (hfresh : ∀ g ∈ rest, g.name ≠ f.name) :
    ∀ (kvs : List (Obj × Obj)) (v : Obj), nodupPy (keysOf kvs) = true → dlookup kvs f.key = some v →
    dictSet (unTD w cu (f :: rest) kvs) f.key v = unTD w cu rest kvs := by
  intro kvs
  induction kvs with
  | nil => intro v _ h; simp [dlookup] at h
  | cons p tl ih =>
    obtain ⟨k, u⟩ := p
    intro v hnd hl
    simp only [keysOf, List.map_cons, nodupPy, Bool.and_eq_true, Bool.not_eq_true'] at hnd
    rw [unTD_cons, unTD_cons]
    simp only [dlookup] at hl
    by_cases hk : Obj.pyEq k f.key = true
    · simp only [hk, if_true, Option.some.injEq] at hl; subst hl
      have hkeq : k = f.key := pyEq_str_right.mp hk
      subst hkeq
      simp only [dictSet, Obj.pyEq_refl, if_true]
      rw [unTD_drop_absent w cu tl (by simpa [keysOf] using hnd.1)]
      rw [show findField rest f.key = Option.none from findField_none_of_fresh hfresh]
    · have hk' : Obj.pyEq k f.key = false := by simpa using hk
      simp only [hk', Bool.false_eq_true, if_false] at hl
      simp only [dictSet, hk', Bool.false_eq_true, if_false]
      rw [ih v (by simpa [keysOf] using hnd.2) hl]
      have : Obj.pyEq f.key k = false := by rw [Obj.pyEq_symm]; exact hk'
      rw [findField_cons_ne this]

theorem unTD_nil (kvs : List (Obj × Obj)) : unTD w cu [] kvs = kvs := by
  induction kvs with
  | nil => simp [unTD]
  | cons p tl ih => obtain ⟨k, v⟩ := p; rw [unTD_cons, ih]; simp [findField]

/-- TypedDict round trip on the working-dict invariant `res = unTD pending kvs` -/
theorem rtTD (all : List Field) (kvs : List (Obj × Obj)) (hnodup : nodupPy (keysOf kvs) = true) :
    ∀ (pending : List Field), (pending.map (·.name)).Nodup →
    (∀ f ∈ pending, findField all f.key = some f) →
    (∀ f ∈ pending, tdFieldOK w f kvs) →
    (∀ f ∈ pending, ∀ v, dlookup kvs f.key = some v → hF w cs f (unField w cu f v) = some v) →
    stFTD w cs pending (unTD w cu all kvs) (unTD w cu pending kvs) = some kvs := by
  intro pending
  induction pending with
  | nil => intro _ _ _ _; simp [stFTD, unTD_nil]
  | cons f rest ih =>
    intro hnd hfind hok hrt
    rw [List.map_cons, List.nodup_cons] at hnd
    have hfresh : ∀ g ∈ rest, g.name ≠ f.name := fun g hg e => hnd.1 (by rw [← e]; exact List.mem_map_of_mem hg)
    have hrest := ih hnd.2 (fun g hg => hfind g (by simp [hg])) (fun g hg => hok g (by simp [hg]))
      (fun g hg => hrt g (by simp [hg]))
    have hlk : dlookup (unTD w cu all kvs) f.key = (dlookup kvs f.key).map (fun v => unField w cu f v) := by
      have := dlookup_unTD w cu all f.name kvs
      simp only [Field.key] at this ⊢
      rw [this]
      have hf := hfind f (by simp)
      simp only [Field.key] at hf
      rw [hf]
    cases hl : dlookup kvs f.key with
    | none =>
      rw [hl] at hlk
      rw [stFTD_absent w cs hlk]
      have hreq : f.required = false := by
        have := hok f (by simp); unfold tdFieldOK at this; rw [hl] at this; exact this
      simp only [hreq, Bool.false_eq_true, if_false]
      rw [unTD_drop_absent w cu kvs (dlookup_none_iff.mp hl)]
      exact hrest
    | some v =>
      rw [hl] at hlk
      rw [stFTD_present w cs hlk, hrt f (by simp) v hl]
      simp only []
      rw [dictSet_unTD w cu hfresh kvs v hnodup hl]
      exact hrest

theorem confF_pair : ∀ (fds : List Field) (fs : List (String × Obj)),
    confF w fds fs = true → (fds.map (·.name)).Nodup →
    ∀ f ∈ fds, ∀ p ∈ fs, f.name = p.1 → fconf w f p.2 = true := by
  intro fds
  induction fds with
  | nil => intro fs _ _ f hf; cases hf
  | cons g fds ih =>
    intro fs hc hnd f hf p hp hname
    cases fs with
    | nil => cases hp
    | cons q rest =>
      obtain ⟨n, x⟩ := q
      rw [confF_cons] at hc
      simp only [Bool.and_eq_true, beq_iff_eq] at hc
      obtain ⟨⟨⟨hn, hfc⟩, _⟩, hrestc⟩ := hc
      rw [List.map_cons, List.nodup_cons] at hnd
      rcases List.mem_cons.mp hf with e | hf'
      · subst e
        rcases List.mem_cons.mp hp with e | hp'
        · subst e; exact hfc
        · exfalso
          obtain ⟨g', hg', e'⟩ := confF_names w fds rest hrestc p hp'
          exact hnd.1 (by rw [hname, ← e']; exact List.mem_map_of_mem hg')
      · rcases List.mem_cons.mp hp with e | hp'
        · exfalso
          subst e
          have hname' : f.name = n := hname
          exact hnd.1 (by rw [hn, ← hname']; exact List.mem_map_of_mem hf')
        · exact ih rest hrestc hnd.2 f hf' p hp' hname

theorem sizeOf_snd_lt_of_mem {fs : List (String × Obj)} {p : String × Obj} (h : p ∈ fs) : sizeOf p.2 < sizeOf fs := by
  have := List.sizeOf_lt_of_mem h
  obtain ⟨n, x⟩ := p
  simp only [Prod.mk.sizeOf_spec] at this
  simp; omega

theorem isLeaf_not_enum {v : Obj} (h : v.isLeaf = true) (w : World) (e : Nat) :
    enumOf w e v = (enumIdx (w.members e) v).map (Obj.enumM e) := by
  cases v <;> simp_all [Obj.isLeaf, enumOf]

/-- **C01 (core, Converter).** -/
theorem roundtrip_aux (hg : cu.gen = true) (hstrat : cs.tupleStrat = cu.tupleStrat) (hforbid : cs.forbid = false)
    (hw : w.WF) (hwe : w.WFE) (hws : w.supG cs.gen) (hwu : w.unionsOK cs.tupleStrat) :
    ∀ (n m : Nat) (t : Ty) (x : Obj), sizeOf x ≤ n → sizeOf t ≤ m → t.supG cs.gen = true →
      t.unionsOK w cs.tupleStrat = true → conf w t x = true →
      x.valid = true → stF w cs t (un w cu t x) = some x := by
  intro n
  induction n with
  | zero => intro m t x hx _; have : 0 < sizeOf x := by cases x <;> simp <;> omega
            omega
  | succ n ihn =>
    intro m
    induction m with
    | zero => intro t x _ ht; have : 0 < sizeOf t := by cases t <;> simp <;> omega
              omega
    | succ m ihm =>
      intro t x hx ht hs hu hc hv
      have IHo : ∀ (t' : Ty) (x' : Obj), sizeOf x' < sizeOf x → t'.supG cs.gen = true →
          t'.unionsOK w cs.tupleStrat = true → conf w t' x' = true →
          x'.valid = true → stF w cs t' (un w cu t' x') = some x' :=
        fun t' x' hlt hs' hu' hc' hv' => ihn (sizeOf t') t' x' (by omega) (Nat.le_refl _) hs' hu' hc' hv'
      cases t with
      | any => simp [Ty.supG] at hs
      | int => clear IHo ihm ihn hwu hws hu; cases x <;> simp_all [conf, un, stF, Obj.toInt?]
      | float => clear IHo ihm ihn hwu hws hu; cases x <;> simp_all [conf, un, stF, Obj.toFlt?]
      | str => clear IHo ihm ihn hwu hws hu; cases x <;> simp_all [conf, un, stF, pyStr]
      | bytes => clear IHo ihm ihn hwu hws hu; cases x <;> simp_all [conf, un, stF, Obj.toBytes?]
      | bool => clear IHo ihm ihn hwu hws hu; cases x <;> simp_all [conf, un, stF, Obj.truthy]
      | enum e =>
        obtain ⟨mm, rfl, hm⟩ := conf_enum_inv w hc
        simp only [un, enumValue, stF]
        have g1 : (w.members e)[mm]? = some ((w.members e)[mm]'hm) := by simp [hm]
        rw [g1]
        rw [isLeaf_not_enum (hwe.enumLeaf e _ (List.getElem_mem hm)).1, enumIdx_get (hwe.enumDistinct e) g1]
        rfl
      | lit vs =>
        simp only [conf] at hc
        cases hl : litHasEnum vs with
        | false =>
          rw [un_lit_simple w cu x hl]
          simp only [stF]
          rw [litStruct_simple w x hl]
          simp [litConf_memPy hc]
        | true =>
          -- `Literal[E.A, 1]`: unstructuring gives the argument's key (a member's value), `_structure_enum_literal`
          -- finds the argument again under that key (`litOK`: the keys are pairwise different)
          obtain ⟨ha, hfind⟩ := litOK_arg w hl (by simpa [Ty.unionsOK] using hu) hc
          rw [un_lit_key w cu hl ha]
          simp only [stF, litStruct, hl, if_true]
          exact hfind
      | coll k t' =>
        simp only [Ty.supG, Bool.and_eq_true, Bool.or_eq_true, Bool.not_eq_true'] at hs
        obtain ⟨hs', hset⟩ := hs
        cases x with
        | coll ck xs =>
          simp only [conf, Bool.and_eq_true, beq_iff_eq, Bool.or_eq_true, Bool.not_eq_true'] at hc
          obtain ⟨⟨hck, hcl⟩, hcs⟩ := hc
          subst hck
          have hel := (confL_iff w t' xs).mp hcl
          have hrt : stFL w cs t' (unL w cu t' xs) = some xs :=
            rtL w cu cs t' xs (fun y hy => IHo t' y (by have := List.sizeOf_lt_of_mem hy; simp; omega) hs'
              (by simpa [Ty.unionsOK] using hu) (hel y hy)
              (validL_mem (by simpa [Obj.valid] using hv) hy))
          by_cases hiss : k.structTo.isSet = true
          · -- sets: the unstructured elements stay pairwise distinct and hashable
            have hp : t'.hashPrim = true := by
              rcases hset with h | h
              · rw [hiss] at h; cases h
              · exact h
            rcases hcs with h | h
            · rw [hiss] at h; cases h
            · obtain ⟨hnd, hh⟩ := h
              have hP := un_hp w cu cs.gen hg hwe t' hp hs'
              have hnd' := unL_nodup w cu t' xs (fun a ha b hb => hP.2 a b (hel a ha) (hel b hb)) hnd
              have hun : k.unstructTo = k.structTo := by cases k <;> simp_all [SK.structTo, SK.unstructTo, CK.isSet]
              rw [un]
              simp only [hg, if_true, mkColl, hun, hiss, mkSet_of_nodup _ hnd']
              rw [stF_coll_some w cs (o := .coll k.structTo (unL w cu t' xs)) (xs := unL w cu t' xs) rfl, hrt]
              simp [finishColl, hiss, hh, mkSet_of_nodup _ hnd]
          · have hiss' : k.structTo.isSet = false := by simpa using hiss
            have hun : k.unstructTo.isSet = false := by cases k <;> simp_all [SK.structTo, SK.unstructTo, CK.isSet]
            rw [un]
            simp only [hg, if_true, mkColl, hun, Bool.false_eq_true, if_false]
            rw [stF_coll_some w cs (o := .coll k.unstructTo (unL w cu t' xs)) (xs := unL w cu t' xs) rfl, hrt]
            simp [finishColl, hiss']
        | _ => simp [conf] at hc
      | tupleHet ts =>
        cases x with
        | coll ck xs =>
          cases ck <;> simp [conf] at hc
          rw [un]; simp only [hg, if_true]
          rw [stF_tup_some w cs (o := .coll .tuple (unT w cu ts xs)) (xs := unT w cu ts xs) rfl]
          have hsl : ∀ t' ∈ ts, t'.supG cs.gen = true := by
            have : ∀ (l : List Ty), Ty.supGL cs.gen l = true → ∀ t' ∈ l, t'.supG cs.gen = true := by
              intro l; induction l with
              | nil => intro _ t' h; cases h
              | cons a l ih => intro h t' ht'; simp only [Ty.supGL, Bool.and_eq_true] at h
                               rcases List.mem_cons.mp ht' with e | e
                               · subst e; exact h.1
                               · exact ih h.2 t' e
            exact this ts (by simpa [Ty.supG] using hs)
          have hul : ∀ t' ∈ ts, t'.unionsOK w cs.tupleStrat = true := by
            have : ∀ (l : List Ty), Ty.unionsOKL w cs.tupleStrat l = true → ∀ t' ∈ l, t'.unionsOK w cs.tupleStrat = true := by
              intro l; induction l with
              | nil => intro _ t' h; cases h
              | cons a l ih => intro h t' ht'; simp only [Ty.unionsOKL, Bool.and_eq_true] at h
                               rcases List.mem_cons.mp ht' with e | e
                               · subst e; exact h.1
                               · exact ih h.2 t' e
            exact this ts (by simpa [Ty.unionsOK] using hu)
          rw [rtT w cu cs ts xs hc (fun t' ht' y hy hcy =>
            IHo t' y (by have := List.sizeOf_lt_of_mem hy; simp; omega) (hsl t' ht') (hul t' ht') hcy
              (validL_mem (by simpa [Obj.valid] using hv) hy))]
          rfl
        | _ => simp [conf] at hc
      | map k kt vt =>
        simp only [Ty.supG, Bool.and_eq_true] at hs
        obtain ⟨⟨⟨hp, hsk⟩, hsv⟩, htd⟩ := hs
        simp only [Ty.unionsOK, Bool.and_eq_true] at hu
        cases x with
        | dict kvs =>
          simp only [conf, Bool.and_eq_true] at hc
          obtain ⟨⟨⟨hckv, hnd⟩, hh⟩, hkt⟩ := hc
          have hkv := (confKV_iff w kt vt kvs).mp hckv
          have hP := un_hp w cu cs.gen hg hwe kt hp hsk
          have hnd' : nodupPy (keysOf (unKV w cu kt vt kvs)) = true := by
            rw [keysOf_unKV]
            exact unL_nodup w cu kt _ (fun a ha b hb => hP.2 a b (hkv.1 a ha) (hkv.1 b hb)) hnd
          rw [un]; simp only [hg, if_true, mkDict_of_nodup _ hnd']
          rw [stF]
          rw [rtKV w cu cs kt vt kvs (fun p hp' => by
            have h1 := List.sizeOf_lt_of_mem hp'
            obtain ⟨a, b⟩ := p
            simp only [Prod.mk.sizeOf_spec] at h1
            have hvv := validKV_mem (p := (a, b)) (by simp only [Obj.valid, Bool.and_eq_true] at hv; exact hv.2) hp'
            exact ⟨IHo kt a (by simp; omega) hsk hu.1 (hkv.1 a (by simp only [keysOf, List.mem_map]; exact ⟨(a, b), hp', rfl⟩)) hvv.1,
                   IHo vt b (by simp; omega) hsv hu.2 (hkv.2 b (by simp only [List.mem_map]; exact ⟨(a, b), hp', rfl⟩)) hvv.2⟩)]
          have hk : k.target = Option.none := by simpa using hkt
          simp [hh, mkDict_of_nodup _ hnd, mapRes_plain cs kvs hk]
        | mdict d kvs =>
          simp only [conf, Bool.and_eq_true] at hc
          obtain ⟨⟨⟨hckv, hnd⟩, hh⟩, hkt⟩ := hc
          have hkv := (confKV_iff w kt vt kvs).mp hckv
          have hP := un_hp w cu cs.gen hg hwe kt hp hsk
          have hnd' : nodupPy (keysOf (unKV w cu kt vt kvs)) = true := by
            rw [keysOf_unKV]
            exact unL_nodup w cu kt _ (fun a ha b hb => hP.2 a b (hkv.1 a ha) (hkv.1 b hb)) hnd
          rw [un]; simp only [hg, if_true, mkDict_of_nodup _ hnd']
          rw [stF]
          rw [rtKV w cu cs kt vt kvs (fun p hp' => by
            have h1 := List.sizeOf_lt_of_mem hp'
            obtain ⟨a, b⟩ := p
            simp only [Prod.mk.sizeOf_spec] at h1
            have hvv := validKV_mem (p := (a, b)) (by simp only [Obj.valid, Bool.and_eq_true] at hv; exact hv.2) hp'
            exact ⟨IHo kt a (by simp; omega) hsk hu.1 (hkv.1 a (by simp only [keysOf, List.mem_map]; exact ⟨(a, b), hp', rfl⟩)) hvv.1,
                   IHo vt b (by simp; omega) hsv hu.2 (hkv.2 b (by simp only [List.mem_map]; exact ⟨(a, b), hp', rfl⟩)) hvv.2⟩)]
          have hk : k.target = some d := by simpa using hkt
          have hcg : cs.gen = true := by
            rcases Bool.or_eq_true _ _ |>.mp htd with h | h
            · exact h
            · rw [hk] at h; simp at h
          simp [hh, mkDict_of_nodup _ hnd, mapRes_target cs kvs hcg hk]
        | _ => simp [conf] at hc
      | opt t' =>
        have hsz : sizeOf t' ≤ m := by simp at ht; omega
        have hs' : t'.supG cs.gen = true := by simpa [Ty.supG] using hs
        by_cases hxn : x = .none
        · subst hxn; simp [un, stF]
        · rw [un_opt_some w cu hxn hg]
          rw [conf_opt_some w hxn] at hc
          have hne := un_ne_none w cu cs.gen cs.tupleStrat hg hwe t' x hs' (by simpa [Ty.unionsOK] using hu) hc hxn
          have : stF w cs (.opt t') (un w cu t' x) = stF w cs t' (un w cu t' x) := by
            cases hu : un w cu t' x <;> simp_all [stF]
          rw [this]
          exact ihm t' x hx hsz hs' (by simpa [Ty.unionsOK] using hu) hc hv
      | wrap k t' =>
        have hsz : sizeOf t' ≤ m := by simp at ht; omega
        have hs' : t'.supG cs.gen = true := by simpa [Ty.supG] using hs
        simp only [un, hg, Bool.true_or, if_true, stF]
        exact ihm t' x hx hsz hs' (by simpa [Ty.unionsOK] using hu) (by simpa [conf] using hc) hv
      | cls c =>
        cases x with
        | inst c' fs =>
          simp only [conf, Bool.and_eq_true, beq_iff_eq] at hc
          obtain ⟨rfl, hcf⟩ := hc
          have hnd := hw.namesNodup c
          have hfield : ∀ f ∈ w.fields c, ∀ p ∈ fs, f.name = p.1 → hF w cs f (unField w cu f p.2) = some p.2 := by
            intro f hf p hp hname
            obtain ⟨t', hty, hst'⟩ := hws c f hf
            have hfc := confF_pair w (w.fields c) fs hcf hnd f hf p hp hname
            unfold hF unField
            simp only [hty]
            unfold fconf at hfc
            simp only [hty] at hfc
            exact IHo t' p.2 (by have := sizeOf_snd_lt_of_mem hp; simp; omega) hst' (hwu c f hf t' hty) hfc
              (validF_mem (by simpa [Obj.valid] using hv) hp)
          by_cases htup : cu.tupleStrat = true
          · rw [un]; simp only [htup, if_true]
            rw [stF_cls_tuple w cs (by rw [hstrat]; exact htup)]
            simp only [iterItems]
            rw [rtFieldsT w cu cs (w.fields c) fs hcf (fun f hf p hp hn _ => hfield f hf p hp hn)]
            rfl
          · have htup' : cu.tupleStrat = false := by simpa using htup
            rw [un]; simp only [htup', Bool.false_eq_true, if_false]
            rw [stF_cls_dict w cs (by rw [hstrat]; exact htup')]
            rw [rtFields w cu cs (unFields w cu (w.fields c) fs) (w.fields c) fs hcf (fun f hf p hp hn hi =>
              ⟨dlookup_unFields w cu (w.fields c) fs hcf hnd f hf p hp hn (by simp [emits, hi]), hfield f hf p hp hn⟩)]
            simp [hforbid]
        | _ => simp [conf] at hc
      | td c =>
        cases x with
        | dict kvs =>
          simp only [conf] at hc
          simp only [Obj.valid, Bool.and_eq_true] at hv
          have hnd := hw.namesNodup c
          have hok := (confTD_iff w kvs (w.fields c)).mp hc
          -- the first field carrying a given name is that field (names are distinct)
          have hfind : ∀ (fds : List Field), (fds.map (·.name)).Nodup → ∀ f ∈ fds, findField fds f.key = some f := by
            intro fds
            induction fds with
            | nil => intro _ f hf; cases hf
            | cons g fds ihf =>
              intro hnd' f hf
              rw [List.map_cons, List.nodup_cons] at hnd'
              rcases List.mem_cons.mp hf with e | hf'
              · subst e; exact findField_cons_eq (Obj.pyEq_refl _)
              · have hne : g.name ≠ f.name := fun e => hnd'.1 (by rw [e]; exact List.mem_map_of_mem hf')
                rw [findField_cons_ne (key_ne hne)]
                exact ihf hnd'.2 f hf'
          have hcsg : cs.gen = true := by simpa [Ty.supG] using hs
          rw [un]; simp only [hg, if_true]
          rw [stF]
          simp only [hcsg, Bool.not_true, Bool.false_eq_true, if_false, hforbid, Bool.false_and]
          rw [rtTD w cu cs (w.fields c) kvs hv.1 (w.fields c) hnd (hfind (w.fields c) hnd) hok (by
            intro f hf v hl
            obtain ⟨t', hty, hst'⟩ := hws c f hf
            have hfo := hok f hf
            unfold tdFieldOK at hfo
            rw [hl] at hfo
            unfold fconf at hfo
            simp only [hty] at hfo
            unfold hF unField
            simp only [hty]
            obtain ⟨k', hk'⟩ := dlookup_mem hl
            exact IHo t' v (by have := dlookup_lt hl; simp; omega) hst' (hwu c f hf t' hty) hfo (validKV_mem hv.2 hk').2)]
        | _ => simp [conf] at hc
      | union ucs hn =>
        simp only [Ty.unionsOK, Bool.and_eq_true, Bool.not_eq_true'] at hu
        obtain ⟨htupS, hok⟩ := hu
        have htupU : cu.tupleStrat = false := by rw [← hstrat]; exact htupS
        cases x with
        | none =>
          simp only [conf] at hc; subst hc
          simp only [un, unAny]
          rw [stF_union, unionPick_none_ok w hok]
        | inst c fs =>
          simp only [conf, Bool.and_eq_true, List.contains_iff_mem] at hc
          obtain ⟨hcm, hcf⟩ := hc
          have hcm' : c ∈ ucs := by simpa using hcm
          have hcls := ihm (.cls c) (.inst c fs) hx (by have := sizeOf_cls_lt_union hcm' hn; omega)
            (by simp [Ty.supG]) (by simp [Ty.unionsOK]) (by simp [conf, hcf]) hv
          have hun : un w cu (.union ucs hn) (.inst c fs) = un w cu (.cls c) (.inst c fs) := by
            simp only [un, unAny, unionOKB_notNT hok hcm', Bool.false_eq_true, if_false]
          rw [hun]
          have hd : un w cu (.cls c) (.inst c fs) = .dict (unFields w cu (w.fields c) fs) := by
            simp [un, htupU]
          rw [stF_union, hd, unionPick_member w cu hw hok hn hcm' fs hcf]
          simp only [hcm', if_true]
          rw [← hd]; exact hcls
        | _ => simp [conf] at hc
      | nt c =>
        cases x with
        | inst c' fs =>
          simp only [conf, Bool.and_eq_true, beq_iff_eq] at hc
          obtain ⟨⟨⟨hcc, hnt⟩, hnames⟩, hcT⟩ := hc
          subst hcc
          rw [un]; simp only [hg, if_true]
          rw [stF_nt_some w cs (o := .coll .tuple (unT w cu (w.ntTys c) (vals fs))) (xs := unT w cu (w.ntTys c) (vals fs)) rfl,
            if_pos hnt]
          have hty : ∀ t' ∈ w.ntTys c, t'.supG cs.gen = true ∧ t'.unionsOK w cs.tupleStrat = true := by
            intro t' ht'
            simp only [World.ntTys, List.mem_map] at ht'
            obtain ⟨f, hf, rfl⟩ := ht'
            obtain ⟨t'', hty, hst⟩ := hws c f hf
            simp only [Field.tyA, hty]
            exact ⟨hst, hwu c f hf t'' hty⟩
          have hvs : Obj.validL (vals fs) = true := by
            have : ∀ (l : List (String × Obj)), Obj.validF l = true → Obj.validL (vals l) = true := by
              intro l; induction l with
              | nil => intro _; rfl
              | cons p rest ih => obtain ⟨n', v'⟩ := p; intro h
                                  simp only [Obj.validF, Bool.and_eq_true] at h
                                  simp only [vals, List.map_cons, Obj.validL, Bool.and_eq_true]
                                  exact ⟨h.1, ih h.2⟩
            exact this fs (by simpa [Obj.valid] using hv)
          have hsz : ∀ y ∈ vals fs, sizeOf y < sizeOf (Obj.inst c fs) := by
            intro y hy
            have h1 := List.sizeOf_lt_of_mem hy
            have h2 := sizeOf_vals_lt fs
            simp; omega
          rw [rtT w cu cs (w.ntTys c) (vals fs) hcT (fun t' ht' y hy hcy =>
            IHo t' y (hsz y hy) (hty t' ht').1 (hty t' ht').2 hcy (validL_mem hvs hy))]
          simp only [Option.map_some, ntMk, Option.some.injEq, Obj.inst.injEq, true_and]
          rw [← hnames]; exact zip_names_vals
        | _ => simp [conf] at hc

theorem roundtrip (hg : cu.gen = true) (hstrat : cs.tupleStrat = cu.tupleStrat) (hforbid : cs.forbid = false)
    (hw : w.WF) (hwe : w.WFE) (hws : w.supG cs.gen) (hwu : w.unionsOK cs.tupleStrat)
    (t : Ty) (x : Obj) (hs : t.supG cs.gen = true) (hu : t.unionsOK w cs.tupleStrat = true)
    (hc : conf w t x = true) (hv : x.valid = true) :
    stF w cs t (un w cu t x) = some x :=
  roundtrip_aux w cu cs hg hstrat hforbid hw hwe hws hwu (sizeOf x) (sizeOf t) t x (Nat.le_refl _) (Nat.le_refl _) hs hu hc hv

end CattrsModel
