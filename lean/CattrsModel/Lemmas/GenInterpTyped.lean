import CattrsModel.Lemmas.GenInterpMain
import CattrsModel.Lemmas.RoundTripBase
/-!
# C06: the value-level hypothesis `scalarKeys` follows from a type-level one

For types without `Any` positions whose set-element and mapping-key types are hashable primitives
(`Ty.hashPrim`, the hypothesis of the C01 round trip), every well-typed value has scalar set elements and dict keys.
-/
namespace CattrsModel.GenInterp
open CattrsModel
variable (w : World)

mutual
/-- no `Any` position; set-element and mapping-key types are hashable primitives -/
def keysHP : Ty → Bool
  | .any => false
  | .coll k t => (!k.structTo.isSet || t.hashPrim) && (keysHP t)
  | .tupleHet ts => keysHPL ts
  | .map _ kt vt => kt.hashPrim && (keysHP vt)
  | .opt t => (keysHP t)
  | .wrap _ t => (keysHP t)
  | _ => true
termination_by structural t => t
def keysHPL : List Ty → Bool
  | [] => true
  | t :: ts => (keysHP t) && keysHPL ts
termination_by structural ts => ts
end

/-- every field of every class is annotated with such a type -/
def KeysHP (w : World) : Prop := ∀ c, ∀ f ∈ w.fields c, ∃ t, f.ty = some t ∧ (keysHP t) = true

theorem keysHPL_mem : ∀ {ts : List Ty}, keysHPL ts = true → ∀ t ∈ ts, (keysHP t) = true := by
  intro ts
  induction ts with
  | nil => intro _ t ht; cases ht
  | cons a ts ih =>
    intro h t ht
    simp only [keysHPL, Bool.and_eq_true] at h
    rcases List.mem_cons.mp ht with e | e
    · subst e; exact h.1
    · exact ih h.2 t e

theorem leaf_scalarKeys {x : Obj} (h : x.isLeafB = true) : (scalarKeys x) = true := by
  cases x <;> simp_all [Obj.isLeafB, scalarKeys]

theorem scalar_scalarKeys {x : Obj} (h : (isScalar x) = true) : (scalarKeys x) = true := by
  cases x <;> simp_all [isScalar, scalarKeys]

/-- values of hashable-primitive types are scalars -/
theorem hashPrim_scalar : ∀ (m : Nat) (t : Ty) (x : Obj), sizeOf t ≤ m → t.hashPrim = true → t.supU false = true →
    wellTyped w t x = true → (isScalar x) = true := by
  intro m
  induction m with
  | zero => intro t x ht; have := sizeOf_ty_pos t; omega
  | succ m ihm =>
    intro t x ht hp hs hwt
    cases t with
    | int => cases x <;> simp_all [wellTyped, isScalar]
    | float => cases x <;> simp_all [wellTyped, isScalar]
    | str => cases x <;> simp_all [wellTyped, isScalar]
    | bytes => cases x <;> simp_all [wellTyped, isScalar]
    | bool => cases x <;> simp_all [wellTyped, isScalar]
    | enum e => cases x <;> simp_all [wellTyped, isScalar]
    | lit vs =>
      rw [wellTyped] at hwt
      simp only [Bool.and_eq_true] at hwt
      exact litVal_scalar (by simpa [Ty.supU] using hs) hwt.1
    | opt t' =>
      have hsz : sizeOf t' ≤ m := by simp at ht; omega
      by_cases hx0 : x = .none
      · subst hx0; rfl
      · rw [wellTyped_opt_ne w hx0] at hwt
        exact ihm t' x hsz (by simpa [Ty.hashPrim] using hp) (by simpa [Ty.supU] using hs) hwt
    | wrap k t' =>
      have hsz : sizeOf t' ≤ m := by simp at ht; omega
      rw [wellTyped] at hwt
      simp only [Ty.supU, Bool.and_eq_true] at hs
      exact ihm t' x hsz (by simpa [Ty.hashPrim] using hp) hs.1 hwt
    | _ => simp [Ty.hashPrim] at hp

theorem allScalar_of (xs : List Obj) (h : ∀ x ∈ xs, (isScalar x) = true) : allScalar xs = true := by
  simp only [allScalar, List.all_eq_true]; exact h

theorem scalarKeys_of_typed_aux (hws : w.SupU false) (hk : (KeysHP w)) :
    ∀ (n m : Nat) (t : Ty) (x : Obj), sizeOf x ≤ n → sizeOf t ≤ m → (keysHP t) = true → t.supU false = true →
      wellTyped w t x = true → (scalarKeys x) = true := by
  intro n
  induction n with
  | zero => intro m t x hx; have := sizeOf_obj_pos x; omega
  | succ n ihn =>
    intro m
    induction m with
    | zero => intro t x _ ht; have := sizeOf_ty_pos t; omega
    | succ m ihm =>
      intro t x hx ht hp hs hwt
      have IHo : ∀ (t' : Ty) (x' : Obj), sizeOf x' < sizeOf x → (keysHP t') = true → t'.supU false = true →
          wellTyped w t' x' = true → (scalarKeys x') = true :=
        fun t' x' h => ihn (sizeOf t') t' x' (by omega) (Nat.le_refl _)
      cases t with
      | any => simp [keysHP] at hp
      | int => cases x <;> simp_all [wellTyped, scalarKeys]
      | float => cases x <;> simp_all [wellTyped, scalarKeys]
      | str => cases x <;> simp_all [wellTyped, scalarKeys]
      | bytes => cases x <;> simp_all [wellTyped, scalarKeys]
      | bool => cases x <;> simp_all [wellTyped, scalarKeys]
      | enum e => cases x <;> simp_all [wellTyped, scalarKeys]
      | lit vs =>
        rw [wellTyped] at hwt
        simp only [Bool.and_eq_true] at hwt
        rcases memPy_litVal (by simpa [Ty.supU] using hs) hwt.1 with hl | ⟨e, m, rfl, _⟩
        · exact leaf_scalarKeys hl
        · rfl
      | coll k t' =>
        cases x with
        | coll ck xs =>
          simp only [wellTyped, Bool.and_eq_true, beq_iff_eq] at hwt
          obtain ⟨hck, hwl⟩ := hwt
          have hel := (wellTypedL_iff w t' xs).mp hwl
          have hs' : t'.supU false = true := by simpa [Ty.supU] using hs
          simp only [keysHP, Bool.and_eq_true, Bool.or_eq_true, Bool.not_eq_true'] at hp
          simp only [scalarKeys, Bool.and_eq_true, Bool.or_eq_true, Bool.not_eq_true']
          refine ⟨?_, (scalarKeysL_iff xs).mpr (fun z hz => IHo t' z (by
            have := List.sizeOf_lt_of_mem hz; simp; omega) hp.2 hs' (hel z hz))⟩
          rcases hp.1 with h | h
          · left; rw [hck]; exact h
          · right
            exact allScalar_of xs (fun z hz => hashPrim_scalar w (sizeOf t') t' z (Nat.le_refl _) h hs' (hel z hz))
        | _ => simp [wellTyped] at hwt
      | tupleHet ts =>
        cases x with
        | coll ck xs =>
          cases ck <;> simp [wellTyped] at hwt
          simp only [Ty.supU, Bool.and_eq_true] at hs
          rw [keysHP] at hp
          simp only [scalarKeys, CK.isSet, Bool.not_false, Bool.true_or, Bool.true_and]
          refine (scalarKeysL_iff xs).mpr (fun z hz => ?_)
          obtain ⟨t', ht', hh⟩ := wellTypedT_mem w ts xs hwt z hz
          exact IHo t' z (by have := List.sizeOf_lt_of_mem hz; simp; omega) (keysHPL_mem hp t' ht')
            (supUL_mem hs.1 t' ht') hh
        | _ => simp [wellTyped] at hwt
      | map mk kt vt =>
        cases x with
        | dict kvs =>
          rw [wellTyped] at hwt
          have hel := (wellTypedKV_iff w kt vt kvs).mp hwt
          simp only [Ty.supU, Bool.and_eq_true] at hs
          replace hs := hs.1
          simp only [keysHP, Bool.and_eq_true] at hp
          rw [scalarKeys]
          refine (scalarKeysKV_iff kvs).mpr (fun p hpm => ?_)
          have := sizeOf_lt_of_mem_kv hpm
          exact ⟨hashPrim_scalar w (sizeOf kt) kt p.1 (Nat.le_refl _) hp.1 hs.1 (hel p hpm).1,
            IHo vt p.2 (by simp; omega) hp.2 hs.2 (hel p hpm).2⟩
        | _ => simp [wellTyped] at hwt
      | opt t' =>
        have hsz : sizeOf t' ≤ m := by simp at ht; omega
        by_cases hx0 : x = .none
        · subst hx0; rfl
        · rw [wellTyped_opt_ne w hx0] at hwt
          exact ihm t' x hx hsz (by simpa [keysHP] using hp) (by simpa [Ty.supU] using hs) hwt
      | wrap k t' =>
        have hsz : sizeOf t' ≤ m := by simp at ht; omega
        rw [wellTyped] at hwt
        simp only [Ty.supU, Bool.and_eq_true] at hs
        exact ihm t' x hx hsz (by simpa [keysHP] using hp) hs.1 hwt
      | cls c =>
        cases x with
        | inst c' fs =>
          simp only [wellTyped, Bool.and_eq_true, beq_iff_eq] at hwt
          obtain ⟨⟨hc, _⟩, hwf⟩ := hwt
          subst hc
          rw [scalarKeys]
          have key : ∀ (fds : List Field) (gs : List (String × Obj)), (∀ f ∈ fds, f ∈ w.fields c) →
              (∀ p ∈ gs, sizeOf p.2 < sizeOf (Obj.inst c fs)) → wellTypedF w fds gs = true →
              scalarKeysF gs = true := by
            intro fds
            induction fds with
            | nil => intro gs _ _ h; cases gs <;> simp_all [wellTypedF, scalarKeysF]
            | cons f fds ih =>
              intro gs hsub hsz h
              cases gs with
              | nil => simp [wellTypedF] at h
              | cons q rest =>
                obtain ⟨nm, v⟩ := q
                rw [wellTypedF_cons] at h
                simp only [Bool.and_eq_true] at h
                obtain ⟨t', hty, hkp⟩ := hk c f (hsub f (by simp))
                have hv : wellTyped w t' v = true := by simpa [wtField, hty] using h.1
                simp only [scalarKeysF, Bool.and_eq_true]
                exact ⟨IHo t' v (hsz (nm, v) (by simp)) hkp (hws.fieldsOK c f (hsub f (by simp)) t' hty) hv,
                  ih rest (fun g hg => hsub g (by simp [hg])) (fun p hp => hsz p (by simp [hp])) h.2⟩
          exact key (w.fields c) fs (fun f hf => hf) (fun p hp => by
            have := sizeOf_snd_lt_of_mem hp; simp; omega) hwf
        | _ => simp [wellTyped] at hwt
      | td c => simp [Ty.supU] at hs
      | union ucs hn =>
        cases x with
        | none => rfl
        | inst c fs =>
          simp only [wellTyped, Bool.and_eq_true, List.contains_iff_mem] at hwt
          have hcm : c ∈ ucs := by simpa using hwt.1.1
          exact ihm (.cls c) (.inst c fs) hx (by have := sizeOf_cls_lt_union hcm hn; omega)
            (by simp [keysHP]) (by simp [Ty.supU]) (by simp [wellTyped, hwt.2, hwt.1.2])
        | _ => simp [wellTyped] at hwt
      | nt c =>
        cases x with
        | inst c' fs =>
          simp only [wellTyped, Bool.and_eq_true, beq_iff_eq] at hwt
          obtain ⟨⟨hc, hnt⟩, hwf⟩ := hwt
          subst hc
          rw [scalarKeys]
          refine (scalarKeysF_iff fs).mpr (fun p hp' => ?_)
          have hv : p.2 ∈ vals fs := by simp only [vals, List.mem_map]; exact ⟨p, hp', rfl⟩
          obtain ⟨t', ht', hh⟩ := wellTypedT_mem w _ _ hwf p.2 hv
          have hkp : keysHP t' = true := by
            simp only [World.ntTys, List.mem_map] at ht'
            obtain ⟨f, hf, rfl⟩ := ht'
            obtain ⟨t'', hty, hkp⟩ := hk c f hf
            simp only [Field.tyA, hty]; exact hkp
          exact IHo t' p.2 (by have := sizeOf_snd_lt_of_mem hp'; simp; omega) hkp (ntTys_supU w hws c t' ht') hh
        | _ => simp [wellTyped] at hwt

theorem scalarKeys_of_typed (hws : w.SupU false) (hk : (KeysHP w)) {t : Ty} {x : Obj}
    (hp : (keysHP t) = true) (hs : t.supU false = true) (hwt : wellTyped w t x = true) : (scalarKeys x) = true :=
  scalarKeys_of_typed_aux w hws hk (sizeOf x) (sizeOf t) t x (Nat.le_refl _) (Nat.le_refl _) hp hs hwt

end CattrsModel.GenInterp
