import CattrsModel.Lemmas.ModesAgreeBase
import CattrsModel.Lemmas.UnfoldLeaf
/-!
# C04 core for `str` / `bytes` payloads at iterating positions: `stLD` and `stLF` agree
(the list / field helpers are those of `ModesAgreeBase`, restated for the fuelled family)
-/
namespace CattrsModel.Leaf
open CattrsModel

theorem stFL_any (w : World) (cfg : Cfg) (n : Nat) (xs : List Obj) : stLFL w cfg n .any xs = some xs := by
  induction xs with
  | nil => simp [stLFL]
  | cons x xs ih => simp [stLFL, stLF, ih]

theorem stDL_agree (w : World) (cfg : Cfg) (n : Nat) (t : Ty) (xs : List Obj)
    (ih : ∀ x ∈ xs, Res.toOption (stLD w cfg n t x) = stLF w cfg n t x) :
    ∀ (isSet : Bool) (ix : Nat),
      match stLFL w cfg n t xs with
      | some zs => if !isSet || hashableL w zs then stLDL w cfg n t isSet ix xs = (zs, [])
                   else (stLDL w cfg n t isSet ix xs).2 ≠ []
      | Option.none => (stLDL w cfg n t isSet ix xs).2 ≠ [] := by
  induction xs with
  | nil => intro isSet ix; simp [stLFL, stLDL, hashableL]
  | cons x xs ihx =>
    intro isSet ix
    have hx := ih x (by simp)
    have hrest := ihx (fun y hy => ih y (by simp [hy])) isSet (ix + 1)
    rw [stLFL, stLDL]
    cases hd : stLD w cfg n t x with
    | error e =>
      have : stLF w cfg n t x = Option.none := by rw [← hx, hd]; rfl
      simp [this]
    | ok y =>
      have hf : stLF w cfg n t x = some y := by rw [← hx, hd]; rfl
      simp only [hf]
      cases hr : stLFL w cfg n t xs with
      | none =>
        simp only [hr] at hrest
        simp only [Option.map_none]
        split <;> simp_all
      | some zs =>
        simp only [hr] at hrest
        simp only [Option.map_some]
        by_cases hs : isSet = true
        · subst hs
          simp only [Bool.not_true, Bool.false_or, hashableL, Bool.and_eq_true] at *
          by_cases hy : hashable w y = true
          · by_cases hz : hashableL w zs = true
            · simp_all
            · simp_all
          · simp_all
        · simp_all

theorem stDT_agree (w : World) (cfg : Cfg) (n : Nat) :
    ∀ (ts : List Ty) (xs : List Obj),
      (∀ t ∈ ts, ∀ x ∈ xs, Res.toOption (stLD w cfg n t x) = stLF w cfg n t x) →
      ∀ ix : Nat,
      match stLFT w cfg n ts xs with
      | some zs => stLDT w cfg n ix ts xs = (zs, []) ∧ xs.length = ts.length
      | Option.none => (stLDT w cfg n ix ts xs).2 ≠ [] ∨ xs.length ≠ ts.length := by
  intro ts
  induction ts with
  | nil =>
    intro xs _ ix
    cases xs <;> simp [stLFT, stLDT]
  | cons t ts iht =>
    intro xs ih ix
    cases xs with
    | nil => simp [stLFT, stLDT]
    | cons x xs =>
      have hx := ih t (by simp) x (by simp)
      have hrest := iht xs (fun t' ht' y hy => ih t' (by simp [ht']) y (by simp [hy])) (ix + 1)
      rw [stLFT, stLDT]
      cases hd : stLD w cfg n t x with
      | error e =>
        have : stLF w cfg n t x = Option.none := by rw [← hx, hd]; rfl
        simp [this]
      | ok y =>
        have hf : stLF w cfg n t x = some y := by rw [← hx, hd]; rfl
        simp only [hf]
        cases hr : stLFT w cfg n ts xs with
        | none =>
          simp only [hr] at hrest
          simp only [Option.map_none]
          rcases hrest with h | h
          · left; simpa using h
          · right; simpa using h
        | some zs =>
          simp only [hr] at hrest
          simp [hrest.1, hrest.2]

theorem stDFieldsT_agree (w : World) (cfg : Cfg) (n : Nat) :
    ∀ (fds : List Field) (xs : List Obj),
    (∀ f ∈ fds, ∀ x ∈ xs, ∀ t, f.ty = some t → Res.toOption (stLD w cfg n t x) = stLF w cfg n t x) →
    (match stLDFieldsT w cfg n fds xs with | .ok fs => some fs | .error _ => Option.none) = stLFFieldsT w cfg n fds xs := by
  intro fds
  induction fds with
  | nil => intro xs _; cases xs <;> simp [stLDFieldsT, stLFFieldsT]
  | cons f fds ihf =>
    intro xs ih
    cases xs with
    | nil =>
      have hrest := ihf [] (fun g hg y hy => by simp at hy)
      rw [stLDFieldsT, stLFFieldsT]
      cases hd : f.dflt.value? with
      | none => rfl
      | some d =>
        simp only []
        rw [← hrest]
        cases stLDFieldsT w cfg n fds [] <;> simp [Except.map]
    | cons x xs =>
      have hrest := ihf xs (fun g hg y hy => ih g (by simp [hg]) y (by simp [hy]))
      rw [stLDFieldsT, stLFFieldsT]
      by_cases hinit : f.init = true
      · simp only [hinit, Bool.not_true, Bool.false_eq_true, if_false]
        cases hty : f.ty with
        | none =>
          simp only []
          rw [← hrest]
          cases stLDFieldsT w cfg n fds xs <;> simp [Except.map]
        | some t =>
          simp only []
          have hx := ih f (by simp) x (by simp) t hty
          cases hd : stLD w cfg n t x with
          | error e =>
            have : stLF w cfg n t x = Option.none := by rw [← hx, hd]; rfl
            simp [this]
          | ok y =>
            have hy : stLF w cfg n t x = some y := by rw [← hx, hd]; rfl
            simp only [hy]
            rw [← hrest]
            cases stLDFieldsT w cfg n fds xs <;> simp [Except.map]
      · have hinit' : f.init = false := by simpa using hinit
        simp only [hinit', Bool.not_false, if_true]
        cases hd : f.dflt.value? with
        | none => rfl
        | some d =>
          simp only []
          rw [← hrest]
          cases stLDFieldsT w cfg n fds xs <;> simp [Except.map]

/-- **C04 (core), `str` / `bytes` payloads.**  Whatever the fuel: the detailed template accepts exactly when the
fast template accepts, with equal results. -/
theorem modes_agree_aux (w : World) (cfg : Cfg) :
    ∀ (n m : Nat) (t : Ty) (o : Obj), sizeOf t ≤ m →
      Res.toOption (stLD w cfg n t o) = stLF w cfg n t o := by
  intro n
  induction n using Nat.strongRecOn with
  | _ n ihn =>
    intro m
    induction m with
    | zero => intro t o ht; have := sizeOf_ty_pos t; omega
    | succ m ihm =>
      intro t o ht
      have IHn : ∀ n', n' < n → ∀ (t' : Ty) (o' : Obj), Res.toOption (stLD w cfg n' t' o') = stLF w cfg n' t' o' :=
        fun n' hn t' o' => ihn n' hn (sizeOf t') t' o' (Nat.le_refl _)
      cases t with
      | any => simp [stLD, stLF, Res.toOption]
      | int => simp only [stLD, stLF]; cases o.toInt? <;> rfl
      | float => simp only [stLD, stLF]; cases o.toFlt? <;> rfl
      | str => simp [stLD, stLF, Res.toOption]
      | bytes => simp only [stLD, stLF]; cases o.toBytes? <;> rfl
      | bool => simp [stLD, stLF, Res.toOption]
      | enum e => simp only [stLD, stLF]; cases enumOf w e o <;> rfl
      | lit vs => simp only [stLD, stLF]; cases litStruct w vs o <;> rfl
      | coll k t' =>
        have hsz : sizeOf t' ≤ m := by simp at ht; omega
        rw [stLD_coll, stLF_coll]
        cases hit : leafItems o with
        | none => rfl
        | some xs =>
          simp only []
          by_cases hany : t'.isAny = true
          · have : t' = .any := by cases t' <;> simp [Ty.isAny] at hany ⊢
            subst this
            simp only [Ty.isAny, if_true, stFL_any]
            cases finishColl w k.structTo xs <;> rfl
          · simp only [hany, Bool.false_eq_true, if_false]
            have hL := stDL_agree w cfg n t' xs (fun x _ => ihm t' x hsz) k.structTo.isSet 0
            cases hf : stLFL w cfg n t' xs with
            | none =>
              simp only [hf] at hL
              have : (stLDL w cfg n t' k.structTo.isSet 0 xs).2.isEmpty = false := by
                cases h : (stLDL w cfg n t' k.structTo.isSet 0 xs).2 <;> simp_all
              simp [this, Res.toOption]
            | some zs =>
              simp only [hf] at hL
              unfold finishColl
              by_cases hs : k.structTo.isSet = true
              · simp only [hs, Bool.not_true, Bool.false_or, if_true] at hL ⊢
                by_cases hz : hashableL w zs = true
                · simp only [hz, if_true] at hL ⊢
                  simp [hL, Res.toOption, mkColl, hs]
                · simp only [hz, Bool.false_eq_true, if_false] at hL ⊢
                  have : (stLDL w cfg n t' true 0 xs).2.isEmpty = false := by
                    cases h : (stLDL w cfg n t' true 0 xs).2 <;> simp_all
                  simp [this, Res.toOption]
              · have hs' : k.structTo.isSet = false := by simpa using hs
                simp only [hs', Bool.not_false, Bool.true_or, if_true, Bool.false_eq_true, if_false] at hL ⊢
                simp [hL, Res.toOption, mkColl, hs']
      | tupleHet ts =>
        rw [stLD_tup, stLF_tup]
        cases hit : leafItems o with
        | none => rfl
        | some xs =>
          simp only []
          have hT := stDT_agree w cfg n ts xs
            (fun t' ht' x _ => ihm t' x (by have := List.sizeOf_lt_of_mem ht'; simp at ht; omega)) 0
          cases hf : stLFT w cfg n ts xs with
          | none =>
            simp only [hf] at hT
            simp only [Option.map_none]
            by_cases hlen : xs.length = ts.length
            · have h2 : (stLDT w cfg n 0 ts xs).2 ≠ [] := by
                rcases hT with h | h
                · exact h
                · exact absurd hlen h
              have : (stLDT w cfg n 0 ts xs).2.isEmpty = false := by
                cases h : (stLDT w cfg n 0 ts xs).2 <;> simp_all
              simp [hlen, this, Res.toOption]
            · simp [hlen, Res.toOption]
          | some zs =>
            simp only [hf] at hT
            simp [hT.1, hT.2, Res.toOption]
      | map k kt vt => rw [stLD_map, stLF_map]; rfl
      | opt t' =>
        have hsz : sizeOf t' ≤ m := by simp at ht; omega
        cases o with
        | none => rw [stLD_opt_none, stLF_opt_none]; rfl
        | _ =>
          rw [stLD_opt w cfg (by intro h'; cases h'), stLF_opt w cfg (by intro h'; cases h')]
          exact ihm t' _ hsz
      | wrap k t' =>
        have hsz : sizeOf t' ≤ m := by simp at ht; omega
        rw [stLD_wrap, stLF_wrap]; exact ihm t' o hsz
      | cls c =>
        by_cases htup : cfg.tupleStrat = true
        · cases n with
          | zero => rw [stLD_cls_tuple_zero w cfg htup, stLF_cls_tuple_zero w cfg htup]; rfl
          | succ n' =>
            rw [stLD_cls_tuple_succ w cfg htup, stLF_cls_tuple_succ w cfg htup]
            cases hit : leafItems o with
            | none => rfl
            | some xs =>
              have hT := stDFieldsT_agree w cfg n' (w.fields c) xs
                (fun f _ x _ t' _ => IHn n' (by omega) t' x)
              simp only []
              rw [← hT]
              cases stLDFieldsT w cfg n' (w.fields c) xs <;> rfl
        · have htup' : cfg.tupleStrat = false := by simpa using htup
          rw [stLD_cls_other w cfg htup', stLF_cls_other w cfg htup']
          by_cases hg : cfg.gen = true
          · simp only [hg, if_true]; exact nonMapping_agree w cfg c _
          · simp only [hg, Bool.false_eq_true, if_false]
            cases nonMappingClsInterp w c <;> rfl
      | td c => rw [stLD_td, stLF_td]; split <;> rfl
      | union cs hn =>
        rw [stLD_union, stLF_union]
        cases hp : unionPick w cs hn o with
        | ok k =>
          simp only []
          by_cases hk : k ∈ cs
          · simp only [hk, if_true]
            exact ihm (.cls k) o (by have := sizeOf_cls_lt_union hk hn; omega)
          · simp [hk, Res.toOption]
        | none => simp [Res.toOption]
        | refuseCreate => simp [Res.toOption]
        | refuseResolve => simp [Res.toOption]
      | nt c =>
        cases n with
        | zero => rw [stLD_nt_zero, stLF_nt_zero]; rfl
        | succ n' =>
          rw [stLD_nt_succ, stLF_nt_succ]
          cases hit : leafItems o with
          | none => rfl
          | some xs =>
            simp only []
            by_cases hnt : w.isNT c = true
            · simp only [hnt, if_true]
              have hT := stDT_agree w cfg n' (w.ntTys c) xs (fun t' _ x _ => IHn n' (by omega) t' x) 0
              cases hf : stLFT w cfg n' (w.ntTys c) xs with
              | none =>
                simp only [hf] at hT
                simp only [Option.map_none]
                by_cases hlen : xs.length = (w.ntTys c).length
                · have h2 : (stLDT w cfg n' 0 (w.ntTys c) xs).2 ≠ [] := by
                    rcases hT with h | h
                    · exact h
                    · exact absurd hlen h
                  have : (stLDT w cfg n' 0 (w.ntTys c) xs).2.isEmpty = false := by
                    cases h : (stLDT w cfg n' 0 (w.ntTys c) xs).2 <;> simp_all
                  simp [hlen, this, Res.toOption]
                · simp [hlen, Res.toOption]
              | some zs =>
                simp only [hf] at hT
                simp [hT.1, hT.2, Res.toOption]
            · simp [hnt, Res.toOption]

theorem modes_agree (w : World) (cfg : Cfg) (n : Nat) (t : Ty) (o : Obj) :
    Res.toOption (stLD w cfg n t o) = stLF w cfg n t o :=
  modes_agree_aux w cfg n (sizeOf t) t o (Nat.le_refl _)

end CattrsModel.Leaf
