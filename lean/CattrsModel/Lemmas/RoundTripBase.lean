import CattrsModel.Lemmas.Sound
/-!
# C01 groundwork: hashable-primitive types, enum well-formedness, injectivity of unstructuring on keys
-/
namespace CattrsModel

def Obj.isLeaf : Obj → Bool
  | .none | .bool _ | .int _ | .flt _ | .str _ | .bytes _ => true
  | _ => false

theorem noEnum_of_allLeaf {vs : List Obj} (h : vs.all Obj.isLeaf = true) : litHasEnum vs = false :=
  noEnum_of_all (fun _ _ => rfl) h

mutual
/-- Python objects have duplicate-free dict keys (abstract `Obj` terms need not): the objects that exist. -/
def Obj.valid : Obj → Bool
  | .coll _ xs => Obj.validL xs
  | .dict kvs => nodupPy (keysOf kvs) && Obj.validKV kvs
  | .mdict _ kvs => nodupPy (keysOf kvs) && Obj.validKV kvs
  | .inst _ fs => Obj.validF fs
  | _ => true
termination_by structural x => x
def Obj.validL : List Obj → Bool
  | [] => true
  | x :: xs => x.valid && Obj.validL xs
termination_by structural x => x
def Obj.validKV : List (Obj × Obj) → Bool
  | [] => true
  | (k, v) :: rest => k.valid && v.valid && Obj.validKV rest
termination_by structural x => x
def Obj.validF : List (String × Obj) → Bool
  | [] => true
  | (_, x) :: rest => x.valid && Obj.validF rest
termination_by structural x => x
end

theorem validL_mem {xs : List Obj} (h : Obj.validL xs = true) {x : Obj} (hx : x ∈ xs) : x.valid = true := by
  induction xs with
  | nil => cases hx
  | cons y ys ih =>
    simp only [Obj.validL, Bool.and_eq_true] at h
    rcases List.mem_cons.mp hx with e | e
    · subst e; exact h.1
    · exact ih h.2 e

theorem validKV_mem {kvs : List (Obj × Obj)} (h : Obj.validKV kvs = true) {p : Obj × Obj} (hp : p ∈ kvs) :
    p.1.valid = true ∧ p.2.valid = true := by
  induction kvs with
  | nil => cases hp
  | cons q rest ih =>
    obtain ⟨k, v⟩ := q
    simp only [Obj.validKV, Bool.and_eq_true] at h
    rcases List.mem_cons.mp hp with e | e
    · subst e; exact ⟨h.1.1, h.1.2⟩
    · exact ih h.2 e

theorem validF_mem {fs : List (String × Obj)} (h : Obj.validF fs = true) {p : String × Obj} (hp : p ∈ fs) :
    p.2.valid = true := by
  induction fs with
  | nil => cases hp
  | cons q rest ih =>
    obtain ⟨n, v⟩ := q
    simp only [Obj.validF, Bool.and_eq_true] at h
    rcases List.mem_cons.mp hp with e | e
    · subst e; exact h.1
    · exact ih h.2 e

theorem dlookup_mem {kvs : List (Obj × Obj)} {k v : Obj} (h : dlookup kvs k = some v) : ∃ k', (k', v) ∈ kvs := by
  induction kvs with
  | nil => simp [dlookup] at h
  | cons q rest ih =>
    obtain ⟨k', v'⟩ := q
    simp only [dlookup] at h
    split at h
    · cases h; exact ⟨k', by simp⟩
    · obtain ⟨k'', hk⟩ := ih h; exact ⟨k'', by simp [hk]⟩

/-- Enum tables as Python builds them: member values are non-`None` leaves, pairwise distinct under `==`
(equal values would be aliases of one member). -/
structure World.WFE (w : World) : Prop where
  enumLeaf : ∀ e, ∀ v ∈ w.members e, v.isLeaf = true ∧ v ≠ .none
  enumDistinct : ∀ e, nodupPy (w.members e) = true

/-- types whose values and encodings are hashable leaves: usable as set elements and mapping keys -/
def Ty.hashPrim : Ty → Bool
  | .int | .float | .str | .bytes | .bool | .enum _ => true
  | .lit vs => !litHasEnum vs      -- (an enum-member literal as set element / mapping key: outside the scope)
  | .opt t => t.hashPrim
  | .wrap _ t => t.hashPrim
  | _ => false

theorem mkSet_of_nodup : ∀ (ys : List Obj), nodupPy ys = true → mkSet ys = ys := by
  have gen : ∀ (ys acc : List Obj), nodupPy (acc ++ ys) = true → ys.foldl setAdd acc = acc ++ ys := by
    intro ys
    induction ys with
    | nil => intro acc _; simp
    | cons y ys ih =>
      intro acc h
      have hy : Obj.memPy y acc = false := by
        clear ih
        induction acc with
        | nil => simp [Obj.memPy]
        | cons a acc iha =>
          simp only [List.cons_append, nodupPy, Bool.and_eq_true, Bool.not_eq_true'] at h
          simp only [Obj.memPy, Bool.or_eq_false_iff]
          refine ⟨?_, iha h.2⟩
          have h1 := h.1
          rw [memPy_append] at h1
          simp only [Obj.memPy, Bool.or_eq_false_iff] at h1
          rw [Obj.pyEq_symm]; exact h1.2.1
      simp only [List.foldl_cons, setAdd, hy, Bool.false_eq_true, if_false]
      rw [ih (acc ++ [y]) (by simpa using h)]
      simp
  intro ys h
  exact gen ys [] (by simpa using h)

theorem dictSet_fresh {d : List (Obj × Obj)} {k v : Obj} (h : Obj.memPy k (keysOf d) = false) :
    dictSet d k v = d ++ [(k, v)] := by
  induction d with
  | nil => rfl
  | cons q rest ih =>
    obtain ⟨k', v'⟩ := q
    simp only [keysOf, List.map_cons, Obj.memPy, Bool.or_eq_false_iff] at h
    simp only [dictSet, h.1, Bool.false_eq_true, if_false, List.cons_append]
    rw [ih (by simpa [keysOf] using h.2)]

theorem mkDict_of_nodup : ∀ (kvs : List (Obj × Obj)), nodupPy (keysOf kvs) = true → mkDict kvs = kvs := by
  have gen : ∀ (kvs acc : List (Obj × Obj)), nodupPy (keysOf (acc ++ kvs)) = true →
      kvs.foldl (fun d kv => dictSet d kv.1 kv.2) acc = acc ++ kvs := by
    intro kvs
    induction kvs with
    | nil => intro acc _; simp
    | cons p rest ih =>
      intro acc h
      obtain ⟨k, v⟩ := p
      have hy : Obj.memPy k (keysOf acc) = false := by
        clear ih
        induction acc with
        | nil => simp [Obj.memPy, keysOf]
        | cons a acc iha =>
          obtain ⟨ka, va⟩ := a
          simp only [List.cons_append, keysOf, List.map_cons, nodupPy, Bool.and_eq_true, Bool.not_eq_true'] at h
          simp only [keysOf, List.map_cons, Obj.memPy, Bool.or_eq_false_iff]
          refine ⟨?_, iha (by simpa [keysOf] using h.2)⟩
          have h1 := h.1
          rw [List.map_append, memPy_append] at h1
          simp only [List.map_cons, Obj.memPy, Bool.or_eq_false_iff] at h1
          rw [Obj.pyEq_symm]; exact h1.2.1
      simp only [List.foldl_cons, dictSet_fresh hy]
      rw [ih (acc ++ [(k, v)]) (by simpa using h)]
      simp
  intro kvs h
  exact gen kvs [] (by simpa using h)

/-- `pyEq` is transitive (numeric tower on leaves, structural otherwise) -/
theorem pyEq_trans {a b c : Obj} (h1 : Obj.pyEq a b = true) (h2 : Obj.pyEq b c = true) : Obj.pyEq a c = true := by
  unfold Obj.pyEq at *
  cases ha : Obj.num2? a <;> cases hb : Obj.num2? b <;> cases hc : Obj.num2? c <;> simp_all

theorem enumIdx_get {vals : List Obj} (hd : nodupPy vals = true) {m : Nat} {v : Obj}
    (hv : vals[m]? = some v) : enumIdx vals v = some m := by
  induction vals generalizing m with
  | nil => simp at hv
  | cons a rest ih =>
    simp only [nodupPy, Bool.and_eq_true, Bool.not_eq_true'] at hd
    cases m with
    | zero => simp at hv; subst hv; simp [enumIdx, Obj.pyEq_refl]
    | succ m =>
      simp at hv
      have hne : Obj.pyEq a v = false := by
        cases h : Obj.pyEq a v
        · rfl
        · have : Obj.memPy a rest = true := memPy_iff.mpr ⟨v, List.mem_of_getElem? hv, by rw [Obj.pyEq_symm]; exact h⟩
          rw [this] at hd; cases hd.1
      simp [enumIdx, hne, ih hd.2 hv]

end CattrsModel

namespace CattrsModel

mutual
/-- Types in the round-trip scope of `Converter`: no `Any` (not in the property's list of supported
constructors); set elements and mapping keys have hashable-leaf encodings (finding F10 otherwise). -/
def Ty.supG (td : Bool) : Ty → Bool
  | .any => false
  | .coll k t => t.supG td && (!k.structTo.isSet || t.hashPrim)
  | .tupleHet ts => Ty.supGL td ts
  -- (a mapping type with a target class other than `dict` is structured into that class by a `Converter` only)
  | .map k kt vt => kt.hashPrim && kt.supG td && vt.supG td && (td || k.target.isNone)
  | .opt t => t.supG td
  | .wrap _ t => t.supG td
  | .td _ => td
  | _ => true
termination_by structural t => t
def Ty.supGL (td : Bool) : List Ty → Bool
  | [] => true
  | t :: ts => t.supG td && Ty.supGL td ts
termination_by structural ts => ts
end

/-- **Round-trip scope of one union**, stated with the disambiguator model's predicates: the members are
distinct attrs classes / dataclasses; the decision function can be created for the union and for every literal
sub-union a member payload can be routed to (`Disambig.deepOk`, the hypothesis of `C12_complete`); and every
`Literal`-typed attribute of a member is an `__init__` argument (the generated dict hooks do not emit
`init=False` attributes, so a literal discriminator among them would be missing from the payload). -/
def unionOKB (w : World) (cs : List Nat) : Bool :=
  decide cs.Nodup && unionMembersOk w cs
  && Disambig.deepOk Disambig.SetOrder.id w.table cs.length cs
  && cs.all (fun c => (w.fields c).all (fun f => match f.ty with | some (.lit vs) => f.init && !litHasEnum vs | _ => true))

theorem unionOKB_notNT {w : World} {cs : List Nat} (h : unionOKB w cs = true) {c : Nat} (hc : c ∈ cs) :
    w.isNT c = false := by
  unfold unionOKB at h
  simp only [Bool.and_eq_true] at h
  exact unionMembersOk_notNT h.1.1.2 hc

/-- an argument a `Literal[...]` may hold: a genuine member of an enum of the world, or a leaf value -/
def litArgOK (w : World) : Obj → Bool
  | .enumM e m => decide (m < (w.members e).length)
  | x => x.isLeaf

/-- **Round-trip scope of one `Literal[...]` containing enum members**: every argument is found again under its own
key in `_structure_enum_literal`'s dict `{key(a): a for a in args}` -- i.e. the keys (a member's value, a plain value
itself) are pairwise different under `==`: of two arguments with `==` keys only the later one could come back.
(`Literal[E.A, 1]` with `E.A.value == 1` is outside: `1` is found, `E.A` is not.)  Literals of plain values always are
in scope. -/
def litOK (w : World) (vs : List Obj) : Bool :=
  !litHasEnum vs || (vs.all (litArgOK w) && vs.all (fun v => litLookup w vs (litKey w v) == some v))

mutual
/-- every union (and every enum-member literal, `litOK`) inside the type is in the round-trip scope; under the tuple
strategy (`tup`) no union is: the decision function only accepts mappings -/
def Ty.unionsOK (w : World) (tup : Bool) : Ty → Bool
  | .union cs _ => !tup && unionOKB w cs
  | .lit vs => litOK w vs
  | .coll _ t => t.unionsOK w tup
  | .tupleHet ts => Ty.unionsOKL w tup ts
  | .map _ kt vt => kt.unionsOK w tup && vt.unionsOK w tup
  | .opt t => t.unionsOK w tup
  | .wrap _ t => t.unionsOK w tup
  | _ => true
termination_by structural t => t
def Ty.unionsOKL (w : World) (tup : Bool) : List Ty → Bool
  | [] => true
  | t :: ts => t.unionsOK w tup && Ty.unionsOKL w tup ts
termination_by structural ts => ts
end

/-- the same for every field type of the class table -/
def World.unionsOK (w : World) (tup : Bool) : Prop :=
  ∀ c, ∀ f ∈ w.fields c, ∀ t, f.ty = some t → t.unionsOK w tup = true

mutual
/-- no union (and no enum-member literal) anywhere in the type -/
def Ty.noUnion : Ty → Bool
  | .union _ _ => false
  | .lit vs => !litHasEnum vs
  | .coll _ t => t.noUnion
  | .tupleHet ts => Ty.noUnionL ts
  | .map _ kt vt => kt.noUnion && vt.noUnion
  | .opt t => t.noUnion
  | .wrap _ t => t.noUnion
  | _ => true
termination_by structural t => t
def Ty.noUnionL : List Ty → Bool
  | [] => true
  | t :: ts => t.noUnion && Ty.noUnionL ts
termination_by structural ts => ts
end

mutual
theorem noUnion_unionsOK (w : World) (tup : Bool) : ∀ t : Ty, t.noUnion = true → t.unionsOK w tup = true
  | .union _ _, h => by simp [Ty.noUnion] at h
  | .coll _ t, h => by simp only [Ty.noUnion] at h; simp only [Ty.unionsOK]; exact noUnion_unionsOK w tup t h
  | .tupleHet ts, h => by simp only [Ty.noUnion] at h; simp only [Ty.unionsOK]; exact noUnionL_unionsOKL w tup ts h
  | .map _ kt vt, h => by
      simp only [Ty.noUnion, Bool.and_eq_true] at h
      simp only [Ty.unionsOK, Bool.and_eq_true]
      exact ⟨noUnion_unionsOK w tup kt h.1, noUnion_unionsOK w tup vt h.2⟩
  | .opt t, h => by simp only [Ty.noUnion] at h; simp only [Ty.unionsOK]; exact noUnion_unionsOK w tup t h
  | .wrap _ t, h => by simp only [Ty.noUnion] at h; simp only [Ty.unionsOK]; exact noUnion_unionsOK w tup t h
  | .any, _ | .int, _ | .float, _ | .str, _ | .bytes, _ | .bool, _ | .enum _, _ | .cls _, _ | .td _, _
  | .nt _, _ => by
      simp [Ty.unionsOK]
  | .lit vs, h => by
      simp only [Ty.noUnion] at h
      simp only [Ty.unionsOK, litOK, h, Bool.true_or]
theorem noUnionL_unionsOKL (w : World) (tup : Bool) : ∀ ts : List Ty, Ty.noUnionL ts = true → Ty.unionsOKL w tup ts = true
  | [], _ => by simp [Ty.unionsOKL]
  | t :: ts, h => by
      simp only [Ty.noUnionL, Bool.and_eq_true] at h
      simp only [Ty.unionsOKL, Bool.and_eq_true]
      exact ⟨noUnion_unionsOK w tup t h.1, noUnionL_unionsOKL w tup ts h.2⟩
end

/-- no field type of the class table mentions a union -/
def World.noUnion (w : World) : Prop := ∀ c, ∀ f ∈ w.fields c, ∀ t, f.ty = some t → t.noUnion = true

theorem World.noUnion.unionsOK {w : World} (h : w.noUnion) (tup : Bool) : w.unionsOK tup :=
  fun c f hf t ht => noUnion_unionsOK w tup t (h c f hf t ht)

/-- every field of every class is typed and in scope -/
def World.supG (w : World) (td : Bool) : Prop :=
  ∀ c, ∀ f ∈ w.fields c, ∃ t, f.ty = some t ∧ t.supG td = true

theorem nodupPy_get_inj {vals : List Obj} (hd : nodupPy vals = true) {i j : Nat} {a b : Obj}
    (ha : vals[i]? = some a) (hb : vals[j]? = some b) (h : Obj.pyEq a b = true) : i = j := by
  have h1 := enumIdx_get hd ha
  have h2 := enumIdx_get hd hb
  -- enumIdx finds the first value equal to its argument; equal arguments give equal answers
  have key : ∀ (vals : List Obj) (x y : Obj), Obj.pyEq x y = true → enumIdx vals x = enumIdx vals y := by
    intro vals x y hxy
    induction vals with
    | nil => rfl
    | cons v rest ih =>
      simp only [enumIdx]
      have : Obj.pyEq v x = Obj.pyEq v y := by
        cases h1 : Obj.pyEq v x <;> cases h2 : Obj.pyEq v y <;> try rfl
        · have := pyEq_trans h2 (by rw [Obj.pyEq_symm]; exact hxy); rw [this] at h1; cases h1
        · have := pyEq_trans h1 hxy; rw [this] at h2; cases h2
      rw [this, ih]
  rw [key vals a b h] at h1
  rw [h1] at h2; cases h2; rfl

variable (w : World) (cfg : Cfg)

theorem un_opt_some {t : Ty} {x : Obj} (hx : x ≠ .none) (hg : cfg.gen = true) :
    un w cfg (.opt t) x = un w cfg t x := by
  cases x <;> simp_all [un]

theorem conf_opt_some {t : Ty} {x : Obj} (hx : x ≠ .none) : conf w (.opt t) x = conf w t x := by
  cases x <;> simp_all [conf]

/-- at a value of an in-scope enum-member literal the hook (`self.unstructure`) yields the argument's key -/
theorem un_lit_key (cfg : Cfg) {vs : List Obj} {x : Obj} (he : litHasEnum vs = true) (hx : litArgOK w x = true) :
    un w cfg (.lit vs) x = litKey w x := by
  rw [un]
  simp only [he, if_true]
  cases x <;> simp_all [litArgOK, Obj.isLeaf, unAny, litKey]

theorem litOK_arg {vs : List Obj} {x : Obj} (he : litHasEnum vs = true) (hl : litOK w vs = true)
    (hc : litConf vs x = true) : litArgOK w x = true ∧ litLookup w vs (litKey w x) = some x := by
  have hx : x ∈ vs := by rw [litConf_enum x he] at hc; simpa using hc
  simp only [litOK, he, Bool.not_true, Bool.false_or, Bool.and_eq_true, List.all_eq_true] at hl
  exact ⟨hl.1 x hx, by simpa using hl.2 x hx⟩

theorem hashPrim_unionsOK (tup : Bool) : ∀ (t : Ty), t.hashPrim = true → t.unionsOK w tup = true
  | .int, _ | .float, _ | .str, _ | .bytes, _ | .bool, _ | .enum _, _ => by simp [Ty.unionsOK]
  | .lit vs, h => by
      simp only [Ty.hashPrim] at h
      simp only [Ty.unionsOK, litOK, h, Bool.true_or]
  | .opt t, h => by simp only [Ty.hashPrim] at h; simp only [Ty.unionsOK]; exact hashPrim_unionsOK tup t h
  | .wrap _ t, h => by simp only [Ty.hashPrim] at h; simp only [Ty.unionsOK]; exact hashPrim_unionsOK tup t h
  | .any, h | .coll _ _, h | .tupleHet _, h | .map _ _ _, h | .cls _, h | .td _, h | .union _ _, h | .nt _, h => by
      simp [Ty.hashPrim] at h

/-- unstructuring a non-`None` value never produces `None` (so `Optional` round-trips) -/
theorem un_ne_none (td tup : Bool) (hg : cfg.gen = true) (hwe : w.WFE) :
    ∀ (t : Ty) (x : Obj), t.supG td = true → t.unionsOK w tup = true → conf w t x = true → x ≠ .none →
      un w cfg t x ≠ .none
  | .any, _, hs, _, _, _ => by simp [Ty.supG] at hs
  | .int, x, _, _, hc, _ => by cases x <;> simp_all [conf, un]
  | .float, x, _, _, hc, _ => by cases x <;> simp_all [conf, un]
  | .str, x, _, _, hc, _ => by cases x <;> simp_all [conf, un]
  | .bytes, x, _, _, hc, _ => by cases x <;> simp_all [conf, un]
  | .bool, x, _, _, hc, _ => by cases x <;> simp_all [conf, un]
  | .enum e, .enumM e' m, _, _, hc, _ => by
      simp only [conf, Bool.and_eq_true, beq_iff_eq, decide_eq_true_eq] at hc
      obtain ⟨rfl, hm⟩ := hc
      simp only [un, enumValue]
      have : (w.members e)[m]? = some ((w.members e)[m]'hm) := by simp [hm]
      rw [this]
      exact (hwe.enumLeaf e _ (List.getElem_mem hm)).2
  | .enum e, .none, _, _, _, hx => absurd rfl hx
  | .enum e, .bool _, _, _, hc, _ | .enum e, .int _, _, _, hc, _ | .enum e, .flt _, _, _, hc, _
  | .enum e, .str _, _, _, hc, _ | .enum e, .bytes _, _, _, hc, _ | .enum e, .coll _ _, _, _, hc, _
  | .enum e, .dict _, _, _, hc, _ | .enum e, .inst _ _, _, _, hc, _ | .enum e, .opaque _, _, _, hc, _
  | .enum e, .mdict _ _, _, _, hc, _ => by
      simp [conf] at hc
  | .lit vs, x, _, hu, hc, hx => by
      cases he : litHasEnum vs with
      | false => rw [un_lit_simple w cfg x he]; exact hx
      | true =>
        have ha := (litOK_arg w he (by simpa [Ty.unionsOK] using hu) (by simpa [conf] using hc)).1
        rw [un_lit_key w cfg he ha]
        cases x with
        | enumM e m =>
          have hm : m < (w.members e).length := by simpa [litArgOK] using ha
          simp only [litKey, enumValue]
          have : (w.members e)[m]? = some ((w.members e)[m]'hm) := by simp [hm]
          rw [this]
          exact (hwe.enumLeaf e _ (List.getElem_mem hm)).2
        | _ => simpa [litKey] using hx
  | .coll k t, x, _, _, hc, _ => by
      cases x <;> simp [conf] at hc
      rw [un]; simp [hg, mkColl]
  | .tupleHet ts, .coll .tuple xs, _, _, _, _ => by rw [un]; simp [hg]
  | .tupleHet ts, .coll .list _, _, _, hc, _ | .tupleHet ts, .coll .deque _, _, _, hc, _
  | .tupleHet ts, .coll .set _, _, _, hc, _ | .tupleHet ts, .coll .fset _, _, _, hc, _
  | .tupleHet ts, .none, _, _, hc, _ | .tupleHet ts, .bool _, _, _, hc, _ | .tupleHet ts, .int _, _, _, hc, _
  | .tupleHet ts, .flt _, _, _, hc, _ | .tupleHet ts, .str _, _, _, hc, _ | .tupleHet ts, .bytes _, _, _, hc, _
  | .tupleHet ts, .enumM _ _, _, _, hc, _ | .tupleHet ts, .dict _, _, _, hc, _ | .tupleHet ts, .inst _ _, _, _, hc, _
  | .tupleHet ts, .opaque _, _, _, hc, _ | .tupleHet ts, .mdict _ _, _, _, hc, _ => by simp [conf] at hc
  | .map _ kt vt, x, _, _, hc, _ => by
      cases x <;> simp [conf] at hc
      · rw [un]; simp [hg]
      · rw [un]; simp [hg]
  | .opt t, x, hs, hu, hc, hx => by
      rw [un_opt_some w cfg hx hg]
      rw [conf_opt_some w hx] at hc
      exact un_ne_none td tup hg hwe t x (by simpa [Ty.supG] using hs) (by simpa [Ty.unionsOK] using hu) hc hx
  | .wrap k t, x, hs, hu, hc, hx => by
      simp only [un, hg, Bool.true_or, if_true]
      exact un_ne_none td tup hg hwe t x (by simpa [Ty.supG] using hs) (by simpa [Ty.unionsOK] using hu)
        (by simpa [conf] using hc) hx
  | .cls c, x, _, _, hc, _ => by
      cases x <;> simp [conf] at hc
      simp only [un]; split <;> simp
  | .td c, x, _, _, hc, _ => by
      cases x <;> simp [conf] at hc
      simp [un, hg]
  | .union cs hn, x, _, _, hc, hx => by
      cases x <;> simp [conf] at hc
      · exact absurd rfl hx
      · simp only [un, unAny]; split <;> (try split) <;> simp
  | .nt c, x, _, _, hc, _ => by
      cases x <;> simp [conf] at hc
      simp [un]

end CattrsModel

namespace CattrsModel
variable (w : World) (cfg : Cfg)

theorem conf_enum_inv {e : Nat} {a : Obj} (h : conf w (.enum e) a = true) :
    ∃ m, a = .enumM e m ∧ m < (w.members e).length := by
  cases a <;> simp [conf] at h
  rename_i e' m
  exact ⟨m, by rw [h.1], h.2⟩

theorem leaf_hashable {v : Obj} (h : v.isLeaf = true) : hashable w v = true := by
  cases v <;> simp_all [Obj.isLeaf, hashable]

theorem pyEq_none_left {x : Obj} : Obj.pyEq .none x = true ↔ x = .none := by
  unfold Obj.pyEq
  cases hx : Obj.num2? x with
  | some n => simp only [Obj.num2?]; constructor
              · intro h; cases h
              · intro h; subst h; simp [Obj.num2?] at hx
  | none => simp only [Obj.num2?, beq_iff_eq]; exact eq_comm

/-- on hashable-primitive types unstructuring is injective up to Python `==`, and its results are hashable -/
theorem un_hp (td : Bool) (hg : cfg.gen = true) (hwe : w.WFE) :
    ∀ (t : Ty), t.hashPrim = true → t.supG td = true →
      (∀ a, conf w t a = true → hashable w a = true → hashable w (un w cfg t a) = true) ∧
      (∀ a b, conf w t a = true → conf w t b = true →
        Obj.pyEq (un w cfg t a) (un w cfg t b) = true → Obj.pyEq a b = true)
  | .int, _, _ => ⟨fun a hc hh => by cases a <;> simp_all [conf, un], fun a b ha hb h => by cases a <;> cases b <;> simp_all [conf, un]⟩
  | .float, _, _ => ⟨fun a hc hh => by cases a <;> simp_all [conf, un], fun a b ha hb h => by cases a <;> cases b <;> simp_all [conf, un]⟩
  | .str, _, _ => ⟨fun a hc hh => by cases a <;> simp_all [conf, un], fun a b ha hb h => by cases a <;> cases b <;> simp_all [conf, un]⟩
  | .bytes, _, _ => ⟨fun a hc hh => by cases a <;> simp_all [conf, un], fun a b ha hb h => by cases a <;> cases b <;> simp_all [conf, un]⟩
  | .bool, _, _ => ⟨fun a hc hh => by cases a <;> simp_all [conf, un], fun a b ha hb h => by cases a <;> cases b <;> simp_all [conf, un]⟩
  | .lit vs, hp, _ => by
      have hl : litHasEnum vs = false := by simpa [Ty.hashPrim] using hp
      exact ⟨fun a _ hh => by rw [un_lit_simple w cfg a hl]; exact hh,
        fun a b _ _ h => by rw [un_lit_simple w cfg a hl, un_lit_simple w cfg b hl] at h; exact h⟩
  | .enum e, _, _ => by
      constructor
      · intro a hc _
        obtain ⟨m, rfl, hm⟩ := conf_enum_inv w hc
        simp only [un, enumValue]
        have : (w.members e)[m]? = some ((w.members e)[m]'hm) := by simp [hm]
        rw [this]
        exact leaf_hashable w (hwe.enumLeaf e _ (List.getElem_mem hm)).1
      · intro a b ha hb h
        obtain ⟨m1, rfl, hm1⟩ := conf_enum_inv w ha
        obtain ⟨m2, rfl, hm2⟩ := conf_enum_inv w hb
        simp only [un, enumValue] at h
        have g1 : (w.members e)[m1]? = some ((w.members e)[m1]'hm1) := by simp [hm1]
        have g2 : (w.members e)[m2]? = some ((w.members e)[m2]'hm2) := by simp [hm2]
        rw [g1, g2] at h
        have := nodupPy_get_inj (hwe.enumDistinct e) g1 g2 h
        subst this
        exact Obj.pyEq_refl _
  | .opt t, hp, hs => by
      have ih := un_hp td hg hwe t (by simpa [Ty.hashPrim] using hp) (by simpa [Ty.supG] using hs)
      have hs' : t.supG td = true := by simpa [Ty.supG] using hs
      have hp' : t.hashPrim = true := by simpa [Ty.hashPrim] using hp
      constructor
      · intro a hc hh
        by_cases ha : a = .none
        · subst ha; simp [un, hashable]
        · rw [un_opt_some w cfg ha hg]; rw [conf_opt_some w ha] at hc; exact ih.1 a hc hh
      · intro a b ha hb h
        by_cases hna : a = .none
        · subst hna
          by_cases hnb : b = .none
          · subst hnb; rfl
          · exfalso
            rw [un_opt_some w cfg hnb hg] at h
            rw [conf_opt_some w hnb] at hb
            have : un w cfg (.opt t) .none = .none := by simp [un]
            rw [this, pyEq_none_left] at h
            exact un_ne_none w cfg td false hg hwe t b hs' (hashPrim_unionsOK w false t hp') hb hnb h
        · by_cases hnb : b = .none
          · subst hnb
            exfalso
            rw [un_opt_some w cfg hna hg] at h
            rw [conf_opt_some w hna] at ha
            have : un w cfg (.opt t) .none = .none := by simp [un]
            rw [this, Obj.pyEq_symm, pyEq_none_left] at h
            exact un_ne_none w cfg td false hg hwe t a hs' (hashPrim_unionsOK w false t hp') ha hna h
          · rw [un_opt_some w cfg hna hg, un_opt_some w cfg hnb hg] at h
            rw [conf_opt_some w hna] at ha
            rw [conf_opt_some w hnb] at hb
            exact ih.2 a b ha hb h
  | .wrap k t, hp, hs => by
      have ih := un_hp td hg hwe t (by simpa [Ty.hashPrim] using hp) (by simpa [Ty.supG] using hs)
      constructor
      · intro a hc hh
        simp only [un, hg, Bool.true_or, if_true]
        exact ih.1 a (by simpa [conf] using hc) hh
      · intro a b ha hb h
        simp only [un, hg, Bool.true_or, if_true] at h
        exact ih.2 a b (by simpa [conf] using ha) (by simpa [conf] using hb) h
  | .any, hp, _ | .coll _ _, hp, _ | .tupleHet _, hp, _ | .map _ _ _, hp, _ | .cls _, hp, _ | .td _, hp, _
  | .union _ _, hp, _ | .nt _, hp, _ => by
      simp [Ty.hashPrim] at hp

end CattrsModel
