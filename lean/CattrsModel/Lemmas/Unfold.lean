import CattrsModel.Lemmas.Lit
/-!
# Unfolding lemmas for the per-field recursions (the definitions match on a lookup *with a proof*,
for termination; these lemmas expose the three cases as plain equations)
-/
namespace CattrsModel

variable (w : World) (cfg : Cfg)

/-- the handler applied to a present field value, fast -/
def hF (f : Field) (x : Obj) : Option Obj :=
  match f.ty with | Option.none => some x | some t => stF w cfg t x
/-- the handler applied to a present field value, detailed -/
def hD (f : Field) (x : Obj) : Res :=
  match f.ty with | Option.none => Except.ok x | some t => stD w cfg t x

theorem stFFields_noinit {f : Field} {fds kvs} (hi : f.init = false) :
    stFFields w cfg (f :: fds) kvs =
      match f.dflt.value? with
      | Option.none => Option.none
      | some d => (stFFields w cfg fds kvs).map ((f.name, d) :: ·) := by
  rw [stFFields]; simp only [hi, Bool.not_false, if_true]; cases f.dflt.value? <;> rfl

theorem stFFields_absent {f : Field} {fds kvs} (hi : f.init = true) (hl : dlookup kvs f.key = Option.none) :
    stFFields w cfg (f :: fds) kvs =
      match f.dflt.value? with
      | Option.none => Option.none
      | some d => (stFFields w cfg fds kvs).map ((f.name, d) :: ·) := by
  rw [stFFields]; simp only [hi, Bool.not_true, Bool.false_eq_true, if_false]
  split
  · rfl
  · rename_i x h; rw [hl] at h; cases h

theorem stFFields_present {f : Field} {fds kvs x} (hi : f.init = true) (hl : dlookup kvs f.key = some x) :
    stFFields w cfg (f :: fds) kvs =
      match hF w cfg f x with
      | Option.none => Option.none
      | some y => (stFFields w cfg fds kvs).map ((f.name, y) :: ·) := by
  rw [stFFields]; simp only [hi, Bool.not_true, Bool.false_eq_true, if_false]
  split
  · rename_i h; rw [hl] at h; cases h
  · rename_i x' h; rw [hl] at h; cases h; rfl

theorem stDFields_noinit {f : Field} {fds kvs} (hi : f.init = false) :
    stDFields w cfg (f :: fds) kvs =
      match f.dflt.value? with
      | Option.none => ((stDFields w cfg fds kvs).1, (Option.none, Err.leaf) :: (stDFields w cfg fds kvs).2)
      | some d => ((f.name, d) :: (stDFields w cfg fds kvs).1, (stDFields w cfg fds kvs).2) := by
  rw [stDFields]; simp only [hi, Bool.not_false, if_true]; cases f.dflt.value? <;> rfl

theorem stDFields_absent {f : Field} {fds kvs} (hi : f.init = true) (hl : dlookup kvs f.key = Option.none) :
    stDFields w cfg (f :: fds) kvs =
      match f.dflt.value? with
      | Option.none => ((stDFields w cfg fds kvs).1, (some f.name, Err.leaf) :: (stDFields w cfg fds kvs).2)
      | some d => ((f.name, d) :: (stDFields w cfg fds kvs).1, (stDFields w cfg fds kvs).2) := by
  rw [stDFields]; simp only [hi, Bool.not_true, Bool.false_eq_true, if_false]
  split
  · rfl
  · rename_i x h; rw [hl] at h; cases h

theorem stDFields_present {f : Field} {fds kvs x} (hi : f.init = true) (hl : dlookup kvs f.key = some x) :
    stDFields w cfg (f :: fds) kvs =
      match hD w cfg f x with
      | .error e => ((stDFields w cfg fds kvs).1, (some f.name, e) :: (stDFields w cfg fds kvs).2)
      | .ok y => ((f.name, y) :: (stDFields w cfg fds kvs).1, (stDFields w cfg fds kvs).2) := by
  rw [stDFields]; simp only [hi, Bool.not_true, Bool.false_eq_true, if_false]
  split
  · rename_i h; rw [hl] at h; cases h
  · rename_i x' h; rw [hl] at h; cases h; rfl

theorem stDFieldsI_noinit {f : Field} {fds kvs} (hi : f.init = false) :
    stDFieldsI w cfg (f :: fds) kvs =
      match f.dflt.value? with
      | Option.none => .error .leaf
      | some d => (stDFieldsI w cfg fds kvs).map ((f.name, d) :: ·) := by
  rw [stDFieldsI]; simp only [hi, Bool.not_false, if_true]; cases f.dflt.value? <;> rfl

theorem stDFieldsI_absent {f : Field} {fds kvs} (hi : f.init = true) (hl : dlookup kvs f.key = Option.none) :
    stDFieldsI w cfg (f :: fds) kvs =
      match f.dflt.value? with
      | Option.none => (stDFieldsI w cfg fds kvs).bind (fun _ => .error .leaf)
      | some d => (stDFieldsI w cfg fds kvs).map ((f.name, d) :: ·) := by
  rw [stDFieldsI]; simp only [hi, Bool.not_true, Bool.false_eq_true, if_false]
  split
  · rfl
  · rename_i x h; rw [hl] at h; cases h

theorem stDFieldsI_present {f : Field} {fds kvs x} (hi : f.init = true) (hl : dlookup kvs f.key = some x) :
    stDFieldsI w cfg (f :: fds) kvs =
      match hD w cfg f x with
      | .error e => .error e
      | .ok y => (stDFieldsI w cfg fds kvs).map ((f.name, y) :: ·) := by
  rw [stDFieldsI]; simp only [hi, Bool.not_true, Bool.false_eq_true, if_false]
  split
  · rename_i h; rw [hl] at h; cases h
  · rename_i x' h; rw [hl] at h; cases h; rfl

theorem stFTD_absent {f : Field} {fds kvs res} (hl : dlookup kvs f.key = Option.none) :
    stFTD w cfg (f :: fds) kvs res = if f.required then Option.none else stFTD w cfg fds kvs res := by
  rw [stFTD]
  split
  · rfl
  · rename_i x h; rw [hl] at h; cases h

theorem stFTD_present {f : Field} {fds kvs res x} (hl : dlookup kvs f.key = some x) :
    stFTD w cfg (f :: fds) kvs res =
      match hF w cfg f x with
      | Option.none => Option.none
      | some y => stFTD w cfg fds kvs (dictSet res f.key y) := by
  rw [stFTD]
  split
  · rename_i h; rw [hl] at h; cases h
  · rename_i x' h; rw [hl] at h; cases h; rfl

theorem stDTD_absent {f : Field} {fds kvs res} (hl : dlookup kvs f.key = Option.none) :
    stDTD w cfg (f :: fds) kvs res =
      if f.required then ((stDTD w cfg fds kvs res).1, (some f.name, Err.leaf) :: (stDTD w cfg fds kvs res).2)
      else stDTD w cfg fds kvs res := by
  rw [stDTD]
  split
  · rename_i h
    split
    rename_i r errs heq
    rw [heq]
  · rename_i x h; rw [hl] at h; cases h

theorem stDTD_present {f : Field} {fds kvs res x} (hl : dlookup kvs f.key = some x) :
    stDTD w cfg (f :: fds) kvs res =
      match hD w cfg f x with
      | .error e => ((stDTD w cfg fds kvs res).1, (some f.name, e) :: (stDTD w cfg fds kvs res).2)
      | .ok y => stDTD w cfg fds kvs (dictSet res f.key y) := by
  rw [stDTD]
  split
  · rename_i h; rw [hl] at h; cases h
  · rename_i x' h; rw [hl] at h; cases h; rfl

/-! ### the collection / tuple / tuple-strategy cases of the main functions -/

theorem stF_coll_none {k t o} (h : iterItems o = Option.none) :
    stF w cfg (.coll k t) o = stLF w cfg (leafFuel w) (.coll k t) o := by
  rw [stF]; split
  · rfl
  · rename_i xs h'; rw [h] at h'; cases h'

theorem stF_coll_some {k t o xs} (h : iterItems o = some xs) :
    stF w cfg (.coll k t) o =
      match stFL w cfg t xs with
      | Option.none => Option.none
      | some ys => finishColl w k.structTo ys := by
  rw [stF]; split
  · rename_i h'; rw [h] at h'; cases h'
  · rename_i xs' h'; rw [h] at h'; cases h'; rfl

theorem stD_coll_none {k t o} (h : iterItems o = Option.none) :
    stD w cfg (.coll k t) o = stLD w cfg (leafFuel w) (.coll k t) o := by
  rw [stD]; split
  · rfl
  · rename_i xs h'; rw [h] at h'; cases h'

theorem stD_coll_some {k t o xs} (h : iterItems o = some xs) :
    stD w cfg (.coll k t) o =
      if t.isAny then
        match finishColl w k.structTo xs with
        | some r => .ok r
        | Option.none => .error .leaf
      else
        if !(stDL w cfg t k.structTo.isSet 0 xs).2.isEmpty then .error (.ive (stDL w cfg t k.structTo.isSet 0 xs).2)
        else .ok (mkColl k.structTo (stDL w cfg t k.structTo.isSet 0 xs).1) := by
  rw [stD]; split
  · rename_i h'; rw [h] at h'; cases h'
  · rename_i xs' h'; rw [h] at h'; cases h'; rfl

theorem stF_tup_none {ts o} (h : iterItems o = Option.none) :
    stF w cfg (.tupleHet ts) o = stLF w cfg (leafFuel w) (.tupleHet ts) o := by
  rw [stF]; split
  · rfl
  · rename_i xs h'; rw [h] at h'; cases h'

theorem stF_tup_some {ts o xs} (h : iterItems o = some xs) :
    stF w cfg (.tupleHet ts) o = (stFT w cfg ts xs).map (.coll .tuple) := by
  rw [stF]; split
  · rename_i h'; rw [h] at h'; cases h'
  · rename_i xs' h'; rw [h] at h'; cases h'; rfl

theorem stD_tup_none {ts o} (h : iterItems o = Option.none) :
    stD w cfg (.tupleHet ts) o = stLD w cfg (leafFuel w) (.tupleHet ts) o := by
  rw [stD]; split
  · rfl
  · rename_i xs h'; rw [h] at h'; cases h'

theorem stD_tup_some {ts o xs} (h : iterItems o = some xs) :
    stD w cfg (.tupleHet ts) o =
      (let errs := if xs.length != ts.length then (stDT w cfg 0 ts xs).2 ++ [(Option.none, Err.leaf)] else (stDT w cfg 0 ts xs).2
       if !errs.isEmpty then .error (.ive errs) else .ok (.coll .tuple (stDT w cfg 0 ts xs).1)) := by
  rw [stD]; split
  · rename_i h'; rw [h] at h'; cases h'
  · rename_i xs' h'; rw [h] at h'; cases h'; rfl

theorem stF_cls_tuple {c o} (ht : cfg.tupleStrat = true) :
    stF w cfg (.cls c) o =
      match iterItems o with
      | Option.none => stLF w cfg (leafFuel w) (.cls c) o
      | some xs => (stFFieldsT w cfg (w.fields c) xs).map (.inst c) := by
  cases o
  case dict kvs => rw [stF]; simp [ht, iterItems]
  all_goals
    rw [stF] <;> try (intro kvs h; cases h)
    simp only [ht, if_true]
    split <;> rename_i h <;> simp [h]

def wrapInst (c : Nat) (r : Except Err (List (String × Obj))) : Res :=
  match r with
  | .ok fs => .ok (.inst c fs)
  | .error e => .error e

theorem stD_cls_tuple {c o} (ht : cfg.tupleStrat = true) :
    stD w cfg (.cls c) o =
      match iterItems o with
      | Option.none => stLD w cfg (leafFuel w) (.cls c) o
      | some xs => wrapInst c (stDFieldsT w cfg (w.fields c) xs) := by
  cases o
  case dict kvs =>
    rw [stD]; simp only [ht, if_true, iterItems]
    cases stDFieldsT w cfg (w.fields c) (keysOf kvs) <;> rfl
  all_goals
    rw [stD] <;> try (intro kvs h; cases h)
    simp only [ht, if_true]
    split <;> rename_i h <;> simp only [h]
    rename_i xs
    cases stDFieldsT w cfg (w.fields c) xs <;> rfl

theorem stF_cls_dict {c kvs} (ht : cfg.tupleStrat = false) :
    stF w cfg (.cls c) (.dict kvs) =
      match stFFields w cfg (w.fields c) kvs with
      | Option.none => Option.none
      | some fs =>
        if cfg.gen && cfg.forbid && !(extraKeys (fieldNames (initFields (w.fields c))) kvs).isEmpty then Option.none
        else some (.inst c fs) := by
  rw [stF]; simp only [ht, Bool.false_eq_true, if_false]; rfl

theorem stD_cls_dict {c kvs} (ht : cfg.tupleStrat = false) :
    stD w cfg (.cls c) (.dict kvs) =
      if cfg.gen then
        (let errs := if cfg.forbid && !(extraKeys (fieldNames (initFields (w.fields c))) kvs).isEmpty
            then (stDFields w cfg (w.fields c) kvs).2 ++ [(Option.none, Err.extra (extraKeys (fieldNames (initFields (w.fields c))) kvs))]
            else (stDFields w cfg (w.fields c) kvs).2
         if !errs.isEmpty then .error (.cve errs) else .ok (.inst c (stDFields w cfg (w.fields c) kvs).1))
      else wrapInst c (stDFieldsI w cfg (w.fields c) kvs) := by
  rw [stD]; simp only [ht, Bool.false_eq_true, if_false]
  split
  · rfl
  · cases stDFieldsI w cfg (w.fields c) kvs <;> rfl

theorem stF_cls_other {c o} (ht : cfg.tupleStrat = false) (ho : ∀ kvs, o ≠ .dict kvs) :
    stF w cfg (.cls c) o = if cfg.gen then nonMappingClsGen w cfg c o else nonMappingClsInterp w c := by
  cases o
  case dict kvs => exact absurd rfl (ho kvs)
  all_goals (rw [stF] <;> try (intro kvs h; cases h)) <;> simp [ht]

theorem stD_cls_other {c o} (ht : cfg.tupleStrat = false) (ho : ∀ kvs, o ≠ .dict kvs) :
    stD w cfg (.cls c) o =
      if cfg.gen then nonMappingClsGenD w cfg c o
      else match nonMappingClsInterp w c with
        | some v => .ok v
        | Option.none => .error .leaf := by
  cases o
  case dict kvs => exact absurd rfl (ho kvs)
  all_goals (rw [stD] <;> try (intro kvs h; cases h)) <;> simp only [ht, Bool.false_eq_true, if_false] <;> rfl

end CattrsModel

namespace CattrsModel
variable (w : World) (cfg : Cfg)

/-! ### class unions -/

theorem stF_union (cs : List Nat) (hn : Bool) (o : Obj) :
    stF w cfg (.union cs hn) o =
      match unionPick w cs hn o with
      | .ok m => if m ∈ cs then stF w cfg (.cls m) o else Option.none
      | .none => some .none
      | _ => Option.none := by
  rw [stF]
  split <;> first | rfl | (split <;> simp_all)

theorem stD_union (cs : List Nat) (hn : Bool) (o : Obj) :
    stD w cfg (.union cs hn) o =
      match unionPick w cs hn o with
      | .ok m => if m ∈ cs then stD w cfg (.cls m) o else .error .leaf
      | .none => .ok .none
      | _ => .error .leaf := by
  rw [stD]
  split <;> first | rfl | (split <;> simp_all)

theorem sizeOf_cls_lt_union {m : Nat} {cs : List Nat} (h : m ∈ cs) (hn : Bool) :
    sizeOf (Ty.cls m) < sizeOf (Ty.union cs hn) := by
  have := List.sizeOf_lt_of_mem h
  simp at this ⊢; omega

end CattrsModel

namespace CattrsModel
variable (w : World) (cfg : Cfg)

/-! ### NamedTuples: a heterogeneous tuple of the field types, then `cl(*res)` -/

theorem stF_nt_none {c o} (h : iterItems o = Option.none) :
    stF w cfg (.nt c) o = stLF w cfg (leafFuel w) (.nt c) o := by
  rw [stF]; split
  · rfl
  · rename_i xs h'; rw [h] at h'; cases h'

theorem stF_nt_some {c o xs} (h : iterItems o = some xs) :
    stF w cfg (.nt c) o = if w.isNT c then (stFT w cfg (w.ntTys c) xs).map (ntMk w c) else Option.none := by
  rw [stF]; split
  · rename_i h'; rw [h] at h'; cases h'
  · rename_i xs' h'; rw [h] at h'; cases h'; rfl

theorem stD_nt_none {c o} (h : iterItems o = Option.none) :
    stD w cfg (.nt c) o = stLD w cfg (leafFuel w) (.nt c) o := by
  rw [stD]; split
  · rfl
  · rename_i xs h'; rw [h] at h'; cases h'

theorem stD_nt_some {c o xs} (h : iterItems o = some xs) :
    stD w cfg (.nt c) o =
      if w.isNT c then
        (let errs := if xs.length != (w.ntTys c).length then (stDT w cfg 0 (w.ntTys c) xs).2 ++ [(Option.none, Err.leaf)]
                     else (stDT w cfg 0 (w.ntTys c) xs).2
         if !errs.isEmpty then .error (.ive errs) else .ok (ntMk w c (stDT w cfg 0 (w.ntTys c) xs).1))
      else .error .leaf := by
  rw [stD]; split
  · rename_i h'; rw [h] at h'; cases h'
  · rename_i xs' h'; rw [h] at h'; cases h'; rfl

/-- the structuring templates on a `.nt` position are those of the heterogeneous tuple of the field types
(container payloads; for `str` / `bytes` payloads the same holds up to the fuel spent on entering the class) -/
theorem stF_nt_eq_tup {c o xs} (hnt : w.isNT c = true) (hit : iterItems o = some xs) :
    stF w cfg (.nt c) o = (stF w cfg (.tupleHet (w.ntTys c)) o).bind (fun r =>
      match r with | .coll .tuple ys => some (ntMk w c ys) | _ => Option.none) := by
  rw [stF_nt_some w cfg hit, stF_tup_some w cfg hit, if_pos hnt]
  cases stFT w cfg (w.ntTys c) xs <;> rfl

theorem vals_zip {names : List String} {ys : List Obj} (h : names.length = ys.length) : vals (names.zip ys) = ys := by
  induction names generalizing ys with
  | nil => cases ys <;> simp_all [vals]
  | cons n ns ih =>
    cases ys with
    | nil => simp at h
    | cons y ys => simp only [List.zip_cons_cons, vals, List.map_cons, List.cons.injEq, true_and]
                   exact ih (by simpa using h)

theorem names_zip {names : List String} {ys : List Obj} (h : names.length = ys.length) :
    (names.zip ys).map (·.1) = names := by
  induction names generalizing ys with
  | nil => simp
  | cons n ns ih =>
    cases ys with
    | nil => simp at h
    | cons y ys => simp only [List.zip_cons_cons, List.map_cons, List.cons.injEq, true_and]
                   exact ih (by simpa using h)

theorem zip_names_vals {fs : List (String × Obj)} : (fs.map (·.1)).zip (vals fs) = fs := by
  induction fs with
  | nil => rfl
  | cons p rest ih => obtain ⟨n, v⟩ := p; simp only [List.map_cons, vals, List.zip_cons_cons, List.cons.injEq, true_and]
                      exact ih

theorem ntTys_length (c : Nat) : (w.ntTys c).length = (w.ntNames c).length := by
  simp [World.ntTys, World.ntNames]

end CattrsModel
