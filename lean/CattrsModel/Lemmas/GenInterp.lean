import CattrsModel.Lemmas.GenInterpLeaf
/-!
# C06 core, structuring: on payloads whose class positions hold mappings the generated hooks (`gen = true`)
and the interpretive paths (`gen = false`) accept the same inputs with equal results
-/
namespace CattrsModel.GenInterp
open CattrsModel
variable (w : World)

/-! ### unfolding `mapsAtCls` -/

theorem mapsAtCls_coll_some {k t o xs} (h : iterItems o = some xs) :
    mapsAtCls w (.coll k t) o = mapsAtClsL w t xs := by
  rw [mapsAtCls]; split
  · rename_i h'; rw [h] at h'; cases h'
  · rename_i xs' h'; rw [h] at h'; cases h'; rfl

theorem mapsAtCls_tup_some {ts o xs} (h : iterItems o = some xs) :
    mapsAtCls w (.tupleHet ts) o = mapsAtClsT w ts xs := by
  rw [mapsAtCls]; split
  · rename_i h'; rw [h] at h'; cases h'
  · rename_i xs' h'; rw [h] at h'; cases h'; rfl

theorem mapsAtCls_nt_some {c o xs} (h : iterItems o = some xs) :
    mapsAtCls w (.nt c) o = mapsAtClsT w (w.ntTys c) xs := by
  rw [mapsAtCls]; split
  · rename_i h'; rw [h] at h'; cases h'
  · rename_i xs' h'; rw [h] at h'; cases h'; rfl

theorem mapsAtCls_coll_none {k t o} (h : iterItems o = Option.none) :
    mapsAtCls w (.coll k t) o = mapsAtClsLf w (leafFuel w) (.coll k t) o := by
  rw [mapsAtCls]; split
  · rfl
  · rename_i xs' h'; rw [h] at h'; cases h'

theorem mapsAtCls_tup_none {ts o} (h : iterItems o = Option.none) :
    mapsAtCls w (.tupleHet ts) o = mapsAtClsLf w (leafFuel w) (.tupleHet ts) o := by
  rw [mapsAtCls]; split
  · rfl
  · rename_i xs' h'; rw [h] at h'; cases h'

theorem mapsAtCls_nt_none {c o} (h : iterItems o = Option.none) :
    mapsAtCls w (.nt c) o = mapsAtClsLf w (leafFuel w) (.nt c) o := by
  rw [mapsAtCls]; split
  · rfl
  · rename_i xs' h'; rw [h] at h'; cases h'

theorem mapsAtClsL_iff (t : Ty) (xs : List Obj) :
    mapsAtClsL w t xs = true ↔ ∀ x ∈ xs, mapsAtCls w t x = true := by
  induction xs with
  | nil => simp [mapsAtClsL]
  | cons x xs ih => simp [mapsAtClsL, ih]

theorem mapsAtClsKV_iff (kt vt : Ty) (kvs : List (Obj × Obj)) :
    mapsAtClsKV w kt vt kvs = true ↔ ∀ p ∈ kvs, mapsAtCls w kt p.1 = true ∧ mapsAtCls w vt p.2 = true := by
  induction kvs with
  | nil => simp [mapsAtClsKV]
  | cons p rest ih => obtain ⟨a, b⟩ := p; simp [mapsAtClsKV, ih, and_assoc]

theorem mapsAtClsF_iff (kvs : List (Obj × Obj)) : ∀ (fds : List Field),
    mapsAtClsF w fds kvs = true ↔
      ∀ f ∈ fds, ∀ x, dlookup kvs f.key = some x → f.init = true → ∀ t, f.ty = some t → mapsAtCls w t x = true := by
  intro fds
  induction fds with
  | nil => simp [mapsAtClsF]
  | cons f fds ih =>
    rw [mapsAtClsF]
    split
    · rename_i hl
      rw [ih]
      constructor
      · intro h g hg x hx hi t ht
        rcases List.mem_cons.mp hg with e | e
        · subst e; rw [hl] at hx; cases hx
        · exact h g e x hx hi t ht
      · intro h g hg; exact h g (by simp [hg])
    · rename_i x hl
      simp only [Bool.and_eq_true, Bool.or_eq_true, Bool.not_eq_true']
      rw [ih]
      constructor
      · intro h g hg y hy hi t ht
        rcases List.mem_cons.mp hg with e | e
        · subst e
          rw [hl] at hy; cases hy
          rcases h.1 with h1 | h1
          · rw [hi] at h1; cases h1
          · rw [ht] at h1; exact h1
        · exact h.2 g e y hy hi t ht
      · intro h
        refine ⟨?_, fun g hg => h g (by simp [hg])⟩
        by_cases hi : f.init = true
        · right
          cases ht : f.ty with
          | none => rfl
          | some t => exact h f (by simp) x hl hi t ht
        · left; simpa using hi

/-! ### congruence of the list helpers in the configuration -/

variable (c1 c2 : Cfg)

theorem stFL_congr (t : Ty) : ∀ (xs : List Obj), (∀ x ∈ xs, stF w c1 t x = stF w c2 t x) →
    stFL w c1 t xs = stFL w c2 t xs
  | [], _ => by simp [stFL]
  | x :: xs, h => by
      rw [stFL, stFL, h x (by simp), stFL_congr t xs (fun y hy => h y (by simp [hy]))]

theorem stFT_congr : ∀ (ts : List Ty) (xs : List Obj),
    (c1.tupleStrat = true ∨ mapsAtClsT w ts xs = true) →
    (∀ t ∈ ts, ∀ x ∈ xs, (c1.tupleStrat = true ∨ mapsAtCls w t x = true) → stF w c1 t x = stF w c2 t x) →
    stFT w c1 ts xs = stFT w c2 ts xs
  | [], [], _, _ => by simp [stFT]
  | [], _ :: _, _, _ => by simp [stFT]
  | _ :: _, [], _, _ => by simp [stFT]
  | t :: ts, x :: xs, hs, h => by
      have hs1 : c1.tupleStrat = true ∨ mapsAtCls w t x = true := by
        rcases hs with hs | hs
        · exact Or.inl hs
        · simp only [mapsAtClsT, Bool.and_eq_true] at hs; exact Or.inr hs.1
      have hs2 : c1.tupleStrat = true ∨ mapsAtClsT w ts xs = true := by
        rcases hs with hs | hs
        · exact Or.inl hs
        · simp only [mapsAtClsT, Bool.and_eq_true] at hs; exact Or.inr hs.2
      rw [stFT, stFT, h t (by simp) x (by simp) hs1,
        stFT_congr ts xs hs2 (fun t' ht' y hy => h t' (by simp [ht']) y (by simp [hy]))]

theorem stFKV_congr (kt vt : Ty) : ∀ (kvs : List (Obj × Obj)),
    (∀ p ∈ kvs, stF w c1 kt p.1 = stF w c2 kt p.1 ∧ stF w c1 vt p.2 = stF w c2 vt p.2) →
    stFKV w c1 kt vt kvs = stFKV w c2 kt vt kvs
  | [], _ => by simp [stFKV]
  | (a, b) :: rest, h => by
      rw [stFKV, stFKV, (h (a, b) (by simp)).1, (h (a, b) (by simp)).2,
        stFKV_congr kt vt rest (fun q hq => h q (by simp [hq]))]

theorem hF_congr {f : Field} {x : Obj} (h : ∀ t, f.ty = some t → stF w c1 t x = stF w c2 t x) :
    hF w c1 f x = hF w c2 f x := by
  unfold hF
  cases ht : f.ty with
  | none => rfl
  | some t => exact h t ht

theorem stFFields_congr (kvs : List (Obj × Obj)) : ∀ (fds : List Field),
    (∀ f ∈ fds, f.init = true → ∀ x, dlookup kvs f.key = some x → ∀ t, f.ty = some t →
        stF w c1 t x = stF w c2 t x) →
    stFFields w c1 fds kvs = stFFields w c2 fds kvs := by
  intro fds
  induction fds with
  | nil => intro _; simp [stFFields]
  | cons f fds ih =>
    intro h
    have hr := ih (fun g hg => h g (by simp [hg]))
    by_cases hi : f.init = true
    · cases hl : dlookup kvs f.key with
      | none => rw [stFFields_absent w c1 hi hl, stFFields_absent w c2 hi hl, hr]
      | some x =>
        rw [stFFields_present w c1 hi hl, stFFields_present w c2 hi hl, hr,
          hF_congr w c1 c2 (h f (by simp) hi x hl)]
    · have hi' : f.init = false := by simpa using hi
      rw [stFFields_noinit w c1 hi', stFFields_noinit w c2 hi', hr]

theorem stFFieldsT_congr : ∀ (fds : List Field) (xs : List Obj),
    (∀ f ∈ fds, ∀ x ∈ xs, ∀ t, f.ty = some t → stF w c1 t x = stF w c2 t x) →
    stFFieldsT w c1 fds xs = stFFieldsT w c2 fds xs
  | [], _, _ => by simp [stFFieldsT]
  | f :: fds, [], h => by
      rw [stFFieldsT, stFFieldsT, stFFieldsT_congr fds [] (fun g _ y hy => by cases hy)]
  | f :: fds, x :: xs, h => by
      have hr := stFFieldsT_congr fds xs (fun g hg y hy => h g (by simp [hg]) y (by simp [hy]))
      rw [stFFieldsT, stFFieldsT, hr]
      cases ht : f.ty with
      | none => rfl
      | some t => simp only [h f (by simp) x (by simp) t ht]

/-! ### the two engines agree -/

theorem struct_agree_aux (hws : w.SupU false)
    (hg2 : c2.gen = false) (hts : c2.tupleStrat = c1.tupleStrat) (hf1 : c1.forbid = false) :
    ∀ (n m : Nat) (t : Ty) (o : Obj), sizeOf o ≤ n → sizeOf t ≤ m → t.supU false = true →
      (c1.tupleStrat = true ∨ mapsAtCls w t o = true) → stF w c1 t o = stF w c2 t o := by
  intro n
  induction n with
  | zero => intro m t o ho _; have := sizeOf_obj_pos o; omega
  | succ n ihn =>
    intro m
    induction m with
    | zero => intro t o _ ht; have := sizeOf_ty_pos t; omega
    | succ m ihm =>
      intro t o ho ht hs hsc
      have IHo : ∀ (t' : Ty) (o' : Obj), sizeOf o' < sizeOf o → t'.supU false = true →
          (c1.tupleStrat = true ∨ mapsAtCls w t' o' = true) → stF w c1 t' o' = stF w c2 t' o' :=
        fun t' o' h => ihn (sizeOf t') t' o' (by omega) (Nat.le_refl _)
      cases t with
      | any => simp [stF]
      | int => simp only [stF]
      | float => simp only [stF]
      | str => simp [stF]
      | bytes => simp only [stF]
      | bool => simp [stF]
      | enum e => simp only [stF]
      | lit vs => simp only [stF]
      | coll k t' =>
        have hs' : t'.supU false = true := by simpa [Ty.supU] using hs
        cases hit : iterItems o with
        | none =>
          rw [stF_coll_none w c1 hit, stF_coll_none w c2 hit]
          rw [mapsAtCls_coll_none w hit] at hsc
          exact Leaf.struct_agree w c1 c2 hws hg2 hts hf1 hs hsc
        | some xs =>
          rw [stF_coll_some w c1 hit, stF_coll_some w c2 hit]
          have hlt := iterItems_lt hit
          rw [mapsAtCls_coll_some w hit, mapsAtClsL_iff] at hsc
          rw [stFL_congr w c1 c2 t' xs (fun x hx => IHo t' x (by have := List.sizeOf_lt_of_mem hx; omega) hs'
            (hsc.imp id (fun h => h x hx)))]
      | tupleHet ts =>
        simp only [Ty.supU, Bool.and_eq_true] at hs
        cases hit : iterItems o with
        | none =>
          rw [stF_tup_none w c1 hit, stF_tup_none w c2 hit]
          rw [mapsAtCls_tup_none w hit] at hsc
          exact Leaf.struct_agree w c1 c2 hws hg2 hts hf1 (by simp [Ty.supU, hs.1, hs.2]) hsc
        | some xs =>
          rw [stF_tup_some w c1 hit, stF_tup_some w c2 hit]
          have hlt := iterItems_lt hit
          rw [mapsAtCls_tup_some w hit] at hsc
          rw [stFT_congr w c1 c2 ts xs hsc (fun t' ht' x hx hh =>
            IHo t' x (by have := List.sizeOf_lt_of_mem hx; omega) (supUL_mem hs.1 t' ht') hh)]
      | map k kt vt =>
        simp only [Ty.supU, Bool.and_eq_true] at hs
        have hkt : k.target = Option.none := by simpa using hs.2
        replace hs := hs.1
        cases o with
        | dict kvs =>
          rw [stF, stF]
          simp only [mapRes_plain _ _ hkt]
          have hsc' : c1.tupleStrat = true ∨ ∀ p ∈ kvs, mapsAtCls w kt p.1 = true ∧ mapsAtCls w vt p.2 = true := by
            rcases hsc with h | h
            · exact Or.inl h
            · rw [mapsAtCls, mapsAtClsKV_iff] at h; exact Or.inr h
          rw [stFKV_congr w c1 c2 kt vt kvs (fun p hp => by
            have h1 := sizeOf_lt_of_mem_kv hp
            simp at ho
            exact ⟨IHo kt p.1 (by simp; omega) hs.1 (hsc'.imp id (fun h => (h p hp).1)),
                   IHo vt p.2 (by simp; omega) hs.2 (hsc'.imp id (fun h => (h p hp).2))⟩)]
        | _ => simp [stF]
      | opt t' =>
        have hs' : t'.supU false = true := by simpa [Ty.supU] using hs
        have hsz : sizeOf t' ≤ m := by simp at ht; omega
        cases o with
        | none => simp [stF]
        | _ =>
          have hsc' := hsc
          simp only [mapsAtCls] at hsc'
          simpa [stF] using ihm t' _ ho hsz hs' hsc'
      | wrap k t' =>
        have hs' : t'.supU false = true := by
          simp only [Ty.supU, Bool.and_eq_true] at hs; exact hs.1
        have hsz : sizeOf t' ≤ m := by simp at ht; omega
        have hsc' := hsc
        simp only [mapsAtCls] at hsc'
        simpa [stF] using ihm t' o ho hsz hs' hsc'
      | cls c =>
        by_cases htup : c1.tupleStrat = true
        · have htup2 : c2.tupleStrat = true := by rw [hts]; exact htup
          rw [stF_cls_tuple w c1 htup, stF_cls_tuple w c2 htup2]
          cases hit : iterItems o with
          | none => exact Leaf.struct_agree w c1 c2 hws hg2 hts hf1 hs (Or.inl htup)
          | some xs =>
            have hlt := iterItems_lt hit
            simp only []
            rw [stFFieldsT_congr w c1 c2 (w.fields c) xs (fun f hf x hx t' ht' =>
              IHo t' x (by have := List.sizeOf_lt_of_mem hx; omega) (hws.fieldsOK c f hf t' ht') (Or.inl htup))]
        · have htup' : c1.tupleStrat = false := by simpa using htup
          have htup2 : c2.tupleStrat = false := by rw [hts]; exact htup'
          have hm : mapsAtCls w (.cls c) o = true := by
            rcases hsc with h | h
            · exact absurd h htup
            · exact h
          cases o with
          | dict kvs =>
            rw [stF_cls_dict w c1 htup', stF_cls_dict w c2 htup2]
            rw [mapsAtCls, mapsAtClsF_iff] at hm
            rw [stFFields_congr w c1 c2 kvs (w.fields c) (fun f hf hi x hx t' ht' =>
              IHo t' x (by have := dlookup_lt hx; simp; omega) (hws.fieldsOK c f hf t' ht')
                (Or.inr (hm f hf x hx hi t' ht')))]
            simp [hg2, hf1]
          | _ => simp [mapsAtCls] at hm
      | td c => simp [Ty.supU] at hs
      | union ucs hn =>
        rw [stF_union, stF_union]
        cases hp : unionPick w ucs hn o with
        | ok k =>
          simp only []
          by_cases hk : k ∈ ucs
          · simp only [hk, if_true]
            refine ihm (.cls k) o ho (by have := sizeOf_cls_lt_union hk hn; omega) (by simp [Ty.supU]) ?_
            rcases hsc with h | h
            · exact Or.inl h
            · right
              cases o with
              | none => exact absurd hp unionPick_none_payload
              | dict kvs =>
                simp only [mapsAtCls, List.all_eq_true] at h ⊢
                exact h k hk
              | _ => simp [mapsAtCls] at h
          · simp [hk]
        | none => rfl
        | refuseCreate => rfl
        | refuseResolve => rfl
      | nt c =>
        cases hit : iterItems o with
        | none =>
          rw [stF_nt_none w c1 hit, stF_nt_none w c2 hit]
          rw [mapsAtCls_nt_none w hit] at hsc
          exact Leaf.struct_agree w c1 c2 hws hg2 hts hf1 hs hsc
        | some xs =>
          rw [stF_nt_some w c1 hit, stF_nt_some w c2 hit]
          have hlt := iterItems_lt hit
          rw [mapsAtCls_nt_some w hit] at hsc
          rw [stFT_congr w c1 c2 (w.ntTys c) xs hsc (fun t' ht' x hx hh =>
            IHo t' x (by have := List.sizeOf_lt_of_mem hx; omega) (ntTys_supU w hws c t' ht') hh)]

/-- **C06 core (structuring).** -/
theorem struct_agree (hws : w.SupU false)
    (hg2 : c2.gen = false) (hts : c2.tupleStrat = c1.tupleStrat) (hf1 : c1.forbid = false)
    {t : Ty} {o : Obj} (hs : t.supU false = true) (hsc : c1.tupleStrat = true ∨ mapsAtCls w t o = true) :
    stF w c1 t o = stF w c2 t o :=
  struct_agree_aux w c1 c2 hws hg2 hts hf1 (sizeOf o) (sizeOf t) t o (Nat.le_refl _) (Nat.le_refl _) hs hsc

theorem convStructure_eq_stF (w : World) (cfg : Cfg) (t : Ty) (o : Obj) :
    convStructure w cfg t o = stF w cfg.core t o := by
  unfold convStructure
  split
  · exact modes_agree w cfg.core t o
  · rfl

end CattrsModel.GenInterp
