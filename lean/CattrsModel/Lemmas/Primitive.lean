import CattrsModel.Conv.Encoding
import CattrsModel.Lemmas.RoundTrip
/-!
# C03 core: the unstructured form of a genuine value is primitive-only
-/
namespace CattrsModel

theorem primL_iff {dq : Bool} {xs : List Obj} : Obj.primL dq xs = true ↔ ∀ x ∈ xs, x.prim dq = true := by
  induction xs with
  | nil => simp [Obj.primL]
  | cons x xs ih => simp [Obj.primL, ih]

theorem primKV_iff {dq : Bool} {kvs : List (Obj × Obj)} :
    Obj.primKV dq kvs = true ↔ (∀ a ∈ keysOf kvs, a.prim dq = true) ∧ (∀ b ∈ kvs.map (·.2), b.prim dq = true) := by
  induction kvs with
  | nil => simp [Obj.primKV, keysOf]
  | cons p rest ih =>
    obtain ⟨a, b⟩ := p
    simp only [Obj.primKV, Bool.and_eq_true, ih, keysOf, List.map_cons, List.mem_cons, forall_eq_or_imp]
    constructor
    · rintro ⟨⟨h1, h2⟩, h3, h4⟩; exact ⟨⟨h1, h3⟩, h2, h4⟩
    · rintro ⟨⟨h1, h3⟩, h2, h4⟩; exact ⟨⟨h1, h2⟩, h3, h4⟩

theorem leaf_prim {dq : Bool} {v : Obj} (h : v.isLeafB = true) : v.prim dq = true := by
  cases v <;> simp_all [Obj.isLeafB, Obj.prim]

/-- whatever is `==` to a leaf is a leaf -/
theorem pyEq_leaf {v x : Obj} (hv : v.isLeafB = true) (h : Obj.pyEq v x = true) : x.isLeafB = true := by
  unfold Obj.pyEq at h
  cases hn : Obj.num2? v with
  | some a =>
    rw [hn] at h
    cases hx : Obj.num2? x with
    | some b => cases x <;> simp_all [Obj.num2?, Obj.isLeafB]
    | none => rw [hx] at h; simp at h
  | none =>
    rw [hn] at h
    cases hx : Obj.num2? x with
    | some b => rw [hx] at h; simp at h
    | none => rw [hx] at h; simp at h; subst h; exact hv

theorem memPy_leaf {vs : List Obj} {x : Obj} (hvs : vs.all Obj.isLeafB = true) (h : Obj.memPy x vs = true) :
    x.isLeafB = true := by
  obtain ⟨y, hy, e⟩ := memPy_iff.mp h
  exact pyEq_leaf (List.all_eq_true.mp hvs y hy) e

/-- a value of a `Literal[...]` over leaf values and enum members: a leaf, or one of the literal's members -/
theorem memPy_litVal {vs : List Obj} {x : Obj} (hvs : vs.all Obj.isLitVal = true) (h : Obj.memPy x vs = true) :
    x.isLeafB = true ∨ (∃ e m, x = .enumM e m ∧ litHasEnum vs = true) := by
  obtain ⟨y, hy, e⟩ := memPy_iff.mp h
  have hy' := List.all_eq_true.mp hvs y hy
  cases y with
  | enumM e' m' =>
    right
    have : x = .enumM e' m' := by
      unfold Obj.pyEq at e
      have h0 : Obj.num2? (.enumM e' m') = Option.none := rfl
      rw [h0] at e
      cases hx : Obj.num2? x with
      | some b => rw [hx] at e; cases e
      | none => rw [hx] at e; simp only [beq_iff_eq] at e; exact e.symm
    exact ⟨e', m', this, by simp only [litHasEnum, List.any_eq_true]; exact ⟨_, hy, rfl⟩⟩
  | _ => left; exact pyEq_leaf (by simpa [Obj.isLitVal] using hy') e

/-- on its values a literal is unstructured by run-time class (leaf values are themselves) -/
theorem un_lit_unAny (w : World) (cfg : Cfg) {vs : List Obj} {x : Obj} (hvs : vs.all Obj.isLitVal = true)
    (h : Obj.memPy x vs = true) : un w cfg (.lit vs) x = unAny w cfg x := by
  rw [un]
  rcases memPy_litVal hvs h with hl | ⟨e, m, rfl, he⟩
  · have : unAny w cfg x = x := by cases x <;> simp_all [Obj.isLeafB, unAny]
    rw [this]; split <;> rfl
  · simp [he]

theorem mkColl_prim {dq : Bool} {ck : CK} {ys : List Obj} (hck : (dq || ck != .deque) = true)
    (h : ∀ y ∈ ys, y.prim dq = true) : (mkColl ck ys).prim dq = true := by
  unfold mkColl
  simp only [Obj.prim, Bool.and_eq_true]
  refine ⟨hck, primL_iff.mpr ?_⟩
  split
  · intro y hy; exact h y (mkSet_mem hy)
  · exact h

theorem mkDict_prim {dq : Bool} {kvs : List (Obj × Obj)}
    (hk : ∀ a ∈ keysOf kvs, a.prim dq = true) (hv : ∀ b ∈ kvs.map (·.2), b.prim dq = true) :
    (Obj.dict (mkDict kvs)).prim dq = true := by
  simp only [Obj.prim]
  exact primKV_iff.mpr ⟨fun a ha => hk a (mkDict_keys_mem ha), fun b hb => hv b (mkDict_vals_mem hb)⟩

variable (w : World) (cfg : Cfg)

theorem enumValue_prim {dq : Bool} (hws : w.SupU cfg.gen) (e m : Nat) :
    (enumValue w e m).prim dq = true := by
  unfold enumValue
  cases h : (w.members e)[m]? with
  | none => simp [Obj.prim]
  | some v => exact leaf_prim (hws.enumLeaf e v (List.mem_of_getElem? h))

theorem wellTypedL_iff (t : Ty) (xs : List Obj) : wellTypedL w t xs = true ↔ ∀ x ∈ xs, wellTyped w t x = true := by
  induction xs with
  | nil => simp [wellTypedL]
  | cons x xs ih => simp [wellTypedL, ih]

theorem wellTypedAnyL_iff (xs : List Obj) : wellTypedAnyL w xs = true ↔ ∀ x ∈ xs, wellTypedAny w x = true := by
  induction xs with
  | nil => simp [wellTypedAnyL]
  | cons x xs ih => simp [wellTypedAnyL, ih]

theorem mem_unAnyL {xs : List Obj} {y : Obj} (h : y ∈ unAnyL w cfg xs) : ∃ x ∈ xs, y = unAny w cfg x := by
  induction xs with
  | nil => simp [unAnyL] at h
  | cons x xs ih =>
    simp only [unAnyL, List.mem_cons] at h
    rcases h with h | h
    · exact ⟨x, by simp, h⟩
    · obtain ⟨z, hz, e⟩ := ih h; exact ⟨z, by simp [hz], e⟩

theorem sizeOf_lt_of_mem_kv {kvs : List (Obj × Obj)} {p : Obj × Obj} (h : p ∈ kvs) :
    sizeOf p.1 < sizeOf kvs ∧ sizeOf p.2 < sizeOf kvs := by
  have := List.sizeOf_lt_of_mem h
  obtain ⟨a, b⟩ := p
  simp only [Prod.mk.sizeOf_spec] at this
  constructor <;> simp <;> omega

/-- elementwise facts about `unKV` -/
theorem unKV_prim {dq : Bool} (kt vt : Ty) (kvs : List (Obj × Obj))
    (h : ∀ p ∈ kvs, (un w cfg kt p.1).prim dq = true ∧ (un w cfg vt p.2).prim dq = true) :
    (∀ a ∈ keysOf (unKV w cfg kt vt kvs), a.prim dq = true) ∧ (∀ b ∈ (unKV w cfg kt vt kvs).map (·.2), b.prim dq = true) := by
  induction kvs with
  | nil => simp [unKV, keysOf]
  | cons p rest ih =>
    obtain ⟨a, b⟩ := p
    have hp := h (a, b) (by simp)
    have ihr := ih (fun q hq => h q (by simp [hq]))
    simp only [unKV, keysOf, List.map_cons, List.mem_cons, forall_eq_or_imp]
    exact ⟨⟨hp.1, ihr.1⟩, hp.2, ihr.2⟩

theorem unAnyKV_prim {dq : Bool} (kvs : List (Obj × Obj))
    (h : ∀ p ∈ kvs, (unAny w cfg p.1).prim dq = true ∧ (unAny w cfg p.2).prim dq = true) :
    (∀ a ∈ keysOf (unAnyKV w cfg kvs), a.prim dq = true) ∧ (∀ b ∈ (unAnyKV w cfg kvs).map (·.2), b.prim dq = true) := by
  induction kvs with
  | nil => simp [unAnyKV, keysOf]
  | cons p rest ih =>
    obtain ⟨a, b⟩ := p
    have hp := h (a, b) (by simp)
    have ihr := ih (fun q hq => h q (by simp [hq]))
    simp only [unAnyKV, keysOf, List.map_cons, List.mem_cons, forall_eq_or_imp]
    exact ⟨⟨hp.1, ihr.1⟩, hp.2, ihr.2⟩

theorem wellTypedKV_iff (kt vt : Ty) (kvs : List (Obj × Obj)) :
    wellTypedKV w kt vt kvs = true ↔ ∀ p ∈ kvs, wellTyped w kt p.1 = true ∧ wellTyped w vt p.2 = true := by
  induction kvs with
  | nil => simp [wellTypedKV]
  | cons p rest ih => obtain ⟨a, b⟩ := p; simp [wellTypedKV, ih, and_assoc]

theorem wellTypedAnyKV_iff (kvs : List (Obj × Obj)) :
    wellTypedAnyKV w kvs = true ↔ ∀ p ∈ kvs, wellTypedAny w p.1 = true ∧ wellTypedAny w p.2 = true := by
  induction kvs with
  | nil => simp [wellTypedAnyKV]
  | cons p rest ih => obtain ⟨a, b⟩ := p; simp [wellTypedAnyKV, ih, and_assoc]

def wtField (f : Field) (x : Obj) : Bool :=
  match f.ty with | Option.none => wellTypedAny w x | some t => wellTyped w t x

theorem wellTypedF_cons (f : Field) (fds : List Field) (n : String) (x : Obj) (rest : List (String × Obj)) :
    wellTypedF w (f :: fds) ((n, x) :: rest) = (wtField w f x && wellTypedF w fds rest) := by
  rw [wellTypedF]; unfold wtField; cases f.ty <;> rfl

theorem wellTypedTD_cons (fds : List Field) (k v : Obj) (rest : List (Obj × Obj)) :
    wellTypedTD w fds ((k, v) :: rest) =
      ((match findField fds k with | Option.none => false | some f => wtField w f v) && wellTypedTD w fds rest) := by
  rw [wellTypedTD]; unfold wtField
  cases findField fds k with
  | none => rfl
  | some f => cases f.ty <;> rfl

theorem unFields_prim {dq : Bool} : ∀ (fds : List Field) (fs : List (String × Obj)),
    (∀ f ∈ fds, ∀ p ∈ fs, wtField w f p.2 = true → (unField w cfg f p.2).prim dq = true) →
    wellTypedF w fds fs = true → Obj.primKV dq (unFields w cfg fds fs) = true := by
  intro fds
  induction fds with
  | nil => intro fs _ _; cases fs <;> simp [unFields, Obj.primKV]
  | cons f fds ih =>
    intro fs h hwt
    cases fs with
    | nil => simp [unFields, Obj.primKV]
    | cons p rest =>
      obtain ⟨n, x⟩ := p
      rw [wellTypedF_cons] at hwt
      simp only [Bool.and_eq_true] at hwt
      have hx := h f (by simp) (n, x) (by simp) hwt.1
      have ihr := ih rest (fun g hg q hq => h g (by simp [hg]) q (by simp [hq])) hwt.2
      rw [unFields_cons]
      split
      · simp only [Obj.primKV, Bool.and_eq_true]
        exact ⟨⟨by simp [Field.key, Obj.prim], hx⟩, ihr⟩
      · exact ihr

theorem unFieldsT_prim {dq : Bool} : ∀ (fds : List Field) (fs : List (String × Obj)),
    (∀ f ∈ fds, ∀ p ∈ fs, wtField w f p.2 = true → (unField w cfg f p.2).prim dq = true) →
    wellTypedF w fds fs = true → Obj.primL dq (unFieldsT w cfg fds fs) = true := by
  intro fds
  induction fds with
  | nil => intro fs _ _; cases fs <;> simp [unFieldsT, Obj.primL]
  | cons f fds ih =>
    intro fs h hwt
    cases fs with
    | nil => simp [unFieldsT, Obj.primL]
    | cons p rest =>
      obtain ⟨n, x⟩ := p
      rw [wellTypedF_cons] at hwt
      simp only [Bool.and_eq_true] at hwt
      have hx := h f (by simp) (n, x) (by simp) hwt.1
      have ihr := ih rest (fun g hg q hq => h g (by simp [hg]) q (by simp [hq])) hwt.2
      rw [unFieldsT_cons]
      simp only [Obj.primL, Bool.and_eq_true]
      exact ⟨hx, ihr⟩

theorem findField_mem {fds : List Field} {k : Obj} {f : Field} (h : findField fds k = some f) : f ∈ fds := by
  unfold findField at h; exact List.mem_of_find?_eq_some h

theorem findField_key {fds : List Field} {k : Obj} {f : Field} (h : findField fds k = some f) : k = .str f.name := by
  unfold findField at h
  have := List.find?_some h
  simp only [Field.key] at this
  exact (pyEq_str_left.mp this)

theorem unTD_prim {dq : Bool} (fds : List Field) : ∀ (kvs : List (Obj × Obj)),
    (∀ f ∈ fds, ∀ p ∈ kvs, wtField w f p.2 = true → (unField w cfg f p.2).prim dq = true) →
    wellTypedTD w fds kvs = true → Obj.primKV dq (unTD w cfg fds kvs) = true := by
  intro kvs
  induction kvs with
  | nil => intro _ _; simp [unTD, Obj.primKV]
  | cons p rest ih =>
    obtain ⟨k, v⟩ := p
    intro h hwt
    rw [wellTypedTD_cons] at hwt
    simp only [Bool.and_eq_true] at hwt
    have ihr := ih (fun g hg q hq => h g hg q (by simp [hq])) hwt.2
    rw [unTD_cons]
    simp only [Obj.primKV, Bool.and_eq_true]
    cases hf : findField fds k with
    | none => rw [hf] at hwt; simp at hwt
    | some f =>
      rw [hf] at hwt
      have hx := h f (findField_mem hf) (k, v) (by simp) hwt.1
      refine ⟨⟨?_, hx⟩, ihr⟩
      rw [findField_key hf]; simp [Obj.prim]

/-- leaves of primitive types stay what they are -/
theorem un_primLeaf {t : Ty} {x : Obj} (ht : t.isPrimLeaf = true) (h : wellTyped w t x = true) :
    un w cfg t x = x ∧ x.isLeafB = true := by
  cases t <;> simp [Ty.isPrimLeaf] at ht <;> cases x <;> simp_all [wellTyped, un, Obj.isLeafB]

theorem primLeaf_leaf {t : Ty} {x : Obj} (ht : t.isPrimLeaf = true) (h : wellTyped w t x = true) : x.isLeafB = true := by
  cases t <;> simp [Ty.isPrimLeaf] at ht <;> cases x <;> simp_all [wellTyped, Obj.isLeafB]

theorem wellTypedT_leaves : ∀ (ts : List Ty) (xs : List Obj), ts.all Ty.isPrimLeaf = true → wellTypedT w ts xs = true →
    ∀ x ∈ xs, x.isLeafB = true := by
  intro ts
  induction ts with
  | nil => intro xs _ h; cases xs <;> simp_all [wellTypedT]
  | cons t ts ih =>
    intro xs hts h
    cases xs with
    | nil => simp
    | cons x xs =>
      simp only [wellTypedT, Bool.and_eq_true] at h
      simp only [List.all_cons, Bool.and_eq_true] at hts
      intro y hy
      rcases List.mem_cons.mp hy with e | e
      · subst e; exact primLeaf_leaf w hts.1 h.1
      · exact ih xs hts.2 h.2 y e

theorem unT_prim {dq : Bool} : ∀ (ts : List Ty) (xs : List Obj),
    (∀ t ∈ ts, ∀ x ∈ xs, wellTyped w t x = true → (un w cfg t x).prim dq = true) →
    wellTypedT w ts xs = true → Obj.primL dq (unT w cfg ts xs) = true := by
  intro ts
  induction ts with
  | nil => intro xs _ _; cases xs <;> simp [unT, Obj.primL]
  | cons t ts ih =>
    intro xs h hwt
    cases xs with
    | nil => simp [unT, Obj.primL]
    | cons x xs =>
      simp only [wellTypedT, Bool.and_eq_true] at hwt
      simp only [unT, Obj.primL, Bool.and_eq_true]
      exact ⟨h t (by simp) x (by simp) hwt.1, ih xs (fun t' ht' y hy => h t' (by simp [ht']) y (by simp [hy])) hwt.2⟩

theorem supUL_mem {gen : Bool} : ∀ {ts : List Ty}, Ty.supUL gen ts = true → ∀ t ∈ ts, t.supU gen = true := by
  intro ts
  induction ts with
  | nil => intro _ t ht; cases ht
  | cons t ts ih =>
    intro h t' ht'
    simp only [Ty.supUL, Bool.and_eq_true] at h
    rcases List.mem_cons.mp ht' with e | e
    · subst e; exact h.1
    · exact ih h.2 t' e


theorem leaf_wellTypedAny {x : Obj} (h : x.isLeafB = true) : wellTypedAny w x = true := by
  cases x <;> simp_all [Obj.isLeafB, wellTypedAny]

theorem wellTypedT_mem : ∀ (ts : List Ty) (xs : List Obj), wellTypedT w ts xs = true →
    ∀ x ∈ xs, ∃ t ∈ ts, wellTyped w t x = true := by
  intro ts
  induction ts with
  | nil => intro xs h; cases xs <;> simp_all [wellTypedT]
  | cons t ts ih =>
    intro xs h
    cases xs with
    | nil => simp
    | cons x xs =>
      simp only [wellTypedT, Bool.and_eq_true] at h
      intro y hy
      rcases List.mem_cons.mp hy with e | e
      · subst e; exact ⟨t, by simp, h.1⟩
      · obtain ⟨t', ht', hh⟩ := ih xs h.2 y e; exact ⟨t', by simp [ht'], hh⟩

theorem wellTypedTD_mem (fds : List Field) : ∀ (kvs : List (Obj × Obj)), wellTypedTD w fds kvs = true →
    ∀ p ∈ kvs, ∃ f ∈ fds, p.1 = .str f.name ∧ wtField w f p.2 = true := by
  intro kvs
  induction kvs with
  | nil => intro _ p hp; cases hp
  | cons q rest ih =>
    obtain ⟨k, v⟩ := q
    intro h p hp
    rw [wellTypedTD_cons] at h
    simp only [Bool.and_eq_true] at h
    rcases List.mem_cons.mp hp with e | e
    · subst e
      cases hf : findField fds k with
      | none => rw [hf] at h; simp at h
      | some f => rw [hf] at h; exact ⟨f, findField_mem hf, findField_key hf, h.1⟩
    · exact ih h.2 p e

/-- an instance whose fields are well-typed is, read as a tuple, well-typed for the tuple of the field types -/
theorem wellTypedF_T : ∀ (fds : List Field) (fs : List (String × Obj)), wellTypedF w fds fs = true →
    wellTypedT w (fds.map Field.tyA) (vals fs) = true := by
  intro fds
  induction fds with
  | nil => intro fs h; cases fs <;> simp_all [wellTypedF, wellTypedT, vals]
  | cons f fds ih =>
    intro fs h
    cases fs with
    | nil => simp [wellTypedF] at h
    | cons p rest =>
      obtain ⟨n, x⟩ := p
      rw [wellTypedF_cons] at h
      simp only [Bool.and_eq_true] at h
      simp only [List.map_cons, vals, wellTypedT, Bool.and_eq_true]
      refine ⟨?_, ih rest h.2⟩
      have h1 := h.1
      unfold wtField at h1; unfold Field.tyA
      cases hty : f.ty with
      | none => rw [hty] at h1; simp only []; rw [wellTyped]; exact h1
      | some t => rw [hty] at h1; exact h1

theorem sizeOf_lt_of_mem_vals {fs : List (String × Obj)} {y : Obj} (h : y ∈ vals fs) : sizeOf y < 1 + sizeOf fs := by
  have h1 := List.sizeOf_lt_of_mem h
  have h2 := sizeOf_vals_lt fs
  omega

theorem ntTys_supU {gen : Bool} (hws : w.SupU gen) (c : Nat) : ∀ t ∈ w.ntTys c, t.supU gen = true := by
  intro t ht
  simp only [World.ntTys, List.mem_map] at ht
  obtain ⟨f, hf, rfl⟩ := ht
  unfold Field.tyA
  cases hty : f.ty with
  | none => simp [Ty.supU]
  | some t' => exact hws.fieldsOK c f hf t' hty

theorem ntTys_primU {gen : Bool} (hws : w.SupU gen) (hg : gen = false) {c : Nat} (hnt : w.isNT c = true) :
    (w.ntTys c).all Ty.isPrimLeaf = true := by
  rw [List.all_eq_true]
  intro t ht
  simp only [World.ntTys, List.mem_map] at ht
  obtain ⟨f, hf, rfl⟩ := ht
  obtain ⟨t', hty, hp⟩ := hws.ntPrim hg c hnt f hf
  simp only [Field.tyA, hty]; exact hp

/-- a value of its declared type is also well-typed when only its run-time class is looked at -/
theorem wellTyped_any_aux (gen : Bool) (hws : w.SupU gen) :
    ∀ (n m : Nat) (t : Ty) (x : Obj), sizeOf x ≤ n → sizeOf t ≤ m → t.supU gen = true → wellTyped w t x = true →
      wellTypedAny w x = true := by
  intro n
  induction n with
  | zero => intro m t x hx; have : 0 < sizeOf x := by cases x <;> simp <;> omega
            omega
  | succ n ihn =>
    intro m
    induction m with
    | zero => intro t x _ ht; have : 0 < sizeOf t := by cases t <;> simp <;> omega
              omega
    | succ m ihm =>
      intro t x hx ht hs hwt
      cases t with
      | any => rw [wellTyped] at hwt; exact hwt
      | int | float | str | bytes | bool => cases x <;> simp_all [wellTyped, wellTypedAny]
      | enum e =>
        cases x <;> simp [wellTyped] at hwt
        obtain ⟨rfl, hm⟩ := hwt
        simp [wellTypedAny, hm]
      | lit vs =>
        rw [wellTyped] at hwt
        simp only [Bool.and_eq_true] at hwt
        exact hwt.2
      | coll k t' =>
        cases x with
        | coll ck xs =>
          simp only [wellTyped, Bool.and_eq_true, beq_iff_eq] at hwt
          have hel := (wellTypedL_iff w t' xs).mp hwt.2
          have hs' : t'.supU gen = true := by simpa [Ty.supU] using hs
          simp at hx
          rw [wellTypedAny]
          refine (wellTypedAnyL_iff w xs).mpr (fun z hz => ?_)
          have := List.sizeOf_lt_of_mem hz
          exact ihn (sizeOf t') t' z (by omega) (Nat.le_refl _) hs' (hel z hz)
        | _ => simp [wellTyped] at hwt
      | tupleHet ts =>
        cases x with
        | coll ck xs =>
          cases ck <;> simp [wellTyped] at hwt
          simp at hx
          rw [wellTypedAny]
          refine (wellTypedAnyL_iff w xs).mpr (fun z hz => ?_)
          obtain ⟨t', ht', hh⟩ := wellTypedT_mem w ts xs hwt z hz
          have := List.sizeOf_lt_of_mem hz
          simp only [Ty.supU, Bool.and_eq_true] at hs
          exact ihn (sizeOf t') t' z (by omega) (Nat.le_refl _) (supUL_mem hs.1 t' ht') hh
        | _ => simp [wellTyped] at hwt
      | map mk kt vt =>
        cases x with
        | dict kvs =>
          rw [wellTyped] at hwt
          have hel := (wellTypedKV_iff w kt vt kvs).mp hwt
          simp only [Ty.supU, Bool.and_eq_true] at hs
          replace hs := hs.1
          simp at hx
          rw [wellTypedAny]
          refine (wellTypedAnyKV_iff w kvs).mpr (fun p hp => ?_)
          have := sizeOf_lt_of_mem_kv hp
          exact ⟨ihn (sizeOf kt) kt p.1 (by omega) (Nat.le_refl _) hs.1 (hel p hp).1,
                 ihn (sizeOf vt) vt p.2 (by omega) (Nat.le_refl _) hs.2 (hel p hp).2⟩
        | _ => simp [wellTyped] at hwt
      | opt t' =>
        have hs' : t'.supU gen = true := by simpa [Ty.supU] using hs
        by_cases hx0 : x = .none
        · subst hx0; simp [wellTypedAny]
        · have : wellTyped w t' x = true := by cases x <;> simp_all [wellTyped]
          simp at ht
          exact ihm t' x hx (by omega) hs' this
      | wrap k t' =>
        have hs' : t'.supU gen = true := by simp only [Ty.supU, Bool.and_eq_true] at hs; exact hs.1
        rw [wellTyped] at hwt
        simp at ht
        exact ihm t' x hx (by omega) hs' hwt
      | cls c =>
        cases x with
        | inst c' fs =>
          simp only [wellTyped, Bool.and_eq_true, beq_iff_eq] at hwt
          obtain ⟨⟨rfl, _⟩, h⟩ := hwt
          rw [wellTypedAny]; split
          · exact wellTypedF_T w _ fs h
          · exact h
        | _ => simp [wellTyped] at hwt
      | td c =>
        cases x with
        | dict kvs =>
          rw [wellTyped] at hwt
          simp at hx
          rw [wellTypedAny]
          refine (wellTypedAnyKV_iff w kvs).mpr (fun p hp => ?_)
          obtain ⟨f, hf, hk, hv⟩ := wellTypedTD_mem w _ kvs hwt p hp
          have := sizeOf_lt_of_mem_kv hp
          refine ⟨by rw [hk]; simp [wellTypedAny], ?_⟩
          unfold wtField at hv
          cases hty : f.ty with
          | none => rw [hty] at hv; exact hv
          | some t' => rw [hty] at hv
                       exact ihn (sizeOf t') t' p.2 (by omega) (Nat.le_refl _) (hws.fieldsOK c f hf t' hty) hv
        | _ => simp [wellTyped] at hwt
      | union ucs hn =>
        cases x with
        | none => simp [wellTypedAny]
        | inst c fs =>
          simp only [wellTyped, Bool.and_eq_true] at hwt
          rw [wellTypedAny]; split
          · exact wellTypedF_T w _ fs hwt.2
          · exact hwt.2
        | _ => simp [wellTyped] at hwt
      | nt c =>
        cases x with
        | inst c' fs =>
          simp only [wellTyped, Bool.and_eq_true, beq_iff_eq] at hwt
          obtain ⟨⟨rfl, hnt⟩, h⟩ := hwt
          rw [wellTypedAny, if_pos hnt]; exact h
        | _ => simp [wellTyped] at hwt

theorem wellTyped_any (gen : Bool) (hws : w.SupU gen) {t : Ty} {x : Obj} (hs : t.supU gen = true)
    (h : wellTyped w t x = true) : wellTypedAny w x = true :=
  wellTyped_any_aux w gen hws (sizeOf x) (sizeOf t) t x (Nat.le_refl _) (Nat.le_refl _) hs h

set_option maxHeartbeats 400000 in
/-- **C03 core.** -/
theorem prim_aux (hws : w.SupU cfg.gen) :
    ∀ (n : Nat),
      (∀ (x : Obj), sizeOf x ≤ n → wellTypedAny w x = true → (unAny w cfg x).prim (!cfg.gen) = true) ∧
      (∀ (m : Nat) (t : Ty) (x : Obj), sizeOf x ≤ n → sizeOf t ≤ m → t.supU cfg.gen = true → wellTyped w t x = true →
        (un w cfg t x).prim (!cfg.gen) = true) := by
  intro n
  induction n with
  | zero =>
    constructor
    · intro x hx; have : 0 < sizeOf x := by cases x <;> simp <;> omega
      omega
    · intro m t x hx; have : 0 < sizeOf x := by cases x <;> simp <;> omega
      omega
  | succ n ihn =>
    obtain ⟨ihA, ihU⟩ := ihn
    -- one field position, for strictly smaller values
    have hField : ∀ (c : Nat) (fs : List (String × Obj)), sizeOf fs ≤ n →
        ∀ f ∈ w.fields c, ∀ p ∈ fs, wtField w f p.2 = true → (unField w cfg f p.2).prim (!cfg.gen) = true := by
      intro c fs hfs f hf p hp hwt
      have hlt := sizeOf_snd_lt_of_mem hp
      unfold wtField at hwt; unfold unField
      cases hty : f.ty with
      | none => rw [hty] at hwt; exact ihA p.2 (by omega) hwt
      | some t => rw [hty] at hwt; exact ihU (sizeOf t) t p.2 (by omega) (Nat.le_refl _) (hws.fieldsOK c f hf t hty) hwt
    have hDq : ∀ ck : CK, ((!cfg.gen) || (if cfg.gen then ck.anyTo else ck) != .deque) = true := by
      intro ck; cases hg : cfg.gen <;> cases ck <;> simp [CK.anyTo]
    have hInst : ∀ (c : Nat) (fs : List (String × Obj)), sizeOf fs ≤ n → wellTypedF w (w.fields c) fs = true →
        (if cfg.tupleStrat then Obj.coll .tuple (unFieldsT w cfg (w.fields c) fs)
          else Obj.dict (unFields w cfg (w.fields c) fs)).prim (!cfg.gen) = true := by
      intro c fs hfs hwt
      split
      · simp only [Obj.prim, Bool.and_eq_true]
        exact ⟨by simp, unFieldsT_prim w cfg _ fs (hField c fs hfs) hwt⟩
      · simp only [Obj.prim]
        exact unFields_prim w cfg _ fs (hField c fs hfs) hwt
    have hNT : ∀ (c : Nat) (fs : List (String × Obj)), sizeOf fs ≤ n → w.isNT c = true →
        wellTypedT w (w.ntTys c) (vals fs) = true →
        (Obj.coll .tuple (if cfg.gen then unT w cfg (w.ntTys c) (vals fs) else vals fs)).prim (!cfg.gen) = true := by
      intro c fs hfs hnt hwt
      simp only [Obj.prim, Bool.and_eq_true]
      refine ⟨by simp, ?_⟩
      split
      · refine unT_prim w cfg _ _ (fun t' ht' z hz hh => ?_) hwt
        have := sizeOf_lt_of_mem_vals hz
        exact ihU (sizeOf t') t' z (by omega) (Nat.le_refl _) (ntTys_supU w hws c t' ht') hh
      · rename_i hg
        exact primL_iff.mpr (fun z hz => leaf_prim
          (wellTypedT_leaves w _ _ (ntTys_primU w hws (by simpa using hg) hnt) hwt z hz))
    have hAny : ∀ (x : Obj), sizeOf x ≤ n + 1 → wellTypedAny w x = true → (unAny w cfg x).prim (!cfg.gen) = true := by
      intro x hx hwt
      cases x with
      | enumM e m => rw [unAny]; exact enumValue_prim w cfg hws e m
      | coll ck xs =>
        rw [wellTypedAny] at hwt
        have hel := (wellTypedAnyL_iff w xs).mp hwt
        rw [unAny]
        refine mkColl_prim (hDq ck) ?_
        intro y hy
        obtain ⟨z, hz, rfl⟩ := mem_unAnyL w cfg hy
        have := List.sizeOf_lt_of_mem hz
        simp at hx
        exact ihA z (by omega) (hel z hz)
      | dict kvs =>
        rw [wellTypedAny] at hwt
        have hel := (wellTypedAnyKV_iff w kvs).mp hwt
        rw [unAny]
        simp at hx
        have := unAnyKV_prim w cfg (dq := !cfg.gen) kvs (fun p hp => by
          have := sizeOf_lt_of_mem_kv hp
          exact ⟨ihA p.1 (by omega) (hel p hp).1, ihA p.2 (by omega) (hel p hp).2⟩)
        exact mkDict_prim this.1 this.2
      | inst c fs =>
        rw [wellTypedAny] at hwt
        rw [unAny]
        simp at hx
        by_cases hnt : w.isNT c = true
        · rw [if_pos hnt] at hwt ⊢
          exact hNT c fs (by omega) hnt hwt
        · rw [if_neg hnt] at hwt ⊢
          exact hInst c fs (by omega) hwt
      | mdict d kvs => simp [wellTypedAny] at hwt
      | _ => simp [unAny, Obj.prim]
    refine ⟨hAny, ?_⟩
    intro m
    induction m with
    | zero => intro t x _ ht; have : 0 < sizeOf t := by cases t <;> simp <;> omega
              omega
    | succ m ihm =>
      intro t x hx ht hs hwt
      cases t with
      | any => rw [wellTyped] at hwt; rw [un]; exact hAny x hx hwt
      | int => cases x <;> simp_all [wellTyped, un, Obj.prim]
      | float => cases x <;> simp_all [wellTyped, un, Obj.prim]
      | str => cases x <;> simp_all [wellTyped, un, Obj.prim]
      | bytes => cases x <;> simp_all [wellTyped, un, Obj.prim]
      | bool => cases x <;> simp_all [wellTyped, un, Obj.prim]
      | enum e =>
        cases x <;> simp [wellTyped] at hwt
        rename_i e' mm
        obtain ⟨rfl, hm⟩ := hwt
        rw [un]; exact enumValue_prim w cfg hws e mm
      | lit vs =>
        rw [wellTyped] at hwt
        simp only [Bool.and_eq_true] at hwt
        have hvs : vs.all Obj.isLitVal = true := by simpa [Ty.supU] using hs
        rw [un_lit_unAny w cfg hvs hwt.1]
        rcases memPy_litVal hvs hwt.1 with hl | ⟨e, m, rfl, _⟩
        · have : unAny w cfg x = x := by cases x <;> simp_all [Obj.isLeafB, unAny]
          rw [this]; exact leaf_prim hl
        · rw [unAny]; exact enumValue_prim w cfg hws e m
      | coll k t' =>
        cases x with
        | coll ck xs =>
          simp only [wellTyped, Bool.and_eq_true, beq_iff_eq] at hwt
          obtain ⟨hck, hl⟩ := hwt
          have hel := (wellTypedL_iff w t' xs).mp hl
          have hs' : t'.supU cfg.gen = true := by simpa [Ty.supU] using hs
          simp at hx
          rw [un]
          split
          · rename_i hg
            refine mkColl_prim (by cases k <;> simp [SK.unstructTo]) ?_
            intro y hy
            obtain ⟨z, hz, rfl⟩ := mem_unL w cfg hy
            have := List.sizeOf_lt_of_mem hz
            exact ihU (sizeOf t') t' z (by omega) (Nat.le_refl _) hs' (hel z hz)
          · rename_i hg
            refine mkColl_prim (by simp [hg]) ?_
            intro y hy
            obtain ⟨z, hz, rfl⟩ := mem_unAnyL w cfg hy
            have := List.sizeOf_lt_of_mem hz
            exact ihA z (by omega) (wellTyped_any w cfg.gen hws hs' (hel z hz))
        | _ => simp [wellTyped] at hwt
      | tupleHet ts =>
        cases x with
        | coll ck xs =>
          cases ck <;> simp [wellTyped] at hwt
          simp only [Ty.supU, Bool.and_eq_true, Bool.or_eq_true] at hs
          simp at hx
          rw [un]
          split
          · simp only [Obj.prim, Bool.and_eq_true]
            refine ⟨by simp, unT_prim w cfg ts xs (fun t' ht' z hz hh => ?_) hwt⟩
            have := List.sizeOf_lt_of_mem hz
            exact ihU (sizeOf t') t' z (by omega) (Nat.le_refl _) (supUL_mem hs.1 t' ht') hh
          · rename_i hg
            have hts : ts.all Ty.isPrimLeaf = true := by
              rcases hs.2 with h | h
              · exact absurd h hg
              · exact h
            simp only [Obj.prim, Bool.and_eq_true]
            refine ⟨by simp, primL_iff.mpr (fun z hz => leaf_prim (wellTypedT_leaves w ts xs hts hwt z hz))⟩
        | _ => simp [wellTyped] at hwt
      | map mk kt vt =>
        cases x with
        | dict kvs =>
          rw [wellTyped] at hwt
          have hel := (wellTypedKV_iff w kt vt kvs).mp hwt
          simp only [Ty.supU, Bool.and_eq_true] at hs
          replace hs := hs.1
          simp at hx
          rw [un]
          split
          · have := unKV_prim w cfg (dq := !cfg.gen) kt vt kvs (fun p hp => by
              have := sizeOf_lt_of_mem_kv hp
              exact ⟨ihU (sizeOf kt) kt p.1 (by omega) (Nat.le_refl _) hs.1 (hel p hp).1,
                     ihU (sizeOf vt) vt p.2 (by omega) (Nat.le_refl _) hs.2 (hel p hp).2⟩)
            exact mkDict_prim this.1 this.2
          · have := unAnyKV_prim w cfg (dq := !cfg.gen) kvs (fun p hp => by
              have := sizeOf_lt_of_mem_kv hp
              exact ⟨ihA p.1 (by omega) (wellTyped_any w cfg.gen hws hs.1 (hel p hp).1),
                     ihA p.2 (by omega) (wellTyped_any w cfg.gen hws hs.2 (hel p hp).2)⟩)
            exact mkDict_prim this.1 this.2
        | _ => simp [wellTyped] at hwt
      | opt t' =>
        have hs' : t'.supU cfg.gen = true := by simpa [Ty.supU] using hs
        by_cases hx0 : x = .none
        · subst hx0; simp [un, Obj.prim]
        · have hw' : wellTyped w t' x = true := by cases x <;> simp_all [wellTyped]
          have hun : un w cfg (.opt t') x = if cfg.gen then un w cfg t' x else unAny w cfg x := by
            cases x <;> simp_all [un]
          rw [hun]
          simp at ht
          split
          · exact ihm t' x hx (by omega) hs' hw'
          · exact hAny x hx (wellTyped_any w cfg.gen hws hs' hw')
      | wrap k t' =>
        simp only [Ty.supU, Bool.and_eq_true, Bool.or_eq_true, beq_iff_eq] at hs
        rw [wellTyped] at hwt
        simp at ht
        rw [un]
        split
        · exact ihm t' x hx (by omega) hs.1 hwt
        · rename_i hcond
          simp only [Bool.or_eq_true, beq_iff_eq, not_or] at hcond
          have hleaf : t'.isPrimLeaf = true := by
            rcases hs.2 with h | h
            · rcases h with h | h
              · rcases h with h | h
                · exact absurd h hcond.1.1
                · exact absurd h hcond.1.2
              · exact absurd h hcond.2
            · exact h.2
          exact leaf_prim (primLeaf_leaf w hleaf hwt)
      | cls c =>
        cases x with
        | inst c' fs =>
          simp only [wellTyped, Bool.and_eq_true, beq_iff_eq] at hwt
          simp at hx
          rw [un]
          exact hInst c fs (by omega) hwt.2
        | _ => simp [wellTyped] at hwt
      | td c =>
        cases x with
        | dict kvs =>
          rw [wellTyped] at hwt
          have hg : cfg.gen = true := by simpa [Ty.supU] using hs
          simp at hx
          rw [un, if_pos hg]
          simp only [Obj.prim]
          refine unTD_prim w cfg _ kvs (fun f hf p hp hh => ?_) hwt
          have := sizeOf_lt_of_mem_kv hp
          cases hty : f.ty with
          | none => simp only [wtField, hty] at hh; simp only [unField, hty]; exact ihA p.2 (by omega) hh
          | some t' => simp only [wtField, hty] at hh; simp only [unField, hty]
                       exact ihU (sizeOf t') t' p.2 (by omega) (Nat.le_refl _) (hws.fieldsOK c f hf t' hty) hh
        | _ => simp [wellTyped] at hwt
      | union ucs hn =>
        have hun : un w cfg (.union ucs hn) x = unAny w cfg x := by simp only [un]
        rw [hun]
        refine hAny x hx ?_
        cases x with
        | none => simp [wellTypedAny]
        | inst c fs =>
          simp only [wellTyped, Bool.and_eq_true] at hwt
          rw [wellTypedAny]; split
          · exact wellTypedF_T w _ fs hwt.2
          · exact hwt.2
        | _ => simp [wellTyped] at hwt
      | nt c =>
        cases x with
        | inst c' fs =>
          simp only [wellTyped, Bool.and_eq_true, beq_iff_eq] at hwt
          obtain ⟨⟨rfl, hnt⟩, h⟩ := hwt
          simp at hx
          rw [un]
          exact hNT c fs (by omega) hnt h
        | _ => simp [wellTyped] at hwt

theorem un_prim (hws : w.SupU cfg.gen) {t : Ty} {x : Obj} (hs : t.supU cfg.gen = true) (h : wellTyped w t x = true) :
    (un w cfg t x).prim (!cfg.gen) = true :=
  (prim_aux w cfg hws (sizeOf x)).2 (sizeOf t) t x (Nat.le_refl _) (Nat.le_refl _) hs h

theorem unAny_prim (hws : w.SupU cfg.gen) {x : Obj} (h : wellTypedAny w x = true) :
    (unAny w cfg x).prim (!cfg.gen) = true :=
  (prim_aux w cfg hws (sizeOf x)).1 x (Nat.le_refl _) h

end CattrsModel
