import CattrsModel.Lemmas.ModesAgree
import CattrsModel.Lemmas.Primitive
import CattrsModel.GenInterp.Model
/-!
# C06 core, structuring, `str` / `bytes` payloads at iterating positions: the two engines agree on `stLF`
(the congruence helpers are those of `Lemmas/GenInterp.lean`, restated for the fuelled family)
-/
namespace CattrsModel.GenInterp.Leaf
open CattrsModel CattrsModel.GenInterp CattrsModel.Leaf
variable (w : World) (c1 c2 : Cfg)

section helpers
variable (n : Nat)

theorem stLFL_congr (t : Ty) : ∀ (xs : List Obj), (∀ x ∈ xs, stLF w c1 n t x = stLF w c2 n t x) →
    stLFL w c1 n t xs = stLFL w c2 n t xs
  | [], _ => by simp [stLFL]
  | x :: xs, h => by
      rw [stLFL, stLFL, h x (by simp), stLFL_congr t xs (fun y hy => h y (by simp [hy]))]

theorem stLFT_congr : ∀ (ts : List Ty) (xs : List Obj),
    (c1.tupleStrat = true ∨ mapsAtClsLfT w n ts xs = true) →
    (∀ t ∈ ts, ∀ x ∈ xs, (c1.tupleStrat = true ∨ mapsAtClsLf w n t x = true) → stLF w c1 n t x = stLF w c2 n t x) →
    stLFT w c1 n ts xs = stLFT w c2 n ts xs
  | [], [], _, _ => by simp [stLFT]
  | [], _ :: _, _, _ => by simp [stLFT]
  | _ :: _, [], _, _ => by simp [stLFT]
  | t :: ts, x :: xs, hs, h => by
      have hs1 : c1.tupleStrat = true ∨ mapsAtClsLf w n t x = true := by
        rcases hs with hs | hs
        · exact Or.inl hs
        · simp only [mapsAtClsLfT, Bool.and_eq_true] at hs; exact Or.inr hs.1
      have hs2 : c1.tupleStrat = true ∨ mapsAtClsLfT w n ts xs = true := by
        rcases hs with hs | hs
        · exact Or.inl hs
        · simp only [mapsAtClsLfT, Bool.and_eq_true] at hs; exact Or.inr hs.2
      rw [stLFT, stLFT, h t (by simp) x (by simp) hs1,
        stLFT_congr ts xs hs2 (fun t' ht' y hy => h t' (by simp [ht']) y (by simp [hy]))]

theorem stLFFieldsT_congr : ∀ (fds : List Field) (xs : List Obj),
    (∀ f ∈ fds, ∀ x ∈ xs, ∀ t, f.ty = some t → stLF w c1 n t x = stLF w c2 n t x) →
    stLFFieldsT w c1 n fds xs = stLFFieldsT w c2 n fds xs
  | [], _, _ => by simp [stLFFieldsT]
  | f :: fds, [], h => by
      rw [stLFFieldsT, stLFFieldsT, stLFFieldsT_congr fds [] (fun g _ y hy => by cases hy)]
  | f :: fds, x :: xs, h => by
      have hr := stLFFieldsT_congr fds xs (fun g hg y hy => h g (by simp [hg]) y (by simp [hy]))
      rw [stLFFieldsT, stLFFieldsT, hr]
      cases ht : f.ty with
      | none => rfl
      | some t => simp only [h f (by simp) x (by simp) t ht]

end helpers

theorem mapsAtClsLfL_iff (n : Nat) (t : Ty) (xs : List Obj) :
    mapsAtClsLfL w n t xs = true ↔ ∀ x ∈ xs, mapsAtClsLf w n t x = true := by
  induction xs with
  | nil => simp [mapsAtClsLfL]
  | cons x xs ih => simp [mapsAtClsLfL, ih]

theorem struct_agree_aux (hws : w.SupU false)
    (hg2 : c2.gen = false) (hts : c2.tupleStrat = c1.tupleStrat) (hf1 : c1.forbid = false) :
    ∀ (n m : Nat) (t : Ty) (o : Obj), sizeOf t ≤ m → t.supU false = true →
      (c1.tupleStrat = true ∨ mapsAtClsLf w n t o = true) → stLF w c1 n t o = stLF w c2 n t o := by
  intro n
  induction n using Nat.strongRecOn with
  | _ n ihn =>
    intro m
    induction m with
    | zero => intro t o ht; have := sizeOf_ty_pos t; omega
    | succ m ihm =>
      intro t o ht hs hsc
      have IHn : ∀ n', n' < n → ∀ (t' : Ty) (o' : Obj), t'.supU false = true →
          (c1.tupleStrat = true ∨ mapsAtClsLf w n' t' o' = true) → stLF w c1 n' t' o' = stLF w c2 n' t' o' :=
        fun n' hn t' o' => ihn n' hn (sizeOf t') t' o' (Nat.le_refl _)
      cases t with
      | any => simp [stLF]
      | int => simp only [stLF]
      | float => simp only [stLF]
      | str => simp [stLF]
      | bytes => simp only [stLF]
      | bool => simp [stLF]
      | enum e => simp only [stLF]
      | lit vs => simp only [stLF]
      | coll k t' =>
        have hs' : t'.supU false = true := by simpa [Ty.supU] using hs
        have hsz : sizeOf t' ≤ m := by simp at ht; omega
        rw [stLF_coll, stLF_coll]
        cases hit : leafItems o with
        | none => rfl
        | some xs =>
          simp only []
          rw [mapsAtClsLf] at hsc
          simp only [hit, mapsAtClsLfL_iff] at hsc
          rw [stLFL_congr w c1 c2 n t' xs (fun x hx => ihm t' x hsz hs' (hsc.imp id (fun h => h x hx)))]
      | tupleHet ts =>
        simp only [Ty.supU, Bool.and_eq_true] at hs
        rw [stLF_tup, stLF_tup]
        cases hit : leafItems o with
        | none => rfl
        | some xs =>
          simp only []
          rw [mapsAtClsLf] at hsc
          simp only [hit] at hsc
          rw [stLFT_congr w c1 c2 n ts xs hsc (fun t' ht' x _ hh =>
            ihm t' x (by have := List.sizeOf_lt_of_mem ht'; simp at ht; omega) (supUL_mem hs.1 t' ht') hh)]
      | map k kt vt => rw [stLF_map, stLF_map]
      | opt t' =>
        have hs' : t'.supU false = true := by simpa [Ty.supU] using hs
        have hsz : sizeOf t' ≤ m := by simp at ht; omega
        cases o with
        | none => rw [stLF_opt_none, stLF_opt_none]
        | _ =>
          rw [stLF_opt w c1 (by intro h'; cases h'), stLF_opt w c2 (by intro h'; cases h')]
          have hsc' := hsc
          simp only [mapsAtClsLf] at hsc'
          exact ihm t' _ hsz hs' hsc'
      | wrap k t' =>
        have hs' : t'.supU false = true := by
          simp only [Ty.supU, Bool.and_eq_true] at hs; exact hs.1
        have hsz : sizeOf t' ≤ m := by simp at ht; omega
        have hsc' := hsc
        simp only [mapsAtClsLf] at hsc'
        rw [stLF_wrap, stLF_wrap]
        exact ihm t' o hsz hs' hsc'
      | cls c =>
        by_cases htup : c1.tupleStrat = true
        · have htup2 : c2.tupleStrat = true := by rw [hts]; exact htup
          cases n with
          | zero => rw [stLF_cls_tuple_zero w c1 htup, stLF_cls_tuple_zero w c2 htup2]
          | succ n' =>
            rw [stLF_cls_tuple_succ w c1 htup, stLF_cls_tuple_succ w c2 htup2]
            cases hit : leafItems o with
            | none => rfl
            | some xs =>
              simp only []
              rw [stLFFieldsT_congr w c1 c2 n' (w.fields c) xs (fun f hf x _ t' ht' =>
                IHn n' (by omega) t' x (hws.fieldsOK c f hf t' ht') (Or.inl htup))]
        · rcases hsc with h | h
          · exact absurd h htup
          · cases n <;> simp [mapsAtClsLf] at h
      | td c => simp [Ty.supU] at hs
      | union ucs hn =>
        rw [stLF_union, stLF_union]
        cases hp : unionPick w ucs hn o with
        | ok k =>
          simp only []
          by_cases hk : k ∈ ucs
          · simp only [hk, if_true]
            refine ihm (.cls k) o (by have := sizeOf_cls_lt_union hk hn; omega) (by simp [Ty.supU]) ?_
            rcases hsc with h | h
            · exact Or.inl h
            · cases o with
              | none => exact absurd hp unionPick_none_payload
              | _ => cases n <;> simp [mapsAtClsLf] at h
          · simp [hk]
        | none => rfl
        | refuseCreate => rfl
        | refuseResolve => rfl
      | nt c =>
        cases n with
        | zero => rw [stLF_nt_zero, stLF_nt_zero]
        | succ n' =>
          rw [stLF_nt_succ, stLF_nt_succ]
          cases hit : leafItems o with
          | none => rfl
          | some xs =>
            simp only []
            rw [mapsAtClsLf] at hsc
            simp only [hit] at hsc
            rw [stLFT_congr w c1 c2 n' (w.ntTys c) xs hsc (fun t' ht' x _ hh =>
              IHn n' (by omega) t' x (ntTys_supU w hws c t' ht') hh)]

theorem struct_agree (hws : w.SupU false)
    (hg2 : c2.gen = false) (hts : c2.tupleStrat = c1.tupleStrat) (hf1 : c1.forbid = false)
    {n : Nat} {t : Ty} {o : Obj} (hs : t.supU false = true)
    (hsc : c1.tupleStrat = true ∨ mapsAtClsLf w n t o = true) :
    stLF w c1 n t o = stLF w c2 n t o :=
  struct_agree_aux w c1 c2 hws hg2 hts hf1 n (sizeOf t) t o (Nat.le_refl _) hs hsc

end CattrsModel.GenInterp.Leaf
