import CattrsModel.Conv.Basic
/-!
# Insertion-ordered dicts and sets under Python `==`: facts used by the soundness and round-trip proofs
-/
namespace CattrsModel

/-! ### sets -/

theorem memPy_of_mem {x : Obj} {xs : List Obj} (h : x ∈ xs) : Obj.memPy x xs = true := by
  induction xs with
  | nil => cases h
  | cons y ys ih =>
    simp only [Obj.memPy, Bool.or_eq_true]
    rcases List.mem_cons.mp h with h | h
    · left; rw [h]; exact Obj.pyEq_refl y
    · right; exact ih h

theorem memPy_iff {x : Obj} {xs : List Obj} : Obj.memPy x xs = true ↔ ∃ y ∈ xs, Obj.pyEq y x = true := by
  induction xs with
  | nil => simp [Obj.memPy]
  | cons y ys ih => simp [Obj.memPy, ih]

theorem memPy_append {x : Obj} {xs ys : List Obj} :
    Obj.memPy x (xs ++ ys) = (Obj.memPy x xs || Obj.memPy x ys) := by
  induction xs with
  | nil => simp [Obj.memPy]
  | cons y ys' ih => simp [Obj.memPy, ih, Bool.or_assoc]

theorem setAdd_mem {xs : List Obj} {x y : Obj} (h : y ∈ setAdd xs x) : y ∈ xs ∨ y = x := by
  unfold setAdd at h
  split at h
  · exact Or.inl h
  · simp at h; exact h

theorem foldl_setAdd_mem (ys : List Obj) : ∀ (acc : List Obj) (z : Obj),
    z ∈ ys.foldl setAdd acc → z ∈ acc ∨ z ∈ ys := by
  induction ys with
  | nil => intro acc z h; exact Or.inl h
  | cons y ys ih =>
    intro acc z h
    rcases ih _ z h with h1 | h1
    · rcases setAdd_mem h1 with h2 | h2
      · exact Or.inl h2
      · right; simp [h2]
    · right; simp [h1]

theorem mkSet_mem {ys : List Obj} {z : Obj} (h : z ∈ mkSet ys) : z ∈ ys := by
  rcases foldl_setAdd_mem ys [] z h with h | h
  · cases h
  · exact h

theorem nodupPy_append_single {xs : List Obj} {x : Obj} (h : nodupPy xs = true) (hx : Obj.memPy x xs = false) :
    nodupPy (xs ++ [x]) = true := by
  induction xs with
  | nil => simp [nodupPy, Obj.memPy]
  | cons y ys ih =>
    simp only [nodupPy, Bool.and_eq_true, Bool.not_eq_true', List.cons_append] at h ⊢
    simp only [Obj.memPy, Bool.or_eq_false_iff] at hx
    refine ⟨?_, ih h.2 hx.2⟩
    rw [memPy_append]
    simp only [Obj.memPy, Bool.or_false, Bool.or_eq_false_iff]
    refine ⟨h.1, ?_⟩
    rw [Obj.pyEq_symm]; exact hx.1

theorem setAdd_nodup {xs : List Obj} (h : nodupPy xs = true) (x : Obj) : nodupPy (setAdd xs x) = true := by
  unfold setAdd
  split
  · exact h
  · rename_i hx
    exact nodupPy_append_single h (by simpa using hx)

theorem foldl_setAdd_nodup (ys : List Obj) : ∀ acc : List Obj, nodupPy acc = true → nodupPy (ys.foldl setAdd acc) = true := by
  induction ys with
  | nil => intro acc h; exact h
  | cons y ys ih => intro acc h; exact ih _ (setAdd_nodup h y)

theorem mkSet_nodup (ys : List Obj) : nodupPy (mkSet ys) = true := foldl_setAdd_nodup ys [] rfl

theorem hashableL_of_subset (w : World) {xs ys : List Obj} (h : ∀ z ∈ xs, z ∈ ys) (hy : hashableL w ys = true) :
    hashableL w xs = true := by
  have all : ∀ {l : List Obj}, hashableL w l = true ↔ ∀ z ∈ l, hashable w z = true := by
    intro l
    induction l with
    | nil => simp [hashableL]
    | cons a l ih => simp [hashableL, ih]
  rw [all] at hy ⊢
  exact fun z hz => hy z (h z hz)

theorem hashableL_iff (w : World) {l : List Obj} : hashableL w l = true ↔ ∀ z ∈ l, hashable w z = true := by
  induction l with
  | nil => simp [hashableL]
  | cons a l ih => simp [hashableL, ih]

/-! ### dicts -/

theorem dictSet_keys_mem {d : List (Obj × Obj)} {k v : Obj} {a : Obj} (h : a ∈ keysOf (dictSet d k v)) :
    a ∈ keysOf d ∨ a = k := by
  induction d with
  | nil => simp [dictSet, keysOf] at h; exact Or.inr h
  | cons q rest ih =>
    obtain ⟨k', v'⟩ := q
    simp only [dictSet] at h
    split at h
    · left; simpa [keysOf] using h
    · simp only [keysOf, List.map_cons, List.mem_cons] at h ⊢
      rcases h with h | h
      · left; left; exact h
      · rcases ih h with h2 | h2
        · left; right; exact h2
        · right; exact h2

theorem dictSet_vals_mem {d : List (Obj × Obj)} {k v : Obj} {b : Obj} (h : b ∈ (dictSet d k v).map (·.2)) :
    b ∈ d.map (·.2) ∨ b = v := by
  induction d with
  | nil => simp [dictSet] at h; exact Or.inr h
  | cons q rest ih =>
    obtain ⟨k', v'⟩ := q
    simp only [dictSet] at h
    split at h
    · simp only [List.map_cons, List.mem_cons] at h ⊢
      rcases h with h | h
      · right; exact h
      · left; right; exact h
    · simp only [List.map_cons, List.mem_cons] at h ⊢
      rcases h with h | h
      · left; left; exact h
      · rcases ih h with h2 | h2
        · left; right; exact h2
        · right; exact h2

theorem mkDict_keys_mem {kvs : List (Obj × Obj)} {a : Obj} (h : a ∈ keysOf (mkDict kvs)) : a ∈ keysOf kvs := by
  have gen : ∀ (kvs d : List (Obj × Obj)), a ∈ keysOf (kvs.foldl (fun d kv => dictSet d kv.1 kv.2) d) →
      a ∈ keysOf d ∨ a ∈ keysOf kvs := by
    intro kvs
    induction kvs with
    | nil => intro d h; exact Or.inl h
    | cons p rest ih =>
      intro d h
      rcases ih _ h with h1 | h1
      · rcases dictSet_keys_mem h1 with h2 | h2
        · exact Or.inl h2
        · right; simp [keysOf, h2]
      · right; simp only [keysOf, List.map_cons, List.mem_cons]; right; exact h1
  rcases gen kvs [] h with h | h
  · cases h
  · exact h

theorem mkDict_vals_mem {kvs : List (Obj × Obj)} {b : Obj} (h : b ∈ (mkDict kvs).map (·.2)) : b ∈ kvs.map (·.2) := by
  have gen : ∀ (kvs d : List (Obj × Obj)), b ∈ (kvs.foldl (fun d kv => dictSet d kv.1 kv.2) d).map (·.2) →
      b ∈ d.map (·.2) ∨ b ∈ kvs.map (·.2) := by
    intro kvs
    induction kvs with
    | nil => intro d h; exact Or.inl h
    | cons p rest ih =>
      intro d h
      rcases ih _ h with h1 | h1
      · rcases dictSet_vals_mem h1 with h2 | h2
        · exact Or.inl h2
        · right; simp [h2]
      · right; simp only [List.map_cons, List.mem_cons]; right; exact h1
  rcases gen kvs [] h with h | h
  · cases h
  · exact h

theorem dictSet_keys_nodup {d : List (Obj × Obj)} (h : nodupPy (keysOf d) = true) (k v : Obj) :
    nodupPy (keysOf (dictSet d k v)) = true := by
  induction d with
  | nil => simp [dictSet, keysOf, nodupPy, Obj.memPy]
  | cons q rest ih =>
    obtain ⟨k', v'⟩ := q
    simp only [dictSet]
    split
    · simpa [keysOf] using h
    · rename_i hne
      simp only [keysOf, List.map_cons, nodupPy, Bool.and_eq_true, Bool.not_eq_true'] at h ⊢
      refine ⟨?_, ih h.2⟩
      -- k' is not among the keys of `dictSet rest k v`
      cases hm : Obj.memPy k' (List.map (fun x => x.fst) (dictSet rest k v)) with
      | false => rfl
      | true =>
        exfalso
        obtain ⟨y, hy, hyk⟩ := memPy_iff.mp hm
        rcases dictSet_keys_mem (d := rest) hy with h2 | h2
        · have : Obj.memPy k' (keysOf rest) = true := memPy_iff.mpr ⟨y, h2, hyk⟩
          simp [keysOf] at this; simp [this] at h
        · subst h2; rw [Obj.pyEq_symm] at hyk; exact hne hyk

theorem mkDict_keys_nodup (kvs : List (Obj × Obj)) : nodupPy (keysOf (mkDict kvs)) = true := by
  have gen : ∀ (kvs d : List (Obj × Obj)), nodupPy (keysOf d) = true →
      nodupPy (keysOf (kvs.foldl (fun d kv => dictSet d kv.1 kv.2) d)) = true := by
    intro kvs
    induction kvs with
    | nil => intro d h; exact h
    | cons p rest ih => intro d h; exact ih _ (dictSet_keys_nodup h _ _)
  exact gen kvs [] rfl

theorem pyEq_str_right {x : Obj} {a : String} : Obj.pyEq x (.str a) = true ↔ x = .str a := by
  unfold Obj.pyEq
  cases hx : Obj.num2? x with
  | some n => simp [Obj.num2?]; intro h; subst h; simp [Obj.num2?] at hx
  | none => simp [Obj.num2?]

theorem pyEq_str_left {x : Obj} {a : String} : Obj.pyEq (.str a) x = true ↔ x = .str a := by
  rw [Obj.pyEq_symm]; exact pyEq_str_right

theorem dlookup_none_iff {d : List (Obj × Obj)} {k : Obj} : dlookup d k = Option.none ↔ Obj.memPy k (keysOf d) = false := by
  induction d with
  | nil => simp [dlookup, keysOf, Obj.memPy]
  | cons q rest ih =>
    obtain ⟨k', v'⟩ := q
    simp only [dlookup, keysOf, List.map_cons, Obj.memPy, Bool.or_eq_false_iff]
    split
    · rename_i h; simp [h]
    · rename_i h; simp only [Bool.not_eq_true] at h; simp [h]; exact ih

theorem dlookup_dictSet_same (d : List (Obj × Obj)) (k v : Obj) : dlookup (dictSet d k v) k = some v := by
  induction d with
  | nil => simp [dictSet, dlookup, Obj.pyEq_refl]
  | cons q rest ih =>
    obtain ⟨k', v'⟩ := q
    simp only [dictSet]
    split
    · rename_i h; simp [dlookup, h]
    · rename_i h; simp [dlookup, h, ih]

/-- setting the string key `a` does not disturb the lookup of a different string key `b` -/
theorem dlookup_dictSet_str_other (d : List (Obj × Obj)) {a b : String} (hab : a ≠ b) (v : Obj) :
    dlookup (dictSet d (.str a) v) (.str b) = dlookup d (.str b) := by
  induction d with
  | nil =>
    simp only [dictSet, dlookup]
    have : Obj.pyEq (.str a) (.str b) = false := by
      cases h : Obj.pyEq (.str a) (.str b)
      · rfl
      · have := pyEq_str_right.mp h; cases this; exact absurd rfl hab
    simp [this]
  | cons q rest ih =>
    obtain ⟨k', v'⟩ := q
    simp only [dictSet]
    split
    · rename_i h
      have hk : k' = .str a := pyEq_str_right.mp h
      subst hk
      have : Obj.pyEq (.str a) (.str b) = false := by
        cases h2 : Obj.pyEq (.str a) (.str b)
        · rfl
        · have := pyEq_str_right.mp h2; cases this; exact absurd rfl hab
      simp [dlookup, this]
    · simp only [dlookup, ih]

theorem keysOf_dictSet_present {d : List (Obj × Obj)} {k : Obj} (h : Obj.memPy k (keysOf d) = true) (v : Obj) :
    keysOf (dictSet d k v) = keysOf d := by
  induction d with
  | nil => simp [keysOf, Obj.memPy] at h
  | cons q rest ih =>
    obtain ⟨k', v'⟩ := q
    simp only [dictSet]
    split
    · simp [keysOf]
    · rename_i hne
      simp only [keysOf, List.map_cons, Obj.memPy, Bool.or_eq_true] at h ⊢
      rcases h with h | h
      · exact absurd h hne
      · congr 1; exact ih h

/-! ### enums -/

theorem enumIdx_lt {vals : List Obj} {x : Obj} {m : Nat} (h : enumIdx vals x = some m) : m < vals.length := by
  induction vals generalizing m with
  | nil => simp [enumIdx] at h
  | cons v rest ih =>
    simp only [enumIdx] at h
    split at h
    · cases h; simp
    · cases hi : enumIdx rest x with
      | none => simp [hi] at h
      | some j => simp [hi] at h; subst h; have := ih hi; simp; omega

end CattrsModel
