import CattrsModel.Lemmas.SoundBase
import CattrsModel.Lemmas.UnfoldLeaf
/-!
# C02 core for `str` / `bytes` payloads at iterating positions: an accepted result of `stLF` conforms
(the list / field helpers are those of `SoundBase`, restated for the fuelled family)
-/
namespace CattrsModel.Leaf
open CattrsModel

variable (w : World) (cfg : Cfg)

section helpers
variable (n : Nat)

theorem soundL (t : Ty) (xs : List Obj)
    (ih : ∀ x ∈ xs, ∀ v, stLF w cfg n t x = some v → conf w t v = true) :
    ∀ ys, stLFL w cfg n t xs = some ys → confL w t ys = true := by
  induction xs with
  | nil => intro ys h; simp [stLFL] at h; subst h; simp [confL]
  | cons x xs ihx =>
    intro ys h
    rw [stLFL] at h
    cases hx : stLF w cfg n t x with
    | none => simp [hx] at h
    | some y =>
      simp only [hx] at h
      cases hr : stLFL w cfg n t xs with
      | none => simp [hr] at h
      | some zs =>
        simp [hr] at h; subst h
        simp [confL, ih x (by simp) y hx, ihx (fun z hz => ih z (by simp [hz])) zs hr]

theorem soundT : ∀ (ts : List Ty) (xs : List Obj),
    (∀ t ∈ ts, ∀ x ∈ xs, ∀ v, stLF w cfg n t x = some v → conf w t v = true) →
    ∀ ys, stLFT w cfg n ts xs = some ys → confT w ts ys = true := by
  intro ts
  induction ts with
  | nil => intro xs _ ys h; cases xs <;> simp [stLFT] at h; subst h; simp [confT]
  | cons t ts iht =>
    intro xs ih ys h
    cases xs with
    | nil => simp [stLFT] at h
    | cons x xs =>
      rw [stLFT] at h
      cases hx : stLF w cfg n t x with
      | none => simp [hx] at h
      | some y =>
        simp only [hx] at h
        cases hr : stLFT w cfg n ts xs with
        | none => simp [hr] at h
        | some zs =>
          simp [hr] at h; subst h
          simp [confT, ih t (by simp) x (by simp) y hx,
            iht xs (fun t' ht' z hz => ih t' (by simp [ht']) z (by simp [hz])) zs hr]

theorem soundFieldsT : ∀ (fds : List Field) (xs : List Obj),
    (∀ f ∈ fds, ∀ x ∈ xs, ∀ t, f.ty = some t → ∀ v, stLF w cfg n t x = some v → conf w t v = true) →
    (∀ f ∈ fds, ∀ d, f.dflt.value? = some d → fconf w f d = true) →
    ∀ fs, stLFFieldsT w cfg n fds xs = some fs → confF w fds fs = true := by
  intro fds
  induction fds with
  | nil => intro xs _ _ fs h; cases xs <;> simp [stLFFieldsT] at h <;> subst h <;> simp [confF]
  | cons f fds ihf =>
    intro xs ih hd fs h
    have fin : ∀ (xs' : List Obj), (∀ y ∈ xs', y ∈ xs) → ∀ (v : Obj), fconf w f v = true →
        (f.init = true ∨ f.dflt.value? = some v) →
        ∀ fs, Option.map (fun r => (f.name, v) :: r) (stLFFieldsT w cfg n fds xs') = some fs → confF w (f :: fds) fs = true := by
      intro xs' hsub v hv hi fs h
      cases hr : stLFFieldsT w cfg n fds xs' with
      | none => simp [hr] at h
      | some r =>
        simp [hr] at h; subst h
        have hrest := ihf xs' (fun g hg y hy => ih g (by simp [hg]) y (hsub y hy)) (fun g hg => hd g (by simp [hg])) r hr
        simp only [confF_cons, beq_self_eq_true, Bool.true_and, Bool.and_eq_true, hrest, and_true]
        refine ⟨hv, ?_⟩
        rcases hi with hi | hi
        · simp [hi]
        · simp [hi]
    cases xs with
    | nil =>
      rw [stLFFieldsT] at h
      cases hdv : f.dflt.value? with
      | none => simp [hdv] at h
      | some d =>
        simp only [hdv] at h
        by_cases hinit : f.init = true
        · exact fin [] (by simp) d (hd f (by simp) d hdv) (Or.inl hinit) fs h
        · exact fin [] (by simp) d (hd f (by simp) d hdv) (Or.inr hdv) fs h
    | cons x xs =>
      rw [stLFFieldsT] at h
      by_cases hinit : f.init = true
      · simp only [hinit, Bool.not_true, Bool.false_eq_true, if_false] at h
        cases hty : f.ty with
        | none =>
          simp only [hty] at h
          exact fin xs (by simp +contextual) x (by simp [fconf, hty]) (Or.inl hinit) fs h
        | some t =>
          simp only [hty] at h
          cases hx : stLF w cfg n t x with
          | none => simp [hx] at h
          | some y =>
            simp only [hx] at h
            exact fin xs (by simp +contextual) y (by simpa [fconf, hty] using ih f (by simp) x (by simp) t hty y hx)
              (Or.inl hinit) fs h
      · have hinit' : f.init = false := by simpa using hinit
        simp only [hinit', Bool.not_false, if_true] at h
        cases hdv : f.dflt.value? with
        | none => simp [hdv] at h
        | some d =>
          simp only [hdv] at h
          exact fin xs (by simp +contextual) d (hd f (by simp) d hdv) (Or.inr hdv) fs h

end helpers

/-- **C02 (core), `str` / `bytes` payloads.**  Whatever the fuel, the type and the payload: an accepted result
conforms. -/
theorem sound_aux (hw : w.WF) :
    ∀ (n m : Nat) (t : Ty) (o v : Obj), sizeOf t ≤ m →
      stLF w cfg n t o = some v → conf w t v = true := by
  intro n
  induction n using Nat.strongRecOn with
  | _ n ihn =>
    intro m
    induction m with
    | zero => intro t o v ht; have : 0 < sizeOf t := by cases t <;> simp <;> omega
              omega
    | succ m ihm =>
      intro t o v ht h
      have IHn : ∀ n', n' < n → ∀ (t' : Ty) (o' v' : Obj), stLF w cfg n' t' o' = some v' → conf w t' v' = true :=
        fun n' hn t' o' v' hv => ihn n' hn (sizeOf t') t' o' v' (Nat.le_refl _) hv
      cases t with
      | any => simp [conf]
      | int => simp only [stLF] at h; cases hi : o.toInt? <;> simp [hi] at h; subst h; simp [conf]
      | float => simp only [stLF] at h; cases hi : o.toFlt? <;> simp [hi] at h; subst h; simp [conf]
      | str => simp only [stLF] at h; cases h; simp [conf]
      | bytes => simp only [stLF] at h; cases hi : o.toBytes? <;> simp [hi] at h; subst h; simp [conf]
      | bool => simp only [stLF] at h; cases h; simp [conf]
      | enum e =>
        simp only [stLF] at h
        unfold enumOf at h
        split at h
        · rename_i e' m'
          split at h
          · rename_i hc; cases h; simp at hc; simp [conf, hc.1, hc.2]
          · cases h
        · cases hi : enumIdx (w.members e) o with
          | none => simp [hi] at h
          | some j => simp [hi] at h; subst h; simp [conf, enumIdx_lt hi]
      | lit vs =>
        simp only [stLF] at h
        simpa [conf] using litStruct_litConf w h
      | coll k t' =>
        have hsz : sizeOf t' ≤ m := by simp at ht; omega
        rw [stLF_coll] at h
        cases hit : leafItems o with
        | none => simp [hit] at h
        | some xs =>
          simp only [hit] at h
          cases hf : stLFL w cfg n t' xs with
          | none => simp [hf] at h
          | some ys =>
            simp only [hf] at h
            have hL := (confL_iff w t' ys).mp (soundL w cfg n t' xs
              (fun x _ v' hv => ihm t' x v' hsz hv) ys hf)
            unfold finishColl at h
            by_cases hs : k.structTo.isSet = true
            · simp only [hs, if_true] at h
              by_cases hz : hashableL w ys = true
              · simp only [hz, if_true] at h; cases h
                simp only [conf, beq_self_eq_true, Bool.true_and, Bool.and_eq_true, hs, Bool.not_true,
                  Bool.false_or, mkSet_nodup]
                exact ⟨(confL_iff w t' _).mpr (fun x hx => hL x (mkSet_mem hx)),
                  hashableL_of_subset w (fun z hz' => mkSet_mem hz') hz⟩
              · simp [hz] at h
            · have hs' : k.structTo.isSet = false := by simpa using hs
              simp only [hs', Bool.false_eq_true, if_false] at h; cases h
              simp [conf, hs', (confL_iff w t' ys).mpr hL]
      | tupleHet ts =>
        rw [stLF_tup] at h
        cases hit : leafItems o with
        | none => simp [hit] at h
        | some xs =>
          simp only [hit] at h
          cases hf : stLFT w cfg n ts xs with
          | none => simp [hf] at h
          | some ys =>
            simp [hf] at h; subst h
            simpa [conf] using soundT w cfg n ts xs
              (fun t' ht' x _ v' hv => ihm t' x v'
                (by have := List.sizeOf_lt_of_mem ht'; simp at ht; omega) hv) ys hf
      | map k kt vt => rw [stLF_map] at h; cases h
      | opt t' =>
        have hsz : sizeOf t' ≤ m := by simp at ht; omega
        cases o with
        | none => rw [stLF_opt_none] at h; cases h; simp [conf]
        | _ =>
          rw [stLF_opt w cfg (by intro h'; cases h')] at h
          have := ihm t' _ v hsz h
          cases v <;> simp_all [conf]
      | wrap k t' =>
        have hsz : sizeOf t' ≤ m := by simp at ht; omega
        rw [stLF_wrap] at h
        simpa [conf] using ihm t' o v hsz h
      | cls c =>
        have hdef : ∀ f ∈ w.fields c, ∀ d, f.dflt.value? = some d → fconf w f d = true := hw.defaultsOK c
        by_cases htup : cfg.tupleStrat = true
        · cases n with
          | zero => rw [stLF_cls_tuple_zero w cfg htup] at h; cases h
          | succ n' =>
            rw [stLF_cls_tuple_succ w cfg htup] at h
            cases hit : leafItems o with
            | none => simp [hit] at h
            | some xs =>
              simp only [hit] at h
              cases hf : stLFFieldsT w cfg n' (w.fields c) xs with
              | none => simp [hf] at h
              | some fs =>
                simp [hf] at h; subst h
                simpa [conf] using soundFieldsT w cfg n' (w.fields c) xs
                  (fun f _ x _ t' _ v' hv => IHn n' (by omega) t' x v' hv) hdef fs hf
        · have htup' : cfg.tupleStrat = false := by simpa using htup
          rw [stLF_cls_other w cfg htup'] at h
          have key : ∀ fs, defaultsOf (w.fields c) = some fs → conf w (.cls c) (.inst c fs) = true := by
            intro fs hfs; simpa [conf] using defaultsOf_conf w (w.fields c) hdef fs hfs
          split at h
          · unfold nonMappingClsGen at h
            split at h
            · cases h
            · split at h
              · cases hd : defaultsOf (w.fields c) with
                | none => simp [hd] at h
                | some fs => simp [hd] at h; subst h; exact key fs hd
              · cases h
          · unfold nonMappingClsInterp at h
            split at h
            · cases hd : defaultsOf (w.fields c) with
              | none => simp [hd] at h
              | some fs => simp [hd] at h; subst h; exact key fs hd
            · cases h
      | td c => rw [stLF_td] at h; cases h
      | union cs hn =>
        rw [stLF_union] at h
        cases hp : unionPick w cs hn o with
        | ok k =>
          simp only [hp] at h
          by_cases hk : k ∈ cs
          · simp only [hk, if_true] at h
            have hc := ihm (.cls k) o v (by have := sizeOf_cls_lt_union hk hn; omega) h
            cases v <;> simp [conf] at hc
            rename_i c' fs
            simp only [conf, Bool.and_eq_true, List.contains_iff_mem]
            exact ⟨by rw [← hc.1]; simpa using hk, by rw [← hc.1]; exact hc.2⟩
          · simp [hk] at h
        | none =>
          simp only [hp] at h; cases h
          simp [conf, (unionPick_none hp).1]
        | refuseCreate => simp [hp] at h
        | refuseResolve => simp [hp] at h
      | nt c =>
        cases n with
        | zero => rw [stLF_nt_zero] at h; cases h
        | succ n' =>
          rw [stLF_nt_succ] at h
          cases hit : leafItems o with
          | none => simp [hit] at h
          | some xs =>
            simp only [hit] at h
            by_cases hnt : w.isNT c = true
            · rw [if_pos hnt] at h
              cases hf : stLFT w cfg n' (w.ntTys c) xs with
              | none => simp [hf] at h
              | some ys =>
                simp [hf] at h; subst h
                have hT := soundT w cfg n' (w.ntTys c) xs
                  (fun t' _ x _ v' hv => IHn n' (by omega) t' x v' hv) ys hf
                have hlen : (w.ntNames c).length = ys.length := by
                  rw [confT_length w _ _ hT, ntTys_length]
                simp only [ntMk, conf, beq_self_eq_true, hnt, Bool.true_and, Bool.and_eq_true]
                rw [names_zip hlen, vals_zip hlen]
                exact ⟨by simp, hT⟩
            · simp [hnt] at h

theorem sound (hw : w.WF) (n : Nat) (t : Ty) (o v : Obj) (h : stLF w cfg n t o = some v) : conf w t v = true :=
  sound_aux w cfg hw n (sizeOf t) t o v (Nat.le_refl _) h

end CattrsModel.Leaf
