import CattrsModel.Lemmas.Unfold
/-!
# Unfolding lemmas for the `str` / `bytes` family (`stLF`, `stLD`): one plain equation per type constructor
-/
namespace CattrsModel.Leaf
open CattrsModel

variable (w : World) (cfg : Cfg)

theorem stLF_coll {n k t o} : stLF w cfg n (.coll k t) o =
      match leafItems o with
      | Option.none => Option.none
      | some xs => match stLFL w cfg n t xs with
        | Option.none => Option.none
        | some ys => finishColl w k.structTo ys := by
  rw [stLF]; cases leafItems o <;> rfl

theorem stLF_tup {n ts o} : stLF w cfg n (.tupleHet ts) o =
      match leafItems o with
      | Option.none => Option.none
      | some xs => (stLFT w cfg n ts xs).map (.coll .tuple) := by
  rw [stLF]; cases leafItems o <;> rfl

theorem stLF_opt_none {n t} : stLF w cfg n (.opt t) .none = some .none := by rw [stLF]

theorem stLF_opt {n t o} (h : o ≠ .none) : stLF w cfg n (.opt t) o = stLF w cfg n t o := by
  cases o <;> first | exact absurd rfl h | (rw [stLF]; intro h'; cases h')

theorem stLF_wrap {n k t o} : stLF w cfg n (.wrap k t) o = stLF w cfg n t o := by rw [stLF]

theorem stLF_map {n k kt vt o} : stLF w cfg n (.map k kt vt) o = Option.none := by rw [stLF] <;> simp

theorem stLF_td {n c o} : stLF w cfg n (.td c) o = Option.none := by rw [stLF] <;> simp

theorem stLF_cls_tuple_zero {c o} (ht : cfg.tupleStrat = true) : stLF w cfg 0 (.cls c) o = Option.none := by
  rw [stLF]; simp only [ht, if_true]

theorem stLF_cls_tuple_succ {n c o} (ht : cfg.tupleStrat = true) : stLF w cfg (n + 1) (.cls c) o =
      match leafItems o with
      | Option.none => Option.none
      | some xs => (stLFFieldsT w cfg n (w.fields c) xs).map (.inst c) := by
  rw [stLF]; simp only [ht, if_true]
  cases leafItems o <;> rfl

theorem stLF_cls_other {n c o} (ht : cfg.tupleStrat = false) :
    stLF w cfg n (.cls c) o = if cfg.gen then nonMappingClsGen w cfg c o else nonMappingClsInterp w c := by
  cases n <;> (rw [stLF]; simp [ht])

theorem stLF_union {n cs hn o} : stLF w cfg n (.union cs hn) o =
      match unionPick w cs hn o with
      | .ok m => if m ∈ cs then stLF w cfg n (.cls m) o else Option.none
      | .none => some .none
      | _ => Option.none := by
  rw [stLF]
  split <;> first | rfl | (split <;> simp_all)

theorem stLF_nt_zero {c o} : stLF w cfg 0 (.nt c) o = Option.none := by rw [stLF]

theorem stLF_nt_succ {n c o} : stLF w cfg (n + 1) (.nt c) o =
      match leafItems o with
      | Option.none => Option.none
      | some xs => if w.isNT c then (stLFT w cfg n (w.ntTys c) xs).map (ntMk w c) else Option.none := by
  rw [stLF]; cases leafItems o <;> rfl

/-! ### detailed -/

theorem stLD_coll {n k t o} : stLD w cfg n (.coll k t) o =
      match leafItems o with
      | Option.none => .error .leaf
      | some xs =>
        if t.isAny then
          match finishColl w k.structTo xs with
          | some r => .ok r
          | Option.none => .error .leaf
        else
          if !(stLDL w cfg n t k.structTo.isSet 0 xs).2.isEmpty then .error (.ive (stLDL w cfg n t k.structTo.isSet 0 xs).2)
          else .ok (mkColl k.structTo (stLDL w cfg n t k.structTo.isSet 0 xs).1) := by
  rw [stLD]; cases leafItems o <;> rfl

theorem stLD_tup {n ts o} : stLD w cfg n (.tupleHet ts) o =
      match leafItems o with
      | Option.none => .error .leaf
      | some xs =>
        (let errs := if xs.length != ts.length then (stLDT w cfg n 0 ts xs).2 ++ [(Option.none, Err.leaf)] else (stLDT w cfg n 0 ts xs).2
         if !errs.isEmpty then .error (.ive errs) else .ok (.coll .tuple (stLDT w cfg n 0 ts xs).1)) := by
  rw [stLD]; cases leafItems o <;> rfl

theorem stLD_opt_none {n t} : stLD w cfg n (.opt t) .none = .ok .none := by rw [stLD]

theorem stLD_opt {n t o} (h : o ≠ .none) : stLD w cfg n (.opt t) o = stLD w cfg n t o := by
  cases o <;> first | exact absurd rfl h | (rw [stLD]; intro h'; cases h')

theorem stLD_wrap {n k t o} : stLD w cfg n (.wrap k t) o = stLD w cfg n t o := by rw [stLD]

theorem stLD_map {n k kt vt o} : stLD w cfg n (.map k kt vt) o = .error .leaf := by rw [stLD] <;> simp

theorem stLD_td {n c o} : stLD w cfg n (.td c) o =
    if cfg.gen then .error (.cve [(Option.none, .leaf)]) else .error .leaf := by rw [stLD]

theorem stLD_cls_tuple_zero {c o} (ht : cfg.tupleStrat = true) : stLD w cfg 0 (.cls c) o = .error .leaf := by
  rw [stLD]; simp only [ht, if_true]

theorem stLD_cls_tuple_succ {n c o} (ht : cfg.tupleStrat = true) : stLD w cfg (n + 1) (.cls c) o =
      match leafItems o with
      | Option.none => .error .leaf
      | some xs => wrapInst c (stLDFieldsT w cfg n (w.fields c) xs) := by
  rw [stLD]; simp only [ht, if_true]
  cases leafItems o with
  | none => rfl
  | some xs => simp only []; cases stLDFieldsT w cfg n (w.fields c) xs <;> rfl

theorem stLD_cls_other {n c o} (ht : cfg.tupleStrat = false) :
    stLD w cfg n (.cls c) o =
      if cfg.gen then nonMappingClsGenD w cfg c o
      else match nonMappingClsInterp w c with
        | some v => .ok v
        | Option.none => .error .leaf := by
  cases n <;> (rw [stLD]; simp only [ht, Bool.false_eq_true, if_false]; split <;> first | rfl | (cases nonMappingClsInterp w c <;> rfl))

theorem stLD_union {n cs hn o} : stLD w cfg n (.union cs hn) o =
      match unionPick w cs hn o with
      | .ok m => if m ∈ cs then stLD w cfg n (.cls m) o else .error .leaf
      | .none => .ok .none
      | _ => .error .leaf := by
  rw [stLD]
  split <;> first | rfl | (split <;> simp_all)

theorem stLD_nt_zero {c o} : stLD w cfg 0 (.nt c) o = .error .leaf := by rw [stLD]

theorem stLD_nt_succ {n c o} : stLD w cfg (n + 1) (.nt c) o =
      match leafItems o with
      | Option.none => .error .leaf
      | some xs =>
        if w.isNT c then
          (let errs := if xs.length != (w.ntTys c).length then (stLDT w cfg n 0 (w.ntTys c) xs).2 ++ [(Option.none, Err.leaf)]
                       else (stLDT w cfg n 0 (w.ntTys c) xs).2
           if !errs.isEmpty then .error (.ive errs) else .ok (ntMk w c (stLDT w cfg n 0 (w.ntTys c) xs).1))
        else .error .leaf := by
  rw [stLD]; cases leafItems o <;> rfl

end CattrsModel.Leaf
