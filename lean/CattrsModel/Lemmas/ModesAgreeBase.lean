import CattrsModel.Lemmas.Unfold
/-!
# C04 core, helper lemmas: the list / field helpers of the detailed and the fast templates agree
-/
namespace CattrsModel

theorem stFL_any (w : World) (cfg : Cfg) (xs : List Obj) : stFL w cfg .any xs = some xs := by
  induction xs with
  | nil => simp [stFL]
  | cons x xs ih => simp [stFL, stF, ih]

/-- homogeneous collections -/
theorem stDL_agree (w : World) (cfg : Cfg) (t : Ty) (xs : List Obj)
    (ih : ∀ x ∈ xs, Res.toOption (stD w cfg t x) = stF w cfg t x) :
    ∀ (isSet : Bool) (ix : Nat),
      match stFL w cfg t xs with
      | some zs => if !isSet || hashableL w zs then stDL w cfg t isSet ix xs = (zs, [])
                   else (stDL w cfg t isSet ix xs).2 ≠ []
      | Option.none => (stDL w cfg t isSet ix xs).2 ≠ [] := by
  induction xs with
  | nil => intro isSet ix; simp [stFL, stDL, hashableL]
  | cons x xs ihx =>
    intro isSet ix
    have hx := ih x (by simp)
    have hrest := ihx (fun y hy => ih y (by simp [hy])) isSet (ix + 1)
    rw [stFL, stDL]
    cases hd : stD w cfg t x with
    | error e =>
      have : stF w cfg t x = Option.none := by rw [← hx, hd]; rfl
      simp [this]
    | ok y =>
      have hf : stF w cfg t x = some y := by rw [← hx, hd]; rfl
      simp only [hf]
      cases hr : stFL w cfg t xs with
      | none =>
        simp only [hr] at hrest
        simp only [Option.map_none]
        split <;> simp_all
      | some zs =>
        simp only [hr] at hrest
        simp only [Option.map_some]
        by_cases hs : isSet = true
        · subst hs
          simp only [Bool.not_true, Bool.false_or, hashableL, Bool.and_eq_true] at *
          by_cases hy : hashable w y = true
          · by_cases hz : hashableL w zs = true
            · simp_all
            · simp_all
          · simp_all
        · simp_all

/-- heterogeneous tuples: `zip` then the arity test -/
theorem stDT_agree (w : World) (cfg : Cfg) :
    ∀ (ts : List Ty) (xs : List Obj),
      (∀ t ∈ ts, ∀ x ∈ xs, Res.toOption (stD w cfg t x) = stF w cfg t x) →
      ∀ ix : Nat,
      match stFT w cfg ts xs with
      | some zs => stDT w cfg ix ts xs = (zs, []) ∧ xs.length = ts.length
      | Option.none => (stDT w cfg ix ts xs).2 ≠ [] ∨ xs.length ≠ ts.length := by
  intro ts
  induction ts with
  | nil =>
    intro xs _ ix
    cases xs <;> simp [stFT, stDT]
  | cons t ts iht =>
    intro xs ih ix
    cases xs with
    | nil => simp [stFT, stDT]
    | cons x xs =>
      have hx := ih t (by simp) x (by simp)
      have hrest := iht xs (fun t' ht' y hy => ih t' (by simp [ht']) y (by simp [hy])) (ix + 1)
      rw [stFT, stDT]
      cases hd : stD w cfg t x with
      | error e =>
        have : stF w cfg t x = Option.none := by rw [← hx, hd]; rfl
        simp [this]
      | ok y =>
        have hf : stF w cfg t x = some y := by rw [← hx, hd]; rfl
        simp only [hf]
        cases hr : stFT w cfg ts xs with
        | none =>
          simp only [hr] at hrest
          simp only [Option.map_none]
          rcases hrest with h | h
          · left; simpa using h
          · right; simpa using h
        | some zs =>
          simp only [hr] at hrest
          simp [hrest.1, hrest.2]

/-- mappings: value first, then key, then the insertion -/
theorem stDKV_agree (w : World) (cfg : Cfg) (kt vt : Ty) (kvs : List (Obj × Obj))
    (ih : ∀ p ∈ kvs, Res.toOption (stD w cfg kt p.1) = stF w cfg kt p.1 ∧
                      Res.toOption (stD w cfg vt p.2) = stF w cfg vt p.2) :
    match stFKV w cfg kt vt kvs with
    | some r => if hashableL w (keysOf r) then stDKV w cfg kt vt kvs = (r, [])
                else (stDKV w cfg kt vt kvs).2 ≠ []
    | Option.none => (stDKV w cfg kt vt kvs).2 ≠ [] := by
  induction kvs with
  | nil => simp [stFKV, stDKV, keysOf, hashableL]
  | cons p rest ihr =>
    obtain ⟨a, b⟩ := p
    have hp := ih (a, b) (by simp)
    have hrest := ihr (fun q hq => ih q (by simp [hq]))
    rw [stFKV, stDKV]
    cases hdv : stD w cfg vt b with
    | error e =>
      have : stF w cfg vt b = Option.none := by rw [← hp.2, hdv]; rfl
      cases hk : stF w cfg kt a <;> simp [this]
    | ok b' =>
      have hfv : stF w cfg vt b = some b' := by rw [← hp.2, hdv]; rfl
      cases hdk : stD w cfg kt a with
      | error e =>
        have : stF w cfg kt a = Option.none := by rw [← hp.1, hdk]; rfl
        simp [this]
      | ok a' =>
        have hfk : stF w cfg kt a = some a' := by rw [← hp.1, hdk]; rfl
        simp only [hfk, hfv]
        cases hr : stFKV w cfg kt vt rest with
        | none =>
          simp only [hr] at hrest
          simp only [Option.map_none]
          split <;> simp_all
        | some r =>
          simp only [hr] at hrest
          simp only [Option.map_some, keysOf, List.map_cons, hashableL, Bool.and_eq_true]
          by_cases hy : hashable w a' = true
          · by_cases hz : hashableL w (keysOf r) = true
            · simp_all [keysOf]
            · simp_all [keysOf]
          · simp_all [keysOf]

/-- per-field handler: untyped fields pass the raw value through -/
theorem field_agree (w : World) (cfg : Cfg) (f : Field) (x : Obj)
    (ih : ∀ t, f.ty = some t → Res.toOption (stD w cfg t x) = stF w cfg t x) :
    Res.toOption (hD w cfg f x) = hF w cfg f x := by
  unfold hD hF
  cases hty : f.ty with
  | none => rfl
  | some t => exact ih t hty

/-- class fields read by key: the generated detailed hook collects, the interpretive one stops
at the first error, the fast one too — all three accept the same payloads with the same fields -/
theorem stDFields_agree (w : World) (cfg : Cfg) (kvs : List (Obj × Obj)) :
    ∀ fds : List Field,
    (∀ f ∈ fds, ∀ x, dlookup kvs f.key = some x → ∀ t, f.ty = some t →
        Res.toOption (stD w cfg t x) = stF w cfg t x) →
    match stFFields w cfg fds kvs with
    | some fs => stDFields w cfg fds kvs = (fs, []) ∧ stDFieldsI w cfg fds kvs = .ok fs
    | Option.none => (stDFields w cfg fds kvs).2 ≠ [] ∧ ∃ e, stDFieldsI w cfg fds kvs = .error e := by
  intro fds
  induction fds with
  | nil => intro _; simp [stFFields, stDFields, stDFieldsI]
  | cons f fds ihf =>
    intro ih
    have hrest := ihf (fun g hg => ih g (by simp [hg]))
    -- what happens after this field, in the three hooks, given this field contributes `(f.name, v)`
    have step : ∀ v : Obj,
        match Option.map (fun r => (f.name, v) :: r) (stFFields w cfg fds kvs) with
        | some fs => ((f.name, v) :: (stDFields w cfg fds kvs).1, (stDFields w cfg fds kvs).2) = (fs, []) ∧
                     Except.map (fun r => (f.name, v) :: r) (stDFieldsI w cfg fds kvs) = .ok fs
        | Option.none => (stDFields w cfg fds kvs).2 ≠ [] ∧
                     ∃ e, Except.map (fun r => (f.name, v) :: r) (stDFieldsI w cfg fds kvs) = .error e := by
      intro v
      cases hr : stFFields w cfg fds kvs with
      | none =>
        simp only [hr] at hrest
        obtain ⟨h1, e, h2⟩ := hrest
        simp [h1, h2, Except.map]
      | some fs =>
        simp only [hr] at hrest
        simp [hrest.1, hrest.2, Except.map]
    by_cases hinit : f.init = true
    · cases hl : dlookup kvs f.key with
      | none =>
        rw [stFFields_absent w cfg hinit hl, stDFields_absent w cfg hinit hl, stDFieldsI_absent w cfg hinit hl]
        cases hd : f.dflt.value? with
        | none =>
          refine ⟨by simp, ?_⟩
          cases hi : stDFieldsI w cfg fds kvs <;> simp [Except.bind]
        | some d => exact step d
      | some x =>
        rw [stFFields_present w cfg hinit hl, stDFields_present w cfg hinit hl, stDFieldsI_present w cfg hinit hl]
        have hfa := field_agree w cfg f x (ih f (by simp) x hl)
        cases hh : hD w cfg f x with
        | error e =>
          have : hF w cfg f x = Option.none := by rw [← hfa, hh]; rfl
          simp [this]
        | ok y =>
          have hy : hF w cfg f x = some y := by rw [← hfa, hh]; rfl
          simp only [hy]
          exact step y
    · have hinit' : f.init = false := by simpa using hinit
      rw [stFFields_noinit w cfg hinit', stDFields_noinit w cfg hinit', stDFieldsI_noinit w cfg hinit']
      cases hd : f.dflt.value? with
      | none => simp
      | some d => exact step d

/-- tuple strategy (interpretive in both modes) -/
theorem stDFieldsT_agree (w : World) (cfg : Cfg) :
    ∀ (fds : List Field) (xs : List Obj),
    (∀ f ∈ fds, ∀ x ∈ xs, ∀ t, f.ty = some t → Res.toOption (stD w cfg t x) = stF w cfg t x) →
    (match stDFieldsT w cfg fds xs with | .ok fs => some fs | .error _ => Option.none) = stFFieldsT w cfg fds xs := by
  intro fds
  induction fds with
  | nil => intro xs _; cases xs <;> simp [stDFieldsT, stFFieldsT]
  | cons f fds ihf =>
    intro xs ih
    cases xs with
    | nil =>
      have hrest := ihf [] (fun g hg y hy => by simp at hy)
      rw [stDFieldsT, stFFieldsT]
      cases hd : f.dflt.value? with
      | none => rfl
      | some d =>
        simp only []
        rw [← hrest]
        cases stDFieldsT w cfg fds [] <;> simp [Except.map]
    | cons x xs =>
      have hrest := ihf xs (fun g hg y hy => ih g (by simp [hg]) y (by simp [hy]))
      rw [stDFieldsT, stFFieldsT]
      by_cases hinit : f.init = true
      · simp only [hinit, Bool.not_true, Bool.false_eq_true, if_false]
        cases hty : f.ty with
        | none =>
          simp only []
          rw [← hrest]
          cases stDFieldsT w cfg fds xs <;> simp [Except.map]
        | some t =>
          simp only []
          have hx := ih f (by simp) x (by simp) t hty
          cases hd : stD w cfg t x with
          | error e =>
            have : stF w cfg t x = Option.none := by rw [← hx, hd]; rfl
            simp [this]
          | ok y =>
            have hy : stF w cfg t x = some y := by rw [← hx, hd]; rfl
            simp only [hy]
            rw [← hrest]
            cases stDFieldsT w cfg fds xs <;> simp [Except.map]
      · have hinit' : f.init = false := by simpa using hinit
        simp only [hinit', Bool.not_false, if_true]
        cases hd : f.dflt.value? with
        | none => rfl
        | some d =>
          simp only []
          rw [← hrest]
          cases stDFieldsT w cfg fds xs <;> simp [Except.map]

/-- TypedDict copy-then-patch -/
theorem stDTD_agree (w : World) (cfg : Cfg) (kvs : List (Obj × Obj)) :
    ∀ (fds : List Field) (res : List (Obj × Obj)),
    (∀ f ∈ fds, ∀ x, dlookup kvs f.key = some x → ∀ t, f.ty = some t →
        Res.toOption (stD w cfg t x) = stF w cfg t x) →
    match stFTD w cfg fds kvs res with
    | some r => stDTD w cfg fds kvs res = (r, [])
    | Option.none => (stDTD w cfg fds kvs res).2 ≠ [] := by
  intro fds
  induction fds with
  | nil => intro res _; simp [stFTD, stDTD]
  | cons f fds ihf =>
    intro res ih
    have hrest := fun r => ihf r (fun g hg => ih g (by simp [hg]))
    cases hl : dlookup kvs f.key with
    | none =>
      rw [stFTD_absent w cfg hl, stDTD_absent w cfg hl]
      by_cases hr : f.required = true
      · simp [hr]
      · simp only [hr, Bool.false_eq_true, if_false]
        exact hrest res
    | some x =>
      rw [stFTD_present w cfg hl, stDTD_present w cfg hl]
      have hfa := field_agree w cfg f x (ih f (by simp) x hl)
      cases hh : hD w cfg f x with
      | error e =>
        have : hF w cfg f x = Option.none := by rw [← hfa, hh]; rfl
        simp [this]
      | ok y =>
        have hy : hF w cfg f x = some y := by rw [← hfa, hh]; rfl
        simp only [hy]
        exact hrest _

theorem sizeOf_obj_pos (o : Obj) : 0 < sizeOf o := by cases o <;> simp <;> omega
theorem sizeOf_ty_pos (t : Ty) : 0 < sizeOf t := by cases t <;> simp <;> omega

theorem nonMapping_agree (w : World) (cfg : Cfg) (c : Nat) (o : Obj) :
    Res.toOption (nonMappingClsGenD w cfg c o) = nonMappingClsGen w cfg c o := by
  unfold nonMappingClsGenD nonMappingClsGen
  -- the detailed scan succeeds with no recorded error iff every membership test answers False
  have key : ∀ fds : List Field,
      (match nonMappingFieldsD o fds with
        | some errs => errs.isEmpty
        | Option.none => false)
      = fds.all (fun f => f.dflt.value?.isSome && pyContains o f.name == some false) := by
    intro fds
    induction fds with
    | nil => simp [nonMappingFieldsD]
    | cons f fds ih =>
      rw [nonMappingFieldsD, List.all_cons]
      cases hd : f.dflt.value? with
      | none =>
        simp only [Option.isSome_none, Bool.false_eq_true, if_false, Bool.false_and]
        cases nonMappingFieldsD o fds <;> rfl
      | some d =>
        simp only [Option.isSome_some, if_true, Bool.true_and]
        cases hc : pyContains o f.name with
        | none => rfl
        | some b =>
          cases b
          · simp only []
            rw [ih]
            simp
          · simp only []
            cases nonMappingFieldsD o fds <;> simp
  have k := key (initFields (w.fields c))
  cases hn : nonMappingFieldsD o (initFields (w.fields c)) with
  | none =>
    simp only [hn] at k
    by_cases hf : cfg.forbid = true
    · simp [hf, Res.toOption]
    · simp [hf, ← k, Res.toOption]
  | some errs =>
    simp only [hn] at k
    by_cases hf : cfg.forbid = true
    · simp [hf, Res.toOption]
    · simp only [hf, Bool.false_eq_true, if_false, ← k]
      cases he : errs.isEmpty
      · simp [Res.toOption]
      · simp only [Bool.not_true, Bool.false_eq_true, if_false, if_true]
        cases defaultsOf (w.fields c) <;> simp [Res.toOption]

end CattrsModel
