import CattrsModel.Conv.StructDetailed
/-!
# `Literal[...]` positions: what `litStruct` (`_structure_simple_literal` / `_structure_enum_literal`) returns
-/
namespace CattrsModel

theorem memPy_of_mem {v : Obj} : ∀ {vs : List Obj}, v ∈ vs → Obj.memPy v vs = true
  | [], h => by cases h
  | u :: vs, h => by
      rcases List.mem_cons.mp h with e | e
      · subst e; simp [Obj.memPy, Obj.pyEq_refl]
      · simp [Obj.memPy, memPy_of_mem e]

theorem litLookup_mem (w : World) {x v : Obj} : ∀ {vs : List Obj}, litLookup w vs x = some v → v ∈ vs
  | [], h => by simp [litLookup] at h
  | u :: vs, h => by
      rw [litLookup] at h
      cases hr : litLookup w vs x with
      | some r => simp only [hr, Option.some.injEq] at h; subst h; exact List.mem_cons_of_mem _ (litLookup_mem w hr)
      | none =>
        simp only [hr] at h
        split at h
        · cases h; exact List.mem_cons_self ..
        · cases h

theorem litConf_noEnum {vs : List Obj} (x : Obj) (h : litHasEnum vs = false) : litConf vs x = Obj.memPy x vs := by
  simp [litConf, h]

theorem litConf_enum {vs : List Obj} (x : Obj) (h : litHasEnum vs = true) : litConf vs x = vs.contains x := by
  simp [litConf, h]

/-- a value of the literal is `in` its arguments -/
theorem litConf_memPy {vs : List Obj} {x : Obj} (h : litConf vs x = true) : Obj.memPy x vs = true := by
  unfold litConf at h
  split at h
  · exact memPy_of_mem (by simpa using h)
  · exact h

/-- **what structuring at a `Literal[...]` position returns is a value of the literal** (for a literal containing
enum members: one of its arguments, exactly) -/
theorem litStruct_litConf (w : World) {vs : List Obj} {x v : Obj} (h : litStruct w vs x = some v) :
    litConf vs v = true := by
  unfold litStruct at h
  unfold litConf
  split at h
  · rename_i he; rw [if_pos he]; simpa using litLookup_mem w h
  · rename_i he
    rw [if_neg he]
    split at h
    · rename_i hm; cases h; exact hm
    · cases h

/-- an accepted payload yields a value of the literal -/
theorem litStruct_memPy (w : World) {vs : List Obj} {x v : Obj} (h : litStruct w vs x = some v) :
    Obj.memPy v vs = true := by
  unfold litStruct at h
  split at h
  · exact memPy_of_mem (litLookup_mem w h)
  · split at h
    · rename_i hm; cases h; exact hm
    · cases h

/-- without enum members the payload itself is returned, iff it is `in` the literal's values -/
theorem litStruct_simple (w : World) {vs : List Obj} (x : Obj) (h : litHasEnum vs = false) :
    litStruct w vs x = if Obj.memPy x vs then some x else Option.none := by
  simp [litStruct, h]

/-- without enum members the unstructure hook of a literal is `identity` -/
theorem un_lit_simple (w : World) (cfg : Cfg) {vs : List Obj} (x : Obj) (h : litHasEnum vs = false) :
    un w cfg (.lit vs) x = x := by
  rw [un]; simp [h]

theorem noEnum_of_all {p : Obj → Bool} (hp : ∀ e m, p (.enumM e m) = false) :
    ∀ {vs : List Obj}, vs.all p = true → litHasEnum vs = false
  | [], _ => rfl
  | v :: vs, h => by
      simp only [List.all_cons, Bool.and_eq_true] at h
      have ih := noEnum_of_all hp h.2
      simp only [litHasEnum, List.any_cons, Bool.or_eq_false_iff] at ih ⊢
      refine ⟨?_, ih⟩
      cases v <;> simp_all [Obj.isEnumM]

end CattrsModel
