import CattrsModel.Lemmas.GenInterp
import CattrsModel.Lemmas.Encoding
/-!
# C06 core, unstructuring: BaseConverter's encoding by RUN-TIME class (`unAny`) coincides, up to `normSeq`
(tuples and deques as lists), with Converter's encoding by DECLARED type (`un`) on well-typed values
-/
namespace CattrsModel.GenInterp
open CattrsModel
variable (w : World)

/-! ### `normSeq` basics -/

theorem normSeq_leaf {x : Obj} (h : x.isLeafB = true) : normSeq x = x := by
  cases x <;> simp_all [Obj.isLeafB, normSeq]

theorem normSeq_mkColl_seq {ck : CK} {ys : List Obj} (h : ck.isSet = false) :
    normSeq (mkColl ck ys) = .coll .list (normSeqL ys) := by
  simp [mkColl, h, normSeq]

theorem normSeq_mkColl_set {ck : CK} {ys : List Obj} (h : ck.isSet = true) :
    normSeq (mkColl ck ys) = .coll ck (mkSet ys) := by
  simp [mkColl, h, normSeq]

theorem normSeqKV_dictSet (d : List (Obj × Obj)) (k v : Obj) :
    normSeqKV (dictSet d k v) = dictSet (normSeqKV d) k (normSeq v) := by
  induction d with
  | nil => simp [dictSet, normSeqKV]
  | cons p rest ih =>
    obtain ⟨k', v'⟩ := p
    simp only [dictSet, normSeqKV]
    split <;> simp [normSeqKV, ih]

theorem normSeqKV_mkDict (kvs : List (Obj × Obj)) : normSeqKV (mkDict kvs) = mkDict (normSeqKV kvs) := by
  have gen : ∀ (kvs acc : List (Obj × Obj)),
      normSeqKV (kvs.foldl (fun d kv => dictSet d kv.1 kv.2) acc)
        = (normSeqKV kvs).foldl (fun d kv => dictSet d kv.1 kv.2) (normSeqKV acc) := by
    intro kvs
    induction kvs with
    | nil => intro acc; simp [normSeqKV]
    | cons p rest ih =>
      intro acc
      obtain ⟨k, v⟩ := p
      simp only [List.foldl_cons, normSeqKV]
      rw [ih, normSeqKV_dictSet]
  exact gen kvs []

/-! ### scalars are encoded the same way by both engines, whatever the declared type -/

theorem unAny_leaf (c : Cfg) {x : Obj} (h : x.isLeafB = true) : unAny w c x = x := by
  cases x <;> simp_all [Obj.isLeafB, unAny]

theorem leaf_scalar {x : Obj} (h : x.isLeafB = true) : (isScalar x) = true := by
  cases x <;> simp_all [Obj.isLeafB, isScalar]

theorem unAny_scalar (c1 c2 : Cfg) {x : Obj} (h : (isScalar x) = true) : unAny w c1 x = unAny w c2 x := by
  cases x <;> simp_all [isScalar, unAny]

theorem litVal_scalar {vs : List Obj} {x : Obj} (hvs : vs.all Obj.isLitVal = true) (h : Obj.memPy x vs = true) :
    (isScalar x) = true := by
  rcases memPy_litVal hvs h with hl | ⟨e, m, rfl, _⟩
  · exact leaf_scalar hl
  · rfl

theorem wellTyped_opt_ne {t : Ty} {x : Obj} (hx : x ≠ .none) : wellTyped w (.opt t) x = wellTyped w t x := by
  cases x <;> simp_all [wellTyped]

theorem un_scalar (cG cB : Cfg) (hG : cG.gen = true) :
    ∀ (m : Nat) (t : Ty) (x : Obj), sizeOf t ≤ m → (isScalar x) = true → t.supU false = true →
      wellTyped w t x = true → un w cG t x = unAny w cB x := by
  intro m
  induction m with
  | zero => intro t x ht; have := sizeOf_ty_pos t; omega
  | succ m ihm =>
    intro t x ht hx hs hwt
    cases t with
    | any => rw [un]; exact unAny_scalar w cG cB hx
    | int => cases x <;> simp_all [wellTyped, un, unAny]
    | float => cases x <;> simp_all [wellTyped, un, unAny]
    | str => cases x <;> simp_all [wellTyped, un, unAny]
    | bytes => cases x <;> simp_all [wellTyped, un, unAny]
    | bool => cases x <;> simp_all [wellTyped, un, unAny]
    | enum e => cases x <;> simp_all [wellTyped, un, unAny]
    | lit vs =>
      rw [wellTyped] at hwt
      simp only [Bool.and_eq_true] at hwt
      rw [un_lit_unAny w cG (by simpa [Ty.supU] using hs) hwt.1]
      exact unAny_scalar w cG cB hx
    | coll k t' => cases x <;> simp_all [wellTyped, isScalar]
    | tupleHet ts => cases x <;> simp_all [wellTyped, isScalar]
    | map k kt vt => cases x <;> simp_all [wellTyped, isScalar]
    | cls c => cases x <;> simp_all [wellTyped, isScalar]
    | td c => cases x <;> simp_all [wellTyped, isScalar]
    | nt c => cases x <;> simp_all [wellTyped, isScalar]
    | union ucs hn =>
      have : un w cG (.union ucs hn) x = unAny w cG x := by simp only [un]
      rw [this]; exact unAny_scalar w cG cB hx
    | opt t' =>
      have hs' : t'.supU false = true := by simpa [Ty.supU] using hs
      have hsz : sizeOf t' ≤ m := by simp at ht; omega
      by_cases hx0 : x = .none
      · subst hx0; simp [un, unAny]
      · rw [un_opt_ne w cG hx0, if_pos hG]
        rw [wellTyped_opt_ne w hx0] at hwt
        exact ihm t' x hsz hx hs' hwt
    | wrap k t' =>
      have hs' : t'.supU false = true := by
        simp only [Ty.supU, Bool.and_eq_true] at hs; exact hs.1
      have hsz : sizeOf t' ≤ m := by simp at ht; omega
      rw [wellTyped] at hwt
      rw [un, if_pos (by simp [hG])]
      exact ihm t' x hsz hx hs' hwt

theorem unAnyL_scalar (c1 c2 : Cfg) : ∀ (xs : List Obj), allScalar xs = true → unAnyL w c1 xs = unAnyL w c2 xs
  | [], _ => by simp [unAnyL]
  | x :: xs, h => by
      simp only [allScalar, List.all_cons, Bool.and_eq_true] at h
      rw [unAnyL, unAnyL, unAny_scalar w c1 c2 h.1, unAnyL_scalar c1 c2 xs (by simpa [allScalar] using h.2)]

theorem unL_scalar (cG cB : Cfg) (hG : cG.gen = true) (t : Ty) (hs : t.supU false = true) :
    ∀ (xs : List Obj), allScalar xs = true → wellTypedL w t xs = true → unL w cG t xs = unAnyL w cB xs
  | [], _, _ => by simp [unL, unAnyL]
  | x :: xs, h, hwt => by
      simp only [allScalar, List.all_cons, Bool.and_eq_true] at h
      simp only [wellTypedL, Bool.and_eq_true] at hwt
      rw [unL, unAnyL, un_scalar w cG cB hG (sizeOf t) t x (Nat.le_refl _) h.1 hs hwt.1,
        unL_scalar cG cB hG t hs xs (by simpa [allScalar] using h.2) hwt.2]

/-! ### elementwise lifting -/

theorem normL_anyL_unL (cB cG : Cfg) (t : Ty) : ∀ (xs : List Obj),
    (∀ x ∈ xs, normSeq (unAny w cB x) = normSeq (un w cG t x)) →
    normSeqL (unAnyL w cB xs) = normSeqL (unL w cG t xs)
  | [], _ => by simp [unAnyL, unL, normSeqL]
  | x :: xs, h => by
      rw [unAnyL, unL, normSeqL, normSeqL, h x (by simp), normL_anyL_unL cB cG t xs (fun y hy => h y (by simp [hy]))]

theorem normL_anyL_anyL (cB cG : Cfg) : ∀ (xs : List Obj),
    (∀ x ∈ xs, normSeq (unAny w cB x) = normSeq (unAny w cG x)) →
    normSeqL (unAnyL w cB xs) = normSeqL (unAnyL w cG xs)
  | [], _ => by simp [unAnyL, normSeqL]
  | x :: xs, h => by
      rw [unAnyL, unAnyL, normSeqL, normSeqL, h x (by simp), normL_anyL_anyL cB cG xs (fun y hy => h y (by simp [hy]))]

theorem normKV_anyKV_unKV (cB cG : Cfg) (kt vt : Ty) : ∀ (kvs : List (Obj × Obj)),
    (∀ p ∈ kvs, unAny w cB p.1 = un w cG kt p.1 ∧ normSeq (unAny w cB p.2) = normSeq (un w cG vt p.2)) →
    normSeqKV (unAnyKV w cB kvs) = normSeqKV (unKV w cG kt vt kvs)
  | [], _ => by simp [unAnyKV, unKV, normSeqKV]
  | (a, b) :: rest, h => by
      have h1 := h (a, b) (by simp)
      rw [unAnyKV, unKV, normSeqKV, normSeqKV, h1.1, h1.2,
        normKV_anyKV_unKV cB cG kt vt rest (fun q hq => h q (by simp [hq]))]

theorem normKV_anyKV_anyKV (cB cG : Cfg) : ∀ (kvs : List (Obj × Obj)),
    (∀ p ∈ kvs, unAny w cB p.1 = unAny w cG p.1 ∧ normSeq (unAny w cB p.2) = normSeq (unAny w cG p.2)) →
    normSeqKV (unAnyKV w cB kvs) = normSeqKV (unAnyKV w cG kvs)
  | [], _ => by simp [unAnyKV, normSeqKV]
  | (a, b) :: rest, h => by
      have h1 := h (a, b) (by simp)
      rw [unAnyKV, unAnyKV, normSeqKV, normSeqKV, h1.1, h1.2,
        normKV_anyKV_anyKV cB cG rest (fun q hq => h q (by simp [hq]))]

theorem scalarKeysL_iff (xs : List Obj) : scalarKeysL xs = true ↔ ∀ x ∈ xs, (scalarKeys x) = true := by
  induction xs with
  | nil => simp [scalarKeysL]
  | cons x xs ih => simp [scalarKeysL, ih]

theorem scalarKeysKV_iff (kvs : List (Obj × Obj)) :
    scalarKeysKV kvs = true ↔ ∀ p ∈ kvs, (isScalar p.1) = true ∧ (scalarKeys p.2) = true := by
  induction kvs with
  | nil => simp [scalarKeysKV]
  | cons p rest ih => obtain ⟨a, b⟩ := p; simp [scalarKeysKV, ih, and_assoc]

theorem scalarKeysF_iff (fs : List (String × Obj)) :
    scalarKeysF fs = true ↔ ∀ p ∈ fs, (scalarKeys p.2) = true := by
  induction fs with
  | nil => simp [scalarKeysF]
  | cons p rest ih => obtain ⟨a, b⟩ := p; simp [scalarKeysF, ih]

/-- dict strategy: both engines emit every field (no `init=False` field, or the tuple strategy is irrelevant here) -/
theorem normKV_unFields (cB cG : Cfg) : ∀ (fds : List Field) (fs : List (String × Obj)),
    wellTypedF w fds fs = true →
    (∀ f ∈ fds, emits cB f = true ∧ emits cG f = true) →
    (∀ f ∈ fds, ∀ p ∈ fs, wtField w f p.2 = true → normSeq (unField w cB f p.2) = normSeq (unField w cG f p.2)) →
    normSeqKV (unFields w cB fds fs) = normSeqKV (unFields w cG fds fs)
  | [], [], _, _, _ => by simp [unFields, normSeqKV]
  | [], _ :: _, hwt, _, _ => by simp [wellTypedF] at hwt
  | _ :: _, [], hwt, _, _ => by simp [wellTypedF] at hwt
  | f :: fds, (n, x) :: rest, hwt, he, h => by
      rw [wellTypedF_cons] at hwt
      simp only [Bool.and_eq_true] at hwt
      have hx := h f (by simp) (n, x) (by simp) hwt.1
      have hr := normKV_unFields cB cG fds rest hwt.2 (fun g hg => he g (by simp [hg]))
        (fun g hg q hq => h g (by simp [hg]) q (by simp [hq]))
      rw [unFields_cons, unFields_cons, if_pos (he f (by simp)).1, if_pos (he f (by simp)).2,
        normSeqKV, normSeqKV, hr]
      simp only [] at hx
      rw [hx]

theorem normL_unFieldsT (cB cG : Cfg) : ∀ (fds : List Field) (fs : List (String × Obj)),
    wellTypedF w fds fs = true →
    (∀ f ∈ fds, ∀ p ∈ fs, wtField w f p.2 = true → normSeq (unField w cB f p.2) = normSeq (unField w cG f p.2)) →
    normSeqL (unFieldsT w cB fds fs) = normSeqL (unFieldsT w cG fds fs)
  | [], [], _, _ => by simp [unFieldsT, normSeqL]
  | [], _ :: _, hwt, _ => by simp [wellTypedF] at hwt
  | _ :: _, [], hwt, _ => by simp [wellTypedF] at hwt
  | f :: fds, (n, x) :: rest, hwt, h => by
      rw [wellTypedF_cons] at hwt
      simp only [Bool.and_eq_true] at hwt
      have hx := h f (by simp) (n, x) (by simp) hwt.1
      have hr := normL_unFieldsT cB cG fds rest hwt.2 (fun g hg q hq => h g (by simp [hg]) q (by simp [hq]))
      rw [unFieldsT_cons, unFieldsT_cons, normSeqL, normSeqL, hr]
      simp only [] at hx
      rw [hx]

theorem unT_leaves (c : Cfg) : ∀ (ts : List Ty) (xs : List Obj), ts.all Ty.isPrimLeaf = true → wellTypedT w ts xs = true →
    unT w c ts xs = xs
  | [], [], _, _ => by simp [unT]
  | [], _ :: _, _, hwt => by simp [wellTypedT] at hwt
  | _ :: _, [], _, hwt => by simp [wellTypedT] at hwt
  | t :: ts, x :: xs, hts, hwt => by
      simp only [wellTypedT, Bool.and_eq_true] at hwt
      simp only [List.all_cons, Bool.and_eq_true] at hts
      rw [unT, (un_primLeaf w c hts.1 hwt.1).1, unT_leaves c ts xs hts.2 hwt.2]

theorem unAnyL_leaves (c : Cfg) : ∀ (xs : List Obj), (∀ x ∈ xs, x.isLeafB = true) → unAnyL w c xs = xs
  | [], _ => by simp [unAnyL]
  | x :: xs, h => by
      rw [unAnyL, unAny_leaf w c (h x (by simp)), unAnyL_leaves c xs (fun y hy => h y (by simp [hy]))]

end CattrsModel.GenInterp
