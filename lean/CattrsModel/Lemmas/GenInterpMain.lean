import CattrsModel.Lemmas.GenInterpUn
/-!
# C06 core, unstructuring: the main induction

For a well-typed value `x` of a type in the common support, whose set elements and dict keys are scalars:
* `(A)`  BaseConverter by run-time class  ≈  Converter by run-time class          (`Any` / untyped positions)
* `(C)`  BaseConverter by RUN-TIME class  ≈  Converter by DECLARED type           (inside collections / Optional)
* `(D)`  BaseConverter by declared type   ≈  Converter by declared type           (top level, class fields)
where `≈` is equality after `normSeq`.
-/
namespace CattrsModel.GenInterp
open CattrsModel
variable (w : World)

theorem un_agree_aux (cB cG : Cfg) (hws : w.SupU false)
    (hB : cB.gen = false) (hG : cG.gen = true) (hT : cB.tupleStrat = cG.tupleStrat)
    (hI : cG.tupleStrat = true ∨ (AllInit w)) :
    ∀ (n : Nat),
      (∀ (x : Obj), sizeOf x ≤ n → wellTypedAny w x = true → (scalarKeys x) = true →
        normSeq (unAny w cB x) = normSeq (unAny w cG x)) ∧
      (∀ (m : Nat) (t : Ty) (x : Obj), sizeOf x ≤ n → sizeOf t ≤ m → t.supU false = true →
        wellTyped w t x = true → (scalarKeys x) = true →
        normSeq (unAny w cB x) = normSeq (un w cG t x) ∧ normSeq (un w cB t x) = normSeq (un w cG t x)) := by
  intro n
  induction n with
  | zero =>
    constructor
    · intro x hx; have := sizeOf_obj_pos x; omega
    · intro m t x hx; have := sizeOf_obj_pos x; omega
  | succ n ihn =>
    obtain ⟨ihA, ihU⟩ := ihn
    have hEm : ∀ c, ∀ f ∈ w.fields c, emits cB f = true ∧ (cG.tupleStrat = false → emits cG f = true) := by
      intro c f hf
      refine ⟨by simp [emits, hB], fun ht => ?_⟩
      rcases hI with h | h
      · rw [ht] at h; cases h
      · simp [emits, h c f hf]
    -- one field position of an instance whose field list is smaller than `n`
    have hField : ∀ (c : Nat) (fs : List (String × Obj)), sizeOf fs ≤ n → scalarKeysF fs = true →
        ∀ f ∈ w.fields c, ∀ p ∈ fs, wtField w f p.2 = true →
          normSeq (unField w cB f p.2) = normSeq (unField w cG f p.2) := by
      intro c fs hfs hsk f hf p hp hwt
      have hlt := sizeOf_snd_lt_of_mem hp
      have hp2 := (scalarKeysF_iff fs).mp hsk p hp
      cases hty : f.ty with
      | none =>
        simp only [wtField, hty] at hwt
        simp only [unField, hty]
        exact ihA p.2 (by omega) hwt hp2
      | some t =>
        simp only [wtField, hty] at hwt
        simp only [unField, hty]
        exact (ihU (sizeOf t) t p.2 (by omega) (Nat.le_refl _) (hws.fieldsOK c f hf t hty) hwt hp2).2
    -- instances: both engines walk the same field list
    have hInst : ∀ (c : Nat) (fs : List (String × Obj)), sizeOf fs ≤ n → wellTypedF w (w.fields c) fs = true →
        scalarKeysF fs = true →
        normSeq (if cB.tupleStrat then Obj.coll .tuple (unFieldsT w cB (w.fields c) fs) else .dict (unFields w cB (w.fields c) fs))
          = normSeq (if cG.tupleStrat then Obj.coll .tuple (unFieldsT w cG (w.fields c) fs) else .dict (unFields w cG (w.fields c) fs)) := by
      intro c fs hfs hwt hsk
      rw [hT]
      by_cases ht : cG.tupleStrat = true
      · rw [if_pos ht, if_pos ht]
        simp only [normSeq, CK.isSet, Bool.false_eq_true, if_false]
        rw [normL_unFieldsT w cB cG _ fs hwt (hField c fs hfs hsk)]
      · rw [if_neg ht, if_neg ht]
        simp only [normSeq]
        rw [normKV_unFields w cB cG _ fs hwt
          (fun f hf => ⟨(hEm c f hf).1, (hEm c f hf).2 (by simpa using ht)⟩) (hField c fs hfs hsk)]
    -- instances of NamedTuple classes (fields of primitive types): the tuple of the items, for both engines
    have hNT : ∀ (c : Nat) (fs : List (String × Obj)), w.isNT c = true → wellTypedT w (w.ntTys c) (vals fs) = true →
        Obj.coll .tuple (if cG.gen then unT w cG (w.ntTys c) (vals fs) else vals fs) = Obj.coll .tuple (vals fs) := by
      intro c fs hnt hwt
      rw [if_pos hG, unT_leaves w cG _ _ (ntTys_primU w hws rfl hnt) hwt]
    have hAny : ∀ (x : Obj), sizeOf x ≤ n + 1 → wellTypedAny w x = true → (scalarKeys x) = true →
        normSeq (unAny w cB x) = normSeq (unAny w cG x) := by
      intro x hx hwt hsk
      cases x with
      | enumM e m => simp [unAny]
      | coll ck xs =>
        rw [wellTypedAny] at hwt
        have hel := (wellTypedAnyL_iff w xs).mp hwt
        simp only [scalarKeys, Bool.and_eq_true, Bool.or_eq_true, Bool.not_eq_true'] at hsk
        have hskl := (scalarKeysL_iff xs).mp hsk.2
        simp at hx
        rw [unAny, unAny]
        simp only [hB, hG, Bool.false_eq_true, if_false, if_true]
        by_cases hset : ck.isSet = true
        · have hall : allScalar xs = true := by
            rcases hsk.1 with h | h
            · rw [hset] at h; cases h
            · exact h
          have hck : ck.anyTo = ck := by cases ck <;> simp_all [CK.isSet, CK.anyTo]
          rw [hck, unAnyL_scalar w cB cG xs hall]
        · have hset' : ck.isSet = false := by simpa using hset
          have hset2 : ck.anyTo.isSet = false := by cases ck <;> simp_all [CK.isSet, CK.anyTo]
          rw [normSeq_mkColl_seq hset', normSeq_mkColl_seq hset2]
          rw [normL_anyL_anyL w cB cG xs (fun z hz => by
            have := List.sizeOf_lt_of_mem hz
            exact ihA z (by omega) (hel z hz) (hskl z hz))]
      | dict kvs =>
        rw [wellTypedAny] at hwt
        have hel := (wellTypedAnyKV_iff w kvs).mp hwt
        rw [scalarKeys] at hsk
        have hskl := (scalarKeysKV_iff kvs).mp hsk
        simp at hx
        rw [unAny, unAny]
        simp only [normSeq]
        rw [normSeqKV_mkDict, normSeqKV_mkDict]
        rw [normKV_anyKV_anyKV w cB cG kvs (fun p hp => by
          have := sizeOf_lt_of_mem_kv hp
          exact ⟨unAny_scalar w cB cG (hskl p hp).1, ihA p.2 (by omega) (hel p hp).2 (hskl p hp).2⟩)]
      | inst c fs =>
        rw [wellTypedAny] at hwt
        rw [scalarKeys] at hsk
        simp at hx
        rw [unAny, unAny]
        by_cases hnt : w.isNT c = true
        · rw [if_pos hnt] at hwt
          rw [if_pos hnt, if_pos hnt, hNT c fs hnt hwt]
          simp [hB]
        · rw [if_neg hnt] at hwt
          rw [if_neg hnt, if_neg hnt]
          exact hInst c fs (by omega) hwt hsk
      | none => simp [unAny]
      | bool b => simp [unAny]
      | int i => simp [unAny]
      | flt k => simp [unAny]
      | str s => simp [unAny]
      | bytes h => simp [unAny]
      | mdict d kvs => simp [wellTypedAny] at hwt
      | _ => simp [unAny]
    refine ⟨hAny, ?_⟩
    intro m
    induction m with
    | zero => intro t x _ ht; have := sizeOf_ty_pos t; omega
    | succ m ihm =>
      intro t x hx ht hs hwt hsk
      -- a leaf value of a leaf type: everything is the identity
      have hLeaf : x.isLeafB = true → un w cB t x = x → un w cG t x = x →
          normSeq (unAny w cB x) = normSeq (un w cG t x) ∧ normSeq (un w cB t x) = normSeq (un w cG t x) := by
        intro hl h1 h2
        rw [h1, h2, unAny_leaf w cB hl]
        exact ⟨rfl, rfl⟩
      cases t with
      | any =>
        rw [wellTyped] at hwt
        rw [un, un]
        exact ⟨hAny x hx hwt hsk, hAny x hx hwt hsk⟩
      | int => cases x <;> simp [wellTyped] at hwt; exact hLeaf rfl (by simp [un]) (by simp [un])
      | float => cases x <;> simp [wellTyped] at hwt; exact hLeaf rfl (by simp [un]) (by simp [un])
      | str => cases x <;> simp [wellTyped] at hwt; exact hLeaf rfl (by simp [un]) (by simp [un])
      | bytes => cases x <;> simp [wellTyped] at hwt; exact hLeaf rfl (by simp [un]) (by simp [un])
      | bool => cases x <;> simp [wellTyped] at hwt; exact hLeaf rfl (by simp [un]) (by simp [un])
      | enum e =>
        cases x <;> simp [wellTyped] at hwt
        simp [un, unAny]
      | lit vs =>
        rw [wellTyped] at hwt
        simp only [Bool.and_eq_true] at hwt
        have hvs : vs.all Obj.isLitVal = true := by simpa [Ty.supU] using hs
        rw [un_lit_unAny w cB hvs hwt.1, un_lit_unAny w cG hvs hwt.1,
          unAny_scalar w cB cG (litVal_scalar hvs hwt.1)]
        exact ⟨rfl, rfl⟩
      | coll k t' =>
        cases x with
        | coll ck xs =>
          simp only [wellTyped, Bool.and_eq_true, beq_iff_eq] at hwt
          obtain ⟨hck, hwl⟩ := hwt
          have hel := (wellTypedL_iff w t' xs).mp hwl
          have hs' : t'.supU false = true := by simpa [Ty.supU] using hs
          simp only [scalarKeys, Bool.and_eq_true, Bool.or_eq_true, Bool.not_eq_true'] at hsk
          have hskl := (scalarKeysL_iff xs).mp hsk.2
          simp at hx
          have key : normSeq (mkColl ck (unAnyL w cB xs)) = normSeq (mkColl k.unstructTo (unL w cG t' xs)) := by
            by_cases hset : ck.isSet = true
            · have hall : allScalar xs = true := by
                rcases hsk.1 with h | h
                · rw [hset] at h; cases h
                · exact h
              have hk : k.unstructTo = ck := by
                subst hck; cases k <;> simp_all [SK.structTo, SK.unstructTo, CK.isSet]
              rw [hk, unL_scalar w cG cB hG t' hs' xs hall hwl]
            · have hset' : ck.isSet = false := by simpa using hset
              have hset2 : k.unstructTo.isSet = false := by
                subst hck; cases k <;> simp_all [SK.structTo, SK.unstructTo, CK.isSet]
              rw [normSeq_mkColl_seq hset', normSeq_mkColl_seq hset2]
              rw [normL_anyL_unL w cB cG t' xs (fun z hz => by
                have := List.sizeOf_lt_of_mem hz
                exact (ihU (sizeOf t') t' z (by omega) (Nat.le_refl _) hs' (hel z hz) (hskl z hz)).1)]
          rw [unAny, un, un]
          simp only [hB, hG, Bool.false_eq_true, if_false, if_true]
          exact ⟨key, key⟩
        | _ => simp [wellTyped] at hwt
      | tupleHet ts =>
        cases x with
        | coll ck xs =>
          cases ck <;> simp [wellTyped] at hwt
          simp only [Ty.supU, Bool.and_eq_true, Bool.or_eq_true, Bool.false_eq_true, false_or] at hs
          have hlv := wellTypedT_leaves w ts xs hs.2 hwt
          rw [unAny, un, un]
          simp only [hB, hG, Bool.false_eq_true, if_false, if_true]
          rw [unT_leaves w cG ts xs hs.2 hwt, unAnyL_leaves w cB xs hlv]
          simp [mkColl, CK.isSet]
        | _ => simp [wellTyped] at hwt
      | map mk kt vt =>
        cases x with
        | dict kvs =>
          rw [wellTyped] at hwt
          have hel := (wellTypedKV_iff w kt vt kvs).mp hwt
          simp only [Ty.supU, Bool.and_eq_true] at hs
          replace hs := hs.1
          rw [scalarKeys] at hsk
          have hskl := (scalarKeysKV_iff kvs).mp hsk
          simp at hx
          have key : normSeq (.dict (mkDict (unAnyKV w cB kvs))) = normSeq (.dict (mkDict (unKV w cG kt vt kvs))) := by
            simp only [normSeq]
            rw [normSeqKV_mkDict, normSeqKV_mkDict]
            rw [normKV_anyKV_unKV w cB cG kt vt kvs (fun p hp => by
              have := sizeOf_lt_of_mem_kv hp
              exact ⟨(un_scalar w cG cB hG (sizeOf kt) kt p.1 (Nat.le_refl _) (hskl p hp).1 hs.1 (hel p hp).1).symm,
                (ihU (sizeOf vt) vt p.2 (by omega) (Nat.le_refl _) hs.2 (hel p hp).2 (hskl p hp).2).1⟩)]
          rw [unAny, un, un]
          simp only [hB, hG, Bool.false_eq_true, if_false, if_true]
          exact ⟨key, key⟩
        | _ => simp [wellTyped] at hwt
      | opt t' =>
        have hs' : t'.supU false = true := by simpa [Ty.supU] using hs
        have hsz : sizeOf t' ≤ m := by simp at ht; omega
        by_cases hx0 : x = .none
        · subst hx0; simp [un, unAny]
        · rw [wellTyped_opt_ne w hx0] at hwt
          rw [un_opt_ne w cB hx0, un_opt_ne w cG hx0]
          simp only [hB, hG, Bool.false_eq_true, if_false, if_true]
          have := (ihm t' x hx hsz hs' hwt hsk).1
          exact ⟨this, this⟩
      | wrap k t' =>
        simp only [Ty.supU, Bool.and_eq_true, Bool.or_eq_true, Bool.false_eq_true, false_or, beq_iff_eq] at hs
        have hsz : sizeOf t' ≤ m := by simp at ht; omega
        rw [wellTyped] at hwt
        have ih' := ihm t' x hx hsz hs.1 hwt hsk
        rw [un, un]
        simp only [hB, hG, Bool.false_or, Bool.true_or, if_true]
        rcases hs.2 with (hk | hk) | hk
        · subst hk; simpa using ih'
        · subst hk; simpa using ih'
        · obtain ⟨hk, hp⟩ := hk
          subst hk
          simp only [show (WK.newtype == WK.final) = false from rfl, show (WK.newtype == WK.alias) = false from rfl,
            Bool.or_self, Bool.false_eq_true, if_false]
          have h2 := un_primLeaf w cG hp hwt
          rw [h2.1, unAny_leaf w cB h2.2]
          exact ⟨rfl, rfl⟩
      | cls c =>
        cases x with
        | inst c' fs =>
          simp only [wellTyped, Bool.and_eq_true, beq_iff_eq] at hwt
          obtain ⟨⟨hc, hnt⟩, hwf⟩ := hwt
          subst hc
          have hnt' : ¬ (w.isNT c = true) := by simpa using hnt
          rw [scalarKeys] at hsk
          simp at hx
          rw [unAny, un, un, if_neg hnt']
          have := hInst c fs (by omega) hwf hsk
          exact ⟨this, this⟩
        | _ => simp [wellTyped] at hwt
      | td c => simp [Ty.supU] at hs
      | union ucs hn =>
        have h1 : un w cB (.union ucs hn) x = unAny w cB x := by simp only [un]
        have h2 : un w cG (.union ucs hn) x = unAny w cG x := by simp only [un]
        rw [h1, h2]
        have hwa : wellTypedAny w x = true := by
          cases x with
          | none => simp [wellTypedAny]
          | inst c fs =>
            simp only [wellTyped, Bool.and_eq_true, Bool.not_eq_true'] at hwt
            rw [wellTypedAny, if_neg (by simp [hwt.1.2])]; exact hwt.2
          | _ => simp [wellTyped] at hwt
        exact ⟨hAny x hx hwa hsk, hAny x hx hwa hsk⟩
      | nt c =>
        cases x with
        | inst c' fs =>
          simp only [wellTyped, Bool.and_eq_true, beq_iff_eq] at hwt
          obtain ⟨⟨hc, hnt⟩, hwf⟩ := hwt
          subst hc
          rw [unAny, un, un, if_pos hnt, hNT c fs hnt hwf]
          simp [hB]
        | _ => simp [wellTyped] at hwt

end CattrsModel.GenInterp
