import CattrsModel.Lemmas.SoundLeaf
/-!
# C02 core: whatever the input, an accepted result conforms to the type at every depth
-/
namespace CattrsModel

variable (w : World) (cfg : Cfg)

/-- **C02 (core).**  For every type and every input object: if the fast template accepts, the
result conforms to the type at every depth. -/
theorem sound_aux (hw : w.WF) (hwm : cfg.gen = true ∨ w.plainMaps) :
    ∀ (n m : Nat) (t : Ty) (o v : Obj), sizeOf o ≤ n → sizeOf t ≤ m → (cfg.gen = true ∨ t.plainMaps = true) →
      stF w cfg t o = some v → conf w t v = true := by
  intro n
  induction n with
  | zero => intro m t o v ho _ _; have : 0 < sizeOf o := by cases o <;> simp <;> omega
            omega
  | succ n ihn =>
    intro m
    induction m with
    | zero => intro t o v _ ht _; have : 0 < sizeOf t := by cases t <;> simp <;> omega
              omega
    | succ m ihm =>
      intro t o v ho ht hp h
      have IHo : ∀ (t' : Ty) (o' : Obj), sizeOf o' < sizeOf o → (cfg.gen = true ∨ t'.plainMaps = true) →
          ∀ v', stF w cfg t' o' = some v' → conf w t' v' = true :=
        fun t' o' hlt hp' v' hv => ihn (sizeOf t') t' o' v' (by omega) (Nat.le_refl _) hp' hv
      cases t with
      | any => simp [conf]
      | int => simp only [stF] at h; cases hi : o.toInt? <;> simp [hi] at h; subst h; simp [conf]
      | float => simp only [stF] at h; cases hi : o.toFlt? <;> simp [hi] at h; subst h; simp [conf]
      | str => simp only [stF] at h; cases h; simp [conf]
      | bytes => simp only [stF] at h; cases hi : o.toBytes? <;> simp [hi] at h; subst h; simp [conf]
      | bool => simp only [stF] at h; cases h; simp [conf]
      | enum e =>
        simp only [stF] at h
        unfold enumOf at h
        split at h
        · rename_i e' m'
          split at h
          · rename_i hc; cases h; simp at hc; simp [conf, hc.1, hc.2]
          · cases h
        · cases hi : enumIdx (w.members e) o with
          | none => simp [hi] at h
          | some j => simp [hi] at h; subst h; simp [conf, enumIdx_lt hi]
      | lit vs =>
        simp only [stF] at h
        simpa [conf] using litStruct_litConf w h
      | coll k t' =>
        cases hit : iterItems o with
        | none => rw [stF_coll_none w cfg hit] at h; exact Leaf.sound w cfg hw _ _ o v h
        | some xs =>
          rw [stF_coll_some w cfg hit] at h
          have hlt := iterItems_lt hit
          cases hf : stFL w cfg t' xs with
          | none => simp [hf] at h
          | some ys =>
            simp only [hf] at h
            have hL := (confL_iff w t' ys).mp (soundL w cfg t' xs
              (fun x hx v' hv => IHo t' x (by have := List.sizeOf_lt_of_mem hx; omega) (PM.coll hp) v' hv) ys hf)
            unfold finishColl at h
            by_cases hs : k.structTo.isSet = true
            · simp only [hs, if_true] at h
              by_cases hz : hashableL w ys = true
              · simp only [hz, if_true] at h; cases h
                simp only [conf, beq_self_eq_true, Bool.true_and, Bool.and_eq_true, hs, Bool.not_true,
                  Bool.false_or, mkSet_nodup]
                exact ⟨(confL_iff w t' _).mpr (fun x hx => hL x (mkSet_mem hx)),
                  hashableL_of_subset w (fun z hz' => mkSet_mem hz') hz⟩
              · simp [hz] at h
            · have hs' : k.structTo.isSet = false := by simpa using hs
              simp only [hs', Bool.false_eq_true, if_false] at h; cases h
              simp [conf, hs', (confL_iff w t' ys).mpr hL]
      | tupleHet ts =>
        cases hit : iterItems o with
        | none => rw [stF_tup_none w cfg hit] at h; exact Leaf.sound w cfg hw _ _ o v h
        | some xs =>
          rw [stF_tup_some w cfg hit] at h
          have hlt := iterItems_lt hit
          cases hf : stFT w cfg ts xs with
          | none => simp [hf] at h
          | some ys =>
            simp [hf] at h; subst h
            simpa [conf] using soundT w cfg ts xs
              (fun t' ht' x hx v' hv => IHo t' x (by have := List.sizeOf_lt_of_mem hx; omega) (PM.tup hp t' ht') v' hv) ys hf
      | map k kt vt =>
        cases o with
        | dict kvs =>
          rw [stF] at h
          cases hf : stFKV w cfg kt vt kvs with
          | none => simp [hf] at h
          | some r =>
            simp only [hf] at h
            by_cases hz : hashableL w (keysOf r) = true
            · simp only [hz, if_true] at h; cases h
              have hKV := (confKV_iff w kt vt r).mp (soundKV w cfg kt vt kvs (fun p hpm => by
                have h1 := List.sizeOf_lt_of_mem hpm
                obtain ⟨a, b⟩ := p
                simp only [Prod.mk.sizeOf_spec] at h1
                exact ⟨fun v' hv => IHo kt a (by simp; omega) (PM.mapK hp) v' hv,
                  fun v' hv => IHo vt b (by simp; omega) (PM.mapV hp) v' hv⟩) r hf)
              refine conf_mapRes w cfg k kt vt _ (PM.mapT hp) ⟨(confKV_iff w kt vt _).mpr ⟨fun a ha => hKV.1 a (mkDict_keys_mem ha),
                fun b hb => hKV.2 b (mkDict_vals_mem hb)⟩, mkDict_keys_nodup _, ?_⟩
              exact hashableL_of_subset w (fun z hz' => mkDict_keys_mem hz') hz
            · simp [hz] at h
        | _ => simp [stF] at h
      | opt t' =>
        have hsz : sizeOf t' ≤ m := by simp at ht; omega
        cases o with
        | none => simp [stF] at h; subst h; simp [conf]
        | _ =>
          simp only [stF] at h
          have := ihm t' _ v ho hsz (PM.opt hp) h
          cases v <;> simp_all [conf]
      | wrap k t' =>
        have hsz : sizeOf t' ≤ m := by simp at ht; omega
        simp only [stF] at h
        simpa [conf] using ihm t' o v ho hsz (PM.wrap hp) h
      | cls c =>
        have hdef : ∀ f ∈ w.fields c, ∀ d, f.dflt.value? = some d → fconf w f d = true := hw.defaultsOK c
        by_cases htup : cfg.tupleStrat = true
        · rw [stF_cls_tuple w cfg htup] at h
          cases hit : iterItems o with
          | none => simp only [hit] at h; exact Leaf.sound w cfg hw _ _ o v h
          | some xs =>
            simp only [hit] at h
            have hlt := iterItems_lt hit
            cases hf : stFFieldsT w cfg (w.fields c) xs with
            | none => simp [hf] at h
            | some fs =>
              simp [hf] at h; subst h
              simpa [conf] using soundFieldsT w cfg (w.fields c) xs
                (fun f hf' x hx t' ht' v' hv => IHo t' x (by have := List.sizeOf_lt_of_mem hx; omega) (PM.field hwm hf' ht') v' hv) hdef fs hf
        · have htup' : cfg.tupleStrat = false := by simpa using htup
          cases o with
          | dict kvs =>
            rw [stF_cls_dict w cfg htup'] at h
            cases hf : stFFields w cfg (w.fields c) kvs with
            | none => simp [hf] at h
            | some fs =>
              simp only [hf] at h
              split at h
              · cases h
              · cases h
                simpa [conf] using soundFields w cfg kvs (w.fields c)
                  (fun f hf' x hx t' ht' v' hv => IHo t' x (by have := dlookup_lt hx; simp; omega) (PM.field hwm hf' ht') v' hv) hdef fs hf
          | _ =>
            rw [stF_cls_other w cfg htup' (by intro kvs h; cases h)] at h
            have key : ∀ fs, defaultsOf (w.fields c) = some fs → conf w (.cls c) (.inst c fs) = true := by
              intro fs hfs; simpa [conf] using defaultsOf_conf w (w.fields c) hdef fs hfs
            split at h
            · unfold nonMappingClsGen at h
              split at h
              · cases h
              · split at h
                · cases hd : defaultsOf (w.fields c) with
                  | none => simp [hd] at h
                  | some fs => simp [hd] at h; subst h; exact key fs hd
                · cases h
            · unfold nonMappingClsInterp at h
              split at h
              · cases hd : defaultsOf (w.fields c) with
                | none => simp [hd] at h
                | some fs => simp [hd] at h; subst h; exact key fs hd
              · cases h
      | td c =>
        cases o with
        | dict kvs =>
          rw [stF] at h
          by_cases hg : cfg.gen = true
          · simp only [hg, Bool.not_true, Bool.false_eq_true, if_false] at h
            cases hf : stFTD w cfg (w.fields c) kvs kvs with
            | none => simp [hf] at h
            | some r =>
              simp only [hf] at h
              split at h
              · cases h
              · cases h
                have := soundTD w cfg kvs (w.fields c) kvs r
                  (fun f hf' x hx t' ht' v' hv => IHo t' x (by have := dlookup_lt hx; simp; omega) (PM.field hwm hf' ht') v' hv)
                  rfl (hw.namesNodup c) hf
                simpa [conf] using (confTD_iff w r (w.fields c)).mpr this.2.1
          · simp [hg] at h
        | _ => simp [stF] at h
      | union cs hn =>
        rw [stF_union] at h
        cases hp : unionPick w cs hn o with
        | ok k =>
          simp only [hp] at h
          by_cases hk : k ∈ cs
          · simp only [hk, if_true] at h
            have hc := ihm (.cls k) o v ho (by have := sizeOf_cls_lt_union hk hn; omega) PM.cls h
            cases v <;> simp [conf] at hc
            rename_i c' fs
            simp only [conf, Bool.and_eq_true, List.contains_iff_mem]
            exact ⟨by rw [← hc.1]; simpa using hk, by rw [← hc.1]; exact hc.2⟩
          · simp [hk] at h
        | none =>
          simp only [hp] at h; cases h
          simp [conf, (unionPick_none hp).1]
        | refuseCreate => simp [hp] at h
        | refuseResolve => simp [hp] at h
      | nt c =>
        cases hit : iterItems o with
        | none => rw [stF_nt_none w cfg hit] at h; exact Leaf.sound w cfg hw _ _ o v h
        | some xs =>
          rw [stF_nt_some w cfg hit] at h
          have hlt := iterItems_lt hit
          by_cases hnt : w.isNT c = true
          · rw [if_pos hnt] at h
            cases hf : stFT w cfg (w.ntTys c) xs with
            | none => simp [hf] at h
            | some ys =>
              simp [hf] at h; subst h
              have hT := soundT w cfg (w.ntTys c) xs
                (fun t' ht' x hx v' hv => IHo t' x (by have := List.sizeOf_lt_of_mem hx; omega) (PM.ntTy hwm ht') v' hv) ys hf
              have hlen : (w.ntNames c).length = ys.length := by
                rw [confT_length w _ _ hT, ntTys_length]
              simp only [ntMk, conf, beq_self_eq_true, hnt, Bool.true_and, Bool.and_eq_true]
              rw [names_zip hlen, vals_zip hlen]
              exact ⟨by simp, hT⟩
          · simp [hnt] at h

theorem sound (hw : w.WF) (t : Ty) (hm : MapsInScope w cfg t) (o v : Obj) (h : stF w cfg t o = some v) : conf w t v = true :=
  sound_aux w cfg hw (hm.imp id (·.1)) (sizeOf o) (sizeOf t) t o v (Nat.le_refl _) (Nat.le_refl _) (hm.imp id (·.2)) h

/-- a present but invalid value of a typed, initialised field makes the whole class fail -/
theorem stFFields_present_invalid (kvs : List (Obj × Obj)) : ∀ (fds : List Field) (f : Field) (x : Obj),
    f ∈ fds → f.init = true → dlookup kvs f.key = some x → hF w cfg f x = Option.none →
    stFFields w cfg fds kvs = Option.none := by
  intro fds
  induction fds with
  | nil => intro f x hf; cases hf
  | cons g fds ih =>
    intro f x hf hi hl hh
    rcases List.mem_cons.mp hf with e | hf'
    · subst e
      rw [stFFields_present w cfg hi hl, hh]
    · have hrest := ih f x hf' hi hl hh
      by_cases hgi : g.init = true
      · cases hgl : dlookup kvs g.key with
        | none => rw [stFFields_absent w cfg hgi hgl, hrest]; cases g.dflt.value? <;> rfl
        | some y => rw [stFFields_present w cfg hgi hgl, hrest]; cases hF w cfg g y <;> rfl
      · have hgi' : g.init = false := by simpa using hgi
        rw [stFFields_noinit w cfg hgi', hrest]; cases g.dflt.value? <;> rfl


end CattrsModel
