import CattrsModel.Lemmas.Unfold
import CattrsModel.Lemmas.Assoc
import CattrsModel.Lemmas.UnionBridge
/-!
# C02 core, helper lemmas: conformance of lists / fields built by the structuring helpers
-/
namespace CattrsModel

/-- field-level conformance (untyped fields hold anything) -/
def fconf (w : World) (f : Field) (x : Obj) : Bool :=
  match f.ty with | Option.none => true | some t => conf w t x

/-- Well-formed class tables: defaults conform to their field's type; field names are distinct. -/
structure World.WF (w : World) : Prop where
  defaultsOK : ∀ c, ∀ f ∈ w.fields c, ∀ d, f.dflt.value? = some d → fconf w f d = true
  namesNodup : ∀ c, ((w.fields c).map (·.name)).Nodup

variable (w : World) (cfg : Cfg)

theorem confF_cons (f : Field) (fds : List Field) (n : String) (x : Obj) (rest : List (String × Obj)) :
    confF w (f :: fds) ((n, x) :: rest)
      = (f.name == n && fconf w f x && (f.init || f.dflt.value? == some x) && confF w fds rest) := by
  rw [confF]; unfold fconf; cases f.ty <;> rfl

theorem confL_iff (t : Ty) (xs : List Obj) : confL w t xs = true ↔ ∀ x ∈ xs, conf w t x = true := by
  induction xs with
  | nil => simp [confL]
  | cons x xs ih => simp [confL, ih]

theorem confKV_iff (kt vt : Ty) (kvs : List (Obj × Obj)) :
    confKV w kt vt kvs = true ↔ (∀ a ∈ keysOf kvs, conf w kt a = true) ∧ (∀ b ∈ kvs.map (·.2), conf w vt b = true) := by
  induction kvs with
  | nil => simp [confKV, keysOf]
  | cons p rest ih =>
    obtain ⟨a, b⟩ := p
    simp only [confKV, Bool.and_eq_true, ih, keysOf, List.map_cons, List.mem_cons, forall_eq_or_imp]
    constructor
    · rintro ⟨⟨h1, h2⟩, h3, h4⟩; exact ⟨⟨h1, h3⟩, h2, h4⟩
    · rintro ⟨⟨h1, h3⟩, h2, h4⟩; exact ⟨⟨h1, h2⟩, h3, h4⟩

theorem soundL (t : Ty) (xs : List Obj)
    (ih : ∀ x ∈ xs, ∀ v, stF w cfg t x = some v → conf w t v = true) :
    ∀ ys, stFL w cfg t xs = some ys → confL w t ys = true := by
  induction xs with
  | nil => intro ys h; simp [stFL] at h; subst h; simp [confL]
  | cons x xs ihx =>
    intro ys h
    rw [stFL] at h
    cases hx : stF w cfg t x with
    | none => simp [hx] at h
    | some y =>
      simp only [hx] at h
      cases hr : stFL w cfg t xs with
      | none => simp [hr] at h
      | some zs =>
        simp [hr] at h; subst h
        simp [confL, ih x (by simp) y hx, ihx (fun z hz => ih z (by simp [hz])) zs hr]

theorem soundT : ∀ (ts : List Ty) (xs : List Obj),
    (∀ t ∈ ts, ∀ x ∈ xs, ∀ v, stF w cfg t x = some v → conf w t v = true) →
    ∀ ys, stFT w cfg ts xs = some ys → confT w ts ys = true := by
  intro ts
  induction ts with
  | nil => intro xs _ ys h; cases xs <;> simp [stFT] at h; subst h; simp [confT]
  | cons t ts iht =>
    intro xs ih ys h
    cases xs with
    | nil => simp [stFT] at h
    | cons x xs =>
      rw [stFT] at h
      cases hx : stF w cfg t x with
      | none => simp [hx] at h
      | some y =>
        simp only [hx] at h
        cases hr : stFT w cfg ts xs with
        | none => simp [hr] at h
        | some zs =>
          simp [hr] at h; subst h
          simp [confT, ih t (by simp) x (by simp) y hx,
            iht xs (fun t' ht' z hz => ih t' (by simp [ht']) z (by simp [hz])) zs hr]

theorem soundKV (kt vt : Ty) (kvs : List (Obj × Obj))
    (ih : ∀ p ∈ kvs, (∀ v, stF w cfg kt p.1 = some v → conf w kt v = true) ∧
                      (∀ v, stF w cfg vt p.2 = some v → conf w vt v = true)) :
    ∀ r, stFKV w cfg kt vt kvs = some r → confKV w kt vt r = true := by
  induction kvs with
  | nil => intro r h; simp [stFKV] at h; subst h; simp [confKV]
  | cons p rest ihr =>
    obtain ⟨a, b⟩ := p
    intro r h
    rw [stFKV] at h
    cases ha : stF w cfg kt a with
    | none => simp [ha] at h
    | some a' =>
      cases hb : stF w cfg vt b with
      | none => simp [ha, hb] at h
      | some b' =>
        simp only [ha, hb] at h
        cases hr : stFKV w cfg kt vt rest with
        | none => simp [hr] at h
        | some r' =>
          simp [hr] at h; subst h
          have hp := ih (a, b) (by simp)
          simp [confKV, hp.1 a' ha, hp.2 b' hb, ihr (fun q hq => ih q (by simp [hq])) r' hr]

theorem hF_sound {f : Field} {x y : Obj}
    (ih : ∀ t, f.ty = some t → ∀ v, stF w cfg t x = some v → conf w t v = true)
    (h : hF w cfg f x = some y) : fconf w f y = true := by
  unfold hF at h; unfold fconf
  cases hty : f.ty with
  | none => rfl
  | some t => simp only [hty] at h ⊢; exact ih t hty y h

theorem soundFields (kvs : List (Obj × Obj)) : ∀ (fds : List Field),
    (∀ f ∈ fds, ∀ x, dlookup kvs f.key = some x → ∀ t, f.ty = some t → ∀ v, stF w cfg t x = some v → conf w t v = true) →
    (∀ f ∈ fds, ∀ d, f.dflt.value? = some d → fconf w f d = true) →
    ∀ fs, stFFields w cfg fds kvs = some fs → confF w fds fs = true := by
  intro fds
  induction fds with
  | nil => intro _ _ fs h; simp [stFFields] at h; subst h; simp [confF]
  | cons f fds ihf =>
    intro ih hd fs h
    have hrest := ihf (fun g hg => ih g (by simp [hg])) (fun g hg => hd g (by simp [hg]))
    have fin : ∀ (v : Obj), fconf w f v = true → (f.init = true ∨ f.dflt.value? = some v) →
        ∀ fs, Option.map (fun r => (f.name, v) :: r) (stFFields w cfg fds kvs) = some fs → confF w (f :: fds) fs = true := by
      intro v hv hi fs h
      cases hr : stFFields w cfg fds kvs with
      | none => simp [hr] at h
      | some r =>
        simp [hr] at h; subst h
        simp only [confF_cons, beq_self_eq_true, Bool.true_and, Bool.and_eq_true, hrest r hr, and_true]
        refine ⟨hv, ?_⟩
        rcases hi with hi | hi
        · simp [hi]
        · simp [hi]
    by_cases hinit : f.init = true
    · cases hl : dlookup kvs f.key with
      | none =>
        rw [stFFields_absent w cfg hinit hl] at h
        cases hdv : f.dflt.value? with
        | none => simp [hdv] at h
        | some d => simp only [hdv] at h; exact fin d (hd f (by simp) d hdv) (Or.inl hinit) fs h
      | some x =>
        rw [stFFields_present w cfg hinit hl] at h
        cases hh : hF w cfg f x with
        | none => simp [hh] at h
        | some y =>
          simp only [hh] at h
          exact fin y (hF_sound w cfg (ih f (by simp) x hl) hh) (Or.inl hinit) fs h
    · have hinit' : f.init = false := by simpa using hinit
      rw [stFFields_noinit w cfg hinit'] at h
      cases hdv : f.dflt.value? with
      | none => simp [hdv] at h
      | some d => simp only [hdv] at h; exact fin d (hd f (by simp) d hdv) (Or.inr hdv) fs h

theorem soundFieldsT : ∀ (fds : List Field) (xs : List Obj),
    (∀ f ∈ fds, ∀ x ∈ xs, ∀ t, f.ty = some t → ∀ v, stF w cfg t x = some v → conf w t v = true) →
    (∀ f ∈ fds, ∀ d, f.dflt.value? = some d → fconf w f d = true) →
    ∀ fs, stFFieldsT w cfg fds xs = some fs → confF w fds fs = true := by
  intro fds
  induction fds with
  | nil => intro xs _ _ fs h; cases xs <;> simp [stFFieldsT] at h <;> subst h <;> simp [confF]
  | cons f fds ihf =>
    intro xs ih hd fs h
    have fin : ∀ (xs' : List Obj), (∀ y ∈ xs', y ∈ xs) → ∀ (v : Obj), fconf w f v = true →
        (f.init = true ∨ f.dflt.value? = some v) →
        ∀ fs, Option.map (fun r => (f.name, v) :: r) (stFFieldsT w cfg fds xs') = some fs → confF w (f :: fds) fs = true := by
      intro xs' hsub v hv hi fs h
      cases hr : stFFieldsT w cfg fds xs' with
      | none => simp [hr] at h
      | some r =>
        simp [hr] at h; subst h
        have hrest := ihf xs' (fun g hg y hy => ih g (by simp [hg]) y (hsub y hy)) (fun g hg => hd g (by simp [hg])) r hr
        simp only [confF_cons, beq_self_eq_true, Bool.true_and, Bool.and_eq_true, hrest, and_true]
        refine ⟨hv, ?_⟩
        rcases hi with hi | hi
        · simp [hi]
        · simp [hi]
    cases xs with
    | nil =>
      rw [stFFieldsT] at h
      cases hdv : f.dflt.value? with
      | none => simp [hdv] at h
      | some d =>
        simp only [hdv] at h
        by_cases hinit : f.init = true
        · exact fin [] (by simp) d (hd f (by simp) d hdv) (Or.inl hinit) fs h
        · exact fin [] (by simp) d (hd f (by simp) d hdv) (Or.inr hdv) fs h
    | cons x xs =>
      rw [stFFieldsT] at h
      by_cases hinit : f.init = true
      · simp only [hinit, Bool.not_true, Bool.false_eq_true, if_false] at h
        cases hty : f.ty with
        | none =>
          simp only [hty] at h
          exact fin xs (by simp +contextual) x (by simp [fconf, hty]) (Or.inl hinit) fs h
        | some t =>
          simp only [hty] at h
          cases hx : stF w cfg t x with
          | none => simp [hx] at h
          | some y =>
            simp only [hx] at h
            exact fin xs (by simp +contextual) y (by simpa [fconf, hty] using ih f (by simp) x (by simp) t hty y hx)
              (Or.inl hinit) fs h
      · have hinit' : f.init = false := by simpa using hinit
        simp only [hinit', Bool.not_false, if_true] at h
        cases hdv : f.dflt.value? with
        | none => simp [hdv] at h
        | some d =>
          simp only [hdv] at h
          exact fin xs (by simp +contextual) d (hd f (by simp) d hdv) (Or.inr hdv) fs h

/-! ### TypedDicts -/

/-- what a TypedDict payload must satisfy for one declared key -/
def tdFieldOK (f : Field) (kvs : List (Obj × Obj)) : Prop :=
  match dlookup kvs f.key with
  | Option.none => f.required = false
  | some x => fconf w f x = true

theorem confTD_iff (kvs : List (Obj × Obj)) : ∀ fds : List Field,
    confTD w fds kvs = true ↔ ∀ f ∈ fds, tdFieldOK w f kvs := by
  intro fds
  induction fds with
  | nil => simp [confTD]
  | cons f fds ih =>
    rw [confTD]
    simp only [List.mem_cons, forall_eq_or_imp, ← ih]
    unfold tdFieldOK fconf
    split
    · rename_i h; rw [h]; simp
    · rename_i x h; rw [h]; cases f.ty <;> simp

theorem soundTD (kvs : List (Obj × Obj)) : ∀ (fds : List Field) (res r : List (Obj × Obj)),
    (∀ f ∈ fds, ∀ x, dlookup kvs f.key = some x → ∀ t, f.ty = some t → ∀ v, stF w cfg t x = some v → conf w t v = true) →
    keysOf res = keysOf kvs →
    (fds.map (·.name)).Nodup →
    stFTD w cfg fds kvs res = some r →
    keysOf r = keysOf kvs ∧ (∀ f ∈ fds, tdFieldOK w f r) ∧
      (∀ b : String, (∀ f ∈ fds, f.name ≠ b) → dlookup r (.str b) = dlookup res (.str b)) := by
  intro fds
  induction fds with
  | nil => intro res r _ hk _ h; simp [stFTD] at h; subst h; simp [hk]
  | cons f fds ihf =>
    intro res r ih hk hnd h
    rw [List.map_cons, List.nodup_cons] at hnd
    have hnd' : (fds.map (·.name)).Nodup := hnd.2
    have hfresh : ∀ g ∈ fds, g.name ≠ f.name := by
      intro g hg e
      exact hnd.1 (by rw [← e]; exact List.mem_map_of_mem hg)
    cases hl : dlookup kvs f.key with
    | none =>
      rw [stFTD_absent w cfg hl] at h
      by_cases hr : f.required = true
      · simp [hr] at h
      · simp only [hr, Bool.false_eq_true, if_false] at h
        obtain ⟨h1, h2, h3⟩ := ihf res r (fun g hg => ih g (by simp [hg])) hk hnd' h
        refine ⟨h1, ?_, fun b hb => h3 b (fun g hg => hb g (by simp [hg]))⟩
        intro g hg
        rcases List.mem_cons.mp hg with e | hg
        · subst e
          unfold tdFieldOK
          have : dlookup r g.key = Option.none := by
            have hres : dlookup res g.key = Option.none := by
              rw [dlookup_none_iff, hk, ← dlookup_none_iff]; exact hl
            have := h3 g.name hfresh
            simpa [Field.key, this] using hres
          rw [this]; simpa using hr
        · exact h2 g hg
    | some x =>
      rw [stFTD_present w cfg hl] at h
      cases hh : hF w cfg f x with
      | none => simp [hh] at h
      | some y =>
        simp only [hh] at h
        have hy : fconf w f y = true := hF_sound w cfg (ih f (by simp) x hl) hh
        have hpres : Obj.memPy f.key (keysOf res) = true := by
          rw [hk]
          cases hm : Obj.memPy f.key (keysOf kvs)
          · rw [← dlookup_none_iff] at hm; rw [hm] at hl; cases hl
          · rfl
        have hk' : keysOf (dictSet res f.key y) = keysOf kvs := by rw [keysOf_dictSet_present hpres, hk]
        obtain ⟨h1, h2, h3⟩ := ihf (dictSet res f.key y) r (fun g hg => ih g (by simp [hg])) hk' hnd' h
        refine ⟨h1, ?_, ?_⟩
        · intro g hg
          rcases List.mem_cons.mp hg with e | hg
          · subst e
            unfold tdFieldOK
            have : dlookup r g.key = some y := by
              have := h3 g.name hfresh
              simp only [Field.key] at this ⊢
              rw [this]; exact dlookup_dictSet_same res _ y
            rw [this]; exact hy
          · exact h2 g hg
        · intro b hb
          rw [h3 b (fun g hg => hb g (by simp [hg]))]
          exact dlookup_dictSet_str_other res (hb f (by simp)) y

theorem defaultsOf_conf : ∀ (fds : List Field),
    (∀ f ∈ fds, ∀ d, f.dflt.value? = some d → fconf w f d = true) →
    ∀ fs, defaultsOf fds = some fs → confF w fds fs = true := by
  intro fds
  induction fds with
  | nil => intro _ fs h; simp [defaultsOf] at h; subst h; simp [confF]
  | cons f fds ih =>
    intro hd fs h
    rw [defaultsOf] at h
    cases hv : f.dflt.value? with
    | none => simp [hv] at h
    | some d =>
      cases hr : defaultsOf fds with
      | none => simp [hv, hr] at h
      | some r =>
        simp [hv, hr] at h; subst h
        simp [confF_cons, hd f (by simp) d hv, hv, ih (fun g hg => hd g (by simp [hg])) r hr]

theorem confT_length : ∀ (ts : List Ty) (xs : List Obj), confT w ts xs = true → xs.length = ts.length := by
  intro ts
  induction ts with
  | nil => intro xs h; cases xs <;> simp_all [confT]
  | cons t ts ih =>
    intro xs h
    cases xs with
    | nil => simp [confT] at h
    | cons x xs => simp only [confT, Bool.and_eq_true] at h; simp [ih xs h.2]


/-! ### mapping target classes -/

theorem conf_mapRes (k : MK) (kt vt : Ty) (kvs : List (Obj × Obj))
    (hp : cfg.gen = true ∨ k.target = Option.none)
    (h : confKV w kt vt kvs = true ∧ nodupPy (keysOf kvs) = true ∧ hashableL w (keysOf kvs) = true) :
    conf w (.map k kt vt) (mapRes cfg k kvs) = true := by
  obtain ⟨h1, h2, h3⟩ := h
  unfold mapRes
  by_cases hg : cfg.gen = true
  · simp only [hg, if_true]
    unfold mkMapObj
    cases ht : k.target with
    | none => simp [conf, h1, h2, h3, ht]
    | some d => simp [conf, h1, h2, h3, ht]
  · have hk : k.target = Option.none := by
      rcases hp with hp | hp
      · exact absurd hp hg
      · exact hp
    simp [hg, conf, h1, h2, h3, hk]

namespace PM
variable {w cfg}
variable {g : Prop}

theorem coll {k : SK} {t : Ty} (h : g ∨ (Ty.coll k t).plainMaps = true) : g ∨ t.plainMaps = true :=
  h.imp id (by simp only [Ty.plainMaps]; exact id)
theorem opt {t : Ty} (h : g ∨ (Ty.opt t).plainMaps = true) : g ∨ t.plainMaps = true :=
  h.imp id (by simp only [Ty.plainMaps]; exact id)
theorem wrap {k : WK} {t : Ty} (h : g ∨ (Ty.wrap k t).plainMaps = true) : g ∨ t.plainMaps = true :=
  h.imp id (by simp only [Ty.plainMaps]; exact id)
theorem plainMapsL_mem : ∀ {ts : List Ty}, Ty.plainMapsL ts = true → ∀ t ∈ ts, t.plainMaps = true
  | [], _, t, ht => by cases ht
  | t0 :: ts, h, t, ht => by
    simp only [Ty.plainMapsL, Bool.and_eq_true] at h
    rcases List.mem_cons.mp ht with rfl | ht'
    · exact h.1
    · exact plainMapsL_mem h.2 t ht'
theorem tup {ts : List Ty} (h : g ∨ (Ty.tupleHet ts).plainMaps = true) : ∀ t ∈ ts, g ∨ t.plainMaps = true :=
  fun t ht => h.imp id (by simp only [Ty.plainMaps]; exact fun h' => plainMapsL_mem h' t ht)
theorem mapK {k : MK} {kt vt : Ty} (h : g ∨ (Ty.map k kt vt).plainMaps = true) : g ∨ kt.plainMaps = true :=
  h.imp id (by simp only [Ty.plainMaps, Bool.and_eq_true]; exact fun h' => h'.1.2)
theorem mapV {k : MK} {kt vt : Ty} (h : g ∨ (Ty.map k kt vt).plainMaps = true) : g ∨ vt.plainMaps = true :=
  h.imp id (by simp only [Ty.plainMaps, Bool.and_eq_true]; exact fun h' => h'.2)
theorem mapT {k : MK} {kt vt : Ty} (h : g ∨ (Ty.map k kt vt).plainMaps = true) : g ∨ k.target = Option.none :=
  h.imp id (by simp only [Ty.plainMaps, Bool.and_eq_true, Option.isNone_iff_eq_none]; exact fun h' => h'.1.1)
theorem field {c : Nat} {f : Field} {t : Ty} (h : g ∨ w.plainMaps) (hf : f ∈ w.fields c) (ht : f.ty = some t) :
    g ∨ t.plainMaps = true := h.imp id (fun h' => h' c f hf t ht)
theorem ntTy {c : Nat} {t : Ty} (h : g ∨ w.plainMaps) (ht : t ∈ w.ntTys c) : g ∨ t.plainMaps = true := by
  refine h.imp id (fun h' => ?_)
  simp only [World.ntTys, List.mem_map] at ht
  obtain ⟨f, hf, rfl⟩ := ht
  unfold Field.tyA
  cases hty : f.ty with
  | none => simp [Ty.plainMaps]
  | some t' => exact h' c f hf t' hty
theorem cls {c : Nat} : g ∨ (Ty.cls c).plainMaps = true := Or.inr (by simp [Ty.plainMaps])
end PM

end CattrsModel
