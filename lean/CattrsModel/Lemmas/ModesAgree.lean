import CattrsModel.Lemmas.Unfold
/-!
# C04 core: the detailed and the fast structure templates accept the same inputs with equal results
-/
namespace CattrsModel

theorem stFL_any (w : World) (cfg : Cfg) (xs : List Obj) : stFL w cfg .any xs = some xs := by
  induction xs with
  | nil => simp [stFL]
  | cons x xs ih => simp [stFL, stF, ih]

/-- homogeneous collections -/
theorem stDL_agree (w : World) (cfg : Cfg) (t : Ty) (xs : List Obj)
    (ih : ∀ x ∈ xs, Res.toOption (stD w cfg t x) = stF w cfg t x) :
    ∀ (isSet : Bool) (ix : Nat),
      match stFL w cfg t xs with
      | some zs => if !isSet || hashableL w zs then stDL w cfg t isSet ix xs = (zs, [])
                   else (stDL w cfg t isSet ix xs).2 ≠ []
      | Option.none => (stDL w cfg t isSet ix xs).2 ≠ [] := by
  induction xs with
  | nil => intro isSet ix; simp [stFL, stDL, hashableL]
  | cons x xs ihx =>
    intro isSet ix
    have hx := ih x (by simp)
    have hrest := ihx (fun y hy => ih y (by simp [hy])) isSet (ix + 1)
    rw [stFL, stDL]
    cases hd : stD w cfg t x with
    | error e =>
      have : stF w cfg t x = Option.none := by rw [← hx, hd]; rfl
      simp [this]
    | ok y =>
      have hf : stF w cfg t x = some y := by rw [← hx, hd]; rfl
      simp only [hf]
      cases hr : stFL w cfg t xs with
      | none =>
        simp only [hr] at hrest
        simp only [Option.map_none]
        split <;> simp_all
      | some zs =>
        simp only [hr] at hrest
        simp only [Option.map_some]
        by_cases hs : isSet = true
        · subst hs
          simp only [Bool.not_true, Bool.false_or, hashableL, Bool.and_eq_true] at *
          by_cases hy : hashable w y = true
          · by_cases hz : hashableL w zs = true
            · simp_all
            · simp_all
          · simp_all
        · simp_all

/-- heterogeneous tuples: `zip` then the arity test -/
theorem stDT_agree (w : World) (cfg : Cfg) :
    ∀ (ts : List Ty) (xs : List Obj),
      (∀ t ∈ ts, ∀ x ∈ xs, Res.toOption (stD w cfg t x) = stF w cfg t x) →
      ∀ ix : Nat,
      match stFT w cfg ts xs with
      | some zs => stDT w cfg ix ts xs = (zs, []) ∧ xs.length = ts.length
      | Option.none => (stDT w cfg ix ts xs).2 ≠ [] ∨ xs.length ≠ ts.length := by
  intro ts
  induction ts with
  | nil =>
    intro xs _ ix
    cases xs <;> simp [stFT, stDT]
  | cons t ts iht =>
    intro xs ih ix
    cases xs with
    | nil => simp [stFT, stDT]
    | cons x xs =>
      have hx := ih t (by simp) x (by simp)
      have hrest := iht xs (fun t' ht' y hy => ih t' (by simp [ht']) y (by simp [hy])) (ix + 1)
      rw [stFT, stDT]
      cases hd : stD w cfg t x with
      | error e =>
        have : stF w cfg t x = Option.none := by rw [← hx, hd]; rfl
        simp [this]
      | ok y =>
        have hf : stF w cfg t x = some y := by rw [← hx, hd]; rfl
        simp only [hf]
        cases hr : stFT w cfg ts xs with
        | none =>
          simp only [hr] at hrest
          simp only [Option.map_none]
          rcases hrest with h | h
          · left; simpa using h
          · right; simpa using h
        | some zs =>
          simp only [hr] at hrest
          simp [hrest.1, hrest.2]

/-- mappings: value first, then key, then the insertion -/
theorem stDKV_agree (w : World) (cfg : Cfg) (kt vt : Ty) (kvs : List (Obj × Obj))
    (ih : ∀ p ∈ kvs, Res.toOption (stD w cfg kt p.1) = stF w cfg kt p.1 ∧
                      Res.toOption (stD w cfg vt p.2) = stF w cfg vt p.2) :
    match stFKV w cfg kt vt kvs with
    | some r => if hashableL w (keysOf r) then stDKV w cfg kt vt kvs = (r, [])
                else (stDKV w cfg kt vt kvs).2 ≠ []
    | Option.none => (stDKV w cfg kt vt kvs).2 ≠ [] := by
  induction kvs with
  | nil => simp [stFKV, stDKV, keysOf, hashableL]
  | cons p rest ihr =>
    obtain ⟨a, b⟩ := p
    have hp := ih (a, b) (by simp)
    have hrest := ihr (fun q hq => ih q (by simp [hq]))
    rw [stFKV, stDKV]
    cases hdv : stD w cfg vt b with
    | error e =>
      have : stF w cfg vt b = Option.none := by rw [← hp.2, hdv]; rfl
      cases hk : stF w cfg kt a <;> simp [this]
    | ok b' =>
      have hfv : stF w cfg vt b = some b' := by rw [← hp.2, hdv]; rfl
      cases hdk : stD w cfg kt a with
      | error e =>
        have : stF w cfg kt a = Option.none := by rw [← hp.1, hdk]; rfl
        simp [this]
      | ok a' =>
        have hfk : stF w cfg kt a = some a' := by rw [← hp.1, hdk]; rfl
        simp only [hfk, hfv]
        cases hr : stFKV w cfg kt vt rest with
        | none =>
          simp only [hr] at hrest
          simp only [Option.map_none]
          split <;> simp_all
        | some r =>
          simp only [hr] at hrest
          simp only [Option.map_some, keysOf, List.map_cons, hashableL, Bool.and_eq_true]
          by_cases hy : hashable w a' = true
          · by_cases hz : hashableL w (keysOf r) = true
            · simp_all [keysOf]
            · simp_all [keysOf]
          · simp_all [keysOf]

/-- per-field handler: untyped fields pass the raw value through -/
theorem field_agree (w : World) (cfg : Cfg) (f : Field) (x : Obj)
    (ih : ∀ t, f.ty = some t → Res.toOption (stD w cfg t x) = stF w cfg t x) :
    Res.toOption (hD w cfg f x) = hF w cfg f x := by
  unfold hD hF
  cases hty : f.ty with
  | none => rfl
  | some t => exact ih t hty

/-- class fields read by key: the generated detailed hook collects, the interpretive one stops
at the first error, the fast one too — all three accept the same payloads with the same fields -/
theorem stDFields_agree (w : World) (cfg : Cfg) (kvs : List (Obj × Obj)) :
    ∀ fds : List Field,
    (∀ f ∈ fds, ∀ x, dlookup kvs f.key = some x → ∀ t, f.ty = some t →
        Res.toOption (stD w cfg t x) = stF w cfg t x) →
    match stFFields w cfg fds kvs with
    | some fs => stDFields w cfg fds kvs = (fs, []) ∧ stDFieldsI w cfg fds kvs = .ok fs
    | Option.none => (stDFields w cfg fds kvs).2 ≠ [] ∧ ∃ e, stDFieldsI w cfg fds kvs = .error e := by
  intro fds
  induction fds with
  | nil => intro _; simp [stFFields, stDFields, stDFieldsI]
  | cons f fds ihf =>
    intro ih
    have hrest := ihf (fun g hg => ih g (by simp [hg]))
    -- what happens after this field, in the three hooks, given this field contributes `(f.name, v)`
    have step : ∀ v : Obj,
        match Option.map (fun r => (f.name, v) :: r) (stFFields w cfg fds kvs) with
        | some fs => ((f.name, v) :: (stDFields w cfg fds kvs).1, (stDFields w cfg fds kvs).2) = (fs, []) ∧
                     Except.map (fun r => (f.name, v) :: r) (stDFieldsI w cfg fds kvs) = .ok fs
        | Option.none => (stDFields w cfg fds kvs).2 ≠ [] ∧
                     ∃ e, Except.map (fun r => (f.name, v) :: r) (stDFieldsI w cfg fds kvs) = .error e := by
      intro v
      cases hr : stFFields w cfg fds kvs with
      | none =>
        simp only [hr] at hrest
        obtain ⟨h1, e, h2⟩ := hrest
        simp [h1, h2, Except.map]
      | some fs =>
        simp only [hr] at hrest
        simp [hrest.1, hrest.2, Except.map]
    by_cases hinit : f.init = true
    · cases hl : dlookup kvs f.key with
      | none =>
        rw [stFFields_absent w cfg hinit hl, stDFields_absent w cfg hinit hl, stDFieldsI_absent w cfg hinit hl]
        cases hd : f.dflt.value? with
        | none =>
          refine ⟨by simp, ?_⟩
          cases hi : stDFieldsI w cfg fds kvs <;> simp [Except.bind]
        | some d => exact step d
      | some x =>
        rw [stFFields_present w cfg hinit hl, stDFields_present w cfg hinit hl, stDFieldsI_present w cfg hinit hl]
        have hfa := field_agree w cfg f x (ih f (by simp) x hl)
        cases hh : hD w cfg f x with
        | error e =>
          have : hF w cfg f x = Option.none := by rw [← hfa, hh]; rfl
          simp [this]
        | ok y =>
          have hy : hF w cfg f x = some y := by rw [← hfa, hh]; rfl
          simp only [hy]
          exact step y
    · have hinit' : f.init = false := by simpa using hinit
      rw [stFFields_noinit w cfg hinit', stDFields_noinit w cfg hinit', stDFieldsI_noinit w cfg hinit']
      cases hd : f.dflt.value? with
      | none => simp
      | some d => exact step d

/-- tuple strategy (interpretive in both modes) -/
theorem stDFieldsT_agree (w : World) (cfg : Cfg) :
    ∀ (fds : List Field) (xs : List Obj),
    (∀ f ∈ fds, ∀ x ∈ xs, ∀ t, f.ty = some t → Res.toOption (stD w cfg t x) = stF w cfg t x) →
    (match stDFieldsT w cfg fds xs with | .ok fs => some fs | .error _ => Option.none) = stFFieldsT w cfg fds xs := by
  intro fds
  induction fds with
  | nil => intro xs _; cases xs <;> simp [stDFieldsT, stFFieldsT]
  | cons f fds ihf =>
    intro xs ih
    cases xs with
    | nil =>
      have hrest := ihf [] (fun g hg y hy => by simp at hy)
      rw [stDFieldsT, stFFieldsT]
      cases hd : f.dflt.value? with
      | none => rfl
      | some d =>
        simp only []
        rw [← hrest]
        cases stDFieldsT w cfg fds [] <;> simp [Except.map]
    | cons x xs =>
      have hrest := ihf xs (fun g hg y hy => ih g (by simp [hg]) y (by simp [hy]))
      rw [stDFieldsT, stFFieldsT]
      by_cases hinit : f.init = true
      · simp only [hinit, Bool.not_true, Bool.false_eq_true, if_false]
        cases hty : f.ty with
        | none =>
          simp only []
          rw [← hrest]
          cases stDFieldsT w cfg fds xs <;> simp [Except.map]
        | some t =>
          simp only []
          have hx := ih f (by simp) x (by simp) t hty
          cases hd : stD w cfg t x with
          | error e =>
            have : stF w cfg t x = Option.none := by rw [← hx, hd]; rfl
            simp [this]
          | ok y =>
            have hy : stF w cfg t x = some y := by rw [← hx, hd]; rfl
            simp only [hy]
            rw [← hrest]
            cases stDFieldsT w cfg fds xs <;> simp [Except.map]
      · have hinit' : f.init = false := by simpa using hinit
        simp only [hinit', Bool.not_false, if_true]
        cases hd : f.dflt.value? with
        | none => rfl
        | some d =>
          simp only []
          rw [← hrest]
          cases stDFieldsT w cfg fds xs <;> simp [Except.map]

/-- TypedDict copy-then-patch -/
theorem stDTD_agree (w : World) (cfg : Cfg) (kvs : List (Obj × Obj)) :
    ∀ (fds : List Field) (res : List (Obj × Obj)),
    (∀ f ∈ fds, ∀ x, dlookup kvs f.key = some x → ∀ t, f.ty = some t →
        Res.toOption (stD w cfg t x) = stF w cfg t x) →
    match stFTD w cfg fds kvs res with
    | some r => stDTD w cfg fds kvs res = (r, [])
    | Option.none => (stDTD w cfg fds kvs res).2 ≠ [] := by
  intro fds
  induction fds with
  | nil => intro res _; simp [stFTD, stDTD]
  | cons f fds ihf =>
    intro res ih
    have hrest := fun r => ihf r (fun g hg => ih g (by simp [hg]))
    cases hl : dlookup kvs f.key with
    | none =>
      rw [stFTD_absent w cfg hl, stDTD_absent w cfg hl]
      by_cases hr : f.required = true
      · simp [hr]
      · simp only [hr, Bool.false_eq_true, if_false]
        exact hrest res
    | some x =>
      rw [stFTD_present w cfg hl, stDTD_present w cfg hl]
      have hfa := field_agree w cfg f x (ih f (by simp) x hl)
      cases hh : hD w cfg f x with
      | error e =>
        have : hF w cfg f x = Option.none := by rw [← hfa, hh]; rfl
        simp [this]
      | ok y =>
        have hy : hF w cfg f x = some y := by rw [← hfa, hh]; rfl
        simp only [hy]
        exact hrest _

theorem sizeOf_obj_pos (o : Obj) : 0 < sizeOf o := by cases o <;> simp <;> omega
theorem sizeOf_ty_pos (t : Ty) : 0 < sizeOf t := by cases t <;> simp <;> omega

theorem nonMapping_agree (w : World) (cfg : Cfg) (c : Nat) (o : Obj) :
    Res.toOption (nonMappingClsGenD w cfg c o) = nonMappingClsGen w cfg c o := by
  unfold nonMappingClsGenD nonMappingClsGen
  -- the detailed scan succeeds with no recorded error iff every membership test answers False
  have key : ∀ fds : List Field,
      (match nonMappingFieldsD o fds with
        | some errs => errs.isEmpty
        | Option.none => false)
      = fds.all (fun f => f.dflt.value?.isSome && pyContains o f.name == some false) := by
    intro fds
    induction fds with
    | nil => simp [nonMappingFieldsD]
    | cons f fds ih =>
      rw [nonMappingFieldsD, List.all_cons]
      cases hd : f.dflt.value? with
      | none =>
        simp only [Option.isSome_none, Bool.false_eq_true, if_false, Bool.false_and]
        cases nonMappingFieldsD o fds <;> rfl
      | some d =>
        simp only [Option.isSome_some, if_true, Bool.true_and]
        cases hc : pyContains o f.name with
        | none => rfl
        | some b =>
          cases b
          · simp only []
            rw [ih]
            simp
          · simp only []
            cases nonMappingFieldsD o fds <;> simp
  have k := key (initFields (w.fields c))
  cases hn : nonMappingFieldsD o (initFields (w.fields c)) with
  | none =>
    simp only [hn] at k
    by_cases hf : cfg.forbid = true
    · simp [hf, Res.toOption]
    · simp [hf, ← k, Res.toOption]
  | some errs =>
    simp only [hn] at k
    by_cases hf : cfg.forbid = true
    · simp [hf, Res.toOption]
    · simp only [hf, Bool.false_eq_true, if_false, ← k]
      cases he : errs.isEmpty
      · simp [Res.toOption]
      · simp only [Bool.not_true, Bool.false_eq_true, if_false, if_true]
        cases defaultsOf (w.fields c) <;> simp [Res.toOption]

/-- **C04 (core).**  For every type, every input object and every other converter option, the
detailed template accepts exactly when the fast template accepts, with equal results. -/
theorem modes_agree_aux (w : World) (cfg : Cfg) :
    ∀ (n m : Nat) (t : Ty) (o : Obj), sizeOf o ≤ n → sizeOf t ≤ m →
      Res.toOption (stD w cfg t o) = stF w cfg t o := by
  intro n
  induction n with
  | zero => intro m t o ho _; have := sizeOf_obj_pos o; omega
  | succ n ihn =>
    intro m
    induction m with
    | zero => intro t o _ ht; have := sizeOf_ty_pos t; omega
    | succ m ihm =>
      intro t o ho ht
      -- smaller objects: any type
      have IHo : ∀ (t' : Ty) (o' : Obj), sizeOf o' < sizeOf o → Res.toOption (stD w cfg t' o') = stF w cfg t' o' :=
        fun t' o' h => ihn (sizeOf t') t' o' (by omega) (Nat.le_refl _)
      cases t with
      | any => simp [stD, stF, Res.toOption]
      | int => simp only [stD, stF]; cases o.toInt? <;> rfl
      | float => simp only [stD, stF]; cases o.toFlt? <;> rfl
      | str => simp [stD, stF, Res.toOption]
      | bytes => simp only [stD, stF]; cases o.toBytes? <;> rfl
      | bool => simp [stD, stF, Res.toOption]
      | enum e => simp only [stD, stF]; cases enumOf w e o <;> rfl
      | lit vs => simp only [stD, stF]; split <;> rfl
      | coll k t' =>
        cases hit : iterItems o with
        | none => rw [stD_coll_none w cfg hit, stF_coll_none w cfg hit]; rfl
        | some xs =>
          rw [stD_coll_some w cfg hit, stF_coll_some w cfg hit]
          have hlt := iterItems_lt hit
          by_cases hany : t'.isAny = true
          · have : t' = .any := by cases t' <;> simp [Ty.isAny] at hany ⊢
            subst this
            simp only [Ty.isAny, if_true, stFL_any]
            cases finishColl w k.structTo xs <;> rfl
          · simp only [hany, Bool.false_eq_true, if_false]
            have hL := stDL_agree w cfg t' xs
              (fun x hx => IHo t' x (by have := List.sizeOf_lt_of_mem hx; omega)) k.structTo.isSet 0
            cases hf : stFL w cfg t' xs with
            | none =>
              simp only [hf] at hL
              have : (stDL w cfg t' k.structTo.isSet 0 xs).2.isEmpty = false := by
                cases h : (stDL w cfg t' k.structTo.isSet 0 xs).2 <;> simp_all
              simp [this, Res.toOption]
            | some zs =>
              simp only [hf] at hL
              unfold finishColl
              by_cases hs : k.structTo.isSet = true
              · simp only [hs, Bool.not_true, Bool.false_or, if_true] at hL ⊢
                by_cases hz : hashableL w zs = true
                · simp only [hz, if_true] at hL ⊢
                  simp [hL, Res.toOption, mkColl, hs]
                · simp only [hz, Bool.false_eq_true, if_false] at hL ⊢
                  have : (stDL w cfg t' true 0 xs).2.isEmpty = false := by
                    cases h : (stDL w cfg t' true 0 xs).2 <;> simp_all
                  simp [this, Res.toOption]
              · have hs' : k.structTo.isSet = false := by simpa using hs
                simp only [hs', Bool.not_false, Bool.true_or, if_true, Bool.false_eq_true, if_false] at hL ⊢
                simp [hL, Res.toOption, mkColl, hs']
      | tupleHet ts =>
        cases hit : iterItems o with
        | none => rw [stD_tup_none w cfg hit, stF_tup_none w cfg hit]; rfl
        | some xs =>
          rw [stD_tup_some w cfg hit, stF_tup_some w cfg hit]
          have hlt := iterItems_lt hit
          have hT := stDT_agree w cfg ts xs
            (fun t' _ x hx => IHo t' x (by have := List.sizeOf_lt_of_mem hx; omega)) 0
          cases hf : stFT w cfg ts xs with
          | none =>
            simp only [hf] at hT
            simp only [Option.map_none]
            by_cases hlen : xs.length = ts.length
            · have h2 : (stDT w cfg 0 ts xs).2 ≠ [] := by
                rcases hT with h | h
                · exact h
                · exact absurd hlen h
              have : (stDT w cfg 0 ts xs).2.isEmpty = false := by
                cases h : (stDT w cfg 0 ts xs).2 <;> simp_all
              simp [hlen, this, Res.toOption]
            · simp [hlen, Res.toOption]
          | some zs =>
            simp only [hf] at hT
            simp [hT.1, hT.2, Res.toOption]
      | map k kt vt =>
        cases o with
        | dict kvs =>
          rw [stD, stF]
          have hKV := stDKV_agree w cfg kt vt kvs (fun p hp => by
            have h1 := List.sizeOf_lt_of_mem hp
            obtain ⟨a, b⟩ := p
            simp only [Prod.mk.sizeOf_spec] at h1
            exact ⟨IHo kt a (by simp; omega), IHo vt b (by simp; omega)⟩)
          cases hf : stFKV w cfg kt vt kvs with
          | none =>
            simp only [hf] at hKV
            have : (stDKV w cfg kt vt kvs).2.isEmpty = false := by
              cases h : (stDKV w cfg kt vt kvs).2 <;> simp_all
            simp [this, Res.toOption]
          | some r =>
            simp only [hf] at hKV
            by_cases hz : hashableL w (keysOf r) = true
            · simp only [hz, if_true] at hKV ⊢
              simp [hKV, Res.toOption]
            · simp only [hz, Bool.false_eq_true, if_false] at hKV ⊢
              have : (stDKV w cfg kt vt kvs).2.isEmpty = false := by
                cases h : (stDKV w cfg kt vt kvs).2 <;> simp_all
              simp [this, Res.toOption]
        | _ => simp [stD, stF, Res.toOption]
      | opt t' =>
        have hsz : sizeOf t' ≤ m := by simp at ht; omega
        cases o with
        | none => simp [stD, stF, Res.toOption]
        | _ => simpa [stD, stF] using ihm t' _ ho hsz
      | wrap k t' =>
        have hsz : sizeOf t' ≤ m := by simp at ht; omega
        simpa [stD, stF] using ihm t' o ho hsz
      | cls c =>
        by_cases htup : cfg.tupleStrat = true
        · rw [stD_cls_tuple w cfg htup, stF_cls_tuple w cfg htup]
          cases hit : iterItems o with
          | none => rfl
          | some xs =>
            have hlt := iterItems_lt hit
            have hT := stDFieldsT_agree w cfg (w.fields c) xs
              (fun f _ x hx t' _ => IHo t' x (by have := List.sizeOf_lt_of_mem hx; omega))
            simp only []
            rw [← hT]
            cases stDFieldsT w cfg (w.fields c) xs <;> rfl
        · have htup' : cfg.tupleStrat = false := by simpa using htup
          cases o with
          | dict kvs =>
            rw [stD_cls_dict w cfg htup', stF_cls_dict w cfg htup']
            have hF := stDFields_agree w cfg kvs (w.fields c)
              (fun f _ x hx t' _ => IHo t' x (by have := dlookup_lt hx; simp; omega))
            cases hf : stFFields w cfg (w.fields c) kvs with
            | none =>
              simp only [hf] at hF
              obtain ⟨h1, e, h2⟩ := hF
              by_cases hg : cfg.gen = true
              · simp only [hg, if_true]
                have : ∀ extra, ((stDFields w cfg (w.fields c) kvs).2 ++ extra).isEmpty = false := by
                  intro extra; cases h : (stDFields w cfg (w.fields c) kvs).2 <;> simp_all
                have h1' : (stDFields w cfg (w.fields c) kvs).2.isEmpty = false := by
                  cases h : (stDFields w cfg (w.fields c) kvs).2 <;> simp_all
                split <;> simp [this, h1', Res.toOption]
              · simp [hg, h2, wrapInst, Res.toOption]
            | some fs =>
              simp only [hf] at hF
              by_cases hg : cfg.gen = true
              · simp only [hg, if_true, Bool.true_and, hF.1]
                by_cases hx : (cfg.forbid && !(extraKeys (fieldNames (initFields (w.fields c))) kvs).isEmpty) = true
                · simp [hx, Res.toOption]
                · simp [hx, Res.toOption]
              · simp [hg, hF.2, wrapInst, Res.toOption]
          | _ =>
            rw [stD_cls_other w cfg htup' (by intro kvs h; cases h), stF_cls_other w cfg htup' (by intro kvs h; cases h)]
            by_cases hg : cfg.gen = true
            · simp only [hg, if_true]; exact nonMapping_agree w cfg c _
            · simp only [hg, Bool.false_eq_true, if_false]
              cases nonMappingClsInterp w c <;> rfl
      | td c =>
        cases o with
        | dict kvs =>
          rw [stD, stF]
          by_cases hg : cfg.gen = true
          · simp only [hg, Bool.not_true, Bool.false_eq_true, if_false]
            have hT := stDTD_agree w cfg kvs (w.fields c) kvs
              (fun f _ x hx t' _ => IHo t' x (by have := dlookup_lt hx; simp; omega))
            cases hf : stFTD w cfg (w.fields c) kvs kvs with
            | none =>
              simp only [hf] at hT
              have : ∀ extra, ((stDTD w cfg (w.fields c) kvs kvs).2 ++ extra).isEmpty = false := by
                intro extra; cases h : (stDTD w cfg (w.fields c) kvs kvs).2 <;> simp_all
              have h1' : (stDTD w cfg (w.fields c) kvs kvs).2.isEmpty = false := by
                cases h : (stDTD w cfg (w.fields c) kvs kvs).2 <;> simp_all
              split <;> simp [this, h1', Res.toOption]
            | some r =>
              simp only [hf] at hT
              simp only [hT]
              by_cases hx : (cfg.forbid && !(extraKeys (fieldNames (w.fields c)) kvs).isEmpty) = true
              · simp [hx, Res.toOption]
              · simp [hx, Res.toOption]
          · simp [hg, Res.toOption]
        | _ => simp only [stD, stF]; split <;> rfl
      | union cs hn =>
        rw [stD_union, stF_union]
        cases hp : unionPick w cs hn o with
        | ok k =>
          simp only []
          by_cases hk : k ∈ cs
          · simp only [hk, if_true]
            exact ihm (.cls k) o ho (by have := sizeOf_cls_lt_union hk hn; omega)
          · simp [hk, Res.toOption]
        | none => simp [Res.toOption]
        | refuseCreate => simp [Res.toOption]
        | refuseResolve => simp [Res.toOption]
      | nt c =>
        cases hit : iterItems o with
        | none => rw [stD_nt_none w cfg hit, stF_nt_none w cfg hit]; rfl
        | some xs =>
          rw [stD_nt_some w cfg hit, stF_nt_some w cfg hit]
          by_cases hnt : w.isNT c = true
          · simp only [hnt, if_true]
            have hlt := iterItems_lt hit
            have hT := stDT_agree w cfg (w.ntTys c) xs
              (fun t' _ x hx => IHo t' x (by have := List.sizeOf_lt_of_mem hx; omega)) 0
            cases hf : stFT w cfg (w.ntTys c) xs with
            | none =>
              simp only [hf] at hT
              simp only [Option.map_none]
              by_cases hlen : xs.length = (w.ntTys c).length
              · have h2 : (stDT w cfg 0 (w.ntTys c) xs).2 ≠ [] := by
                  rcases hT with h | h
                  · exact h
                  · exact absurd hlen h
                have : (stDT w cfg 0 (w.ntTys c) xs).2.isEmpty = false := by
                  cases h : (stDT w cfg 0 (w.ntTys c) xs).2 <;> simp_all
                simp [hlen, this, Res.toOption]
              · simp [hlen, Res.toOption]
            | some zs =>
              simp only [hf] at hT
              simp [hT.1, hT.2, Res.toOption]
          · simp [hnt, Res.toOption]

theorem modes_agree (w : World) (cfg : Cfg) (t : Ty) (o : Obj) :
    Res.toOption (stD w cfg t o) = stF w cfg t o :=
  modes_agree_aux w cfg (sizeOf o) (sizeOf t) t o (Nat.le_refl _) (Nat.le_refl _)

end CattrsModel
