import CattrsModel.Lemmas.ModesAgreeLeaf
/-!
# C04 core: the detailed and the fast structure templates accept the same inputs with equal results
-/
namespace CattrsModel

/-- **C04 (core).**  For every type, every input object and every other converter option, the
detailed template accepts exactly when the fast template accepts, with equal results. -/
theorem modes_agree_aux (w : World) (cfg : Cfg) :
    ∀ (n m : Nat) (t : Ty) (o : Obj), sizeOf o ≤ n → sizeOf t ≤ m →
      Res.toOption (stD w cfg t o) = stF w cfg t o := by
  intro n
  induction n with
  | zero => intro m t o ho _; have := sizeOf_obj_pos o; omega
  | succ n ihn =>
    intro m
    induction m with
    | zero => intro t o _ ht; have := sizeOf_ty_pos t; omega
    | succ m ihm =>
      intro t o ho ht
      -- smaller objects: any type
      have IHo : ∀ (t' : Ty) (o' : Obj), sizeOf o' < sizeOf o → Res.toOption (stD w cfg t' o') = stF w cfg t' o' :=
        fun t' o' h => ihn (sizeOf t') t' o' (by omega) (Nat.le_refl _)
      cases t with
      | any => simp [stD, stF, Res.toOption]
      | int => simp only [stD, stF]; cases o.toInt? <;> rfl
      | float => simp only [stD, stF]; cases o.toFlt? <;> rfl
      | str => simp [stD, stF, Res.toOption]
      | bytes => simp only [stD, stF]; cases o.toBytes? <;> rfl
      | bool => simp [stD, stF, Res.toOption]
      | enum e => simp only [stD, stF]; cases enumOf w e o <;> rfl
      | lit vs => simp only [stD, stF]; cases litStruct w vs o <;> rfl
      | coll k t' =>
        cases hit : iterItems o with
        | none => rw [stD_coll_none w cfg hit, stF_coll_none w cfg hit]; exact Leaf.modes_agree w cfg _ _ o
        | some xs =>
          rw [stD_coll_some w cfg hit, stF_coll_some w cfg hit]
          have hlt := iterItems_lt hit
          by_cases hany : t'.isAny = true
          · have : t' = .any := by cases t' <;> simp [Ty.isAny] at hany ⊢
            subst this
            simp only [Ty.isAny, if_true, stFL_any]
            cases finishColl w k.structTo xs <;> rfl
          · simp only [hany, Bool.false_eq_true, if_false]
            have hL := stDL_agree w cfg t' xs
              (fun x hx => IHo t' x (by have := List.sizeOf_lt_of_mem hx; omega)) k.structTo.isSet 0
            cases hf : stFL w cfg t' xs with
            | none =>
              simp only [hf] at hL
              have : (stDL w cfg t' k.structTo.isSet 0 xs).2.isEmpty = false := by
                cases h : (stDL w cfg t' k.structTo.isSet 0 xs).2 <;> simp_all
              simp [this, Res.toOption]
            | some zs =>
              simp only [hf] at hL
              unfold finishColl
              by_cases hs : k.structTo.isSet = true
              · simp only [hs, Bool.not_true, Bool.false_or, if_true] at hL ⊢
                by_cases hz : hashableL w zs = true
                · simp only [hz, if_true] at hL ⊢
                  simp [hL, Res.toOption, mkColl, hs]
                · simp only [hz, Bool.false_eq_true, if_false] at hL ⊢
                  have : (stDL w cfg t' true 0 xs).2.isEmpty = false := by
                    cases h : (stDL w cfg t' true 0 xs).2 <;> simp_all
                  simp [this, Res.toOption]
              · have hs' : k.structTo.isSet = false := by simpa using hs
                simp only [hs', Bool.not_false, Bool.true_or, if_true, Bool.false_eq_true, if_false] at hL ⊢
                simp [hL, Res.toOption, mkColl, hs']
      | tupleHet ts =>
        cases hit : iterItems o with
        | none => rw [stD_tup_none w cfg hit, stF_tup_none w cfg hit]; exact Leaf.modes_agree w cfg _ _ o
        | some xs =>
          rw [stD_tup_some w cfg hit, stF_tup_some w cfg hit]
          have hlt := iterItems_lt hit
          have hT := stDT_agree w cfg ts xs
            (fun t' _ x hx => IHo t' x (by have := List.sizeOf_lt_of_mem hx; omega)) 0
          cases hf : stFT w cfg ts xs with
          | none =>
            simp only [hf] at hT
            simp only [Option.map_none]
            by_cases hlen : xs.length = ts.length
            · have h2 : (stDT w cfg 0 ts xs).2 ≠ [] := by
                rcases hT with h | h
                · exact h
                · exact absurd hlen h
              have : (stDT w cfg 0 ts xs).2.isEmpty = false := by
                cases h : (stDT w cfg 0 ts xs).2 <;> simp_all
              simp [hlen, this, Res.toOption]
            · simp [hlen, Res.toOption]
          | some zs =>
            simp only [hf] at hT
            simp [hT.1, hT.2, Res.toOption]
      | map k kt vt =>
        cases o with
        | dict kvs =>
          rw [stD, stF]
          have hKV := stDKV_agree w cfg kt vt kvs (fun p hp => by
            have h1 := List.sizeOf_lt_of_mem hp
            obtain ⟨a, b⟩ := p
            simp only [Prod.mk.sizeOf_spec] at h1
            exact ⟨IHo kt a (by simp; omega), IHo vt b (by simp; omega)⟩)
          cases hf : stFKV w cfg kt vt kvs with
          | none =>
            simp only [hf] at hKV
            have : (stDKV w cfg kt vt kvs).2.isEmpty = false := by
              cases h : (stDKV w cfg kt vt kvs).2 <;> simp_all
            simp [this, Res.toOption]
          | some r =>
            simp only [hf] at hKV
            by_cases hz : hashableL w (keysOf r) = true
            · simp only [hz, if_true] at hKV ⊢
              simp [hKV, Res.toOption]
            · simp only [hz, Bool.false_eq_true, if_false] at hKV ⊢
              have : (stDKV w cfg kt vt kvs).2.isEmpty = false := by
                cases h : (stDKV w cfg kt vt kvs).2 <;> simp_all
              simp [this, Res.toOption]
        | _ => simp [stD, stF, Res.toOption]
      | opt t' =>
        have hsz : sizeOf t' ≤ m := by simp at ht; omega
        cases o with
        | none => simp [stD, stF, Res.toOption]
        | _ => simpa [stD, stF] using ihm t' _ ho hsz
      | wrap k t' =>
        have hsz : sizeOf t' ≤ m := by simp at ht; omega
        simpa [stD, stF] using ihm t' o ho hsz
      | cls c =>
        by_cases htup : cfg.tupleStrat = true
        · rw [stD_cls_tuple w cfg htup, stF_cls_tuple w cfg htup]
          cases hit : iterItems o with
          | none => exact Leaf.modes_agree w cfg _ _ o
          | some xs =>
            have hlt := iterItems_lt hit
            have hT := stDFieldsT_agree w cfg (w.fields c) xs
              (fun f _ x hx t' _ => IHo t' x (by have := List.sizeOf_lt_of_mem hx; omega))
            simp only []
            rw [← hT]
            cases stDFieldsT w cfg (w.fields c) xs <;> rfl
        · have htup' : cfg.tupleStrat = false := by simpa using htup
          cases o with
          | dict kvs =>
            rw [stD_cls_dict w cfg htup', stF_cls_dict w cfg htup']
            have hF := stDFields_agree w cfg kvs (w.fields c)
              (fun f _ x hx t' _ => IHo t' x (by have := dlookup_lt hx; simp; omega))
            cases hf : stFFields w cfg (w.fields c) kvs with
            | none =>
              simp only [hf] at hF
              obtain ⟨h1, e, h2⟩ := hF
              by_cases hg : cfg.gen = true
              · simp only [hg, if_true]
                have : ∀ extra, ((stDFields w cfg (w.fields c) kvs).2 ++ extra).isEmpty = false := by
                  intro extra; cases h : (stDFields w cfg (w.fields c) kvs).2 <;> simp_all
                have h1' : (stDFields w cfg (w.fields c) kvs).2.isEmpty = false := by
                  cases h : (stDFields w cfg (w.fields c) kvs).2 <;> simp_all
                split <;> simp [this, h1', Res.toOption]
              · simp [hg, h2, wrapInst, Res.toOption]
            | some fs =>
              simp only [hf] at hF
              by_cases hg : cfg.gen = true
              · simp only [hg, if_true, Bool.true_and, hF.1]
                by_cases hx : (cfg.forbid && !(extraKeys (fieldNames (initFields (w.fields c))) kvs).isEmpty) = true
                · simp [hx, Res.toOption]
                · simp [hx, Res.toOption]
              · simp [hg, hF.2, wrapInst, Res.toOption]
          | _ =>
            rw [stD_cls_other w cfg htup' (by intro kvs h; cases h), stF_cls_other w cfg htup' (by intro kvs h; cases h)]
            by_cases hg : cfg.gen = true
            · simp only [hg, if_true]; exact nonMapping_agree w cfg c _
            · simp only [hg, Bool.false_eq_true, if_false]
              cases nonMappingClsInterp w c <;> rfl
      | td c =>
        cases o with
        | dict kvs =>
          rw [stD, stF]
          by_cases hg : cfg.gen = true
          · simp only [hg, Bool.not_true, Bool.false_eq_true, if_false]
            have hT := stDTD_agree w cfg kvs (w.fields c) kvs
              (fun f _ x hx t' _ => IHo t' x (by have := dlookup_lt hx; simp; omega))
            cases hf : stFTD w cfg (w.fields c) kvs kvs with
            | none =>
              simp only [hf] at hT
              have : ∀ extra, ((stDTD w cfg (w.fields c) kvs kvs).2 ++ extra).isEmpty = false := by
                intro extra; cases h : (stDTD w cfg (w.fields c) kvs kvs).2 <;> simp_all
              have h1' : (stDTD w cfg (w.fields c) kvs kvs).2.isEmpty = false := by
                cases h : (stDTD w cfg (w.fields c) kvs kvs).2 <;> simp_all
              split <;> simp [this, h1', Res.toOption]
            | some r =>
              simp only [hf] at hT
              simp only [hT]
              by_cases hx : (cfg.forbid && !(extraKeys (fieldNames (w.fields c)) kvs).isEmpty) = true
              · simp [hx, Res.toOption]
              · simp [hx, Res.toOption]
          · simp [hg, Res.toOption]
        | _ => simp only [stD, stF]; split <;> rfl
      | union cs hn =>
        rw [stD_union, stF_union]
        cases hp : unionPick w cs hn o with
        | ok k =>
          simp only []
          by_cases hk : k ∈ cs
          · simp only [hk, if_true]
            exact ihm (.cls k) o ho (by have := sizeOf_cls_lt_union hk hn; omega)
          · simp [hk, Res.toOption]
        | none => simp [Res.toOption]
        | refuseCreate => simp [Res.toOption]
        | refuseResolve => simp [Res.toOption]
      | nt c =>
        cases hit : iterItems o with
        | none => rw [stD_nt_none w cfg hit, stF_nt_none w cfg hit]; exact Leaf.modes_agree w cfg _ _ o
        | some xs =>
          rw [stD_nt_some w cfg hit, stF_nt_some w cfg hit]
          by_cases hnt : w.isNT c = true
          · simp only [hnt, if_true]
            have hlt := iterItems_lt hit
            have hT := stDT_agree w cfg (w.ntTys c) xs
              (fun t' _ x hx => IHo t' x (by have := List.sizeOf_lt_of_mem hx; omega)) 0
            cases hf : stFT w cfg (w.ntTys c) xs with
            | none =>
              simp only [hf] at hT
              simp only [Option.map_none]
              by_cases hlen : xs.length = (w.ntTys c).length
              · have h2 : (stDT w cfg 0 (w.ntTys c) xs).2 ≠ [] := by
                  rcases hT with h | h
                  · exact h
                  · exact absurd hlen h
                have : (stDT w cfg 0 (w.ntTys c) xs).2.isEmpty = false := by
                  cases h : (stDT w cfg 0 (w.ntTys c) xs).2 <;> simp_all
                simp [hlen, this, Res.toOption]
              · simp [hlen, Res.toOption]
            | some zs =>
              simp only [hf] at hT
              simp [hT.1, hT.2, Res.toOption]
          · simp [hnt, Res.toOption]

theorem modes_agree (w : World) (cfg : Cfg) (t : Ty) (o : Obj) :
    Res.toOption (stD w cfg t o) = stF w cfg t o :=
  modes_agree_aux w cfg (sizeOf o) (sizeOf t) t o (Nat.le_refl _) (Nat.le_refl _)

end CattrsModel
