import CattrsModel.Paths.LemmasInject
/-!
# C05 lemmas, part 3: one lemma per child loop of the detailed templates, then the main induction
-/
namespace CattrsModel
namespace Paths

variable (w : World) (cfg : Cfg)

/-- the outcome the property demands for a non-empty fault list: an error tree of the right shape whose
reported paths are exactly (as a multiset) the report paths of the faults -/
def Bad (T : Ty) (r : Res) (fs : List Fault) : Prop :=
  ∃ e, r = .error e ∧ shapeOK w T e = true ∧ (fs.map rp).Perm (paths e)

/-- induction hypothesis handed to the child loops -/
def ChildIH (t : Ty) (x : Obj) : Prop :=
  ∀ fs', fs' ≠ [] → (∃ v, stD w cfg t x = .ok v) → app w cfg t x fs' = true →
    Bad w t (stD w cfg t (inject x fs')) fs'

theorem map_cons_rp (seg : Seg) (l : List Fault) :
    l.map (fun f => seg :: rp f) = (l.map rp).map (fun p => seg :: p) := by
  simp [List.map_map, Function.comp_def]

/-! ### homogeneous collections -/

def elemErr (isSet : Bool) (ix : Nat) : Res → List (Option Obj × Err)
  | .ok y => if isSet && !hashable w y then [(some (.int ix), Err.leaf)] else []
  | .error e => [(some (.int ix), e)]

theorem stDL_cons (t : Ty) (isSet : Bool) (ix : Nat) (x : Obj) (xs : List Obj) :
    (stDL w cfg t isSet ix (x :: xs)).2 =
      elemErr w isSet ix (stD w cfg t x) ++ (stDL w cfg t isSet (ix + 1) xs).2 := by
  rw [stDL]
  cases hx : stD w cfg t x with
  | error e => simp [elemErr]
  | ok y =>
    simp only [elemErr]
    by_cases hh : (isSet && !hashable w y) = true
    · simp [hh]
    · simp [hh]

theorem appL_noLocal (t : Ty) : ∀ (xs : List Obj) (ix : Nat) (fs : List Fault),
    appL w cfg t ix xs fs = true → NoLocal fs
  | [], ix, fs, h => by
    rw [appL] at h
    have : fs = [] := by simpa using h
    subst this; intro f hf; cases hf
  | x :: xs, ix, fs, h => by
    rw [appL, Bool.and_eq_true] at h
    have ih := appL_noLocal t xs (ix + 1) _ h.2
    intro f hf hp
    exact ih f (mem_rest.mpr ⟨hf, notUnder_of_nil hp⟩) hp

theorem int_head (ix : Nat) (fs : List Fault) :
    ∀ f ∈ fs, ∀ s r, f.path = s :: r → s.matches (.int ix) = true → s = Seg.idx (.int ix) := by
  intro f _ s r _ hm
  cases s with
  | attr n => simp [Seg.matches] at hm
  | idx a => simp [Seg.matches] at hm; rw [hm]

theorem stDL_good (t : Ty) (isSet : Bool) : ∀ (xs : List Obj) (ix : Nat) (fs : List Fault),
    (∀ x ∈ xs, ChildIH w cfg t x) →
    (stDL w cfg t isSet ix xs).2 = [] →
    appL w cfg t ix xs fs = true →
    shapeIColl w t (stDL w cfg t isSet ix (injectL xs ix fs)).2 = true ∧
    (fs.map rp).Perm (pathsI (stDL w cfg t isSet ix (injectL xs ix fs)).2)
  | [], ix, fs, _, _, h => by
    rw [appL] at h
    have : fs = [] := by simpa using h
    subst this
    simp [injectL, stDL, shapeIColl, pathsI]
  | x :: xs, ix, fs, H, h0, h => by
    rw [appL, Bool.and_eq_true] at h
    obtain ⟨hx, hr⟩ := h
    rw [stDL_cons, List.append_eq_nil_iff] at h0
    obtain ⟨h0x, h0r⟩ := h0
    have ih := stDL_good t isSet xs (ix + 1) (rest (.int ix) fs) (fun y hy => H y (by simp [hy])) h0r hr
    rw [injectL_rest ix fs xs (ix + 1) (by omega)] at ih
    obtain ⟨ihs, ihp⟩ := ih
    have hpeel := perm_peel (.int ix) (Seg.idx (.int ix)) fs (int_head ix fs)
    simp only [injectL]
    rw [stDL_cons]
    by_cases hfx : sub (.int ix) fs = []
    · rw [hfx, inject_nil, h0x]
      rw [hfx] at hpeel
      simp only [List.nil_append, List.map_nil] at hpeel ⊢
      exact ⟨ihs, hpeel.trans ihp⟩
    · -- the element received faults: it fails with the tree the induction hypothesis describes
      have hok : ∃ v, stD w cfg t x = .ok v := by
        cases hs : stD w cfg t x with
        | ok v => exact ⟨v, rfl⟩
        | error e => rw [hs] at h0x; simp [elemErr] at h0x
      obtain ⟨e, he, hsh, hpe⟩ := H x (by simp) _ hfx hok hx
      rw [he]
      simp only [elemErr, List.singleton_append, shapeIColl, pathsI, hsh, ihs, Bool.and_self, true_and]
      rw [map_cons_rp] at hpeel
      exact hpeel.trans (List.Perm.append (hpe.map _) ihp)

/-! ### heterogeneous tuples -/

def tupErr (ix : Nat) : Res → List (Option Obj × Err)
  | .ok _ => []
  | .error e => [(some (.int ix), e)]

theorem stDT_cons (ix : Nat) (t : Ty) (ts : List Ty) (x : Obj) (xs : List Obj) :
    (stDT w cfg ix (t :: ts) (x :: xs)).2 = tupErr ix (stD w cfg t x) ++ (stDT w cfg (ix + 1) ts xs).2 := by
  rw [stDT]
  cases hx : stD w cfg t x <;> simp [tupErr]

theorem stDT_nil (ix : Nat) (xs : List Obj) : (stDT w cfg ix [] xs).2 = [] := by
  rw [stDT]; intros; simp_all

theorem toNat_ofNat_get (pre : List Ty) (t : Ty) (ts : List Ty) :
    (pre ++ t :: ts)[((pre.length : Nat) : Int).toNat]? = some t := by
  simp

theorem stDT_good : ∀ (ts : List Ty) (xs : List Obj) (ix : Nat) (fs : List Fault) (pre : List Ty), pre.length = ix →
    (∀ t ∈ ts, ∀ x ∈ xs, ChildIH w cfg t x) →
    (stDT w cfg ix ts xs).2 = [] →
    appT w cfg ix ts xs fs = true →
    ∃ fe, arityOK fe = true ∧ arityHere fe = arityHere fs ∧
      shapeITup w (pre ++ ts) (stDT w cfg ix ts (injectL xs ix fs ++ arityHere fs)).2 = true ∧
      (fs.map rp).Perm (pathsI (stDT w cfg ix ts (injectL xs ix fs ++ arityHere fs)).2 ++ fe.map rp)
  | [], [], ix, fs, pre, _, _, _, h => by
    rw [appT] at h
    refine ⟨fs, h, rfl, ?_, ?_⟩
    · rw [stDT_nil]; simp [shapeITup]
    · rw [stDT_nil]; simp [pathsI]
  | [], _ :: _, ix, fs, pre, _, _, _, h => by rw [appT] at h; cases h; all_goals (intros; simp_all)
  | _ :: _, [], ix, fs, pre, _, _, _, h => by rw [appT] at h; cases h; all_goals (intros; simp_all)
  | t :: ts, x :: xs, ix, fs, pre, hpre, H, h0, h => by
    rw [appT, Bool.and_eq_true] at h
    obtain ⟨hx, hr⟩ := h
    rw [stDT_cons, List.append_eq_nil_iff] at h0
    obtain ⟨h0x, h0r⟩ := h0
    have ih := stDT_good ts xs (ix + 1) (rest (.int ix) fs) (pre ++ [t]) (by simp [hpre])
      (fun t' ht' y hy => H t' (by simp [ht']) y (by simp [hy])) h0r hr
    rw [injectL_rest ix fs xs (ix + 1) (by omega), arityHere_rest] at ih
    obtain ⟨fe, hfe, hfa, ihs, ihp⟩ := ih
    have hpeel := perm_peel (.int ix) (Seg.idx (.int ix)) fs (int_head ix fs)
    refine ⟨fe, hfe, hfa, ?_⟩
    simp only [injectL, List.cons_append]
    rw [stDT_cons]
    have hassoc : pre ++ [t] ++ ts = pre ++ t :: ts := by simp
    rw [hassoc] at ihs
    by_cases hfx : sub (.int ix) fs = []
    · rw [hfx, inject_nil, h0x]
      rw [hfx] at hpeel
      simp only [List.nil_append, List.map_nil] at hpeel ⊢
      exact ⟨ihs, hpeel.trans ihp⟩
    · have hok : ∃ v, stD w cfg t x = .ok v := by
        cases hs : stD w cfg t x with
        | ok v => exact ⟨v, rfl⟩
        | error e => rw [hs] at h0x; simp [tupErr] at h0x
      obtain ⟨e, he, hsh, hpe⟩ := H t (by simp) x (by simp) _ hfx hok hx
      rw [he]
      have hget : (pre ++ t :: ts)[((ix : Nat) : Int).toNat]? = some t := by
        rw [← hpre]; exact toNat_ofNat_get pre t ts
      simp only [tupErr, List.singleton_append, shapeITup, pathsI, hget, hsh, ihs, Bool.and_true]
      refine ⟨by simp, ?_⟩
      rw [map_cons_rp] at hpeel
      rw [List.append_assoc]
      exact hpeel.trans (List.Perm.append (hpe.map _) ihp)

/-! ### mappings -/

def kvErr (a : Obj) (rv rk : Res) : List (Option Obj × Err) :=
  match rv with
  | .error e => [(some a, e)]
  | .ok _ => match rk with
    | .error e => [(some a, e)]
    | .ok a' => if hashable w a' then [] else [(some a, Err.leaf)]

theorem stDKV_cons (kt vt : Ty) (a b : Obj) (kvs : List (Obj × Obj)) :
    (stDKV w cfg kt vt ((a, b) :: kvs)).2 =
      kvErr w a (stD w cfg vt b) (stD w cfg kt a) ++ (stDKV w cfg kt vt kvs).2 := by
  rw [stDKV]
  cases hb : stD w cfg vt b with
  | error e => simp [kvErr]
  | ok b' =>
    cases ha : stD w cfg kt a with
    | error e => simp [kvErr]
    | ok a' => by_cases hh : hashable w a' = true <;> simp [kvErr, hh]

theorem appKV_noLocal (vt : Ty) : ∀ (kvs : List (Obj × Obj)) (fs : List Fault),
    appKV w cfg vt kvs fs = true → NoLocal fs
  | [], fs, h => by
    rw [appKV] at h
    have : fs = [] := by simpa using h
    subst this; intro f hf; cases hf
  | (k, v) :: kvs, fs, h => by
    rw [appKV, Bool.and_eq_true] at h
    have ih := appKV_noLocal vt kvs _ h.2
    intro f hf hp
    exact ih f (mem_rest.mpr ⟨hf, notUnder_of_nil hp⟩) hp

theorem idx_head (k : Obj) (fs : List Fault) (hh : fs.all headIsIdx = true) :
    ∀ f ∈ fs, ∀ s r, f.path = s :: r → s.matches k = true → s = Seg.idx k := by
  intro f hf s r hp hm
  have := List.all_eq_true.mp hh f hf
  cases s with
  | attr n => simp [headIsIdx, hp] at this
  | idx a => simp [Seg.matches] at hm; rw [hm]

theorem all_rest {p : Fault → Bool} {k : Obj} {fs : List Fault} (h : fs.all p = true) : (rest k fs).all p = true := by
  rw [List.all_eq_true] at h ⊢
  intro f hf; exact h f (mem_rest.mp hf).1

theorem noLocal_rest {k : Obj} {fs : List Fault} (h : NoLocal fs) : NoLocal (rest k fs) :=
  fun f hf => h f (mem_rest.mp hf).1

theorem stDKV_good (kt vt : Ty) : ∀ (kvs : List (Obj × Obj)) (fs : List Fault),
    (∀ p ∈ kvs, ChildIH w cfg vt p.2) →
    (stDKV w cfg kt vt kvs).2 = [] →
    fs.all headIsIdx = true → nodupKeys (keysOf kvs) = true → NoLocal fs →
    appKV w cfg vt kvs fs = true →
    shapeIMap w kt vt (stDKV w cfg kt vt (injectKV kvs fs)).2 = true ∧
    (fs.map rp).Perm (pathsI (stDKV w cfg kt vt (injectKV kvs fs)).2)
  | [], fs, _, _, _, _, _, h => by
    rw [appKV] at h
    have : fs = [] := by simpa using h
    subst this
    simp [injectKV, stDKV, shapeIMap, pathsI]
  | (k, v) :: kvs, fs, H, h0, hidx, hnd, hnl, h => by
    rw [appKV, Bool.and_eq_true] at h
    obtain ⟨hx, hr⟩ := h
    rw [stDKV_cons, List.append_eq_nil_iff] at h0
    obtain ⟨h0x, h0r⟩ := h0
    simp only [keysOf, List.map_cons, nodupKeys, Bool.and_eq_true, Bool.not_eq_true'] at hnd
    have hk : k ∉ keysOf kvs := by
      intro hmem
      have : (List.map (fun x => x.fst) kvs).contains k = true := by simpa [keysOf] using hmem
      rw [this] at hnd; exact absurd hnd.1 (by simp)
    have ih := stDKV_good kt vt kvs (rest k fs) (fun p hp => H p (by simp [hp])) h0r (all_rest hidx)
      (by simpa [keysOf] using hnd.2) (noLocal_rest hnl) hr
    rw [injectKV_rest kvs hk] at ih
    obtain ⟨ihs, ihp⟩ := ih
    have hpeel := perm_peel k (Seg.idx k) fs (idx_head k fs hidx)
    rw [injectKV_noLocal hnl, stDKV_cons]
    by_cases hfx : sub k fs = []
    · rw [hfx, inject_nil, h0x]
      rw [hfx] at hpeel
      simp only [List.nil_append, List.map_nil] at hpeel ⊢
      exact ⟨ihs, hpeel.trans ihp⟩
    · have hok : ∃ b, stD w cfg vt v = .ok b := by
        cases hs : stD w cfg vt v with
        | ok b => exact ⟨b, rfl⟩
        | error e => rw [hs] at h0x; simp [kvErr] at h0x
      obtain ⟨e, he, hsh, hpe⟩ := H (k, v) (by simp) _ hfx hok hx
      rw [he]
      simp only [kvErr, List.singleton_append, shapeIMap, pathsI, hsh, ihs, Bool.true_or, Bool.and_self, true_and]
      rw [map_cons_rp] at hpeel
      exact hpeel.trans (List.Perm.append (hpe.map _) ihp)

end Paths
end CattrsModel
